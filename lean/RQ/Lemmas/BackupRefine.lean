import RQ.Lemmas.RefineDisk
/-!
# The quilt backups: the driver model against the specification (lemmas for `RQ/Props/C08Refine.lean`)

`Push.push` leaves `.pc/<patch>/<file>` through `rollbackAndSaveBackups` (the applied stack is undone newest first, every
restored file is written); `Spec.pushSpec` through `putBackups` on the `touched` lists `applyPatchTree` collects (oldest
patch first, for every name only the first state seen in the patch).  Both are compared with the abstract run
`Abs.applyRange`, which is the hub:

* **vocabulary**: `fpNames`/`fpsNames` — the names the abstract run of a patch chooses (`Abs.chooseA` at every intermediate
  tree); `TouchedOK`, `BInv` — what the specification records; `Wr`, `stepN`, `afterW`, `WStep`, `lastW`, `NoPre` — writes
  "unlink, `mkdir -p`, create, chmod, write" on the level of nodes.
* **(A) writes**: `saveBackup_wstep`, `putFile_wstep` (one write of either side is a `WStep`), `saveBackups_nodes`,
  `putBackups_nodes` (a whole phase is `afterW` of its list of writes), `afterW_congr` (two lists of writes with the same
  last writer at every path, none of whose paths is a directory of another, leave the same nodes), `lastW_writesD`
  (the last writer of the driver's calls at the path of a slot is `lastCall`).
* **(C) the specification**: `applyFPTree_touched`, `patch_touched`, `applyRangeTree_binv`: `touched` of patch `j` names
  exactly `fpsNames` of patch `j`, each with the file of the abstract tree before the patch.
* **(B) the driver**: `applyFilePatches_names`, `NStack`, `applyLoop_nstack`: the `Status`es of patch `j` name exactly
  `fpsNames` of patch `j`; `backupCalls_sound`, `backupCalls_complete`, `SlotsD`: the backup loop makes a call for each of
  them in the window and for nothing else.
* **(D) together**: `lastW_agree` (the same last writer at every path), `finishPc_backups`, `pushRange_pc_nodes` (below
  `.pc` the two trees hold the same nodes up to inode numbers).
-/
namespace RQ.BackupRefine
open RQ RQ.Push RQ.Spec RQ.Flush RQ.Agree RQ.Compose RQ.Tight RQ.Parse RQ.Write RQ.Abs RQ.BackupDisk
open RQ.ParSave (noIno noIno_cases)

/-! ## the names a patch touches, on the abstract tree (the hub between the driver and the specification) -/

/-- the names file patch `fp` touches on the abstract tree `t`: the chosen target, and the new name for a rename -/
def fpNames (t : ATree) (fs : FS) (fp : PFilePatch) : List Bytes :=
  match chooseA t fs fp.old fp.new with
  | none => []
  | some target => target :: (if fp.rename then fp.new.toList else [])

/-- the names the file patches of one patch touch, in order, the abstract tree being carried along -/
def fpsNames (fs : FS) (cfg : Cfg) (entry : Series.Entry) : List PFilePatch → ATree → List Bytes
  | [], _ => []
  | fp :: fps, t =>
    match applyFP t fs cfg entry fp with
    | .error _ => []
    | .ok r => fpNames t fs fp ++ fpsNames fs cfg entry fps r.tree

/-- the names a `Status` of the driver gets backups for -/
def stNames (s : Status) : List Bytes := s.target :: (if s.fp.rename then s.fp.new.toList else [])

/-- **what the specification records for one patch** (`touched`) against the names `N` the abstract run chose and the
abstract tree `t0` from before the patch: every recorded name is one of `N` (names compared by components, as `Path`
does) and carries the file of `t0` (lines, permission bits as they end up on disk); every name of `N` is recorded -/
structure TouchedOK (fs0 : FS) (t0 : ATree) (touched : List (Bytes × FileSt Bytes)) (N : List Bytes) : Prop where
  sound : ∀ x ∈ touched, (∃ n' ∈ N, components x.1 = components n') ∧
    ∃ a, look t0 fs0 x.1 = .ok a ∧ x.2.content = a.content ∧ modeOf x.2.perms = modeOf a.perms
  complete : ∀ n' ∈ N, ∃ x ∈ touched, components x.1 = components n'

/-- **the backups list of the specification after `k` patches**: one entry per applied patch, in order, named after the
series entry, its `touched` list being `TouchedOK` for the abstract tree after the patches before it -/
def BInv (fs0 : FS) (cfg : Cfg) (range : List Series.Entry) (k : Nat)
    (backups : List (Bytes × List (Bytes × FileSt Bytes))) : Prop :=
  backups.length = k ∧ ∀ j, j < k → ∃ e patch t rr touched, range[j]? = some e ∧ patchOf fs0 cfg e = some patch ∧
    applyRange fs0 cfg (range.take j) 0 [] = .ok (t, j, rr) ∧ backups[j]? = some (e.name, touched) ∧
    TouchedOK fs0 t touched (fpsNames fs0 cfg e patch.fps t)

/-! ## writes below `.pc` on the level of nodes -/

/-- a write: path, bytes, permission bits -/
abbrev Wr := Key × Bytes × Nat

/-- the node at `q` (inode number erased) after the write `w`: the file at the path of the write, a directory on the
way to it, what was there elsewhere -/
def stepN (q : Key) (x : Option Node) (w : Wr) : Option Node :=
  if q = w.1 then some (.file w.2.1 w.2.2 0)
  else if SPre q w.1 ∧ q ≠ [] then some .dir else x

/-- … after a list of writes -/
def afterW (q : Key) (x : Option Node) (W : List Wr) : Option Node := W.foldl (stepN q) x

/-- one successful write on the level of nodes -/
structure WStep (fs fs' : FS) (w : Wr) : Prop where
  self : ∃ i, fs'.lookup w.1 = some (.file w.2.1 w.2.2 i)
  dirs : ∀ q, SPre q w.1 → q ≠ [] → fs'.lookup q = some .dir
  frame : ∀ q, q ≠ w.1 → ¬ (SPre q w.1 ∧ q ≠ []) → fs'.lookup q = fs.lookup q

/-- the bytes and permission bits of the last write at `q` -/
def lastW (q : Key) : List Wr → Option (Bytes × Nat)
  | [] => none
  | w :: rest =>
    match lastW q rest with
    | some x => some x
    | none => if w.1 = q then some w.2 else none

/-- no path of a write is a directory of the path of another -/
def NoPre (W : List Wr) : Prop := ∀ a ∈ W, ∀ b ∈ W, ¬ SPre a.1 b.1

/-- the write a backup call of the driver makes -/
def callWr (c : Call) : Option Wr :=
  (callKey c).map (fun k => (k, bytesOf c.2.2.2.content, modeOf c.2.2.2.perms))

def writesD (calls : List Call) : List Wr := calls.filterMap callWr

/-- the write the specification makes for one recorded file of patch `pn` -/
def fileWr (pn : Bytes) (nf : Bytes × FileSt Bytes) : Option Wr :=
  (pcKey pn nf.1).map (fun k => (k, bytesOf nf.2.content, modeOf nf.2.perms))

def writesS (bs : List (Bytes × List (Bytes × FileSt Bytes))) : List Wr :=
  bs.flatMap (fun b => b.2.filterMap (fileWr b.1))

/-! ## (A1) a write on the level of nodes -/

theorem WStep.node {fs fs' : FS} {w : Wr} (h : WStep fs fs' w) (q : Key) :
    (fs'.lookup q).map noIno = stepN q ((fs.lookup q).map noIno) w := by
  unfold stepN
  by_cases h1 : q = w.1
  · rw [if_pos h1]
    subst h1
    obtain ⟨i, hi⟩ := h.self
    rw [hi]
    rfl
  · rw [if_neg h1]
    by_cases h2 : SPre q w.1 ∧ q ≠ []
    · rw [if_pos h2, h.dirs q h2.1 h2.2]
      rfl
    · rw [if_neg h2, h.frame q h1 h2]

theorem afterW_cons (q : Key) (x : Option Node) (w : Wr) (W : List Wr) :
    afterW q x (w :: W) = afterW q (stepN q x w) W := rfl

theorem afterW_append (q : Key) (x : Option Node) (A B : List Wr) :
    afterW q x (A ++ B) = afterW q (afterW q x A) B := by
  unfold afterW
  rw [List.foldl_append]

/-! ## the common tail of `saveBackup` and `putFile`: create a fresh file, set its mode, write it -/

theorem fresh_wstep {fs fsB fs2 : FS} {k : Key} {c : Bytes} {perms : Option Nat}
    (hdirs : ∀ q, SPre q k → q ≠ [] → fsB.lookup q = some .dir)
    (hframe : ∀ q, q ≠ k → ¬ (SPre q k ∧ q ≠ []) → fsB.lookup q = fs.lookup q)
    (hnone : fsB.lookup k = none) (hc : fsB.createFile k = .ok fs2) :
    WStep fs ((match perms with | some p => fs2.setMode k p | none => fs2).appendBytes k c)
      (k, c, modeOf perms) := by
  obtain ⟨_, _, hne, m, i, hl, hor⟩ := Tight.createFile_spec hc
  have hm : m = 0o644 := by
    rcases hor with ⟨c', hc'⟩ | ⟨_, hm⟩
    · rw [hnone] at hc'; cases hc'
    · exact hm
  subst hm
  have key : ∀ fs3 : FS, fs3.lookup k = some (.file [] (modeOf perms) i) → (∀ q, q ≠ k → fs3.lookup q = fs2.lookup q) →
      WStep fs (fs3.appendBytes k c) (k, c, modeOf perms) := by
    intro fs3 hl3 hne3
    have hfin : ∀ q, q ≠ k → (fs3.appendBytes k c).lookup q = fsB.lookup q := fun q hq => by
      rw [appendBytes_lookup_ne _ _ hq, hne3 q hq, hne q hq]
    refine ⟨⟨i, ?_⟩, fun q hs hq => ?_, fun q h1 h2 => ?_⟩
    · have := lookup_appendBytes_file hl3 c
      simpa using this
    · rw [hfin q (spre_ne hs)]
      exact hdirs q hs hq
    · rw [hfin q h1]
      exact hframe q h1 h2
  cases perms with
  | none => exact key fs2 hl (fun _ _ => rfl)
  | some p => exact key _ (lookup_setMode_file hl p) (fun q hq => setMode_lookup_ne fs2 p hq)

/-! ## (A2) one backup call of the driver -/

theorem writeNew_fs {w w' : World} {k : Key} {perms : Option Nat} {content : Bytes}
    (h : writeNew w k perms content = .ok w') :
    w'.fs = (match perms with | some p => w.fs.setMode k p | none => w.fs).appendBytes k content := by
  unfold writeNew at h
  cases perms with
  | none =>
    simp only at h
    split at h
    · rename_i w2 hop
      cases h
      exact (op_write_ok hop).1
    · cases h
    · cases h
  | some p =>
    simp only at h
    split at h
    · cases h
    · rename_i w1 heq
      split at heq
      · rename_i w1' hop1
        cases heq
        split at h
        · rename_i w2 hop
          cases h
          rw [(op_write_ok hop).1, (op_setMode_ok hop1).1]
        · cases h
        · cases h
      · cases heq
      · cases heq

/-- the steps of a successful `saveBackup`, the last ones included -/
theorem saveBackup_steps' {w w' : World} {pn name : Bytes} {f : FileSt Bytes} {k : Key}
    (hk : pcKey pn name = some k) (h : saveBackup w pn name f = .ok w') :
    ∃ fs1 fs2 fs3, w.fs.createDirAll k.dropLast = .ok fs1 ∧
      (fs1.removeFile k = .ok fs2 ∨ (fs1.removeFile k = .error .notFound ∧ fs2 = fs1)) ∧
      fs2.createFile k = .ok fs3 ∧
      w'.fs = (match f.perms with | some p => fs3.setMode k p | none => fs3).appendBytes k (bytesOf f.content) := by
  unfold saveBackup at h
  rw [hk] at h
  simp only at h
  split at h
  · rename_i w1 hop1
    have g1 := (op_ok_run hop1).1
    have hcont : ∀ w2 : World,
        (match w2.op (.createFile k) with
          | .ok w => writeNew w k f.perms (bytesOf f.content)
          | .notFound w | .failed w => .error (.err, w)) = .ok w' →
        ∃ fs3, w2.fs.createFile k = .ok fs3 ∧
          w'.fs = (match f.perms with | some p => fs3.setMode k p | none => fs3).appendBytes k
            (bytesOf f.content) := by
      intro w2 h
      split at h
      · rename_i w3 hop3
        exact ⟨w3.fs, (op_ok_run hop3).1, writeNew_fs h⟩
      · cases h
      · cases h
    split at h
    · cases h
    · rename_i w2 hop2
      obtain ⟨fs3, c1, c2⟩ := hcont w2 h
      exact ⟨w1.fs, w2.fs, fs3, g1, .inl (op_ok_run hop2).1, c1, c2⟩
    · rename_i w2 hop2
      obtain ⟨b0, b1, _⟩ := op_notFound_run hop2
      obtain ⟨fs3, c1, c2⟩ := hcont w2 h
      exact ⟨w1.fs, w2.fs, fs3, g1, .inr ⟨b0, b1⟩, c1, c2⟩
  · cases h
  · cases h

theorem saveBackup_wstep {w w' : World} {pn name : Bytes} {f : FileSt Bytes} {k : Key}
    (hk : pcKey pn name = some k) (h : saveBackup w pn name f = .ok w') :
    WStep w.fs w'.fs (k, bytesOf f.content, modeOf f.perms) := by
  obtain ⟨fs1, fs2, fs3, s1, s2, s3, s4⟩ := saveBackup_steps' hk h
  rw [s4]
  obtain ⟨d1, d2⟩ := Tight.createDirAll_spec s1
  have hk0 : k ≠ [] := (Tight.createFile_spec s3).1
  have h12 : ∀ q, q ≠ k → fs2.lookup q = fs1.lookup q := by
    intro q hq
    rcases s2 with s2 | ⟨_, rfl⟩
    · rw [FS.removeFile_ok s2]
      exact FS.lookup_erase_ne fs1 k q hq
    · rfl
  refine fresh_wstep (fsB := fs2) ?_ ?_ ?_ s3
  · intro q hs hq
    rw [h12 q (spre_ne hs)]
    have e := spre_take_dropLast hs
    rw [e]
    exact d2 _ (by rw [← e]; exact hq)
  · intro q h1 h2
    rw [h12 q h1]
    rcases d1 q with e | ⟨_, _, hq0, i, rfl⟩
    · exact e
    · exact absurd ⟨take_dropLast_spre hk0 i, hq0⟩ h2
  · rcases s2 with s2 | ⟨s2, rfl⟩
    · rw [FS.removeFile_ok s2]
      exact FS.lookup_erase_self _ _
    · exact FS.removeFile_notFound s2

/-! ## (A3) one backup file of the specification -/

theorem putFile_wstep {fs fs' : FS} {k : Key} {c : Bytes} {perms : Option Nat}
    (h : putFile fs k c perms = .ok fs') : WStep fs fs' (k, c, modeOf perms) := by
  rw [putFile_eq'] at h
  obtain ⟨hframe, hcases⟩ := unlink_cases fs k
  generalize unlinked fs k = fs0 at h hframe hcases
  unfold putRest at h
  cases h1 : fs0.createDirAll k.dropLast with
  | error e => rw [h1] at h; cases h
  | ok fs1 =>
    rw [h1] at h
    simp only at h
    cases h2 : fs1.createFile k with
    | error e => rw [h2] at h; cases h
    | ok fs2 =>
      rw [h2] at h
      simp only at h
      cases h
      obtain ⟨d1, d2⟩ := Tight.createDirAll_spec h1
      have hk0 : k ≠ [] := (Tight.createFile_spec h2).1
      rcases hcases with ⟨hnone, _⟩ | ⟨e0, hb⟩
      · refine fresh_wstep (fsB := fs1) ?_ ?_ ?_ h2
        · intro q hs hq
          have e := spre_take_dropLast hs
          rw [e]
          exact d2 _ (by rw [← e]; exact hq)
        · intro q h1' h2'
          rcases d1 q with e | ⟨_, _, hq0, i, rfl⟩
          · rw [e, hframe q h1']
          · exact absurd ⟨take_dropLast_spre hk0 i, hq0⟩ h2'
        · rcases d1 k with e | ⟨_, _, _, i, e⟩
          · rw [e]; exact hnone
          · have hsp := take_dropLast_spre hk0 i
            rw [← e] at hsp
            exact absurd hsp (spre_irrefl k)
      · exfalso
        subst e0
        refine createFile_blocked ?_ fs2 h2
        rcases hb with hb | hb
        · left
          cases hn : fs1.fileOnPath k with
          | true => rfl
          | false =>
            exfalso
            rw [fileOnPath_false_iff] at hn
            have : fs0.fileOnPath k = false := by
              rw [fileOnPath_false_iff]
              intro q hs hq hf
              apply hn q hs hq
              rcases d1 q with e | ⟨e, _⟩
              · rw [e]; exact hf
              · rw [e] at hf; exact hf.elim
            rw [this] at hb
            cases hb
        · right
          rcases d1 k with e | ⟨e, _⟩
          · rw [e]; exact hb
          · rw [hb] at e; cases e

/-! ## (A4) all backup calls of the driver -/

theorem writesD_cons_some {c : Call} {rest : List Call} {k : Key} (hk : callKey c = some k) :
    writesD (c :: rest) = (k, bytesOf c.2.2.2.content, modeOf c.2.2.2.perms) :: writesD rest := by
  have hw : callWr c = some (k, bytesOf c.2.2.2.content, modeOf c.2.2.2.perms) := by
    unfold callWr
    rw [hk]
    rfl
  unfold writesD
  rw [List.filterMap_cons, hw]

theorem saveBackups_nodes : ∀ (calls : List Call) (w w' : World), saveBackups w calls = .ok w' →
    ∀ q, (w'.fs.lookup q).map noIno = afterW q ((w.fs.lookup q).map noIno) (writesD calls) := by
  intro calls
  induction calls with
  | nil =>
    intro w w' h q
    cases h
    rfl
  | cons c rest ih =>
    intro w w' h q
    rw [saveBackups_cons] at h
    cases hs : saveBackup w c.2.1 c.2.2.1 c.2.2.2 with
    | error e => rw [hs] at h; cases h
    | ok w0 =>
      rw [hs] at h
      obtain ⟨k, hk⟩ := saveBackup_key hs
      rw [writesD_cons_some (c := c) hk, afterW_cons, ih w0 w' h q, (saveBackup_wstep hk hs).node q]

/-! ## (A5) all backup files of the specification -/

theorem backupFold_nodes (patchName : Bytes) (files : List (Bytes × FileSt Bytes)) :
    ∀ (acc : Except Unit FS) (fs' : FS),
      files.foldl (fun (acc : Except Unit FS) (nf : Bytes × FileSt Bytes) =>
        match acc with
        | .error e => .error e
        | .ok f =>
          match pcKey patchName nf.1 with
          | none => .error ()
          | some k => putFile f k (bytesOf nf.2.content) nf.2.perms) acc = .ok fs' →
      ∃ f, acc = .ok f ∧ ∀ q, (fs'.lookup q).map noIno =
        afterW q ((f.lookup q).map noIno) (files.filterMap (fileWr patchName)) := by
  induction files with
  | nil => intro acc fs' h; exact ⟨fs', h, fun _ => rfl⟩
  | cons nf rest ih =>
    intro acc fs' h
    rw [List.foldl_cons] at h
    obtain ⟨f1, h1, hs1⟩ := ih _ _ h
    cases acc with
    | error e => simp at h1
    | ok f =>
      refine ⟨f, rfl, ?_⟩
      simp only at h1
      split at h1
      · cases h1
      · rename_i k hk
        intro q
        have hw : fileWr patchName nf = some (k, bytesOf nf.2.content, modeOf nf.2.perms) := by
          unfold fileWr
          rw [hk]
          rfl
        rw [List.filterMap_cons, hw, afterW_cons, hs1 q, (putFile_wstep h1).node q]

theorem putBackups_nodes : ∀ (bs : List (Bytes × List (Bytes × FileSt Bytes))) (fs fs' : FS),
    putBackups fs bs = .ok fs' →
    ∀ q, (fs'.lookup q).map noIno = afterW q ((fs.lookup q).map noIno) (writesS bs) := by
  intro bs
  induction bs with
  | nil =>
    intro fs fs' h q
    unfold putBackups at h
    cases h
    rfl
  | cons b rest ih =>
    obtain ⟨patchName, files⟩ := b
    intro fs fs' h q
    unfold putBackups at h
    simp only at h
    split at h
    · cases h
    · rename_i f1 h1
      obtain ⟨f, hf, hs⟩ := backupFold_nodes patchName files _ _ h1
      cases hf
      unfold writesS
      rw [List.flatMap_cons, afterW_append, ← hs q]
      exact ih _ _ h q

/-! ## (A6) the last write at a path -/

theorem lastW_none_iff (q : Key) (W : List Wr) : lastW q W = none ↔ ∀ w ∈ W, w.1 ≠ q := by
  induction W with
  | nil => exact ⟨fun _ w hw => (by cases hw), fun _ => rfl⟩
  | cons a rest ih =>
    simp only [lastW]
    constructor
    · intro h w hw
      cases h0 : lastW q rest with
      | some g => rw [h0] at h; cases h
      | none =>
        rw [h0] at h
        simp only at h
        rcases List.mem_cons.mp hw with rfl | hw
        · intro hh
          rw [if_pos hh] at h
          cases h
        · exact ih.mp h0 w hw
    · intro h
      rw [ih.mpr (fun w hw => h w (List.mem_cons_of_mem _ hw))]
      simp only
      rw [if_neg (h a (List.mem_cons_self ..))]

theorem lastW_append (q : Key) (A B : List Wr) :
    lastW q (A ++ B) = (match lastW q B with | some x => some x | none => lastW q A) := by
  induction A with
  | nil =>
    rw [List.nil_append]
    cases lastW q B <;> rfl
  | cons a A ih =>
    rw [List.cons_append]
    simp only [lastW]
    rw [ih]
    cases lastW q B <;> rfl

theorem lastW_of_all {W : List Wr} {q : Key} {v : Bytes × Nat} (hex : ∃ w ∈ W, w.1 = q)
    (hall : ∀ w ∈ W, w.1 = q → w.2 = v) : lastW q W = some v := by
  induction W with
  | nil =>
    obtain ⟨w, hw, _⟩ := hex
    cases hw
  | cons a rest ih =>
    simp only [lastW]
    cases h0 : lastW q rest with
    | some g =>
      simp only
      have hex' : ∃ w ∈ rest, w.1 = q := by
        cases hn : decide (∃ w ∈ rest, w.1 = q) with
        | true => exact of_decide_eq_true hn
        | false =>
          have hn' := of_decide_eq_false hn
          have : lastW q rest = none :=
            (lastW_none_iff q rest).mpr (fun w hw e => hn' ⟨w, hw, e⟩)
          rw [this] at h0
          cases h0
      rw [← h0]
      exact ih hex' (fun w hw => hall w (List.mem_cons_of_mem _ hw))
    | none =>
      simp only
      have hne := (lastW_none_iff q rest).mp h0
      obtain ⟨w, hw, e⟩ := hex
      rcases List.mem_cons.mp hw with rfl | hw
      · rw [if_pos e, hall w (List.mem_cons_self ..) e]
      · exact absurd e (hne w hw)

/-- a path that is written has a last write -/
theorem lastW_some_of_mem {W : List Wr} {q : Key} {w : Wr} (hw : w ∈ W) (e : w.1 = q) :
    ∃ v, lastW q W = some v := by
  cases h : lastW q W with
  | some v => exact ⟨v, rfl⟩
  | none => exact absurd e ((lastW_none_iff q W).mp h w hw)

/-! ## (A7) when no path of a write is a directory of another: only the last write at a path counts -/

/-- the closed form of `afterW` -/
def closedW (q : Key) (x : Option Node) (W : List Wr) : Option Node :=
  match lastW q W with
  | some v => some (.file v.1 v.2 0)
  | none => if W.any (fun w => decide (SPre q w.1 ∧ q ≠ [])) then some .dir else x

theorem lastW_snoc (q : Key) (A : List Wr) (w : Wr) :
    lastW q (A ++ [w]) = if w.1 = q then some w.2 else lastW q A := by
  rw [lastW_append]
  simp only [lastW]
  by_cases h : w.1 = q
  · rw [if_pos h, if_pos h]
  · rw [if_neg h, if_neg h]

theorem NoPre.init {A : List Wr} {w : Wr} (h : NoPre (A ++ [w])) : NoPre A :=
  fun a ha b hb => h a (List.mem_append_left _ ha) b (List.mem_append_left _ hb)

theorem afterW_closed_rev (q : Key) (x : Option Node) : ∀ (R : List Wr), NoPre R.reverse →
    afterW q x R.reverse = closedW q x R.reverse := by
  intro R
  induction R with
  | nil => intro _; rfl
  | cons w R ih =>
    rw [List.reverse_cons]
    generalize R.reverse = A at ih ⊢
    intro h
    have hA := ih h.init
    rw [afterW_append, hA]
    show stepN q (closedW q x A) w = closedW q x (A ++ [w])
    by_cases h1 : q = w.1
    · have hs : stepN q (closedW q x A) w = some (.file w.2.1 w.2.2 0) := by
        unfold stepN
        rw [if_pos h1]
      rw [hs]
      unfold closedW
      rw [lastW_snoc, if_pos h1.symm]
    · have hs : stepN q (closedW q x A) w = if SPre q w.1 ∧ q ≠ [] then some .dir else closedW q x A := by
        unfold stepN
        rw [if_neg h1]
      rw [hs]
      unfold closedW
      rw [lastW_snoc, if_neg (show ¬ w.1 = q from fun e => h1 e.symm), List.any_append]
      simp only [List.any_cons, List.any_nil, Bool.or_false]
      by_cases h2 : SPre q w.1 ∧ q ≠ []
      · rw [if_pos h2]
        have hn : lastW q A = none := by
          rw [lastW_none_iff]
          intro a ha e
          apply h a (List.mem_append_left _ ha) w (List.mem_append_right _ (List.mem_singleton.mpr rfl))
          rw [e]
          exact h2.1
        rw [hn]
        simp only [decide_eq_true h2, Bool.or_true, if_true]
      · rw [if_neg h2]
        simp only [decide_eq_false h2, Bool.or_false]

theorem afterW_closed (q : Key) (x : Option Node) (W : List Wr) (h : NoPre W) : afterW q x W = closedW q x W := by
  have := afterW_closed_rev q x W.reverse (by rw [List.reverse_reverse]; exact h)
  rw [List.reverse_reverse] at this
  exact this

theorem afterW_congr {W1 W2 : List Wr} (h1 : NoPre W1) (hl : ∀ q, lastW q W1 = lastW q W2) (q : Key)
    (x : Option Node) : afterW q x W1 = afterW q x W2 := by
  -- the same paths occur
  have hp12 : ∀ w ∈ W1, ∃ w' ∈ W2, w'.1 = w.1 := by
    intro w hw
    obtain ⟨v, hv⟩ := lastW_some_of_mem hw rfl
    rw [hl] at hv
    cases hd : decide (∃ w' ∈ W2, w'.1 = w.1) with
    | true => exact of_decide_eq_true hd
    | false =>
      have hd' := of_decide_eq_false hd
      have : lastW w.1 W2 = none := (lastW_none_iff _ _).mpr (fun w' hw' e => hd' ⟨w', hw', e⟩)
      rw [this] at hv
      cases hv
  have hp21 : ∀ w ∈ W2, ∃ w' ∈ W1, w'.1 = w.1 := by
    intro w hw
    obtain ⟨v, hv⟩ := lastW_some_of_mem hw rfl
    rw [← hl] at hv
    cases hd : decide (∃ w' ∈ W1, w'.1 = w.1) with
    | true => exact of_decide_eq_true hd
    | false =>
      have hd' := of_decide_eq_false hd
      have : lastW w.1 W1 = none := (lastW_none_iff _ _).mpr (fun w' hw' e => hd' ⟨w', hw', e⟩)
      rw [this] at hv
      cases hv
  have h2 : NoPre W2 := by
    intro a ha b hb hs
    obtain ⟨a', ha', ea⟩ := hp21 a ha
    obtain ⟨b', hb', eb⟩ := hp21 b hb
    apply h1 a' ha' b' hb'
    rw [ea, eb]
    exact hs
  have hany : W1.any (fun w => decide (SPre q w.1 ∧ q ≠ [])) = W2.any (fun w => decide (SPre q w.1 ∧ q ≠ [])) := by
    rw [Bool.eq_iff_iff, List.any_eq_true, List.any_eq_true]
    constructor
    · rintro ⟨w, hw, hd⟩
      obtain ⟨w', hw', e⟩ := hp12 w hw
      exact ⟨w', hw', by rw [e]; exact hd⟩
    · rintro ⟨w, hw, hd⟩
      obtain ⟨w', hw', e⟩ := hp21 w hw
      exact ⟨w', hw', by rw [e]; exact hd⟩
  rw [afterW_closed q x W1 h1, afterW_closed q x W2 h2]
  unfold closedW
  rw [hl q, hany]

/-! ## (A8) the writes of the driver -/

theorem mem_writesD {calls : List Call} {x : Wr} : x ∈ writesD calls ↔ ∃ c ∈ calls, callWr c = some x := by
  unfold writesD
  exact List.mem_filterMap

theorem callWr_key {c : Call} {x : Wr} (h : callWr c = some x) : callKey c = some x.1 := by
  unfold callWr at h
  cases hk : callKey c with
  | none => rw [hk] at h; cases h
  | some k =>
    rw [hk] at h
    cases h
    rfl

theorem noPre_writesD {calls : List Call} {w w' : World} (h : saveBackups w calls = .ok w') :
    NoPre (writesD calls) := by
  intro a ha b hb
  obtain ⟨ca, hca, ea⟩ := mem_writesD.mp ha
  obtain ⟨cb, hcb, eb⟩ := mem_writesD.mp hb
  exact saveBackups_ok_no_prefix calls w w' h ca hca cb hcb a.1 b.1 (callWr_key ea) (callWr_key eb)

theorem lastW_writesD {calls : List Call} (hnames : PatchNamesAgree calls) (hapart : PcKeysApart calls)
    {j : Nat} {pn name : Bytes} {g f : FileSt Bytes} (hmem : (j, pn, name, g) ∈ calls)
    (hlast : lastCall j name calls = some f) {q : Key} (hq : pcKey pn name = some q) :
    lastW q (writesD calls) = some (bytesOf f.content, modeOf f.perms) := by
  obtain ⟨pre, pn', n, post, e, hn, hp⟩ := lastCall_split hlast
  have hcm : (j, pn', n, f) ∈ calls := by rw [e]; simp
  have hpn : pn' = pn := hnames _ hcm _ hmem rfl
  subst hpn
  have hck : callKey (j, pn', n, f) = some q := by
    unfold callKey
    simp only
    rw [pcKey_congr hn]
    exact hq
  have hpost : lastW q (writesD post) = none := by
    rw [lastW_none_iff]
    intro x hx ex
    obtain ⟨d, hd, ed⟩ := mem_writesD.mp hx
    have hdk : callKey d = some q := by rw [callWr_key ed, ex]
    have hdm : d ∈ calls := by rw [e]; simp [hd]
    have hs := hapart _ hcm d hdm (by rw [hck]; rfl) (hck.trans hdk.symm)
    exact (lastCall_none_iff j name post).mp hp d hd ⟨hs.1.symm, hs.2.symm.trans hn⟩
  have hw : writesD calls = writesD pre ++ (q, bytesOf f.content, modeOf f.perms) :: writesD post := by
    rw [e]
    unfold writesD
    rw [List.filterMap_append]
    exact congrArg _ (writesD_cons_some (c := (j, pn', n, f)) hck)
  rw [hw, lastW_append]
  simp only [lastW, hpost, if_true]

/-! ## (A9) `.pc/applied-patches`, when the two trees agree up to inode numbers -/

theorem appended_congr {x y : Option Node} (h : x.map noIno = y.map noIno) (b : Bytes) :
    Refine2.appended x b = Refine2.appended y b := by
  rcases noIno_cases h with ⟨rfl, rfl⟩ | ⟨rfl, rfl⟩ | ⟨c, m, i, i', rfl, rfl⟩ <;> rfl

theorem appliedPhase_agree' {a a' b b' : FS} {bytes : Bytes}
    (hab : ∀ q, isPcKey q → (a.lookup q).map noIno = (b.lookup q).map noIno)
    (pa : Refine2.AppliedPhase a a' bytes) (pb : Refine2.AppliedPhase b b' bytes) {q : Key} (hq : isPcKey q) :
    (a'.lookup q).map noIno = (b'.lookup q).map noIno := by
  by_cases h1 : q = pcDir
  · rw [h1, pa.pc, pb.pc]
  · by_cases h2 : q = appliedKey
    · rw [h2, pa.applied, pb.applied, appended_congr (hab _ isPcKey_appliedKey)]
    · rw [pa.rest q h1 h2, pb.rest q h1 h2]
      exact hab q hq

/-! # what the specification records as `touched` / `backups`, against the abstract run -/

/-! ## (C1) `touched` of one file patch on the tree -/

/-- **the shape of `touched`** of a file patch that went through: the chosen target with the file the tree holds,
and for a real rename the new name with the file the (same) tree holds there -/
theorem applyFPTree_touched {fs : FS} {cfg : Cfg} {entry : Series.Entry} {fp : PFilePatch} {r : FPResult}
    (h : applyFPTree fs cfg entry fp = .ok r) (hok : r.ok = true) :
    namesSafe fp = true ∧ ∃ target file, chooseTree fs fp.old fp.new = some target ∧ loadTree fs target = .ok file ∧
      ((r.touched = [(target, file)] ∧
          (fp.rename = true → ∃ newName, fp.new = some newName ∧ components newName = components target)) ∨
       (∃ newName newFile, fp.rename = true ∧ fp.new = some newName ∧ loadTree fs newName = .ok newFile ∧
          r.touched = [(target, file), (newName, newFile)])) := by
  unfold applyFPTree at h
  split at h
  · cases h
  · rename_i hns
    have hns' : namesSafe fp = true := by simpa using hns
    refine ⟨hns', ?_⟩
    split at h
    · cases h
    · rename_i target hch
      split at h
      · cases h
      · rename_i file hl
        refine ⟨target, file, hch, hl, ?_⟩
        simp only at h
        split at h
        · rename_i hren
          split at h
          · cases h
          · rename_i newName hnew
            split at h
            · cases h
            · rename_i newFile hl2
              split at h
              · rename_i hself
                split at h
                · cases h
                · split at h
                  · cases h
                  · split at h
                    · cases h
                      exact .inl ⟨rfl, fun _ => ⟨newName, hnew, by simpa using hself⟩⟩
                    · cases h
                      cases hok
              · split at h
                · cases h
                  cases hok
                · split at h
                  · cases h
                  · split at h
                    · cases h
                    · split at h
                      · cases h
                      · split at h
                        · cases h
                          exact .inr ⟨newName, newFile, hren, hnew, hl2, rfl⟩
                        · cases h
                          cases hok
        · rename_i hren
          split at h
          · cases h
          · split at h
            · split at h
              · cases h
              · cases h
                exact .inl ⟨rfl, fun hr => absurd hr hren⟩
            · split at h
              · cases h
              · cases h
                cases hok

/-! ## (C2) frame of one abstract file patch -/

theorem fpNames_of_choose {t : ATree} {fs : FS} {fp : PFilePatch} {target : Bytes}
    (h : chooseA t fs fp.old fp.new = some target) :
    fpNames t fs fp = target :: (if fp.rename then fp.new.toList else []) := by
  unfold fpNames
  rw [h]

theorem look_put_other (t : ATree) (fs : FS) (n n' : Bytes) (a : AFile) (h : components n' ≠ components n) :
    look (put t n a) fs n' = look t fs n' := by
  rw [look_put]
  have : (components n' == components n) = false := by simpa using h
  simp [this]

/-- **frame**: a file patch changes `look` only at the names it touches (`fpNames`, compared by components) -/
theorem applyFP_frame {t : ATree} {fs : FS} {cfg : Cfg} {entry : Series.Entry} {fp : PFilePatch} {r : FPOut}
    (h : applyFP t fs cfg entry fp = .ok r) (n : Bytes)
    (hn : ∀ n' ∈ fpNames t fs fp, components n ≠ components n') : look r.tree fs n = look t fs n := by
  unfold applyFP at h
  split at h
  · cases h
  · split at h
    · cases h
    · rename_i target hc
      rw [fpNames_of_choose hc] at hn
      have hnt : components n ≠ components target := hn target (by simp)
      split at h
      · cases h
      · simp only at h
        split at h
        · rename_i hren
          split at h
          · cases h
          · rename_i newName hnew
            have hnn : components n ≠ components newName := hn newName (by simp [hren, hnew])
            split at h
            · cases h
            · split at h
              · cases h; rfl
              · split at h
                · cases h
                · cases h
                  simp only
                  rw [look_put_other _ _ _ _ _ hnn, look_put_other _ _ _ _ _ hnt]
        · split at h
          · cases h
          · cases h
            simp only
            rw [look_put_other _ _ _ _ _ hnt]

/-! ## (C3) the de-duplicating step -/

/-- the first state seen for a name is kept: `x` is recorded unless a name with its components is recorded already -/
def addT (t : List (Bytes × FileSt Bytes)) (x : Bytes × FileSt Bytes) : List (Bytes × FileSt Bytes) :=
  if t.any (fun y => components y.1 == components x.1) then t else t ++ [x]

theorem mem_addT {t : List (Bytes × FileSt Bytes)} {x y : Bytes × FileSt Bytes} (h : y ∈ addT t x) :
    y ∈ t ∨ (y = x ∧ ∀ z ∈ t, components z.1 ≠ components x.1) := by
  unfold addT at h
  split at h
  · exact .inl h
  · rename_i hany
    rw [List.mem_append] at h
    rcases h with h | h
    · exact .inl h
    · refine .inr ⟨by simpa using h, ?_⟩
      intro z hz heq
      apply hany
      rw [List.any_eq_true]
      exact ⟨z, hz, by simp [heq]⟩

theorem subset_addT {t : List (Bytes × FileSt Bytes)} {x y : Bytes × FileSt Bytes} (h : y ∈ t) : y ∈ addT t x := by
  unfold addT
  split
  · exact h
  · exact List.mem_append_left _ h

theorem addT_has (t : List (Bytes × FileSt Bytes)) (x : Bytes × FileSt Bytes) :
    ∃ y ∈ addT t x, components y.1 = components x.1 := by
  unfold addT
  split
  · rename_i hany
    rw [List.any_eq_true] at hany
    obtain ⟨y, hy, hp⟩ := hany
    exact ⟨y, hy, by simpa using hp⟩
  · exact ⟨x, by simp, rfl⟩

/-- `applyPatchTree`'s fold is `addT` -/
theorem applyPatchTree_cons (cfg : Cfg) (entry : Series.Entry) (fp : PFilePatch) (fps : List PFilePatch)
    (acc : PatchResult) :
    applyPatchTree cfg entry (fp :: fps) acc =
      match applyFPTree acc.fs cfg entry fp with
      | .error e => .error e
      | .ok r =>
        applyPatchTree cfg entry fps
          { fs := r.fs, ok := acc.ok && r.ok,
            rejs := acc.rejs ++ (match r.rej with | some x => [x] | none => []),
            touched := List.foldl addT acc.touched r.touched } := rfl

/-- a patch that ends up `ok` was `ok` all along -/
theorem applyPatchTree_ok_acc {cfg : Cfg} {entry : Series.Entry} :
    ∀ (fps : List PFilePatch) (acc pr : PatchResult),
      applyPatchTree cfg entry fps acc = .ok pr → pr.ok = true → acc.ok = true := by
  intro fps
  induction fps with
  | nil =>
    intro acc pr h hok
    simp only [applyPatchTree] at h
    cases h
    exact hok
  | cons fp fps ih =>
    intro acc pr h hok
    rw [applyPatchTree_cons] at h
    cases hT : applyFPTree acc.fs cfg entry fp with
    | error e => rw [hT] at h; cases h
    | ok r =>
      rw [hT] at h
      have := ih _ pr h hok
      simp only [Bool.and_eq_true] at this
      exact this.1

/-! ## (C4) all file patches of one patch -/

theorem touchedOK_nil (fs0 : FS) (t0 : ATree) : TouchedOK fs0 t0 [] [] :=
  { sound := fun _ hx => nomatch hx
    complete := fun _ hn => nomatch hn }

/-- one more recorded file: read from a tree that agrees with `t0` away from the names chosen so far -/
theorem TouchedOK.step {fs0 : FS} {t0 t : ATree} {T : List (Bytes × FileSt Bytes)} {N : List Bytes}
    (hT : TouchedOK fs0 t0 T N)
    (hframe : ∀ n, (∀ n' ∈ N, components n ≠ components n') → look t fs0 n = look t0 fs0 n)
    (x : Bytes × FileSt Bytes) {a : AFile} (hl : look t fs0 x.1 = .ok a) (hc : x.2.content = a.content)
    (hm : modeOf x.2.perms = modeOf a.perms) : TouchedOK fs0 t0 (addT T x) (N ++ [x.1]) := by
  constructor
  · intro y hy
    rcases mem_addT hy with hy | ⟨rfl, hnew⟩
    · obtain ⟨⟨n', hn', he⟩, ha⟩ := hT.sound y hy
      exact ⟨⟨n', List.mem_append_left _ hn', he⟩, ha⟩
    · refine ⟨⟨y.1, by simp, rfl⟩, a, ?_, hc, hm⟩
      rw [← hframe y.1 ?_]
      · exact hl
      · intro n' hn' heq
        obtain ⟨z, hz, hze⟩ := hT.complete n' hn'
        exact hnew z hz (hze.trans heq.symm)
  · intro n' hn'
    rw [List.mem_append] at hn'
    rcases hn' with hn' | hn'
    · obtain ⟨z, hz, hze⟩ := hT.complete n' hn'
      exact ⟨z, subset_addT hz, hze⟩
    · have : n' = x.1 := by simpa using hn'
      subst this
      exact addT_has T x

/-- a name with the components of a chosen name may be added to the chosen names -/
theorem TouchedOK.dup {fs0 : FS} {t0 : ATree} {T : List (Bytes × FileSt Bytes)} {N : List Bytes}
    (hT : TouchedOK fs0 t0 T N) {n m : Bytes} (hm : m ∈ N) (h : components n = components m) :
    TouchedOK fs0 t0 T (N ++ [n]) := by
  constructor
  · intro y hy
    obtain ⟨⟨n', hn', he⟩, ha⟩ := hT.sound y hy
    exact ⟨⟨n', List.mem_append_left _ hn', he⟩, ha⟩
  · intro n' hn'
    rw [List.mem_append] at hn'
    rcases hn' with hn' | hn'
    · exact hT.complete n' hn'
    · have : n' = n := by simpa using hn'
      subst this
      obtain ⟨z, hz, hze⟩ := hT.complete m hm
      exact ⟨z, hz, hze.trans h.symm⟩

/-- what the tree side reads for a name is what the abstract side sees (lines, permission bits on disk) -/
theorem load_look {ks : List Key} {t : ATree} {fs0 fs : FS} (hinv : Inv ks t fs0 fs) (hpf : PF ks) {n : Bytes}
    {k : Key} (hc : Comp.cur ∉ components n) (hk : safeKey n = some k) (hm : k ∈ ks) {file : FileSt Bytes}
    (hl : loadTree fs n = .ok file) :
    ∃ a, look t fs0 n = .ok a ∧ file.content = a.content ∧ modeOf file.perms = modeOf a.perms := by
  have hk0 := key_ne_nil hc hk
  cases hla : look t fs0 n with
  | error u =>
    have := (loadTree_err_agree hinv hpf hk hk0 hm (look_err hla)).1
    rw [this] at hl
    cases hl
  | ok a =>
    obtain ⟨f, hf, hpe⟩ := loadTree_of_good hk hk0 (hinv.names n k a hc hk hm hla)
    rw [hf] at hl
    cases hl
    exact ⟨a, rfl, hpe.1.symm, hpe.2.2.symm⟩

/-- **all file patches of one patch**: `touched` is `TouchedOK` for the names the abstract run chooses -/
theorem patch_touched {ks : List Key} {fs0 : FS} {cfg : Cfg} {entry : Series.Entry} (hpf : PF ks) (t0 : ATree) :
    ∀ (fps : List PFilePatch) (t : ATree) (acc : PatchResult) (N : List Bytes),
      (∀ fp ∈ fps, NamesIn ks fp) → Inv ks t fs0 acc.fs →
      (∀ t' ∈ reachedFPs fs0 cfg entry fps t, LookNormal fs0 t') →
      TouchedOK fs0 t0 acc.touched N →
      (∀ n, (∀ n' ∈ N, components n ≠ components n') → look t fs0 n = look t0 fs0 n) →
      ∀ pr, applyPatchTree cfg entry fps acc = .ok pr → pr.ok = true →
        TouchedOK fs0 t0 pr.touched (N ++ fpsNames fs0 cfg entry fps t) := by
  intro fps
  induction fps with
  | nil =>
    intro t acc N _ _ _ hT _ pr h _
    simp only [applyPatchTree] at h
    cases h
    simpa [fpsNames] using hT
  | cons fp fps ih =>
    intro t acc N hin hinv hterm hT hframe pr h hok
    have hin' := hin fp (by simp)
    rw [applyPatchTree_cons] at h
    cases hTr : applyFPTree acc.fs cfg entry fp with
    | error e => rw [hTr] at h; cases h
    | ok r' =>
      rw [hTr] at h
      simp only at h
      have hacc' := applyPatchTree_ok_acc _ _ _ h hok
      simp only [Bool.and_eq_true] at hacc'
      have hr'ok : r'.ok = true := hacc'.2
      have hsim := applyFP_sim (cfg := cfg) (entry := entry) hpf hinv hin'
      cases hA : applyFP t fs0 cfg entry fp with
      | error e =>
        rw [hA] at hsim
        simp only [SimFP] at hsim
        rw [hTr] at hsim
        cases hsim
      | ok r =>
        rw [hA] at hsim
        obtain ⟨r'', hT2, _, _, hinv'⟩ := hsim (hterm r.tree (by simp [reachedFPs, hA]))
        rw [hTr] at hT2
        cases hT2
        have hnames : fpsNames fs0 cfg entry (fp :: fps) t
            = fpNames t fs0 fp ++ fpsNames fs0 cfg entry fps r.tree := by
          simp only [fpsNames, hA]
        rw [hnames, ← List.append_assoc]
        refine ih r.tree _ (N ++ fpNames t fs0 fp) (fun fp' hfp' => hin fp' (by simp [hfp'])) hinv'
          (fun t' ht' => hterm t' (by simp [reachedFPs, hA, ht'])) ?_ ?_ pr h hok
        · -- what this file patch records
          show TouchedOK fs0 t0 (List.foldl addT acc.touched r'.touched) (N ++ fpNames t fs0 fp)
          obtain ⟨hns, target, file, hch, hl, hcase⟩ := applyFPTree_touched hTr hr'ok
          have hchA : chooseA t fs0 fp.old fp.new = some target :=
            (choose_agree hinv hpf hin' hns).symm.trans hch
          rw [fpNames_of_choose hchA]
          have htmem := chooseA_mem hchA
          obtain ⟨hct, hkst⟩ := hin' target htmem
          obtain ⟨kt, hkt⟩ := safe_of_namesSafe hns htmem
          obtain ⟨a, hla, hca, hma⟩ := load_look hinv hpf hct hkt (hkst kt hkt) hl
          have h1 : TouchedOK fs0 t0 (addT acc.touched (target, file)) (N ++ [target]) :=
            hT.step hframe (target, file) hla hca hma
          rcases hcase with ⟨htch, hren⟩ | ⟨newName, newFile, hren, hnew, hl2, htch⟩
          · rw [htch]
            simp only [List.foldl_cons, List.foldl_nil]
            cases hr : fp.rename with
            | false =>
              simp only [Bool.false_eq_true, if_false]
              exact h1
            | true =>
              obtain ⟨newName, hnew, hself⟩ := hren hr
              simp only [hnew, Option.toList_some, if_true]
              have h2 := h1.dup (m := target) (n := newName) (by simp) hself
              have e : N ++ [target, newName] = (N ++ [target]) ++ [newName] := by simp
              rw [e]
              exact h2
          · rw [htch]
            simp only [List.foldl_cons, List.foldl_nil, hren, hnew, Option.toList_some, if_true]
            obtain ⟨hcn, hksn⟩ := hin' newName (.inr hnew)
            obtain ⟨kn, hkn⟩ := safe_of_namesSafe hns (.inr hnew)
            obtain ⟨b, hlb, hcb, hmb⟩ := load_look hinv hpf hcn hkn (hksn kn hkn) hl2
            have h2 := h1.step (t := t)
              (fun n hn => hframe n (fun n' hn' => hn n' (List.mem_append_left _ hn')))
              (newName, newFile) hlb hcb hmb
            have e : N ++ [target, newName] = (N ++ [target]) ++ [newName] := by simp
            rw [e]
            exact h2
        · intro n hn
          rw [applyFP_frame hA n (fun n' hn' => hn n' (List.mem_append_right _ hn'))]
          exact hframe n (fun n' hn' => hn n' (List.mem_append_left _ hn'))

/-! ## (C5) the range -/

theorem applyRangeTree_binv_gen {ks : List Key} {fs0 : FS} {cfg : Cfg} (hpf : PF ks)
    (range : List Series.Entry) :
    ∀ (rest done : List Series.Entry) (t : ATree) (rr : List (Bytes × Bytes)) (p0 p : Progress),
      range = done ++ rest → applyRange fs0 cfg done 0 [] = .ok (t, done.length, rr) →
      (∀ entry ∈ rest, ∀ patch, patchOf fs0 cfg entry = some patch → ∀ fp ∈ patch.fps, NamesIn ks fp) →
      Inv ks t fs0 p0.fs → p0.k = done.length → BInv fs0 cfg range done.length p0.backups →
      (∀ t' ∈ reached fs0 cfg rest t, LookNormal fs0 t') →
      applyRangeTree cfg fs0 rest p0 = .ok p → BInv fs0 cfg range p.k p.backups := by
  intro rest
  induction rest with
  | nil =>
    intro done t rr p0 p _ _ _ _ hk hB _ hp
    simp only [applyRangeTree] at hp
    cases hp
    rw [hk]
    exact hB
  | cons entry rest ih =>
    intro done t rr p0 p hrange hdone hin hinv hk hB hterm hp
    rw [applyRangeTree_cons] at hp
    cases hpo : patchOf fs0 cfg entry with
    | none => rw [hpo] at hp; cases hp
    | some patch =>
      rw [hpo] at hp
      simp only at hp
      have hinE := hin entry (by simp) patch hpo
      have htermE : ∀ t' ∈ reachedFPs fs0 cfg entry patch.fps t, LookNormal fs0 t' :=
        fun t' ht' => hterm t' (by simp [reached, hpo, ht'])
      have hfps := fps_sim (cfg := cfg) (entry := entry) hpf patch.fps t true []
        { fs := p0.fs, ok := true, rejs := [], touched := [] } hinE hinv rfl rfl htermE
      cases hA : applyFPs fs0 cfg entry patch.fps t true [] with
      | error e =>
        rw [hA] at hfps
        simp only at hfps
        rw [hfps] at hp
        cases hp
      | ok res =>
        obtain ⟨t', ok', rejs'⟩ := res
        rw [hA] at hfps
        obtain ⟨pr, hT, hok, _, hinv'⟩ := hfps
        rw [hT] at hp
        simp only at hp
        cases hprok : pr.ok with
        | false =>
          rw [hprok] at hp
          simp only [Bool.false_eq_true, if_false] at hp
          cases hp
          show BInv fs0 cfg range p0.k p0.backups
          rw [hk]
          exact hB
        | true =>
          rw [hprok] at hp
          simp only [if_true] at hp
          have hok' : ok' = true := by rw [← hok, hprok]
          subst hok'
          have hdone' : applyRange fs0 cfg (done ++ [entry]) 0 [] = .ok (t', (done ++ [entry]).length, []) := by
            have h0 : applyRange fs0 cfg done 0 [] = .ok (t, 0 + done.length, rr) := by
              rw [hdone]; simp
            rw [applyRange_append_ok fs0 cfg [entry] done 0 [] t rr h0, Agree.applyRange_cons, hpo]
            simp only [hA, if_true]
            rw [applyRange]
            simp
          have hlen' : (done ++ [entry]).length = done.length + 1 := by simp
          refine ih (done ++ [entry]) t' [] _ p (by simp [hrange]) hdone'
            (fun e he => hin e (by simp [he])) hinv' (by simp [hk]) ?_
            (fun t'' ht'' => hterm t'' (by simp [reached, hpo, hA, ht''])) hp
          rw [hlen']
          refine ⟨by simp [hB.1], ?_⟩
          intro j hj
          by_cases hjk : j < done.length
          · obtain ⟨e, patch', tj, rrj, touched, h1, h2, h3, h4, h5⟩ := hB.2 j hjk
            refine ⟨e, patch', tj, rrj, touched, h1, h2, h3, ?_, h5⟩
            show (p0.backups ++ [(entry.name, pr.touched)])[j]? = _
            rw [List.getElem?_append_left (by rw [hB.1]; exact hjk)]
            exact h4
          · obtain rfl : j = done.length := by omega
            refine ⟨entry, patch, t, rr, pr.touched, ?_, hpo, ?_, ?_, ?_⟩
            · rw [hrange]
              simp
            · rw [hrange]
              simp only [List.take_left']
              exact hdone
            · show (p0.backups ++ [(entry.name, pr.touched)])[done.length]? = _
              rw [List.getElem?_append_right (by rw [hB.1]; exact Nat.le_refl _), hB.1]
              simp
            · have := patch_touched (cfg := cfg) (entry := entry) hpf t patch.fps t
                { fs := p0.fs, ok := true, rejs := [], touched := [] } [] hinE hinv htermE
                (touchedOK_nil fs0 t) (fun _ _ => rfl) pr hT hprok
              simpa using this

/-- **the backups the specification records**: after the run, `backups` has one entry per applied patch, named after
the series entry, whose files are `TouchedOK` for the abstract tree from before that patch -/
theorem applyRangeTree_binv {ks : List Key} {fs0 : FS} {cfg : Cfg} (hdry : cfg.dryRun = false) (hpf : PF ks)
    (range : List Series.Entry)
    (hnames : ∀ entry ∈ range, ∀ patch, patchOf fs0 cfg entry = some patch → ∀ fp ∈ patch.fps, NamesIn ks fp)
    (hterm : ∀ t' ∈ reached fs0 cfg range [], LookNormal fs0 t')
    {p : Progress} (hp : applyRangeTree cfg fs0 range (start fs0) = .ok p) :
    BInv fs0 cfg range p.k p.backups := by
  have _ := hdry
  exact applyRangeTree_binv_gen hpf range range [] [] [] (start fs0) p rfl rfl hnames (inv_init ks fs0) rfl
    ⟨rfl, fun j hj => absurd hj (Nat.not_lt_zero j)⟩ hterm hp

/-! ## the driver: which `Status` the application loop leaves, against the abstract choice of names -/

/-- a file patch that went through pushes exactly one `Status`; its target is the name the abstract tree chooses -/
theorem applyCore_names {fs : FS} {st st' : St} {t : ATree} {cfg : Cfg} {i : Nat} {entry : Series.Entry}
    {fp : PFilePatch} {b : Bool} (hs : SameTree fs (ofMem st.mem) t)
    (h : applyCore st fs cfg i entry fp = .ok (st', b)) (hb : b = true) :
    ∃ s, st'.applied = s :: st.applied ∧ s.index = i ∧ s.fp = fp ∧ s.patchName = entry.name ∧
      chooseA t fs fp.old fp.new = some s.target := by
  unfold applyCore at h
  split at h
  · cases h
  · split at h
    · cases h
    · rename_i target hch
      have hchA : chooseA t fs fp.old fp.new = some target := by
        rw [← chooseA_sameTree hs, ← choose_eq]; exact hch
      split at h
      · cases h
      · rename_i mem file hload
        simp only at h
        split at h
        · split at h
          · cases h
          · rename_i newName hnew
            simp only [moveOut] at h
            split at h
            · cases h
            · rename_i mem2 newFile hload2
              split at h
              · split at h
                · cases h
                · split at h
                  · injection h with h
                    injection h with _ h2
                    rw [hb] at h2
                    cases h2
                  · injection h with h
                    injection h with _ h2
                    rw [hb] at h2
                    cases h2
              · split at h
                · cases h
                · injection h with h
                  injection h with h1 _
                  subst h1
                  exact ⟨_, rfl, rfl, rfl, rfl, hchA⟩
        · split at h
          · cases h
          · injection h with h
            injection h with h1 _
            subst h1
            exact ⟨_, rfl, rfl, rfl, rfl, hchA⟩

theorem applyOne_names {fs : FS} {st st' : St} {t : ATree} {cfg : Cfg} {i : Nat} {entry : Series.Entry}
    {fp : PFilePatch} {b : Bool} (hs : SameTree fs (ofMem st.mem) t) (hde : MemDE st.mem)
    (h : applyOne st fs cfg i entry fp = .ok (st', b)) (hb : b = true) :
    ∃ s, st'.applied = s :: st.applied ∧ s.index = i ∧ s.fp = fp ∧ s.patchName = entry.name ∧
      chooseA t fs fp.old fp.new = some s.target := by
  obtain ⟨mem0, hp, hc⟩ := applyOne_ok_split h
  obtain ⟨hs0, _, _⟩ := preLoad_look hs hde hp
  exact applyCore_names (st := { st with mem := mem0 }) hs0 hc hb

/-- the names of such a `Status` are the names of the file patch on the abstract tree -/
theorem stNames_eq {t : ATree} {fs : FS} {fp : PFilePatch} {s : Status} (hfp : s.fp = fp)
    (hch : chooseA t fs fp.old fp.new = some s.target) : stNames s = fpNames t fs fp := by
  unfold stNames fpNames
  rw [hch, hfp]

/-- the flag `applyFilePatches` returns only grows -/
theorem applyFilePatches_flag {fs : FS} {cfg : Cfg} {i : Nat} {entry : Series.Entry} (fps : List PFilePatch) :
    ∀ {st st' : St} {af : Bool}, applyFilePatches st fs cfg i entry fps af = .ok (st', false) → af = false := by
  induction fps with
  | nil =>
    intro st st' af h
    unfold applyFilePatches at h
    injection h with h
    injection h with _ h2
  | cons fp fps ih =>
    intro st st' af h
    unfold applyFilePatches at h
    split at h
    · cases h
    · have := ih h
      cases af
      · rfl
      · simp at this

/-- **all file patches of a patch that applied**: the `Status`es pushed (newest first) name, oldest first, exactly the
names the abstract run of the patch chooses -/
theorem applyFilePatches_names {fs : FS} {cfg : Cfg} {i : Nat} {entry : Series.Entry} (fps : List PFilePatch) :
    ∀ (st st' : St) (t : ATree) (af : Bool), SameTree fs (ofMem st.mem) t → MemDE st.mem → (∀ fp ∈ fps, fp.WFlen) →
      applyFilePatches st fs cfg i entry fps af = .ok (st', false) →
      ∃ L, st'.applied = L ++ st.applied ∧ (∀ s ∈ L, s.index = i ∧ s.patchName = entry.name) ∧
        L.reverse.flatMap stNames = fpsNames fs cfg entry fps t := by
  induction fps with
  | nil =>
    intro st st' t af _ _ _ h
    unfold applyFilePatches at h
    injection h with h
    injection h with h1 _
    subst h1
    exact ⟨[], rfl, fun _ hs => (by cases hs), rfl⟩
  | cons fp fps ih =>
    intro st st' t af hs hde hw h
    have haf := applyFilePatches_flag (fp :: fps) h
    subst haf
    unfold applyFilePatches at h
    split at h
    · cases h
    · rename_i st1 b h1
      have hflag := applyFilePatches_flag fps h
      have hb : b = true := by
        cases b
        · simp at hflag
        · rfl
      obtain ⟨r, hr, _, hs1, hde1, _⟩ := applyOne_ok_sim hs hde (hw fp (by simp)) h1
      obtain ⟨s, happ1, hidx, hfp, hpn, hch⟩ := applyOne_names hs hde h1 hb
      obtain ⟨L2, happ2, hL2, hnames2⟩ := ih st1 st' r.tree _ hs1 hde1 (fun fp' h' => hw fp' (by simp [h'])) h
      refine ⟨L2 ++ [s], ?_, ?_, ?_⟩
      · rw [happ2, happ1]; simp
      · intro s' hs'
        rcases List.mem_append.mp hs' with h' | h'
        · exact hL2 s' h'
        · simp only [List.mem_singleton] at h'
          subst h'
          exact ⟨hidx, hpn⟩
      · rw [List.reverse_append, List.reverse_singleton, List.singleton_append, List.flatMap_cons, hnames2,
          stNames_eq hfp hch]
        simp only [fpsNames, hr]

/-- the stack left by the first `k` patches, cut into the `Status` lists of each patch; the list of patch `j` carries
the name of series entry `j` and names exactly what the abstract run of that patch chooses over the abstract tree
after the patches before it -/
def NStack (fs : FS) (cfg : Cfg) (range : List Series.Entry) : Nat → List Status → Prop
  | 0, applied => applied = []
  | k+1, applied => ∃ (L applied' : List Status) (e : Series.Entry) (patch : Patch) (t : ATree)
      (rr : List (Bytes × Bytes)),
      applied = L ++ applied' ∧ (∀ s ∈ L, s.index = k ∧ s.patchName = e.name) ∧ NStack fs cfg range k applied' ∧
      range[k]? = some e ∧ patchOf fs cfg e = some patch ∧
      applyRange fs cfg (range.take k) 0 [] = .ok (t, k, rr) ∧
      L.reverse.flatMap stNames = fpsNames fs cfg e patch.fps t

theorem NStack.index {fs : FS} {cfg : Cfg} {range : List Series.Entry} : ∀ {k : Nat} {applied : List Status},
    NStack fs cfg range k applied → ∀ s ∈ applied, s.index < k := by
  intro k
  induction k with
  | zero =>
    intro applied h s hs
    have : applied = [] := h
    subst this; cases hs
  | succ k ih =>
    intro applied h s hs
    obtain ⟨L, applied', e, patch, t, rr, h1, h2, h3, _⟩ := h
    subst h1
    rcases List.mem_append.mp hs with h' | h'
    · rw [(h2 s h').1]; omega
    · have := ih h3 s h'; omega

/-- newest first: the patch indices do not increase along the stack -/
theorem NStack.sorted {fs : FS} {cfg : Cfg} {range : List Series.Entry} : ∀ {k : Nat} {applied : List Status},
    NStack fs cfg range k applied → applied.Pairwise (fun a b => b.index ≤ a.index) := by
  intro k
  induction k with
  | zero =>
    intro applied h
    have : applied = [] := h
    subst this; exact List.Pairwise.nil
  | succ k ih =>
    intro applied h
    obtain ⟨L, applied', e, patch, t, rr, h1, h2, h3, _⟩ := h
    subst h1
    rw [List.pairwise_append]
    refine ⟨?_, ih h3, ?_⟩
    · rw [List.pairwise_iff_forall_sublist]
      intro a b hab
      have ha := (h2 a (hab.subset (by simp))).1
      have hb := (h2 b (hab.subset (by simp))).1
      omega
    · intro a ha b hb
      have := NStack.index h3 b hb
      have := (h2 a ha).1
      omega

/-- what the stack says about patch `j` -/
theorem NStack.get {fs : FS} {cfg : Cfg} {range : List Series.Entry} : ∀ {k : Nat} {applied : List Status},
    NStack fs cfg range k applied → ∀ j, j < k →
    ∃ (L : List Status) (e : Series.Entry) (patch : Patch) (t : ATree) (rr : List (Bytes × Bytes)),
      (∀ s, s ∈ L ↔ s ∈ applied ∧ s.index = j) ∧ (∀ s ∈ L, s.patchName = e.name) ∧
      range[j]? = some e ∧ patchOf fs cfg e = some patch ∧
      applyRange fs cfg (range.take j) 0 [] = .ok (t, j, rr) ∧
      L.reverse.flatMap stNames = fpsNames fs cfg e patch.fps t := by
  intro k
  induction k with
  | zero => intro applied _ j hj; omega
  | succ k ih =>
    intro applied h j hj
    obtain ⟨L, applied', e, patch, t, rr, h1, h2, h3, h4, h5, h6, h7⟩ := h
    subst h1
    by_cases hjk : j = k
    · subst hjk
      refine ⟨L, e, patch, t, rr, fun s => ⟨fun hs => ⟨List.mem_append_left _ hs, (h2 s hs).1⟩, fun hs => ?_⟩,
        fun s hs => (h2 s hs).2, h4, h5, h6, h7⟩
      rcases List.mem_append.mp hs.1 with h' | h'
      · exact h'
      · have := NStack.index h3 s h'
        omega
    · obtain ⟨L', e', patch', t', rr', g1, g2, g3⟩ := ih h3 j (by omega)
      refine ⟨L', e', patch', t', rr', fun s => ⟨fun hs => ?_, fun hs => ?_⟩, g2, g3⟩
      · obtain ⟨a, b⟩ := (g1 s).mp hs
        exact ⟨List.mem_append_right _ a, b⟩
      · rcases List.mem_append.mp hs.1 with h' | h'
        · have := (h2 s h').1
          omega
        · exact (g1 s).mpr ⟨h', hs.2⟩

/-- the application loop builds an `NStack` (next to the `Stack` of `RQ/Lemmas/RefineBackup.lean`) -/
theorem applyLoop_nstack {fs : FS} {cfg : Cfg} (range : List Series.Entry) (hd : cfg.dryRun = false) :
    ∀ (rest done : List Series.Entry) (k : Nat) (st st' : St) (t : ATree) (rr : List (Bytes × Bytes))
      (k' : Nat) (rejs : List (Bytes × Bytes)),
      range = done ++ rest → done.length = k → applyRange fs cfg done 0 [] = .ok (t, k, rr) →
      SameTree fs (ofMem st.mem) t → MemDE st.mem → NStack fs cfg range k st.applied →
      applyLoop fs cfg rest k st = .ok (st', k', rejs) → NStack fs cfg range k' st'.applied := by
  intro rest
  induction rest with
  | nil =>
    intro done k st st' t rr k' rejs _ _ _ _ _ hst h
    rw [applyLoop] at h
    cases h
    exact hst
  | cons entry rest ih =>
    intro done k st st' t rr k' rejs hrange hlen hdone hs hde hst h
    rw [applyLoop] at h
    split at h
    · cases h
    · rename_i pk hpk
      split at h
      · cases h
      · rename_i bytes mode hrd
        split at h
        · cases h
        · rename_i patch hpp
          have hpo : patchOf fs cfg entry = some patch := by
            unfold patchOf
            rw [hpk]
            simp only
            rw [hrd]
            simp only
            rw [hpp]
          have hw := parsed_wflen hpp
          have hsim := applyFilePatches_sim (fs := fs) (cfg := cfg) (i := k) (entry := entry) patch.fps
            st t false true [] hs hde hw (parsed_rename_new hpp) rfl
          split at h
          · cases h
          · rename_i st1 af happ
            obtain ⟨t', ok', L, hfps, haf, hs1, hde1, happl, hidxL, hchain⟩ := hsim.1 st1 af happ
            have hidx := NStack.index hst
            split at h
            · -- the patch failed: its `Status` are rolled back
              rw [hd] at h
              simp only [Bool.false_eq_true, if_false] at h
              obtain ⟨app1, mem1⟩ := st1
              simp only at happl hs1 hde1 hchain
              subst happl
              rw [rollback_eq k st.applied hidx L _ mem1 [] (by simp only [List.length_append]; omega) hidxL] at h
              obtain ⟨M', hu, hext⟩ := hchain.undoable mem1 (Ext.refl _ _)
              rw [hu] at h
              simp only at h
              cases h
              exact hst
            · rename_i hnf
              have hafF : af = false := by simpa using hnf
              subst hafF
              have hok : ok' = true := by
                cases ok' with
                | true => rfl
                | false => simp at haf
              subst hok
              obtain ⟨L', happl', hL', hnames⟩ := applyFilePatches_names patch.fps st st1 t false hs hde hw happ
              have htake : range.take k = done := by
                rw [hrange, ← hlen]; simp
              have hget : range[k]? = some entry := by
                rw [hrange, ← hlen]; simp
              have hdone' : applyRange fs cfg (done ++ [entry]) 0 [] = .ok (t', k + 1, []) := by
                have h0 : applyRange fs cfg done 0 [] = .ok (t, 0 + done.length, rr) := by
                  rw [hdone, hlen]; simp
                rw [applyRange_append_ok fs cfg [entry] done 0 [] t rr h0]
                rw [applyRange, hpk]
                simp only
                rw [hrd]
                simp only
                rw [hpp]
                simp only
                rw [hfps]
                simp only [if_true]
                rw [applyRange, hlen]
                simp
              refine ih (done ++ [entry]) (k + 1) st1 st' t' [] k' rejs ?_ ?_ hdone' hs1 hde1 ?_ h
              · rw [hrange]; simp
              · simp [hlen]
              · exact ⟨L', st.applied, entry, patch, t, rr, happl', hL', hst, hget, hpo, by rw [htake]; exact hdone,
                  hnames⟩

/-- … from the empty state -/
theorem applyLoop_nstack0 {fs : FS} {cfg : Cfg} {range : List Series.Entry} (hd : cfg.dryRun = false) {st : St}
    {k : Nat} {rejs : List (Bytes × Bytes)} (hl : applyLoop fs cfg range 0 {} = .ok (st, k, rejs)) :
    NStack fs cfg range k st.applied :=
  applyLoop_nstack range hd range [] 0 {} st [] [] k rejs rfl rfl rfl (SameTree.refl fs _) memDE_nil rfl hl

/-! ## the calls of the backup loop against the `Status`es -/

/-- every call is for a name of a `Status` in the window -/
theorem backupCalls_sound : ∀ (applied : List Status) (mem : Mem) (downTo : Nat) (calls : List Call) (mem' : Mem),
    backupCalls mem applied downTo = .ok (calls, mem') →
    ∀ c ∈ calls, ∃ s ∈ applied, downTo ≤ s.index ∧ c.1 = s.index ∧ c.2.1 = s.patchName ∧ c.2.2.1 ∈ stNames s := by
  intro applied
  induction applied with
  | nil =>
    intro mem downTo calls mem' h c hc
    rw [backupCalls] at h
    cases h
    cases hc
  | cons s rest ih =>
    intro mem downTo calls mem' h c hc
    rw [backupCalls] at h
    split at h
    · cases h
      cases hc
    · rename_i hlt
      split at h
      · cases h
      · rename_i mem1 file _
        simp only at h
        split at h
        · cases h
        · rename_i ex hex
          split at h
          · cases h
          · rename_i calls0 mem0 hrest
            cases h
            rw [List.cons_append, List.mem_cons, List.mem_append] at hc
            rcases hc with rfl | hc | hc
            · exact ⟨s, by simp, by omega, rfl, rfl, by simp [stNames]⟩
            · split at hex
              · rename_i hren
                split at hex
                · cases hex
                · rename_i newName hnew
                  split at hex
                  · cases hex
                  · cases hex
                    simp only [List.mem_singleton] at hc
                    subst hc
                    exact ⟨s, by simp, by omega, rfl, rfl, by simp [stNames, hren, hnew]⟩
              · cases hex
                cases hc
            · obtain ⟨s', hs', h1, h2, h3, h4⟩ := ih mem1 downTo _ _ hrest c hc
              exact ⟨s', by simp [hs'], h1, h2, h3, h4⟩

/-- every name of every `Status` in the window gets its call (the stack is sorted, so the loop reaches all of them) -/
theorem backupCalls_complete : ∀ (applied : List Status) (mem : Mem) (downTo : Nat) (calls : List Call) (mem' : Mem),
    applied.Pairwise (fun a b => b.index ≤ a.index) →
    backupCalls mem applied downTo = .ok (calls, mem') →
    ∀ s ∈ applied, downTo ≤ s.index → ∀ n ∈ stNames s, ∃ g, (s.index, s.patchName, n, g) ∈ calls := by
  intro applied
  induction applied with
  | nil => intro _ _ _ _ _ _ s hs; cases hs
  | cons s0 rest ih =>
    intro mem downTo calls mem' hsorted h s hs hwin n hn
    obtain ⟨hs0, hsr⟩ := List.pairwise_cons.mp hsorted
    rw [backupCalls] at h
    split at h
    · rename_i hlt
      exfalso
      rcases List.mem_cons.mp hs with rfl | hs'
      · omega
      · have := hs0 s hs'
        omega
    · split at h
      · cases h
      · rename_i mem1 file _
        simp only at h
        split at h
        · cases h
        · rename_i ex hex
          split at h
          · cases h
          · rename_i calls0 mem0 hrest
            cases h
            rcases List.mem_cons.mp hs with rfl | hs'
            · unfold stNames at hn
              rcases List.mem_cons.mp hn with rfl | hn'
              · exact ⟨file, by simp⟩
              · split at hn'
                · rename_i hren
                  rw [if_pos hren] at hex
                  split at hex
                  · cases hex
                  · rename_i newName hnew
                    rw [hnew] at hn'
                    simp only [Option.toList_some, List.mem_singleton] at hn'
                    subst hn'
                    split at hex
                    · cases hex
                    · rename_i nf _
                      cases hex
                      exact ⟨nf, by simp⟩
                · cases hn'
            · obtain ⟨g, hg⟩ := ih mem1 downTo _ _ hsr hrest s hs' hwin n hn
              exact ⟨g, by
                rw [List.cons_append, List.mem_cons, List.mem_append]
                exact .inr (.inr hg)⟩

/-! ## the slots of the driver -/

/-- **which backup calls the driver makes**: for the patches `j` of the window, exactly the names the abstract run of
patch `j` chooses, under the name of series entry `j` -/
structure SlotsD (fs : FS) (cfg : Cfg) (range : List Series.Entry) (downTo k : Nat) (calls : List Call) : Prop where
  sound : ∀ c ∈ calls, downTo ≤ c.1 ∧ c.1 < k ∧ ∃ e patch t rr, range[c.1]? = some e ∧ c.2.1 = e.name ∧
    patchOf fs cfg e = some patch ∧ applyRange fs cfg (range.take c.1) 0 [] = .ok (t, c.1, rr) ∧
    c.2.2.1 ∈ fpsNames fs cfg e patch.fps t
  complete : ∀ j, downTo ≤ j → j < k → ∀ e patch t rr, range[j]? = some e → patchOf fs cfg e = some patch →
    applyRange fs cfg (range.take j) 0 [] = .ok (t, j, rr) → ∀ n ∈ fpsNames fs cfg e patch.fps t,
    ∃ g, (j, e.name, n, g) ∈ calls

theorem slotsD_of_loop {fs : FS} {cfg : Cfg} {range : List Series.Entry} (hd : cfg.dryRun = false) {st : St}
    {k : Nat} {rejs : List (Bytes × Bytes)} (hl : applyLoop fs cfg range 0 {} = .ok (st, k, rejs))
    {downTo : Nat} {calls : List Call} {mem' : Mem}
    (hc : backupCalls st.mem st.applied downTo = .ok (calls, mem')) : SlotsD fs cfg range downTo k calls := by
  have hst := applyLoop_nstack0 hd hl
  constructor
  · intro c hcm
    obtain ⟨s, hs, hwin, h1, h2, h3⟩ := backupCalls_sound _ _ _ _ _ hc c hcm
    have hlt := NStack.index hst s hs
    obtain ⟨L, e, patch, t, rr, g1, g2, g3, g4, g5, g6⟩ := NStack.get hst s.index hlt
    have hsL : s ∈ L := (g1 s).mpr ⟨hs, rfl⟩
    refine ⟨by omega, by omega, e, patch, t, rr, by rw [h1]; exact g3, by rw [h2]; exact g2 s hsL, g4,
      by rw [h1]; exact g5, ?_⟩
    rw [← g6, List.mem_flatMap]
    exact ⟨s, List.mem_reverse.mpr hsL, h3⟩
  · intro j hwin hlt e patch t rr he hp ht n hn
    obtain ⟨L, e', patch', t', rr', g1, g2, g3, g4, g5, g6⟩ := NStack.get hst j hlt
    rw [he] at g3
    cases g3
    rw [hp] at g4
    cases g4
    rw [ht] at g5
    cases g5
    rw [← g6, List.mem_flatMap] at hn
    obtain ⟨s, hsL, hns⟩ := hn
    have hsL' := List.mem_reverse.mp hsL
    obtain ⟨hsa, hsj⟩ := (g1 s).mp hsL'
    obtain ⟨g, hg⟩ := backupCalls_complete _ _ _ _ _ (NStack.sorted hst) hc s hsa (by omega) n hns
    rw [hsj, g2 s hsL'] at hg
    exact ⟨g, hg⟩

/-! ## the two lists of writes have the same last writer at every path -/

theorem callKey_eq (c : Call) : callKey c = pcKey c.2.1 c.2.2.1 := rfl

theorem mem_drop_getElem? {α : Type} {l : List α} {n : Nat} {x : α} (h : x ∈ l.drop n) :
    ∃ j, n ≤ j ∧ l[j]? = some x := by
  obtain ⟨i, hi⟩ := List.mem_iff_getElem?.mp h
  rw [List.getElem?_drop] at hi
  exact ⟨n + i, by omega, hi⟩

theorem getElem?_mem_drop {α : Type} {l : List α} {n j : Nat} {x : α} (hj : n ≤ j) (h : l[j]? = some x) :
    x ∈ l.drop n := by
  apply List.mem_iff_getElem?.mpr
  refine ⟨j - n, ?_⟩
  rw [List.getElem?_drop]
  have : n + (j - n) = j := by omega
  rw [this]; exact h

/-- every write of the specification's backup phase is matched by a call of the driver for the same path; its bytes and
permission bits are those of the file in the abstract tree from before the patch -/
theorem specWrite_call {fs : FS} {cfg : Cfg} {range : List Series.Entry} {downTo k : Nat} {calls : List Call}
    {backups : List (Bytes × List (Bytes × FileSt Bytes))}
    (hD : SlotsD fs cfg range downTo k calls) (hB : BInv fs cfg range k backups)
    {wr : Wr} (hwr : wr ∈ writesS (backups.drop downTo)) :
    ∃ j e t rr n g a, downTo ≤ j ∧ j < k ∧ range[j]? = some e ∧
      applyRange fs cfg (range.take j) 0 [] = .ok (t, j, rr) ∧ (j, e.name, n, g) ∈ calls ∧
      pcKey e.name n = some wr.1 ∧ look t fs n = .ok a ∧ wr.2 = (bytesOf a.content, modeOf a.perms) := by
  unfold writesS at hwr
  rw [List.mem_flatMap] at hwr
  obtain ⟨b, hb, hx⟩ := hwr
  rw [List.mem_filterMap] at hx
  obtain ⟨x, hxm, hxw⟩ := hx
  obtain ⟨j, hwin, hbj⟩ := mem_drop_getElem? hb
  have hjk : j < k := by
    rw [← hB.1]
    exact (List.getElem?_eq_some_iff.mp hbj).1
  obtain ⟨e, patch, t, rr, touched, he, hp, ht, hbk, htok⟩ := hB.2 j hjk
  rw [hbj] at hbk
  cases hbk
  obtain ⟨⟨n', hn', hcomp⟩, a, hla, hca, hma⟩ := htok.sound x hxm
  obtain ⟨g, hg⟩ := hD.complete j hwin hjk e patch t rr he hp ht n' hn'
  unfold fileWr at hxw
  simp only at hxw
  cases hk : pcKey e.name x.1 with
  | none => rw [hk] at hxw; cases hxw
  | some key =>
    rw [hk] at hxw
    simp only [Option.map_some, Option.some.injEq] at hxw
    subst hxw
    refine ⟨j, e, t, rr, n', g, a, hwin, hjk, he, ht, hg, ?_, ?_, ?_⟩
    · rw [← pcKey_congr hcomp]; exact hk
    · rw [← look_congr t fs hcomp]; exact hla
    · simp only [hca, hma]

/-- **the same last writer**: at every path the last write of the driver's backup calls and the last write of the
specification's backup phase carry the same bytes and permission bits (or neither side writes there) -/
theorem lastW_agree {fs : FS} {cfg : Cfg} {range : List Series.Entry} {downTo k : Nat} {calls : List Call}
    {backups : List (Bytes × List (Bytes × FileSt Bytes))}
    (hD : SlotsD fs cfg range downTo k calls) (hB : BInv fs cfg range k backups)
    (hnames : PatchNamesAgree calls) (hapart : PcKeysApart calls)
    (hpre : ∀ j name f, lastCall j name calls = some f →
      ∃ t rr, applyRange fs cfg (range.take j) 0 [] = .ok (t, j, rr) ∧ look t fs name = .ok (absOf f))
    (q : Key) : lastW q (writesD calls) = lastW q (writesS (backups.drop downTo)) := by
  by_cases hex : ∃ c ∈ calls, callKey c = some q
  · obtain ⟨c, hcm, hck⟩ := hex
    obtain ⟨j, pn, n, g⟩ := c
    have hq : pcKey pn n = some q := hck
    obtain ⟨f, hlast⟩ := lastCall_some_of_mem hcm rfl
    rw [lastW_writesD hnames hapart hcm hlast hq]
    symm
    obtain ⟨tj, rrj, htj, hlj⟩ := hpre j n f hlast
    apply lastW_of_all
    · -- the specification writes there
      obtain ⟨hwin, hjk, e, patch, t, rr, he, hpn, hp, ht, hn⟩ := hD.sound _ hcm
      simp only at hwin hjk he hpn ht hn
      obtain ⟨e', patch', t', rr', touched, he', hp', ht', hbk, htok⟩ := hB.2 j hjk
      rw [he] at he'
      cases he'
      rw [hp] at hp'
      cases hp'
      rw [ht] at ht'
      cases ht'
      obtain ⟨x, hxm, hcomp⟩ := htok.complete n hn
      refine ⟨(q, bytesOf x.2.content, modeOf x.2.perms), ?_, rfl⟩
      unfold writesS
      rw [List.mem_flatMap]
      refine ⟨(e.name, touched), getElem?_mem_drop hwin hbk, ?_⟩
      rw [List.mem_filterMap]
      refine ⟨x, hxm, ?_⟩
      unfold fileWr
      simp only
      rw [pcKey_congr hcomp, ← hpn, hq]
      rfl
    · intro wr hwr hwq
      obtain ⟨j3, e3, t3, rr3, n3, g3, a3, _, _, _, ht3, hg3, hk3, hl3, hv3⟩ := specWrite_call hD hB hwr
      rw [hwq] at hk3
      have hslot := hapart _ hcm _ hg3 (by rw [callKey_eq]; simp only; rw [hq]; rfl)
        (by rw [callKey_eq, callKey_eq]; simp only; rw [hq, hk3])
      obtain ⟨hj, hcomp⟩ := hslot
      simp only at hj hcomp
      subst hj
      rw [htj] at ht3
      cases ht3
      rw [← look_congr tj fs hcomp, hlj] at hl3
      cases hl3
      rw [hv3]
      rfl
  · have h1 : lastW q (writesD calls) = none := by
      rw [lastW_none_iff]
      intro wr hwr hwq
      obtain ⟨c, hcm, hcw⟩ := mem_writesD.mp hwr
      apply hex
      refine ⟨c, hcm, ?_⟩
      unfold callWr at hcw
      cases hk : callKey c with
      | none => rw [hk] at hcw; cases hcw
      | some key =>
        rw [hk] at hcw
        simp only [Option.map_some, Option.some.injEq] at hcw
        subst hcw
        rw [← hwq]
    have h2 : lastW q (writesS (backups.drop downTo)) = none := by
      rw [lastW_none_iff]
      intro wr hwr hwq
      obtain ⟨j3, e3, t3, rr3, n3, g3, a3, _, _, _, _, hg3, hk3, _, _⟩ := specWrite_call hD hB hwr
      exact hex ⟨_, hg3, by rw [callKey_eq]; simp only; rw [hk3, hwq]⟩
    rw [h1, h2]

/-! ## the last phase of the specification when backups are due -/

/-- the patches that get backups (`--backup-count`), as the specification computes them -/
theorem window_eq (cfg : Cfg) (p : Progress) :
    (match cfg.backupCount with
      | none => p.backups
      | some n => p.backups.drop (p.k - n)) = p.backups.drop (backupDownTo cfg p.k) := by
  unfold backupDownTo
  cases cfg.backupCount with
  | none => simp
  | some n =>
    simp only
    split
    · rfl
    · have : p.k - n = 0 := by omega
      rw [this]

/-- the part of `finishSpec` below `.pc` when backups are due -/
theorem finishPc_backups {cfg : Cfg} {range : List Series.Entry} {p : Progress} {fs1 : FS}
    (hb : (cfg.backup == .always || (cfg.backup == .onfail && p.k != range.length)) = true)
    (hio : (finishPc cfg range p fs1).ioError = false) :
    ∃ fs2 fs3 fs4, putBackups fs1 (p.backups.drop (backupDownTo cfg p.k)) = .ok fs2 ∧
      fs2.createDirAll pcDir = .ok fs3 ∧ fs3.appendFile appliedKey (namesBytes (range.take p.k)) = .ok fs4 ∧
      (finishPc cfg range p fs1).fs = fs4 := by
  rw [← window_eq]
  unfold finishPc at hio ⊢
  simp only [hb, if_true] at hio ⊢
  cases hbc : cfg.backupCount with
  | none =>
    rw [hbc] at hio
    simp only at hio ⊢
    cases h2 : putBackups fs1 _ with
    | error e => rw [h2] at hio; cases hio
    | ok fs2 =>
      rw [h2] at hio
      simp only at hio ⊢
      cases h3 : fs2.createDirAll pcDir with
      | error e => rw [h3] at hio; cases hio
      | ok fs3 =>
        rw [h3] at hio
        simp only at hio ⊢
        cases h4 : fs3.appendFile appliedKey ((range.take p.k).map (fun e => e.name ++ [10])).flatten with
        | error e => rw [h4] at hio; cases hio
        | ok fs4 => exact ⟨fs2, fs3, fs4, rfl, h3, h4, rfl⟩
  | some n =>
    rw [hbc] at hio
    simp only at hio ⊢
    cases h2 : putBackups fs1 _ with
    | error e => rw [h2] at hio; cases hio
    | ok fs2 =>
      rw [h2] at hio
      simp only at hio ⊢
      cases h3 : fs2.createDirAll pcDir with
      | error e => rw [h3] at hio; cases hio
      | ok fs3 =>
        rw [h3] at hio
        simp only at hio ⊢
        cases h4 : fs3.appendFile appliedKey ((range.take p.k).map (fun e => e.name ++ [10])).flatten with
        | error e => rw [h4] at hio; cases hio
        | ok fs4 => exact ⟨fs2, fs3, fs4, rfl, h3, h4, rfl⟩

/-! ## the whole command below `.pc` -/

/-- **below `.pc`, range level**: the driver model and the specification leave the same node (regular file with bytes
and permission bits, or directory, or nothing; inode numbers ignored) at every path below `.pc` -/
theorem pushRange_pc_nodes (cfg : Cfg) (w : World) (range : List Series.Entry)
    (hdry : cfg.dryRun = false) (hT : Tight w.fs) (hclean : Clean cfg w.fs range)
    (hpf : PrefixFree w.fs cfg range) (hterm : ∀ t' ∈ reached w.fs cfg range [], TreeTerminated t')
    (hrun : (pushRange cfg w range).1 = .allApplied ∨ (pushRange cfg w range).1 = .notAll)
    (hdist : PatchPathsDistinct range) (hprop : PatchNamesProper range)
    (hio : (specRun cfg w.fs range).ioError = false) (q : Key) (hq : isPcKey q) :
    ((specRun cfg w.fs range).fs.lookup q).map noIno = ((pushRange cfg w range).2.fs.lookup q).map noIno := by
  obtain ⟨w4, final, w5, happly, hsa, hpr⟩ := Refine2.pushRange_ok hdry hrun
  by_cases hdue : BackupsDue cfg range final
  · rw [hpr]
    show ((specRun cfg w.fs range).fs.lookup q).map noIno = (w5.fs.lookup q).map noIno
    cases hloop : applyLoop w.fs cfg range 0 {} with
    | error e =>
      unfold applyPatches at happly
      rw [hloop] at happly
      cases happly
    | ok r =>
      obtain ⟨st, final', rejs⟩ := r
      obtain ⟨hfin, w1, dirs, w2, w3, calls, mem', hsave, hcl, hrej, hc, hsb⟩ :=
        applyPatches_backups_run w w4 cfg range st final' final rejs hloop hdry
          (by
            have hf : final = final' := by
              obtain ⟨h, _⟩ := Refine2.applyPatches_stages w w4 cfg range st final' final rejs hdry hloop happly
              exact h
            rw [← hf]; exact hdue) happly
      subst hfin
      obtain ⟨p, hp, hpk, hprej, _⟩ :=
        Refine2.saved_outsidePc w w1 w2 cfg range st final rejs dirs hdry hclean hpf hterm hT hloop hsave hcl
      obtain ⟨hmemOut, hrejOut'⟩ := applyLoop_out hclean.namesOut hloop
      -- the driver's tree before the backups: below `.pc` as at the start
      have hd3 : ∀ q, isPcKey q → w3.fs.lookup q = w.fs.lookup q := by
        obtain ⟨s1, s2⟩ := saveAll_outOnly st.mem w w1 [] dirs hmemOut (fun _ hd' => by cases hd') hsave
        exact (s1.trans (cleanAll_outOnly dirs w1 w2 s2 hcl)).trans (saveRejFiles_outOnly rejs w2 w3 hrejOut' hrej)
      -- the specification's last phase
      obtain ⟨fs1, hr1, ho, hio1, _⟩ := failed_push_setup hdry hp hio
      have hbB : (cfg.backup == .always || (cfg.backup == .onfail && p.k != range.length)) = true := by
        rw [hpk]
        rcases hdue with h | ⟨h1, h2⟩
        · rw [h]; rfl
        · rw [h1]; simp [h2]
      obtain ⟨fs2, fs3, fs4, h2, h3, h4, hfs⟩ := finishPc_backups hbB hio1
      rw [ho, hfs]
      have hrejOut : RejsOut p.rejs := clean_rejsOut hclean (fun _ hm => by cases hm) hp
      have hs1 : ∀ q, isPcKey q → fs1.lookup q = w.fs.lookup q := by
        intro q hq
        have t1 := (clean_touch hclean hp).pc_same (fun _ => not_pc_of_not_own) hq
        have t2 := (putRejects_touchT (fun k => ¬ isPcKey k) _
          (fun r hr k hk => hrejOut.reverse r hr k hk) _ _ hr1).pc_same (fun _ h => h) hq
        rw [t2, t1]
        rfl
      -- the two lists of writes
      have hnames : ∀ entry ∈ range, ∀ patch, patchOf w.fs cfg entry = some patch → ∀ fp ∈ patch.fps,
          NamesIn (rangeKeys w.fs cfg range) fp := fun entry he patch hp fp hfp => namesIn_rangeKeys he hp hfp
      have hB : BInv w.fs cfg range p.k p.backups :=
        applyRangeTree_binv hdry hpf range hnames (fun t' ht' => lookNormal_of_terminated (hterm t' ht')) hp
      rw [hpk] at hB h2
      have hD : SlotsD w.fs cfg range (backupDownTo cfg final) final calls := slotsD_of_loop hdry hloop hc
      have hlast := lastW_agree hD hB (backupCalls_patchNames hloop hc).1
        (pcKeysApart_of_distinct hloop hc hdist hprop)
        (fun j name f hl => (C08_backup_is_prestate w.fs cfg range st final rejs hloop hdry _ calls mem' hc j name f hl).2.2)
      have hnodes : ∀ q, isPcKey q → (fs2.lookup q).map noIno = (w4.fs.lookup q).map noIno := by
        intro q hq
        rw [putBackups_nodes _ _ _ h2 q, saveBackups_nodes _ _ _ hsb q, hs1 q hq, hd3 q hq]
        exact (afterW_congr (noPre_writesD hsb) hlast q _).symm
      have hbytes : (((range.take final).map (·.name)).map (· ++ [10])).flatten = namesBytes (range.take p.k) := by
        unfold namesBytes
        rw [List.map_map, hpk]
        rfl
      have pd := Refine2.appliedPhase_driver hsa
      rw [hbytes] at pd
      exact appliedPhase_agree' hnodes (Refine2.appliedPhase_spec h3 h4) pd hq
  · have hnb : cfg.backup = .never ∨ (cfg.backup = .onfail ∧ (pushRange cfg w range).1 = .allApplied) := by
      unfold BackupsDue at hdue
      cases hb : cfg.backup with
      | always => exact absurd (.inl hb) hdue
      | never => exact .inl rfl
      | onfail =>
        refine .inr ⟨rfl, ?_⟩
        have hf : final = range.length := by
          apply Classical.byContradiction
          intro hne
          exact hdue (.inr ⟨hb, hne⟩)
        rw [hpr, hf]
        simp
    exact Refine2.pushRange_refines_specRun_whole cfg w range hdry hT hclean hpf hterm hrun hnb hio q

#print axioms saveBackup_wstep
#print axioms putFile_wstep
#print axioms saveBackups_nodes
#print axioms putBackups_nodes
#print axioms afterW_congr
#print axioms lastW_writesD
#print axioms appliedPhase_agree'
#print axioms applyFPTree_touched
#print axioms applyFP_frame
#print axioms patch_touched
#print axioms applyRangeTree_binv
#print axioms applyFilePatches_names
#print axioms applyLoop_nstack
#print axioms backupCalls_sound
#print axioms backupCalls_complete
#print axioms slotsD_of_loop
#print axioms lastW_agree
#print axioms pushRange_pc_nodes

end RQ.BackupRefine
