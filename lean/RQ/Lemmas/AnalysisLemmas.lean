import RQ.Model.Analysis
/-!
# Lemmas about the line searcher and the multiapply analysis (`RQ/Model/Analysis.lean`)

`occB needle hay i`: the needle occurs in the haystack at position `i`.  The loop of the searcher,
started at `position`, computes (without ever leaving the haystack, with `hay.length + 1` passes at
most) the ascending list of the occurrences at positions `≥ position` (`loopC_spec`).
-/
namespace RQ.Analysis
open RQ

section
variable {α : Type} [DecidableEq α]

/-- the needle occurs in the haystack at position `i` -/
def occB (needle hay : List α) (i : Nat) : Bool :=
  decide ((hay.drop i).take needle.length = needle)

theorem occB_iff (needle hay : List α) (i : Nat) :
    occB needle hay i = true ↔ (hay.drop i).take needle.length = needle := by
  simp [occB]

/-- an occurrence of a non-empty needle lies inside the haystack -/
theorem occB_bound {needle hay : List α} {i : Nat} (hne : needle ≠ [])
    (h : occB needle hay i = true) : i + needle.length ≤ hay.length := by
  rw [occB_iff] at h
  have hl := congrArg List.length h
  have : 0 < needle.length := List.length_pos_iff.mpr hne
  simp only [List.length_take, List.length_drop] at hl
  omega

/-- every item under an occurrence is an item of the needle -/
theorem occB_item_mem {needle hay : List α} {i j : Nat} {x : α}
    (h : occB needle hay i = true) (hij : i ≤ j) (hj : j < i + needle.length)
    (hx : hay[j]? = some x) : x ∈ needle := by
  rw [occB_iff] at h
  apply List.mem_of_getElem? (i := j - i)
  rw [← h, List.getElem?_take, List.getElem?_drop]
  have h1 : j - i < needle.length := by omega
  have h2 : i + (j - i) = j := by omega
  simp only [h1, if_true, h2, hx]

/-! ### the inner scan -/

omit [DecidableEq α] in
theorem slice?_window (hay : List α) (pos n : Nat) (h : pos + n ≤ hay.length) :
    slice? hay pos (pos + n) = some ((hay.drop pos).take n) := by
  have h1 : pos ≤ pos + n ∧ pos + n ≤ hay.length := ⟨by omega, h⟩
  simp only [slice?, h1, and_self, if_true, Nat.add_sub_cancel_left]

/-- the inner scan stays inside the haystack and finds the first occurrence among the `k`
positions from `pos` on, if all these windows end inside the haystack -/
theorem scanC_spec (needle hay : List α) : ∀ (k pos : Nat), pos + k + needle.length ≤ hay.length + 1 →
    scanC needle hay k pos = some ((List.range' pos k).find? (occB needle hay)) := by
  intro k
  induction k with
  | zero => intro pos _; rfl
  | succ k ih =>
    intro pos h
    rw [scanC, slice?_window hay pos needle.length (by omega), List.range'_succ, List.find?_cons]
    by_cases hw : (hay.drop pos).take needle.length = needle
    · have : occB needle hay pos = true := (occB_iff _ _ _).mpr hw
      simp only [hw, if_true, this]
    · have : occB needle hay pos = false := by
        cases ho : occB needle hay pos with
        | false => rfl
        | true => exact absurd ((occB_iff _ _ _).mp ho) hw
      simp only [hw, if_false, this]
      exact ih (pos + 1) (by omega)

/-! ### filtering a range of positions -/

theorem filter_range'_none (f : Nat → Bool) (p k : Nat)
    (h : ∀ i, p ≤ i → i < p + k → f i = false) : (List.range' p k).filter f = [] := by
  rw [List.filter_eq_nil_iff]
  intro a ha
  rw [List.mem_range'_1] at ha
  simp [h a ha.1 ha.2]

/-- skipping `k` positions without a hit -/
theorem filter_range'_skip (f : Nat → Bool) (p k m : Nat) (hk : k ≤ m)
    (h : ∀ i, p ≤ i → i < p + k → f i = false) :
    (List.range' p m).filter f = (List.range' (p + k) (m - k)).filter f := by
  have e : List.range' p m = List.range' p k ++ List.range' (p + k) (m - k) := by
    have := @List.range'_append p k (m - k) 1
    rw [Nat.one_mul] at this
    rw [this]; congr 1; omega
  rw [e, List.filter_append, filter_range'_none f p k h, List.nil_append]

/-- the first hit among the positions from `p` on -/
theorem filter_range'_hit (f : Nat → Bool) (p pos m : Nat) (hp : p ≤ pos) (hm : pos < p + m)
    (hpos : f pos = true) (h : ∀ i, p ≤ i → i < pos → f i = false) :
    (List.range' p m).filter f = pos :: (List.range' (pos + 1) (p + m - (pos + 1))).filter f := by
  rw [filter_range'_skip f p (pos - p) m (by omega) (fun i h1 h2 => h i h1 (by omega))]
  have e1 : p + (pos - p) = pos := by omega
  have e2 : m - (pos - p) = (p + m - (pos + 1)) + 1 := by omega
  rw [e1, e2, List.range'_succ, List.filter_cons, hpos]
  rfl

/-! ### the loop -/

/-- **the loop of the searcher**: for a non-empty needle, started at `position ≤ hay.length` with
enough fuel, it never leaves the haystack, never runs out of fuel, and returns the ascending list of
the occurrences from `position` on -/
theorem loopC_spec {needle hay : List α} (hne : needle ≠ []) :
    ∀ (fuel p : Nat), p ≤ hay.length → hay.length < fuel + p →
      loopC needle hay fuel p = some ((List.range' p (hay.length - p)).filter (occB needle hay)) := by
  have hn : 0 < needle.length := List.length_pos_iff.mpr hne
  intro fuel
  induction fuel with
  | zero => intro p h1 h2; omega
  | succ fuel ih =>
    intro p hp hf
    rw [loopC]
    by_cases hend : p + needle.length > hay.length
    · -- search.rs:61: the needle cannot be there any more
      simp only [hend, if_true]
      rw [filter_range'_none]
      intro i h1 _
      cases ho : occB needle hay i with
      | false => rfl
      | true => have := occB_bound hne ho; omega
    · simp only [hend, if_false]
      -- search.rs:66: the index of the last item of the window is in range
      have hsub : csub (p + needle.length) 1 = some (p + needle.length - 1) := by
        simp only [csub]; rw [if_pos (by omega)]
      have hlt : p + needle.length - 1 < hay.length := by omega
      have hget : hay[p + needle.length - 1]? = some hay[p + needle.length - 1] :=
        List.getElem?_eq_getElem hlt
      simp only [hsub, hget]
      -- what both ways of skipping the window need
      have hskip : (∀ i, p ≤ i → i < p + needle.length → occB needle hay i = false) →
          loopC needle hay fuel (p + needle.length) =
            some ((List.range' p (hay.length - p)).filter (occB needle hay)) := by
        intro hno
        rw [ih (p + needle.length) (by omega) (by omega),
          filter_range'_skip _ p needle.length (hay.length - p) (by omega) hno]
        congr 3; omega
      by_cases hmem : needle.contains hay[p + needle.length - 1] = true
      · simp only [hmem, if_true]
        -- search.rs:69: `hay.len() + 1 - needle.len()` does not underflow
        have hlim : csub (hay.length + 1) needle.length = some (hay.length + 1 - needle.length) := by
          simp only [csub]; rw [if_pos (by omega)]
        simp only [hlim]
        -- search.rs:70: all windows of the scan are inside the haystack
        rw [scanC_spec needle hay _ p (by omega)]
        cases hfind : (List.range' p (min (p + needle.length) (hay.length + 1 - needle.length) - p)).find?
            (occB needle hay) with
        | none =>
          simp only []
          apply hskip
          intro i h1 h2
          cases ho : occB needle hay i with
          | false => rfl
          | true =>
            have hb := occB_bound hne ho
            have := List.find?_range'_eq_none.mp hfind i h1 (by omega)
            simp [ho] at this
        | some pos =>
          simp only []
          obtain ⟨hpos, hin, hbefore⟩ := List.find?_range'_eq_some.mp hfind
          rw [List.mem_range'_1] at hin
          rw [ih (pos + 1) (by omega) (by omega), Option.map_some,
            filter_range'_hit _ p pos (hay.length - p) hin.1 (by omega) hpos
              (fun i h1 h2 => by simpa using hbefore i h1 h2)]
          congr 4; omega
      · -- search.rs:67: the last item of the window is not in the needle: no occurrence starts in it
        simp only [hmem]
        apply hskip
        intro i h1 h2
        cases ho : occB needle hay i with
        | false => rfl
        | true =>
          exfalso; apply hmem
          rw [List.contains_iff_mem]
          exact occB_item_mem ho (by omega) (by omega) hget

/-- without the empty-needle test in front of it, the loop panics at once on an empty needle
(`position + 0 - 1` underflows at position 0; the seeded defect) -/
theorem loopC_nil_panics (hay : List α) (fuel : Nat) : loopC ([] : List α) hay fuel 0 = none := by
  cases fuel with
  | zero => rfl
  | succ fuel => simp [loopC, csub]

theorem searchAllC_nil (hay : List α) : searchAllC ([] : List α) hay = some [] := rfl

theorem searchAllC_of_ne {needle hay : List α} (hne : needle ≠ []) :
    searchAllC needle hay = some ((List.range' 0 hay.length).filter (occB needle hay)) := by
  have : needle.isEmpty = false := by cases needle with
    | nil => exact absurd rfl hne
    | cons a l => rfl
  rw [searchAllC, this]
  exact loopC_spec hne (hay.length + 1) 0 (Nat.zero_le _) (by omega)

theorem searchAll_of_ne {needle hay : List α} (hne : needle ≠ []) :
    searchAll needle hay = (List.range hay.length).filter (occB needle hay) := by
  rw [searchAll, searchAllC_of_ne hne, List.range_eq_range']; rfl

theorem searchAll_nil (hay : List α) : searchAll ([] : List α) hay = [] := rfl

/-! ### the multiapply analysis -/

omit [DecidableEq α] in
/-- what `noOverlap` decides -/
theorem noOverlap_iff (hunks : List (Hunk α)) (dir : Dir) (reps : List Rep) (r : Int × Int) :
    noOverlap hunks dir reps r = true ↔
      ∀ oh line rb off diff fuzz, (oh, Rep.applied line rb off diff fuzz) ∈ hunks.zip reps →
        r.2 ≤ line ∨ line + ((view oh dir fuzz).rem.length : Int) ≤ r.1 := by
  rw [noOverlap, List.all_eq_true]
  constructor
  · intro h oh line rb off diff fuzz hm
    have := h _ hm
    simp only [Bool.not_eq_true', Bool.and_eq_false_iff, decide_eq_false_iff_not] at this
    omega
  · rintro h ⟨oh, orep⟩ hm
    cases orep with
    | applied line rb off diff fuzz =>
      have := h oh line rb off diff fuzz hm
      simp only [Bool.not_eq_true', Bool.and_eq_false_iff, decide_eq_false_iff_not]
      omega
    | failed r => rfl
    | skipped => rfl

/-- the places reported for a remove side: exactly the occurrences that overlap no applied hunk -/
theorem mem_placesOf (hunks : List (Hunk α)) (dir : Dir) (reps : List Rep) (content rc : List α)
    (pl : Int × Int) :
    pl ∈ placesOf hunks dir reps content rc ↔
      (∃ i : Nat, pl = ((i : Int), ((i + rc.length : Nat) : Int)) ∧ rc ≠ [] ∧
        (content.drop i).take rc.length = rc) ∧
      ∀ oh line rb off diff fuzz, (oh, Rep.applied line rb off diff fuzz) ∈ hunks.zip reps →
        pl.2 ≤ line ∨ line + ((view oh dir fuzz).rem.length : Int) ≤ pl.1 := by
  rw [placesOf, List.mem_filter, noOverlap_iff, List.mem_map]
  apply and_congr_left'
  constructor
  · rintro ⟨i, hi, rfl⟩
    by_cases hne : rc = []
    · subst hne; rw [searchAll_nil] at hi; cases hi
    · rw [searchAll_of_ne hne, List.mem_filter, occB_iff] at hi
      exact ⟨i, rfl, hne, hi.2⟩
  · rintro ⟨i, rfl, hne, hocc⟩
    refine ⟨i, ?_, rfl⟩
    rw [searchAll_of_ne hne, List.mem_filter, List.mem_range]
    have ho := (occB_iff rc content i).mpr hocc
    have := occB_bound hne ho
    have : 0 < rc.length := List.length_pos_iff.mpr hne
    exact ⟨by omega, ho⟩

/-- the notes of the loop started at index `i` on the list `l` of (hunk, report) pairs -/
theorem mem_multiApplyLoop (hunks : List (Hunk α)) (dir : Dir) (reps : List Rep) (content : List α) :
    ∀ (l : List (Hunk α × Rep)) (i : Nat) (note : Note),
      note ∈ multiApplyLoop hunks dir reps content i l →
      i ≤ note.hunk ∧
      (∀ j, j ≤ note.hunk - i → ∃ h line rb off diff fuzz,
        l[j]? = some (h, Rep.applied line rb off diff fuzz) ∧ (view h dir fuzz).position = Pos.middle) ∧
      ∃ h line rb off diff fuzz,
        l[note.hunk - i]? = some (h, Rep.applied line rb off diff fuzz) ∧
        note.line = line ∧ note.offset = off ∧
        note.places = placesOf hunks dir reps content (view h dir fuzz).rem ∧
        note.places ≠ [] := by
  intro l
  induction l with
  | nil => intro i note h; simp [multiApplyLoop] at h
  | cons hr rest ih =>
    intro i note hmem
    obtain ⟨h, rep⟩ := hr
    cases rep with
    | failed r => simp [multiApplyLoop] at hmem
    | skipped => simp [multiApplyLoop] at hmem
    | applied line rb off diff fuzz =>
      rw [multiApplyLoop] at hmem
      by_cases hpos : (view h dir fuzz).position = Pos.middle
      · simp only [hpos, ne_eq, not_true_eq_false, if_false] at hmem
        -- what the rest of the loop gives
        have hrest : note ∈ multiApplyLoop hunks dir reps content (i + 1) rest →
            i ≤ note.hunk ∧
            (∀ j, j ≤ note.hunk - i → ∃ h' line' rb' off' diff' fuzz',
              ((h, Rep.applied line rb off diff fuzz) :: rest)[j]? =
                some (h', Rep.applied line' rb' off' diff' fuzz') ∧
                (view h' dir fuzz').position = Pos.middle) ∧
            ∃ h' line' rb' off' diff' fuzz',
              ((h, Rep.applied line rb off diff fuzz) :: rest)[note.hunk - i]? =
                some (h', Rep.applied line' rb' off' diff' fuzz') ∧
              note.line = line' ∧ note.offset = off' ∧
              note.places = placesOf hunks dir reps content (view h' dir fuzz').rem ∧
              note.places ≠ [] := by
          intro hm
          obtain ⟨h1, h2, h3⟩ := ih (i + 1) note hm
          have e : note.hunk - i = (note.hunk - (i + 1)) + 1 := by omega
          refine ⟨by omega, ?_, ?_⟩
          · intro j hj
            cases j with
            | zero => exact ⟨h, line, rb, off, diff, fuzz, rfl, hpos⟩
            | succ j =>
              rw [List.getElem?_cons_succ]
              exact h2 j (by omega)
          · rw [e, List.getElem?_cons_succ]; exact h3
        by_cases hemp : (placesOf hunks dir reps content (view h dir fuzz).rem).isEmpty = true
        · simp only [hemp, if_true] at hmem
          exact hrest hmem
        · simp only [hemp, Bool.false_eq_true, if_false, List.mem_cons] at hmem
          rcases hmem with rfl | hmem
          · refine ⟨Nat.le_refl _, ?_, ?_⟩
            · intro j hj
              have : j = 0 := by simp only [Nat.sub_self] at hj; omega
              subst this
              exact ⟨h, line, rb, off, diff, fuzz, rfl, hpos⟩
            · refine ⟨h, line, rb, off, diff, fuzz, ?_, rfl, rfl, rfl, ?_⟩
              · simp only [Nat.sub_self]; rfl
              · intro hnil
                apply hemp
                simp only at hnil
                rw [hnil]; rfl
          · exact hrest hmem
      · simp [hpos] at hmem

end
end RQ.Analysis
