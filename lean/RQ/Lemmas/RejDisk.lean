import RQ.Lemmas.SaveFlush
import RQ.Lemmas.SpecAgreeFS
/-!
# The reject files on disk

`saveRejFiles` (`RQ/Model/Push.lean`, `save_rej_files` of `apply/common.rs`) writes the rendered reject files
`(name, content)` in list order; per file: unlink what is there, create the file — skipped when its directory
does not exist (`createFile` answers `NotFound`), or when something on the way to it is a regular file (`ENOTDIR`, treated
like `NotFound` since the repair of the finding `rej-dir-order`: `World.opRej`, `saveRejFiles_cons`) — and write the
content.  `SaveFlush.saveRejFiles_fileAt` is the frame (paths that are no reject path keep their file); this file says
what is *at* the reject paths.

* `saveRejFiles_isDir`: `saveRejFiles` neither creates nor removes a directory (`isDir` of every path is
  invariant), so the test "does the directory exist" has the same answer throughout the loop;
* `rejView`: the loop mirrored on the `fileAt` level — for each entry of the path, in order: the old file is
  unlinked *first*, so if the directory exists the path then holds `(content, 0o644)`, and if it does not the
  path holds nothing (a stale reject file disappears even though no new one is written);
* `saveRejFiles_written`: `fileAt w'.fs key = rejView w.fs rejs key`, provided that wherever the loop meets an entry
  for `key` whose path leads through a regular file (the entry is bypassed *before* the unlink), the directory of `key`
  does not exist and nothing is at `key` (`PathOk`, asked for as an invariant of the worlds).  The model's file system
  does not force the parents of a node to be directories; on trees that do (`Tight.WFo`) `PathOk` holds
  (`ParRefine.pathOk_of_wfo`).  Two readings need no well-formedness: `saveRejFiles_written_of_dirs` (the directory of
  `key` exists with all directories leading to it) and `saveRejFiles_written_of_clear` (no regular file on the way to
  `key`, and no reject of the list goes to a path on the way to `key`);
* `rejView_of_uniform`, `rejView_no_dir`: what that is when all rejects of a path carry the same content;
* `rollbackAndSaveBackups_isDir`: the backups that follow create directories below `.pc` only, so the directory
  test for a path outside `.pc` may be made on the final tree;
* `applyPatches_rej_on_disk`, `applyPatches_rej_no_dir`: the assembled statements for `applyPatches` (restated as
  `C13_rej_on_disk`, `C13_rej_no_dir`).
-/
namespace RQ.Flush
open RQ RQ.Push

/-! ## (1) operations on regular files leave the directories alone -/

theorem isDir_congr {a b : FS} {p : Key} (h : a.lookup p = b.lookup p) : a.isDir p = b.isDir p := by
  unfold FS.isDir; rw [h]

theorem isDir_withIno (fs : FS) (n : Nat) (p : Key) : ({ fs with nextIno := n } : FS).isDir p = fs.isDir p := rfl

theorem beq_dir_false {o : Option Node} (h : o ≠ some .dir) : (o == some Node.dir) = false := by
  rw [beq_eq_false_iff_ne]; exact h

/-- erasing a node that is no directory changes no directory test -/
theorem isDir_erase (fs : FS) (k p : Key) (h : fs.lookup k ≠ some .dir) : (fs.erase k).isDir p = fs.isDir p := by
  by_cases hp : p = k
  · subst hp
    unfold FS.isDir
    rw [FS.lookup_erase_self, beq_dir_false h, beq_dir_false (by simp)]
  · exact isDir_congr (FS.lookup_erase_ne fs k p hp)

/-- putting a regular file where no directory is changes no directory test -/
theorem isDir_set_file (fs : FS) (k p : Key) (c : Bytes) (m i : Nat) (h : fs.lookup k ≠ some .dir) :
    (fs.set k (.file c m i)).isDir p = fs.isDir p := by
  by_cases hp : p = k
  · subst hp
    unfold FS.isDir
    rw [FS.lookup_set_self, beq_dir_false h, beq_dir_false (by simp)]
  · exact isDir_congr (FS.lookup_set_ne fs k p _ hp)

theorem removeFile_isDir {fs fs' : FS} {k : Key} (h : fs.removeFile k = .ok fs') (p : Key) :
    fs'.isDir p = fs.isDir p := by
  have hl : fs.lookup k ≠ some .dir := by
    intro hl
    unfold FS.removeFile at h
    split at h
    · cases h
    · rw [hl] at h; cases h
  rw [FS.removeFile_ok h]
  exact isDir_erase fs k p hl

theorem createFile_isDir {fs fs' : FS} {k : Key} (h : fs.createFile k = .ok fs') (p : Key) :
    fs'.isDir p = fs.isDir p := by
  have hl := createFile_not_dir h
  unfold FS.createFile at h
  split at h
  · cases h
  · split at h
    · cases h
    · split at h
      · cases h
      · split at h
        · cases h
        · cases h; exact isDir_set_file fs k p _ _ _ hl
        · cases h; rw [isDir_withIno]; exact isDir_set_file fs k p _ _ _ hl

/-- `createFile` succeeds only if the directory exists -/
theorem createFile_ok_isDir {fs fs' : FS} {k : Key} (h : fs.createFile k = .ok fs') :
    fs.isDir k.dropLast = true := by
  unfold FS.createFile at h
  split at h
  · cases h
  · split at h
    · cases h
    · split at h
      · cases h
      · rename_i hd
        simpa using hd

/-- `createFile` answers `NotFound` only if the directory does not exist -/
theorem createFile_notFound_isDir {fs : FS} {k : Key} (h : fs.createFile k = .error .notFound) :
    fs.isDir k.dropLast = false := by
  unfold FS.createFile at h
  split at h
  · cases h
  · split at h
    · cases h
    · split at h
      · rename_i hd
        simpa using hd
      · split at h <;> cases h

theorem setMode_isDir (fs : FS) (k : Key) (mode : Nat) (p : Key) : (fs.setMode k mode).isDir p = fs.isDir p := by
  unfold FS.setMode
  split
  · rename_i hl
    exact isDir_set_file fs k p _ _ _ (by rw [hl]; simp)
  · rfl

theorem appendBytes_isDir (fs : FS) (k : Key) (b : Bytes) (p : Key) : (fs.appendBytes k b).isDir p = fs.isDir p := by
  unfold FS.appendBytes
  split
  · rename_i hl
    exact isDir_set_file fs k p _ _ _ (by rw [hl]; simp)
  · rfl

/-- the operations on regular files -/
def fileOp : Op → Bool
  | .removeFile _ | .createFile _ | .setMode _ _ | .write _ _ => true
  | _ => false

theorem run_isDir {fs fs' : FS} {o : Op} (ho : fileOp o = true) (h : Op.run fs o = .ok fs') (p : Key) :
    fs'.isDir p = fs.isDir p := by
  cases o with
  | removeFile k => exact removeFile_isDir h p
  | createFile k => exact createFile_isDir h p
  | setMode k m => cases h; exact setMode_isDir fs k m p
  | write k b => cases h; exact appendBytes_isDir fs k b p
  | createDirAll k => cases ho
  | removeDir k => cases ho
  | appendOpen k => cases ho

theorem op_ok_isDir {w w' : World} {o : Op} (ho : fileOp o = true) (e : w.op o = .ok w') (p : Key) :
    w'.fs.isDir p = w.fs.isDir p :=
  run_isDir ho (op_ok_run e).1 p

theorem op_notFound_isDir {w w' : World} {o : Op} (e : w.op o = .notFound w') (p : Key) :
    w'.fs.isDir p = w.fs.isDir p := by
  rw [(op_notFound_run e).2.1]

theorem writeNew_isDir {w w' : World} {k : Key} {perms : Option Nat} {content : Bytes}
    (h : writeNew w k perms content = .ok w') (p : Key) : w'.fs.isDir p = w.fs.isDir p := by
  unfold writeNew at h
  cases perms with
  | none =>
    simp only at h
    split at h
    · rename_i w2 hop
      cases h
      exact op_ok_isDir rfl hop p
    · cases h
    · cases h
  | some m =>
    simp only at h
    split at h
    · cases h
    · rename_i w1 heq
      split at heq
      · rename_i w1' hop1
        cases heq
        split at h
        · rename_i w2 hop
          cases h
          rw [op_ok_isDir rfl hop p, op_ok_isDir rfl hop1 p]
        · cases h
        · cases h
      · cases heq
      · cases heq

/-! ## (2) `saveRejFiles` -/

/-- `saveRejFiles` creates and removes no directory -/
theorem saveRejFiles_isDir (rejs : List (Bytes × Bytes)) : ∀ (w w' : World), saveRejFiles w rejs = .ok w' →
    ∀ p, w'.fs.isDir p = w.fs.isDir p := by
  induction rejs with
  | nil =>
    intro w w' h p
    unfold saveRejFiles at h
    cases h
    rfl
  | cons x rest ih =>
    intro w w' h p
    obtain ⟨name, content⟩ := x
    rw [saveRejFiles_cons] at h
    split at h
    · cases h
    · rename_i k hk
      split at h
      · split at h
        · cases h
        · split at h
          · cases h
          · exact ih _ w' h p
      have hcont : ∀ w0 : World, w0.fs.isDir p = w.fs.isDir p →
          (match w0.op (.createFile k) with
            | .notFound w' => saveRejFiles w' rest
            | .failed w' => .error (.err, w')
            | .ok w' =>
              match w'.op (.write k content) with
              | .ok w'' => saveRejFiles w'' rest
              | .notFound w'' | .failed w'' => .error (.err, w'')) = .ok w' →
          w'.fs.isDir p = w.fs.isDir p := by
        intro w0 a0 h
        split at h
        · rename_i w1 hop
          rw [ih w1 w' h p, op_notFound_isDir hop p, a0]
        · cases h
        · rename_i w1 hop
          split at h
          · rename_i w2 hop2
            rw [ih w2 w' h p, op_ok_isDir rfl hop2 p, op_ok_isDir rfl hop p, a0]
          · cases h
          · cases h
      split at h
      · cases h
      · rename_i w0 hop
        exact hcont w0 (op_ok_isDir rfl hop p) h
      · rename_i w0 hop
        exact hcont w0 (op_notFound_isDir hop p) h

/-- The loop of `saveRejFiles` on the `fileAt` level, at the path `key`, `cur` being what the path holds now:
an entry for another path changes nothing; an entry for this path first unlinks what is there and then, if the
directory of the path exists, leaves a new file with the entry's content and mode 644 — and nothing if the
directory does not exist (the unlink has happened all the same). -/
def rejStep (fs : FS) (key : Key) (cur : Option (Bytes × Nat)) : List (Bytes × Bytes) → Option (Bytes × Nat)
  | [] => cur
  | (name, content) :: rest =>
    if safeKey name = some key then
      rejStep fs key (if fs.isDir key.dropLast then some (content, 0o644) else none) rest
    else rejStep fs key cur rest

/-- what `saveRejFiles` leaves at `key`, started on the file system `fs` (the directory test may use `fs`
throughout: `saveRejFiles_isDir`) -/
def rejView (fs : FS) (rejs : List (Bytes × Bytes)) (key : Key) : Option (Bytes × Nat) :=
  rejStep fs key (fileAt fs key) rejs

theorem rejStep_cons_self {fs : FS} {key : Key} {cur : Option (Bytes × Nat)} {name content : Bytes}
    {rest : List (Bytes × Bytes)} (h : safeKey name = some key) :
    rejStep fs key cur ((name, content) :: rest) =
      rejStep fs key (if fs.isDir key.dropLast then some (content, 0o644) else none) rest := by
  rw [rejStep, if_pos h]

theorem rejStep_cons_ne {fs : FS} {key : Key} {cur : Option (Bytes × Nat)} {name content : Bytes}
    {rest : List (Bytes × Bytes)} (h : safeKey name ≠ some key) :
    rejStep fs key cur ((name, content) :: rest) = rejStep fs key cur rest := by
  rw [rejStep, if_neg h]

/-- What the mirror `rejStep` needs to know about a file system on which the loop meets an entry for `key`.
`save_rej_files` bypasses an entry whose path leads through a regular file (`ENOTDIR`); `rejStep` decides by the
directory test alone.  The two agree if, on such a file system, the directory of `key` does not exist and nothing is
at `key` — which is so on every tree whose nodes have directories as parents. -/
def PathOk (fs : FS) (key : Key) : Prop :=
  fs.fileOnPath key = true → fs.isDir key.dropLast = false ∧ fileAt fs key = none

theorem pathOk_of_clear {fs : FS} {key : Key} (h : fs.fileOnPath key = false) : PathOk fs key := by
  intro h'; rw [h] at h'; cases h'

/-- the loop entry by entry -/
theorem saveRejFiles_cons_bind (w : World) (x : Bytes × Bytes) (rest : List (Bytes × Bytes)) :
    saveRejFiles w (x :: rest) =
      match saveRejFiles w [x] with
      | .ok w1 => saveRejFiles w1 rest
      | .error e => .error e := by
  obtain ⟨name, content⟩ := x
  rw [saveRejFiles_cons, saveRejFiles_cons]
  cases safeKey name with
  | none => rfl
  | some k =>
    simp only
    have hnil : ∀ w1 : World, saveRejFiles w1 [] = .ok w1 := fun w1 => by rw [saveRejFiles]
    split
    · split
      · rfl
      · split
        · rfl
        · rw [hnil]
    · have hcont : ∀ w0 : World,
          (match w0.op (.createFile k) with
            | .notFound w' => saveRejFiles w' rest
            | .failed w' => .error (.err, w')
            | .ok w' =>
              match w'.op (.write k content) with
              | .ok w'' => saveRejFiles w'' rest
              | .notFound w'' | .failed w'' => .error (.err, w'')) =
          match (match w0.op (.createFile k) with
            | .notFound w' => saveRejFiles w' []
            | .failed w' => .error (.err, w')
            | .ok w' =>
              match w'.op (.write k content) with
              | .ok w'' => saveRejFiles w'' []
              | .notFound w'' | .failed w'' => .error (.err, w'')) with
          | .ok w1 => saveRejFiles w1 rest
          | .error e => .error e := by
        intro w0
        cases w0.op (.createFile k) with
        | notFound w1 => simp only [hnil]
        | failed w1 => rfl
        | ok w1 =>
          simp only
          cases w1.op (.write k content) with
          | ok w2 => simp only [hnil]
          | notFound w2 => rfl
          | failed w2 => rfl
      cases w.op (.removeFile k) with
      | failed w0 => rfl
      | ok w0 => exact hcont w0
      | notFound w0 => exact hcont w0

theorem rejStep_cons_one (fs : FS) (key : Key) (cur : Option (Bytes × Nat)) (x : Bytes × Bytes)
    (rest : List (Bytes × Bytes)) :
    rejStep fs key cur (x :: rest) = rejStep fs key (rejStep fs key cur [x]) rest := by
  obtain ⟨name, content⟩ := x
  by_cases hk : safeKey name = some key
  · rw [rejStep_cons_self hk, rejStep_cons_self hk]; rfl
  · rw [rejStep_cons_ne hk, rejStep_cons_ne hk]; rfl

/-- one entry: `fs0` is any file system with the directories of `w.fs` -/
theorem saveRejFiles_one_written (fs0 : FS) (key : Key) (name content : Bytes) (w w' : World)
    (hdir : ∀ p, w.fs.isDir p = fs0.isDir p) (hok : PathOk w.fs key)
    (h : saveRejFiles w [(name, content)] = .ok w') :
    fileAt w'.fs key = rejStep fs0 key (fileAt w.fs key) [(name, content)] := by
  have ih : ∀ (w w' : World), (∀ p, w.fs.isDir p = fs0.isDir p) → saveRejFiles w [] = .ok w' →
      fileAt w'.fs key = rejStep fs0 key (fileAt w.fs key) [] := by
    intro w w' _ h
    rw [saveRejFiles] at h
    cases h
    rfl
  generalize hrest : ([] : List (Bytes × Bytes)) = rest at h ih
  rw [saveRejFiles_cons] at h
  split at h
  · cases h
  · rename_i k hk
    split at h
    · -- the path leads through a regular file: the entry is bypassed, the file system is untouched
      rename_i hfp
      split at h
      · cases h
      · split at h
        · cases h
        · rw [ih ((w.logged (.removeFile k)).logged (.createFile k)) w' hdir h]
          subst hrest
          show fileAt w.fs key = _
          by_cases hkk : k = key
          · subst hkk
            obtain ⟨hnd, hnone⟩ := hok hfp
            rw [rejStep_cons_self hk, ← hdir, hnd, hnone]
            rfl
          · have hne : safeKey name ≠ some key := by
              rw [hk]; intro h'; injection h' with h'; exact hkk h'
            rw [rejStep_cons_ne hne]
            rfl
    -- what follows the unlink, from a world `w0` with no file at `k`, the files of `w` elsewhere, and
    -- the directories of `w`
    have hcont : ∀ w0 : World, fileAt w0.fs k = none →
        (∀ key', key' ≠ k → fileAt w0.fs key' = fileAt w.fs key') →
        (∀ p, w0.fs.isDir p = fs0.isDir p) →
        (match w0.op (.createFile k) with
          | .notFound w' => saveRejFiles w' rest
          | .failed w' => .error (.err, w')
          | .ok w' =>
            match w'.op (.write k content) with
            | .ok w'' => saveRejFiles w'' rest
            | .notFound w'' | .failed w'' => .error (.err, w'')) = .ok w' →
        fileAt w'.fs key = rejStep fs0 key (fileAt w.fs key) ((name, content) :: rest) := by
      intro w0 n0 a0 d0 h
      split at h
      · -- the directory does not exist: nothing is written
        rename_i w1 hop
        obtain ⟨g0, g1, _⟩ := op_notFound_run hop
        have hnd : fs0.isDir k.dropLast = false := by
          rw [← d0]; exact createFile_notFound_isDir g0
        have d1 : ∀ p, w1.fs.isDir p = fs0.isDir p := fun p => by rw [g1]; exact d0 p
        rw [ih w1 w' d1 h, g1]
        by_cases hkk : k = key
        · subst hkk
          rw [rejStep_cons_self hk, n0, hnd]
          rfl
        · have hne : safeKey name ≠ some key := by
            rw [hk]; intro h'; injection h' with h'; exact hkk h'
          rw [rejStep_cons_ne hne, a0 key (fun h' => hkk h'.symm)]
      · cases h
      · rename_i w1 hop
        obtain ⟨g1, _⟩ := op_ok_run hop
        have hd : fs0.isDir k.dropLast = true := by
          rw [← d0]; exact createFile_ok_isDir g1
        split at h
        · rename_i w2 hop2
          obtain ⟨e1, _⟩ := op_write_ok hop2
          have d2 : ∀ p, w2.fs.isDir p = fs0.isDir p := fun p => by
            rw [op_ok_isDir rfl hop2 p, op_ok_isDir rfl hop p]; exact d0 p
          rw [ih w2 w' d2 h]
          by_cases hkk : k = key
          · subst hkk
            rw [rejStep_cons_self hk, hd, e1, appendBytes_fileAt_self, createFile_fileAt_new g1 n0]
            rfl
          · have hne : safeKey name ≠ some key := by
              rw [hk]; intro h'; injection h' with h'; exact hkk h'
            have hkk' : key ≠ k := fun h' => hkk h'.symm
            rw [rejStep_cons_ne hne, e1, appendBytes_fileAt_ne _ _ _ _ hkk', createFile_fileAt_ne g1 hkk',
              a0 key hkk']
        · cases h
        · cases h
    split at h
    · cases h
    · rename_i w0 hop
      obtain ⟨g1, _⟩ := op_ok_run hop
      exact hcont w0 (removeFile_fileAt_self g1) (fun key' hk' => removeFile_fileAt_ne g1 hk')
        (fun p => by rw [op_ok_isDir rfl hop p]; exact hdir p) h
    · rename_i w0 hop
      obtain ⟨g0, g1, _⟩ := op_notFound_run hop
      exact hcont w0 (by rw [g1]; exact removeFile_notFound_fileAt g0) (fun key' _ => by rw [g1])
        (fun p => by rw [g1]; exact hdir p) h


/-- **what `saveRejFiles` leaves on disk** at the path `key`: the loop mirrored by `rejStep`, provided `PathOk`
holds wherever the loop meets an entry for `key`.  This is asked for as an invariant `J` of the worlds, kept by
every single entry of the list; `fs0` is any file system with the directories of `w.fs`. -/
theorem saveRejFiles_written_aux (fs0 : FS) (key : Key) (J : World → Prop) (hJ : ∀ w, J w → PathOk w.fs key)
    (rejs : List (Bytes × Bytes)) :
    (∀ (w : World) (x : Bytes × Bytes) (w1 : World), x ∈ rejs → J w → saveRejFiles w [x] = .ok w1 → J w1) →
    ∀ (w w' : World), J w → (∀ p, w.fs.isDir p = fs0.isDir p) → saveRejFiles w rejs = .ok w' →
      fileAt w'.fs key = rejStep fs0 key (fileAt w.fs key) rejs := by
  induction rejs with
  | nil =>
    intro _ w w' _ _ h
    rw [saveRejFiles] at h
    cases h
    rfl
  | cons x rest ih =>
    intro hstep w w' hj hdir h
    rw [saveRejFiles_cons_bind] at h
    split at h
    · rename_i w1 h1
      obtain ⟨name, content⟩ := x
      have hj1 : J w1 := hstep w _ w1 (List.mem_cons_self ..) hj h1
      have hd1 : ∀ p, w1.fs.isDir p = fs0.isDir p := fun p => by
        rw [saveRejFiles_isDir _ w w1 h1 p]; exact hdir p
      rw [ih (fun w x w1 hx => hstep w x w1 (List.mem_cons_of_mem _ hx)) w1 w' hj1 hd1 h,
        saveRejFiles_one_written fs0 key name content w w1 hdir (hJ w hj) h1, ← rejStep_cons_one]
    · cases h

/-- the same with `fs0 := w.fs` -/
theorem saveRejFiles_written (key : Key) (J : World → Prop) (hJ : ∀ w, J w → PathOk w.fs key)
    (rejs : List (Bytes × Bytes))
    (hstep : ∀ (w : World) (x : Bytes × Bytes) (w1 : World), x ∈ rejs → J w → saveRejFiles w [x] = .ok w1 → J w1)
    (w w' : World) (hj : J w) (h : saveRejFiles w rejs = .ok w') :
    fileAt w'.fs key = rejView w.fs rejs key :=
  saveRejFiles_written_aux w.fs key J hJ rejs hstep w w' hj (fun _ => rfl) h

/-- no regular file on the way to a path whose directory exists with all directories leading to it -/
theorem fileOnPath_of_dirs {fs : FS} {key : Key} (h : ∀ q, q <+: key.dropLast → fs.isDir q = true) :
    fs.fileOnPath key = false := by
  rw [Agree.fileOnPath_false_iff]
  intro q hs hq hf
  have hpre : q <+: key.dropLast := by
    have h1 := hs.1
    have : key.dropLast.take q.length = q := by
      rw [List.dropLast_eq_take, List.take_take, Nat.min_eq_left (by omega)]
      exact hs.2
    rw [← this]
    exact List.take_prefix _ _
  have hd := h q hpre
  unfold FS.isDir at hd
  rw [Bool.or_eq_true] at hd
  rcases hd with hd | hd
  · exact hq (by simpa using hd)
  · have : fs.lookup q = some .dir := by simpa using hd
    rw [this] at hf
    exact hf

/-- **first reading**: the directory of `key` exists with all directories leading to it — then no entry for `key` is
bypassed (`saveRejFiles` makes and removes no directory, so this stays so through the loop) -/
theorem saveRejFiles_written_of_dirs (rejs : List (Bytes × Bytes)) (w w' : World) (key : Key)
    (hup : ∀ q, q <+: key.dropLast → w.fs.isDir q = true) (h : saveRejFiles w rejs = .ok w') :
    fileAt w'.fs key = rejView w.fs rejs key :=
  saveRejFiles_written key (fun w => ∀ q, q <+: key.dropLast → w.fs.isDir q = true)
    (fun _ hj => pathOk_of_clear (fileOnPath_of_dirs hj)) rejs
    (fun w x w1 _ hj h1 q hq => by rw [saveRejFiles_isDir _ w w1 h1 q]; exact hj q hq) w w' hup h

theorem isFile_iff_fileAt_isSome (fs : FS) (q : Key) : Agree.IsFile (fs.lookup q) ↔ (fileAt fs q).isSome = true := by
  unfold fileAt
  cases fs.lookup q with
  | none => simp [Agree.IsFile]
  | some n => cases n <;> simp [Agree.IsFile]

/-- `fileOnPath` from the regular files at the strict prefixes -/
theorem fileOnPath_of_fileAt {a b : FS} {key : Key}
    (h : ∀ q, Agree.SPre q key → q ≠ [] → fileAt b q = fileAt a q) : b.fileOnPath key = a.fileOnPath key := by
  have hh : ∀ {a b : FS}, (∀ q, Agree.SPre q key → q ≠ [] → fileAt b q = fileAt a q) → a.fileOnPath key = false →
      b.fileOnPath key = false := by
    intro a b h ha
    rw [Agree.fileOnPath_false_iff] at ha ⊢
    intro q hs hq hf
    apply ha q hs hq
    rw [isFile_iff_fileAt_isSome] at hf ⊢
    rw [← h q hs hq]; exact hf
  cases ha : a.fileOnPath key with
  | false => exact hh h ha
  | true =>
    cases hb : b.fileOnPath key with
    | true => rfl
    | false => rw [hh (fun q hs hq => (h q hs hq).symm) hb] at ha; cases ha

/-- **second reading**: no regular file on the way to `key`, and no reject of the list goes to a path on the way to
`key` — then this stays so through the loop and no entry for `key` is bypassed -/
theorem saveRejFiles_written_of_clear (rejs : List (Bytes × Bytes)) (w w' : World) (key : Key)
    (hclear : w.fs.fileOnPath key = false) (hpre : ∀ q, isRejKey rejs q → ¬ Agree.SPre q key)
    (h : saveRejFiles w rejs = .ok w') :
    fileAt w'.fs key = rejView w.fs rejs key :=
  saveRejFiles_written key (fun w => w.fs.fileOnPath key = false) (fun _ hj => pathOk_of_clear hj) rejs
    (fun w x w1 hx hj h1 => by
      rw [← hj]
      apply fileOnPath_of_fileAt
      intro q hs _
      refine (saveRejFiles_fileAt [x] w w1 h1).2 q ?_
      rintro ⟨r, hr, hrq⟩
      simp only [List.mem_singleton] at hr
      subst hr
      exact hpre q ⟨r, hx, hrq⟩ hs) w w' hclear h

/-- the regular files on the way to `key` are untouched by a loop none of whose rejects goes there -/
theorem saveRejFiles_fileOnPath (rejs : List (Bytes × Bytes)) (w w' : World) (key : Key)
    (hpre : ∀ q, isRejKey rejs q → ¬ Agree.SPre q key) (h : saveRejFiles w rejs = .ok w') :
    w'.fs.fileOnPath key = w.fs.fileOnPath key :=
  fileOnPath_of_fileAt (fun q hs _ => (saveRejFiles_fileAt rejs w w' h).2 q (fun hq => hpre q hq hs))

/-! ### reading `rejView` -/

theorem rejStep_of_no_entry {fs : FS} {key : Key} {rejs : List (Bytes × Bytes)}
    (h : ∀ r ∈ rejs, safeKey r.1 ≠ some key) (cur : Option (Bytes × Nat)) : rejStep fs key cur rejs = cur := by
  induction rejs generalizing cur with
  | nil => rfl
  | cons x rest ih =>
    obtain ⟨name, content⟩ := x
    rw [rejStep_cons_ne (h (name, content) (List.mem_cons_self ..))]
    exact ih (fun r hr => h r (List.mem_cons_of_mem _ hr)) cur

/-- at a path that is no reject path the view is the old file (`saveRejFiles_fileAt`) -/
theorem rejView_of_not_rejKey {fs : FS} {key : Key} {rejs : List (Bytes × Bytes)} (h : ¬ isRejKey rejs key) :
    rejView fs rejs key = fileAt fs key :=
  rejStep_of_no_entry (fun r hr hk => h ⟨r, hr, hk⟩) _

theorem rejStep_uniform_cur {fs : FS} {key : Key} {content : Bytes} {rejs : List (Bytes × Bytes)}
    (hd : fs.isDir key.dropLast = true) (hu : ∀ r ∈ rejs, safeKey r.1 = some key → r.2 = content) :
    rejStep fs key (some (content, 0o644)) rejs = some (content, 0o644) := by
  induction rejs with
  | nil => rfl
  | cons x rest ih =>
    obtain ⟨name, c⟩ := x
    have ih' := ih (fun r hr => hu r (List.mem_cons_of_mem _ hr))
    by_cases hk : safeKey name = some key
    · have : c = content := hu (name, c) (List.mem_cons_self ..) hk
      subst this
      rw [rejStep_cons_self hk, hd]
      exact ih'
    · rw [rejStep_cons_ne hk]
      exact ih'

/-- the directory exists and every reject for the path carries the same content (in particular: there is
only one): the path holds that content, mode 644 -/
theorem rejStep_of_uniform {fs : FS} {key : Key} {content : Bytes} {rejs : List (Bytes × Bytes)}
    (hd : fs.isDir key.dropLast = true) (hu : ∀ r ∈ rejs, safeKey r.1 = some key → r.2 = content)
    (hex : ∃ r ∈ rejs, safeKey r.1 = some key) (cur : Option (Bytes × Nat)) :
    rejStep fs key cur rejs = some (content, 0o644) := by
  induction rejs generalizing cur with
  | nil => obtain ⟨r, hr, _⟩ := hex; cases hr
  | cons x rest ih =>
    obtain ⟨name, c⟩ := x
    have hu' : ∀ r ∈ rest, safeKey r.1 = some key → r.2 = content := fun r hr => hu r (List.mem_cons_of_mem _ hr)
    by_cases hk : safeKey name = some key
    · have : c = content := hu (name, c) (List.mem_cons_self ..) hk
      subst this
      rw [rejStep_cons_self hk, hd]
      exact rejStep_uniform_cur hd hu'
    · rw [rejStep_cons_ne hk]
      apply ih hu'
      obtain ⟨r, hr, hrk⟩ := hex
      cases hr with
      | head => exact absurd hrk hk
      | tail _ hr => exact ⟨r, hr, hrk⟩

theorem rejView_of_uniform {fs : FS} {key : Key} {content : Bytes} {rejs : List (Bytes × Bytes)}
    (hd : fs.isDir key.dropLast = true) (hu : ∀ r ∈ rejs, safeKey r.1 = some key → r.2 = content)
    (hex : isRejKey rejs key) : rejView fs rejs key = some (content, 0o644) :=
  rejStep_of_uniform hd hu hex _

theorem rejStep_none_cur {fs : FS} {key : Key} {rejs : List (Bytes × Bytes)}
    (hd : fs.isDir key.dropLast = false) : rejStep fs key none rejs = none := by
  induction rejs with
  | nil => rfl
  | cons x rest ih =>
    obtain ⟨name, c⟩ := x
    by_cases hk : safeKey name = some key
    · rw [rejStep_cons_self hk, hd]; exact ih
    · rw [rejStep_cons_ne hk]; exact ih

/-- the directory of a reject path does not exist: no reject file is written, and a stale one is gone -/
theorem rejView_no_dir {fs : FS} {key : Key} {rejs : List (Bytes × Bytes)}
    (hd : fs.isDir key.dropLast = false) (hex : isRejKey rejs key) : rejView fs rejs key = none := by
  unfold rejView
  generalize fileAt fs key = cur
  induction rejs generalizing cur with
  | nil => obtain ⟨r, hr, _⟩ := hex; cases hr
  | cons x rest ih =>
    obtain ⟨name, c⟩ := x
    by_cases hk : safeKey name = some key
    · rw [rejStep_cons_self hk, hd]; exact rejStep_none_cur hd
    · rw [rejStep_cons_ne hk]
      apply ih
      obtain ⟨r, hr, hrk⟩ := hex
      cases hr with
      | head => exact absurd hrk hk
      | tail _ hr => exact ⟨r, hr, hrk⟩

/-! ## (3) the backups create directories below `.pc` only -/

theorem head?_take_of_ne_nil {α : Type} : ∀ (l : List α) (i : Nat), l.take i ≠ [] → (l.take i).head? = l.head?
  | [], _, h => by simp at h
  | _ :: _, 0, h => by simp at h
  | _ :: _, _+1, _ => rfl

theorem head?_dropLast_of_ne_nil {α : Type} : ∀ (l : List α), l.dropLast ≠ [] → l.dropLast.head? = l.head?
  | [], h => by simp at h
  | [_], h => by simp at h
  | _ :: _ :: _, _ => rfl

/-- the directory of a path outside `.pc` is outside `.pc` -/
theorem not_isPcKey_dropLast {key : Key} (h : ¬ isPcKey key) : ¬ isPcKey key.dropLast := by
  unfold isPcKey at *
  by_cases hn : key.dropLast = []
  · rw [hn]; simp
  · rw [head?_dropLast_of_ne_nil key hn]; exact h

theorem createDirAll_fold_lookup (k p : Key) (l : List Nat)
    (hp : ∀ i ∈ l, k.take i ≠ [] → p ≠ k.take i) :
    ∀ (acc : Except IOErr FS) (fs' : FS),
      l.foldl (fun acc i =>
        match acc with
        | .error e => .error e
        | .ok f =>
          let p := k.take i
          if p == [] then .ok f
          else match f.lookup p with
            | some .dir => .ok f
            | some (.file ..) => .error .other
            | none => .ok (f.set p .dir)) acc = .ok fs' →
      ∃ fs, acc = .ok fs ∧ fs'.lookup p = fs.lookup p := by
  induction l with
  | nil =>
    intro acc fs' h
    exact ⟨fs', h, rfl⟩
  | cons i t ih =>
    intro acc fs' h
    rw [List.foldl_cons] at h
    obtain ⟨f1, h1, hs1⟩ := ih (fun j hj => hp j (List.mem_cons_of_mem _ hj)) _ _ h
    cases acc with
    | error e => simp at h1
    | ok f =>
      refine ⟨f, rfl, ?_⟩
      simp only at h1
      split at h1
      · cases h1; exact hs1
      · rename_i hne
        split at h1
        · cases h1; exact hs1
        · cases h1
        · cases h1
          rw [hs1]
          exact FS.lookup_set_ne f _ p _ (hp i (List.mem_cons_self ..) (by simpa using hne))

/-- `createDirAll` of a path whose non-empty prefixes are all below `.pc` changes nothing outside `.pc` -/
theorem createDirAll_isDir_of_pc {fs fs' : FS} {q : Key} (hq : isPcKey q)
    (h : fs.createDirAll q.dropLast = .ok fs') {p : Key} (hp : ¬ isPcKey p) : fs'.isDir p = fs.isDir p := by
  unfold FS.createDirAll at h
  obtain ⟨f, hf, hs⟩ := createDirAll_fold_lookup q.dropLast p _ (fun i _ hne hpe => by
    apply hp
    unfold isPcKey at *
    have hdl : q.dropLast ≠ [] := by
      intro h0; rw [h0] at hne; simp at hne
    rw [hpe, head?_take_of_ne_nil _ _ hne, head?_dropLast_of_ne_nil _ hdl]
    exact hq) _ _ h
  cases hf
  exact isDir_congr hs

theorem saveBackup_isDir {w w' : World} {patchName name : Bytes} {f : FileSt Bytes}
    (h : saveBackup w patchName name f = .ok w') {p : Key} (hp : ¬ isPcKey p) : w'.fs.isDir p = w.fs.isDir p := by
  unfold saveBackup at h
  split at h
  · cases h
  · rename_i k hk
    split at h
    · rename_i w1 hop1
      obtain ⟨g1, _⟩ := op_ok_run hop1
      have a1 : w1.fs.isDir p = w.fs.isDir p := createDirAll_isDir_of_pc (pcKey_isPcKey hk) g1 hp
      have hcont : ∀ w2 : World, w2.fs.isDir p = w.fs.isDir p →
          (match w2.op (.createFile k) with
            | .ok w => writeNew w k f.perms (bytesOf f.content)
            | .notFound w | .failed w => .error (.err, w)) = .ok w' →
          w'.fs.isDir p = w.fs.isDir p := by
        intro w2 a2 h
        split at h
        · rename_i w3 hop3
          rw [writeNew_isDir h p, op_ok_isDir rfl hop3 p, a2]
        · cases h
        · cases h
      split at h
      · cases h
      · rename_i w2 hop2
        exact hcont w2 (by rw [op_ok_isDir rfl hop2 p, a1]) h
      · rename_i w2 hop2
        exact hcont w2 (by rw [op_notFound_isDir hop2 p, a1]) h
    · cases h
    · cases h

theorem rollbackAndSaveBackups_isDir (ss : List Status) : ∀ (w w' : World) (mem mem' : Mem) (downTo : Nat),
    rollbackAndSaveBackups w mem ss downTo = .ok (w', mem') →
    ∀ p, ¬ isPcKey p → w'.fs.isDir p = w.fs.isDir p := by
  induction ss with
  | nil =>
    intro w w' mem mem' d h p _
    unfold rollbackAndSaveBackups at h
    cases h
    rfl
  | cons s rest ih =>
    intro w w' mem mem' d h p hp
    unfold rollbackAndSaveBackups at h
    split at h
    · cases h
      rfl
    · split at h
      · cases h
      · rename_i mem1 file _
        split at h
        · cases h
        · rename_i w1 heq
          have b := saveBackup_isDir heq hp
          split at h
          · split at h
            · cases h
            · rename_i newName _
              split at h
              · cases h
              · rename_i nf _
                split at h
                · cases h
                · rename_i w2 heq2
                  rw [ih w2 w' _ mem' d h p hp, saveBackup_isDir heq2 hp, b]
          · rw [ih w1 w' _ mem' d h p hp, b]

/-! ## (4) `applyPatches` -/

/-- the paths on the way to a path outside `.pc` are outside `.pc` -/
theorem not_isPcKey_of_prefix {q key : Key} (h : ¬ isPcKey key) (hq : q <+: key) : ¬ isPcKey q := by
  unfold isPcKey at *
  by_cases hn : q = []
  · rw [hn]; simp
  · have : q = key.take q.length := (List.prefix_iff_eq_take.mp hq)
    rw [this, head?_take_of_ne_nil key _ (by rw [← this]; exact hn)]
    exact h

theorem prefix_dropLast_of_spre {q key : Key} (hs : Agree.SPre q key) : q <+: key.dropLast := by
  have h1 := hs.1
  have : key.dropLast.take q.length = q := by
    rw [List.dropLast_eq_take, List.take_take, Nat.min_eq_left (by omega)]
    exact hs.2
  rw [← this]
  exact List.take_prefix _ _

/-- A real (non-dry) run of `applyPatches` that succeeds: the worlds `w2` the save phase (saving the cache, cleaning
empty directories) left and `w3` after the reject files; outside `.pc` the final tree has the regular files and the
directories of `w3` (the backups that follow write below `.pc` only). -/
theorem applyPatches_rejStages (w w' : World) (cfg : Cfg) (range : List Series.Entry) (st : St) (final k : Nat)
    (rejs : List (Bytes × Bytes)) (hdry : cfg.dryRun = false)
    (hloop : applyLoop w.fs cfg range 0 {} = .ok (st, final, rejs))
    (h : applyPatches w cfg range = .ok (w', k)) :
    ∃ w1 dirs w2 w3, saveAll w st.mem [] = .ok (w1, dirs) ∧ cleanAll w1 dirs = .ok w2 ∧
      saveRejFiles w2 rejs = .ok w3 ∧
      (∀ key, ¬ isPcKey key → fileAt w'.fs key = fileAt w3.fs key) ∧
      (∀ p, ¬ isPcKey p → w'.fs.isDir p = w3.fs.isDir p) := by
  unfold applyPatches at h
  rw [hloop] at h
  simp only [hdry, Bool.false_eq_true, if_false] at h
  split at h
  · cases h
  · rename_i w1 dirs hsave
    split at h
    · cases h
    · rename_i w2 hclean
      split at h
      · cases h
      · rename_i w3 hrej
        refine ⟨w1, dirs, w2, w3, hsave, hclean, hrej, ?_⟩
        split at h
        · split at h
          · cases h
          · rename_i w4 mem4 hbk
            cases h
            obtain ⟨_, b2⟩ := rollbackAndSaveBackups_fileAt _ _ _ _ _ _ hbk
            exact ⟨b2, rollbackAndSaveBackups_isDir _ _ _ _ _ _ hbk⟩
        · cases h
          exact ⟨fun _ _ => rfl, fun _ _ => rfl⟩

/-- **the reject files are on disk.**  A real run of `applyPatches` that succeeds, a rendered reject
`(name, content)` whose path `key` is outside `.pc`, no other reject for that path with a different content,
and the directory of `key` exists in the final tree, with the directories leading to it (`hdir`; so nothing on
the way to `key` is a regular file, and the reject was not bypassed): the file at `key` is `content` with mode 644. -/
theorem applyPatches_rej_on_disk (w w' : World) (cfg : Cfg) (range : List Series.Entry) (st : St) (final k : Nat)
    (rejs : List (Bytes × Bytes)) (hdry : cfg.dryRun = false)
    (hloop : applyLoop w.fs cfg range 0 {} = .ok (st, final, rejs))
    (h : applyPatches w cfg range = .ok (w', k))
    (name content : Bytes) (key : Key) (hmem : (name, content) ∈ rejs) (hkey : safeKey name = some key)
    (huniq : ∀ r ∈ rejs, safeKey r.1 = some key → r.2 = content)
    (hpc : ¬ isPcKey key) (hdir : ∀ q, q <+: key.dropLast → w'.fs.isDir q = true) :
    fileAt w'.fs key = some (content, 0o644) := by
  obtain ⟨w1, dirs, w2, w3, _, _, hrej, hf, hd⟩ := applyPatches_rejStages w w' cfg range st final k rejs hdry hloop h
  have hup : ∀ q, q <+: key.dropLast → w2.fs.isDir q = true := by
    intro q hq
    rw [← saveRejFiles_isDir rejs w2 w3 hrej q,
      ← hd q (not_isPcKey_of_prefix (not_isPcKey_dropLast hpc) hq)]
    exact hdir q hq
  rw [hf key hpc, saveRejFiles_written_of_dirs rejs w2 w3 key hup hrej]
  exact rejView_of_uniform (hup _ (List.prefix_refl _)) huniq ⟨(name, content), hmem, hkey⟩

/-- the other case: the directory of the reject path does not exist in the final tree — no reject file, and a
stale one from an earlier run has been unlinked; provided nothing on the way to `key` is a regular file in the final
tree (`hpath`) and no reject of the push goes to a path on the way to `key` (`hpre`) — so that `hpath` held already
when the loop met the rejects for `key`, and they were not bypassed with `ENOTDIR` before the unlink -/
theorem applyPatches_rej_no_dir (w w' : World) (cfg : Cfg) (range : List Series.Entry) (st : St) (final k : Nat)
    (rejs : List (Bytes × Bytes)) (hdry : cfg.dryRun = false)
    (hloop : applyLoop w.fs cfg range 0 {} = .ok (st, final, rejs))
    (h : applyPatches w cfg range = .ok (w', k))
    (key : Key) (hex : isRejKey rejs key) (hpc : ¬ isPcKey key) (hdir : w'.fs.isDir key.dropLast = false)
    (hpath : w'.fs.fileOnPath key = false) (hpre : ∀ q, isRejKey rejs q → ¬ q <+: key.dropLast) :
    fileAt w'.fs key = none := by
  obtain ⟨w1, dirs, w2, w3, _, _, hrej, hf, hd⟩ := applyPatches_rejStages w w' cfg range st final k rejs hdry hloop h
  have hpre' : ∀ q, isRejKey rejs q → ¬ Agree.SPre q key := fun q hq hs => hpre q hq (prefix_dropLast_of_spre hs)
  have hclear : w2.fs.fileOnPath key = false := by
    rw [← saveRejFiles_fileOnPath rejs w2 w3 key hpre' hrej, ← hpath]
    apply fileOnPath_of_fileAt
    intro q hs _
    exact (hf q (not_isPcKey_of_prefix (not_isPcKey_dropLast hpc) (prefix_dropLast_of_spre hs))).symm
  rw [hf key hpc, saveRejFiles_written_of_clear rejs w2 w3 key hclear hpre' hrej]
  refine rejView_no_dir ?_ hex
  rw [← saveRejFiles_isDir rejs w2 w3 hrej, ← hd _ (not_isPcKey_dropLast hpc)]
  exact hdir

end RQ.Flush
