import RQ.Model.Par
import RQ.Lemmas.ParSched
import RQ.Props.C07
import RQ.Spec.Abs
import RQ.Lemmas.RefineBase
/-! Helper lemmas for C06: frame/locality of `Abs.applyFP`, disjointness of the workers' names, sortedness
of the queues. -/
namespace RQ.Par
open RQ RQ.Push RQ.Parse RQ.Abs

/-! ### names of a file patch -/

theorem mem_fpNames_old {fp : PFilePatch} {x : Bytes} (h : fp.old = some x) : components x ∈ fpNames fp := by
  unfold fpNames; rw [h]; simp

theorem mem_fpNames_new {fp : PFilePatch} {x : Bytes} (h : fp.new = some x) : components x ∈ fpNames fp := by
  unfold fpNames; rw [h]; simp

theorem chooseA_is_name (t : ATree) (fs : FS) (old new : Option Bytes) (x : Bytes)
    (h : chooseA t fs old new = some x) : old = some x ∨ new = some x := by
  cases old with
  | none =>
    cases new with
    | none => cases h
    | some n => right; exact h
  | some o =>
    cases new with
    | none => left; exact h
    | some n =>
      rw [chooseA_some] at h
      split at h
      · left; exact h
      · split at h
        · left; exact h
        · right; exact h

theorem chooseA_mem {t : ATree} {fs : FS} {fp : PFilePatch} {x : Bytes}
    (h : chooseA t fs fp.old fp.new = some x) : components x ∈ fpNames fp := by
  rcases chooseA_is_name _ _ _ _ _ h with h | h
  · exact mem_fpNames_old h
  · exact mem_fpNames_new h

theorem chooseA_local {t t' : ATree} {fs : FS} {fp : PFilePatch}
    (h : ∀ n, components n ∈ fpNames fp → look t fs n = look t' fs n) :
    chooseA t fs fp.old fp.new = chooseA t' fs fp.old fp.new := by
  cases ho : fp.old with
  | none => cases fp.new <;> rfl
  | some o =>
    cases hn : fp.new with
    | none => rfl
    | some n => rw [chooseA_some, chooseA_some, oldThere_look, oldThere_look, h o (mem_fpNames_old ho)]

theorem look_put_ne (t : ATree) (fs : FS) (n n' : Bytes) (a : AFile) (h : components n' ≠ components n) :
    look (put t n a) fs n' = look t fs n' := by
  rw [look_put]
  have : (components n' == components n) = false := by simpa using h
  simp [this]

/-! ### frame -/

theorem applyFP_frame (t : ATree) (fs : FS) (cfg : Cfg) (e : Series.Entry) (fp : PFilePatch) (r : FPOut)
    (h : applyFP t fs cfg e fp = .ok r) (n : Bytes) (hn : components n ∉ fpNames fp) :
    look r.tree fs n = look t fs n := by
  unfold applyFP at h
  split at h
  · cases h
  · split at h
    · cases h
    · rename_i target hc
      have htm := chooseA_mem hc
      have hnt : components n ≠ components target := fun heq => hn (heq ▸ htm)
      split at h
      · cases h
      · rename_i file hl
        simp only at h
        split at h
        · split at h
          · cases h
          · rename_i newName hnew
            have hnn : components n ≠ components newName := fun heq => hn (heq ▸ mem_fpNames_new hnew)
            split at h
            · cases h
            · split at h
              · cases h; rfl
              · split at h
                · cases h
                · cases h
                  simp only
                  rw [look_put_ne _ _ _ _ _ hnn, look_put_ne _ _ _ _ _ hnt]
        · split at h
          · cases h
          · cases h
            simp only
            rw [look_put_ne _ _ _ _ _ hnt]

/-! ### locality -/

theorem applyFP_local (t t' : ATree) (fs : FS) (cfg : Cfg) (e : Series.Entry) (fp : PFilePatch)
    (h : ∀ n, components n ∈ fpNames fp → look t fs n = look t' fs n) :
    (match applyFP t fs cfg e fp, applyFP t' fs cfg e fp with
     | .ok r, .ok r' => r.ok = r'.ok ∧ r.rej = r'.rej ∧ ∀ n, components n ∈ fpNames fp → look r.tree fs n = look r'.tree fs n
     | .error x, .error x' => x = x'
     | _, _ => False) := by
  unfold applyFP
  rw [← chooseA_local h]
  by_cases hs : namesSafe fp = true
  · simp only [hs, Bool.not_true, Bool.false_eq_true, if_false]
    cases hc : chooseA t fs fp.old fp.new with
    | none => simp
    | some target =>
      have htm := chooseA_mem hc
      simp only
      rw [← h target htm]
      cases hl : look t fs target with
      | error x => simp
      | ok file =>
        simp only
        by_cases hr : fp.rename = true
        · simp only [hr, if_true]
          cases hnew : fp.new with
          | none => simp
          | some newName =>
            have hnm := mem_fpNames_new hnew
            simp only
            have hlk : look (put t' target { content := [], deleted := true, perms := none }) fs newName
                = look (put t target { content := [], deleted := true, perms := none }) fs newName := by
              rw [look_put, look_put, h newName hnm]
            rw [hlk]
            cases look (put t target { content := [], deleted := true, perms := none }) fs newName with
            | error x => simp
            | ok newFile =>
              simp only
              by_cases hov : (!newFile.content.isEmpty && !newFile.deleted) = true
              · simp only [hov, if_true]
                exact ⟨trivial, trivial, h⟩
              · simp only [hov, Bool.false_eq_true, if_false]
                cases fp.apply (if e.reverse = true then Dir.rev else Dir.fwd) cfg.fuzz
                    (concr { content := file.content, deleted := false, perms := file.perms }) with
                | none => simp
                | some p =>
                  simp only
                  refine ⟨trivial, trivial, ?_⟩
                  intro n hn
                  rw [look_put, look_put, look_put, look_put, h n hn]
        · simp only [hr, Bool.false_eq_true, if_false]
          cases fp.apply (if e.reverse = true then Dir.rev else Dir.fwd) cfg.fuzz (concr file) with
          | none => simp
          | some p =>
            simp only
            refine ⟨trivial, trivial, ?_⟩
            intro n hn
            rw [look_put, look_put, h n hn]
  · have hs' : namesSafe fp = false := by simpa using hs
    simp [hs']

/-! ### commutation -/

theorem applyFP_commute (t : ATree) (fs : FS) (cfg : Cfg) (e1 e2 : Series.Entry) (fp1 fp2 : PFilePatch)
    (hd : ∀ a ∈ fpNames fp1, a ∉ fpNames fp2) (r1 r2 : FPOut)
    (h1 : applyFP t fs cfg e1 fp1 = .ok r1) (h2 : applyFP r1.tree fs cfg e2 fp2 = .ok r2) :
    ∃ r2' r1', applyFP t fs cfg e2 fp2 = .ok r2' ∧ applyFP r2'.tree fs cfg e1 fp1 = .ok r1' ∧
      SameTree fs r1'.tree r2.tree ∧ r1'.ok = r1.ok ∧ r1'.rej = r1.rej ∧ r2'.ok = r2.ok ∧ r2'.rej = r2.rej := by
  have hd' : ∀ a ∈ fpNames fp2, a ∉ fpNames fp1 := fun a h2 h1 => hd a h1 h2
  -- fp2 sees in `t` what it sees after fp1
  have hA : ∀ n, components n ∈ fpNames fp2 → look t fs n = look r1.tree fs n :=
    fun n hn => (applyFP_frame t fs cfg e1 fp1 r1 h1 n (hd' _ hn)).symm
  have hL2 := applyFP_local t r1.tree fs cfg e2 fp2 hA
  rw [h2] at hL2
  cases h2' : applyFP t fs cfg e2 fp2 with
  | error x => rw [h2'] at hL2; exact hL2.elim
  | ok r2' =>
    rw [h2'] at hL2
    simp only at hL2
    obtain ⟨hok2, hrej2, hlk2⟩ := hL2
    -- fp1 sees after fp2 what it sees in `t`
    have hB : ∀ n, components n ∈ fpNames fp1 → look t fs n = look r2'.tree fs n :=
      fun n hn => (applyFP_frame t fs cfg e2 fp2 r2' h2' n (hd _ hn)).symm
    have hL1 := applyFP_local t r2'.tree fs cfg e1 fp1 hB
    rw [h1] at hL1
    cases h1' : applyFP r2'.tree fs cfg e1 fp1 with
    | error x => rw [h1'] at hL1; exact hL1.elim
    | ok r1' =>
      rw [h1'] at hL1
      simp only at hL1
      obtain ⟨hok1, hrej1, hlk1⟩ := hL1
      refine ⟨r2', r1', rfl, h1', ?_, hok1.symm, hrej1.symm, hok2, hrej2⟩
      intro n
      by_cases hn1 : components n ∈ fpNames fp1
      · rw [← hlk1 n hn1]
        exact (applyFP_frame r1.tree fs cfg e2 fp2 r2 h2 n (hd _ hn1)).symm
      · rw [applyFP_frame r2'.tree fs cfg e1 fp1 r1' h1' n hn1]
        by_cases hn2 : components n ∈ fpNames fp2
        · exact hlk2 n hn2
        · rw [applyFP_frame t fs cfg e2 fp2 r2' h2' n hn2,
            applyFP_frame r1.tree fs cfg e2 fp2 r2 h2 n hn2,
            applyFP_frame t fs cfg e1 fp1 r1 h1 n hn1]

/-! ### workers share no name -/

/-- the pair fed to the distributor carries the entry's worker key and all its names -/
theorem distPair_spec (fp : PFilePatch) (a : List Comp) (ha : a ∈ fpNames fp) :
    ∃ p, distPair fp = some p ∧
      (match fp.old.orElse (fun _ => fp.new) with | some n => components n = p.1 | none => False) ∧
      (a = p.1 ∨ p.2 = some a) := by
  unfold fpNames at ha
  unfold distPair
  cases ho : fp.old with
  | none =>
    cases hn : fp.new with
    | none => rw [ho, hn] at ha; simp at ha
    | some n =>
      rw [ho, hn] at ha
      simp at ha
      exact ⟨_, rfl, by simp, Or.inl ha⟩
  | some o =>
    cases hn : fp.new with
    | none =>
      rw [ho, hn] at ha
      simp at ha
      exact ⟨_, rfl, by simp, Or.inl ha⟩
    | some n =>
      rw [ho, hn] at ha
      simp only [List.cons_append, List.nil_append, List.mem_cons, List.not_mem_nil, or_false] at ha
      by_cases hc : components o = components n
      · have hb : (components o == components n) = true := by simpa using hc
        simp only [hb, if_true]
        refine ⟨_, rfl, by simp, Or.inl ?_⟩
        rcases ha with ha | ha
        · exact ha
        · rw [ha, hc]
      · have hb : (components o == components n) = false := by simpa using hc
        simp only [hb, Bool.false_eq_true, if_false]
        refine ⟨_, rfl, by simp, ?_⟩
        rcases ha with ha | ha
        · exact Or.inl ha
        · exact Or.inr (by rw [ha])

theorem workers_disjoint (threads : Nat) (ht : 0 < threads) (es : List QEntry) (q1 q2 : QEntry)
    (h1 : q1 ∈ es) (h2 : q2 ∈ es)
    (hw : workerOf (assignment threads es) q1 ≠ workerOf (assignment threads es) q2) :
    ∀ a ∈ fpNames q1.fp, a ∉ fpNames q2.fp := by
  intro a ha1 ha2
  obtain ⟨p1, hp1, hk1, hm1⟩ := distPair_spec q1.fp a ha1
  obtain ⟨p2, hp2, hk2, hm2⟩ := distPair_spec q2.fp a ha2
  have hp1m : p1 ∈ es.filterMap (fun q => distPair q.fp) := List.mem_filterMap.mpr ⟨q1, h1, hp1⟩
  have hp2m : p2 ∈ es.filterMap (fun q => distPair q.fp) := List.mem_filterMap.mpr ⟨q2, h2, hp2⟩
  have hw1 : workerOf (assignment threads es) q1 = (assignment threads es).worker p1.1 := by
    unfold workerOf
    cases hx : q1.fp.old.orElse (fun _ => q1.fp.new) with
    | none => rw [hx] at hk1; exact hk1.elim
    | some n => rw [hx] at hk1; simp only at hk1 ⊢; rw [hk1]
  have hw2 : workerOf (assignment threads es) q2 = (assignment threads es).worker p2.1 := by
    unfold workerOf
    cases hx : q2.fp.old.orElse (fun _ => q2.fp.new) with
    | none => rw [hx] at hk2; exact hk2.elim
    | some n => rw [hx] at hk2; simp only at hk2 ⊢; rw [hk2]
  rw [hw1, hw2] at hw
  exact C07_disjoint _ threads ht p1 p2 hp1m hp2m hw a hm1 hm2

/-! ### queues are sorted -/

theorem allEntries_ge (patches : List (Series.Entry × List PFilePatch)) :
    ∀ (i : Nat) (q : QEntry), q ∈ allEntries patches i → i ≤ q.idx := by
  induction patches with
  | nil => intro i q h; simp [allEntries] at h
  | cons p rest ih =>
    intro i q h
    obtain ⟨e, fps⟩ := p
    simp only [allEntries, List.mem_append, List.mem_map] at h
    rcases h with ⟨fp, _, rfl⟩ | h
    · exact Nat.le_refl _
    · have := ih (i + 1) q h
      omega

theorem allEntries_pairwise (patches : List (Series.Entry × List PFilePatch)) :
    ∀ (i : Nat), (allEntries patches i).Pairwise (fun a b => a.idx ≤ b.idx) := by
  induction patches with
  | nil => intro i; simp [allEntries]
  | cons p rest ih =>
    intro i
    obtain ⟨e, fps⟩ := p
    simp only [allEntries]
    rw [List.pairwise_append]
    refine ⟨?_, ih (i + 1), ?_⟩
    · rw [List.pairwise_map]
      exact List.pairwise_of_forall (fun _ _ => Nat.le_refl _)
    · intro a ha b hb
      rw [List.mem_map] at ha
      obtain ⟨fp, _, rfl⟩ := ha
      have := allEntries_ge rest (i + 1) b hb
      simp only
      omega

theorem getElem?_zipIdx_map_entries (q : List QEntry) (n : Nat) :
    (q.zipIdx.map (fun (x : QEntry × Nat) => ({ idx := x.1.idx, tag := x.2 } : Entry)))[n]?
      = q[n]?.map (fun e => ({ idx := e.idx, tag := n } : Entry)) := by
  rw [List.getElem?_map, List.getElem?_zipIdx]
  cases q[n]? <;> simp

theorem sorted_of_pairwise (q : List QEntry) (h : q.Pairwise (fun a b => a.idx ≤ b.idx)) :
    Sorted (q.zipIdx.map (fun (x : QEntry × Nat) => ({ idx := x.1.idx, tag := x.2 } : Entry))) := by
  intro i j e e' hij hi hj
  rw [getElem?_zipIdx_map_entries] at hi hj
  cases hqi : q[i]? with
  | none => rw [hqi] at hi; cases hi
  | some a =>
    cases hqj : q[j]? with
    | none => rw [hqj] at hj; cases hj
    | some b =>
      rw [hqi] at hi; rw [hqj] at hj
      simp only [Option.map_some, Option.some.injEq] at hi hj
      subst hi; subst hj
      simp only
      by_cases heq : i = j
      · subst heq
        rw [hqi] at hqj
        cases hqj
        exact Nat.le_refl _
      · obtain ⟨hi', rfl⟩ := List.getElem?_eq_some_iff.mp hqi
        obtain ⟨hj', rfl⟩ := List.getElem?_eq_some_iff.mp hqj
        exact List.pairwise_iff_getElem.mp h i j hi' hj' (by omega)

end RQ.Par
