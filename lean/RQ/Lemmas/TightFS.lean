import RQ.Lemmas.Tight
/-!
# Tight trees: files determine nodes; the file-system primitives keep the invariant

* Part A: `outsidePc_of_fileAt` — two tight trees that hold the same regular files outside `.pc` hold the same
  nodes outside `.pc`; `tight_of_pcOnly`.
* The invariant `TInv fs S` ("tight, except that the directories listed in `S` may be empty"): `Tight fs ↔ TInv fs []`
  (`tight_iff_tinv_nil`), and what every primitive of `RQ/Model/FS.lean` does to it:

  | primitive                  | before                  | after                      |
  |----------------------------|-------------------------|----------------------------|
  | `removeFile k`             | `TInv fs S`             | `TInv fs' (k.dropLast :: S)` |
  | `createDirAll d`           | `TInv fs S`             | `TInv fs' (d :: S)`          |
  | `createFile k`             | `TInv fs (k.dropLast :: S)` | `TInv fs' S`             |
  | `setMode`, `appendBytes`   | `TInv fs S`             | `TInv fs' S`               |
  | `removeDir k`              | `TInv fs (k :: S)`      | `TInv fs' (k.dropLast :: S)` |

  No hypothesis on the key is needed (below `.pc` or not): all fields of the invariant quantify over paths outside
  `.pc`, and a change below `.pc` is invisible to them.
* `PcOnly` for the primitives applied to a path below `.pc` (used for the backups).
-/
namespace RQ.Tight
open RQ RQ.Push RQ.Spec RQ.Flush RQ.Agree RQ.Compose
open RQ.ParSave (noIno noIno_cases)

/-! ## small facts -/

theorem isFile_iff {x : Option Node} : IsFile x ↔ ∃ c m i, x = some (.file c m i) := by
  cases x with
  | none => exact ⟨fun h => h.elim, fun ⟨_, _, _, h⟩ => by cases h⟩
  | some n =>
    cases n with
    | dir => exact ⟨fun h => h.elim, fun ⟨_, _, _, h⟩ => by cases h⟩
    | file c m i => exact ⟨fun _ => ⟨c, m, i, rfl⟩, fun _ => trivial⟩

theorem ne_nil_of_length_pos {k : Key} (h : 0 < k.length) : k ≠ [] := by
  intro e; rw [e] at h; exact Nat.lt_irrefl _ h

theorem length_pos_of_ne_nil {k : Key} (h : k ≠ []) : 0 < k.length :=
  Nat.pos_of_ne_zero (fun e => h (List.length_eq_zero_iff.mp e))

theorem mem_of_lookup {fs : FS} {k : Key} {n : Node} (h : fs.lookup k = some n) : (k, n) ∈ fs.nodes := by
  unfold FS.lookup at h
  rw [Option.map_eq_some_iff] at h
  obtain ⟨p, hp, rfl⟩ := h
  have h1 := List.mem_of_find?_eq_some hp
  have h2 := List.find?_some hp
  have : p.1 = k := by simpa using h2
  subst this
  exact h1

/-- a strict prefix of `k` is the parent of `k` or a strict prefix of the parent -/
theorem spre_dropLast_or_eq {e k : Key} (h : SPre e k) : e = k.dropLast ∨ SPre e k.dropLast := by
  by_cases hl : e.length = k.length - 1
  · left
    rw [List.dropLast_eq_take, ← hl]; exact h.2.symm
  · right
    have h1 := h.1
    refine ⟨by rw [List.length_dropLast]; omega, ?_⟩
    rw [List.dropLast_eq_take, List.take_take, Nat.min_eq_left (by omega)]
    exact h.2

theorem spre_take_succ {d : Key} {j : Nat} (h : j < d.length) : SPre (d.take j) (d.take (j + 1)) := by
  refine ⟨by simp only [List.length_take]; omega, ?_⟩
  rw [List.length_take, Nat.min_eq_left (Nat.le_of_lt h), List.take_take, Nat.min_eq_left (by omega)]

theorem take_eq_of_spre_take {k q : Key} {i : Nat} (hi : i < q.length) (h : q.take i = k) : SPre k q := by
  subst h
  exact spre_take hi

/-! ## Part A: files determine nodes -/

theorem file_transfer {a b : FS} (hma : Modeso a) (hmb : Modeso b) {k : Key} (hk : ¬ isPcKey k)
    (h : fileAt a k = fileAt b k) {c : Bytes} {m i : Nat} (ha : a.lookup k = some (.file c m i)) :
    ∃ i', b.lookup k = some (.file c m i') := by
  have h1 := fileAt_of_lookup_file ha
  rw [h] at h1
  cases hb : b.lookup k with
  | none => rw [fileAt_of_lookup_none hb] at h1; cases h1
  | some n =>
    cases n with
    | dir => rw [fileAt_of_lookup_dir hb] at h1; cases h1
    | file c' m' i' =>
      rw [fileAt_of_lookup_file hb] at h1
      simp only [Option.some.injEq, Prod.mk.injEq] at h1
      obtain ⟨hc, hm⟩ := h1
      have h2 := hma k hk _ _ _ ha
      have h3 := hmb k hk _ _ _ hb
      have : m' = m := by omega
      subst this; subst hc
      exact ⟨i', rfl⟩

theorem dir_transfer {a b : FS} (hfa : Fullo a) (hwb : WFo b) (h : ∀ k, ¬ isPcKey k → fileAt a k = fileAt b k)
    {k : Key} (hk0 : k ≠ []) (hk : ¬ isPcKey k) (ha : a.lookup k = some .dir) : b.lookup k = some .dir := by
  obtain ⟨q, hs, hf⟩ := hfa k hk0 hk ha
  have hq : ¬ isPcKey q := not_pc_of_take hk0 hk hs.2
  obtain ⟨c, m, i, hl⟩ := isFile_iff.mp hf
  have h1 := fileAt_of_lookup_file hl
  rw [h q hq] at h1
  cases hb : b.lookup q with
  | none => rw [fileAt_of_lookup_none hb] at h1; cases h1
  | some n =>
    have := hwb q hq n hb k.length (length_pos_of_ne_nil hk0) hs.1
    rw [hs.2] at this
    exact this

/-- **(S1)** two tight trees with the same regular files outside `.pc` have the same nodes outside `.pc` -/
theorem outsidePc_of_fileAt {a b : FS} (ha : Tight a) (hb : Tight b)
    (h : ∀ k, ¬ isPcKey k → fileAt a k = fileAt b k) : OutsidePc a b := by
  intro k hk
  by_cases hk0 : k = []
  · subst hk0; rw [ha.root, hb.root]
  · cases hla : a.lookup k with
    | none =>
      cases hlb : b.lookup k with
      | none => rfl
      | some n =>
        cases n with
        | dir =>
          have := dir_transfer hb.full ha.wf (fun q hq => (h q hq).symm) hk0 hk hlb
          rw [hla] at this; cases this
        | file c m i =>
          obtain ⟨i', e⟩ := file_transfer hb.modes ha.modes hk (h k hk).symm hlb
          rw [hla] at e; cases e
    | some n =>
      cases n with
      | dir => rw [dir_transfer ha.full hb.wf h hk0 hk hla]
      | file c m i =>
        obtain ⟨i', e⟩ := file_transfer ha.modes hb.modes hk (h k hk) hla
        rw [e]; rfl

/-- tightness only looks outside `.pc` -/
theorem tight_of_pcOnly {a b : FS} (h : PcOnly a b) (ha : Tight a) : Tight b where
  wf := by
    intro k hk n hn i h0 hi
    rw [h k hk] at hn
    rw [h _ (not_pc_take hk i)]
    exact ha.wf k hk n hn i h0 hi
  full := by
    intro d hd0 hd hl
    rw [h d hd] at hl
    obtain ⟨k, hs, hf⟩ := ha.full d hd0 hd hl
    refine ⟨k, hs, ?_⟩
    rw [h k (not_pc_of_take hd0 hd hs.2)]
    exact hf
  modes := by
    intro k hk c m i hl
    rw [h k hk] at hl
    exact ha.modes k hk c m i hl
  root := by rw [h [] not_pc_nil]; exact ha.root

/-! ## the invariant of the save phase -/

/-- a directory outside `.pc` (not the working directory) with no node at all below it -/
def EmptyDir (fs : FS) (e : Key) : Prop :=
  e ≠ [] ∧ ¬ isPcKey e ∧ fs.lookup e = some .dir ∧ ∀ q, SPre e q → fs.lookup q = none

/-- tight, except that the directories in `S` may be empty -/
structure TInv (fs : FS) (S : List Key) : Prop where
  wf : WFo fs
  modes : Modeso fs
  root : fs.lookup [] = none
  empties : ∀ e, EmptyDir fs e → e ∈ S

theorem TInv.weaken {fs : FS} {S S' : List Key} (h : TInv fs S) (hs : ∀ e, e ∈ S → EmptyDir fs e → e ∈ S') :
    TInv fs S' :=
  ⟨h.wf, h.modes, h.root, fun e he => hs e (h.empties e he) he⟩

theorem TInv.mono {fs : FS} {S S' : List Key} (h : TInv fs S) (hs : ∀ e, e ∈ S → e ∈ S') : TInv fs S' :=
  h.weaken (fun e he _ => hs e he)

theorem TInv.cons {fs : FS} {S : List Key} (h : TInv fs S) (x : Key) : TInv fs (x :: S) :=
  h.mono (fun _ he => List.mem_cons_of_mem _ he)

/-- a listed path that is not an empty directory can be dropped from the list -/
theorem TInv.drop {fs : FS} {S : List Key} {x : Key} (h : TInv fs (x :: S)) (hx : ¬ EmptyDir fs x) : TInv fs S := by
  refine h.weaken (fun e he hE => ?_)
  rcases List.mem_cons.mp he with rfl | he
  · exact absurd hE hx
  · exact he

theorem tinv_of_tight {fs : FS} (h : Tight fs) : TInv fs [] := by
  refine ⟨h.wf, h.modes, h.root, ?_⟩
  intro e ⟨he0, hep, hed, hemp⟩
  obtain ⟨k, hs, hf⟩ := h.full e he0 hep hed
  rw [hemp k hs] at hf
  exact hf.elim

theorem le_foldr_max : ∀ (l : List Nat) (x : Nat), x ∈ l → x ≤ l.foldr max 0
  | [], _, h => by cases h
  | y :: t, x, h => by
    rw [List.foldr_cons]
    rcases List.mem_cons.mp h with rfl | h
    · exact Nat.le_max_left _ _
    · exact Nat.le_trans (le_foldr_max t x h) (Nat.le_max_right _ _)

theorem exists_length_bound (fs : FS) : ∃ N, ∀ k n, fs.lookup k = some n → k.length ≤ N := by
  refine ⟨(fs.nodes.map (fun p => p.1.length)).foldr max 0, fun k n h => ?_⟩
  apply le_foldr_max
  exact List.mem_map.mpr ⟨(k, n), mem_of_lookup h, rfl⟩

theorem fullo_aux {fs : FS} (he : ∀ e, ¬ EmptyDir fs e) {N : Nat}
    (hN : ∀ k n, fs.lookup k = some n → k.length ≤ N) :
    ∀ (n : Nat) (d : Key), N - d.length ≤ n → d ≠ [] → ¬ isPcKey d → fs.lookup d = some .dir →
      ∃ k, SPre d k ∧ IsFile (fs.lookup k) := by
  intro n
  induction n with
  | zero =>
    intro d hn hd0 hdp hd
    have hne : ¬ ∀ q, SPre d q → fs.lookup q = none := fun hall => he d ⟨hd0, hdp, hd, hall⟩
    apply Classical.byContradiction
    intro hcon
    apply hne
    intro q hs
    cases hq : fs.lookup q with
    | none => rfl
    | some x =>
      have := hN q x hq
      have := hs.1
      omega
  | succ n ih =>
    intro d hn hd0 hdp hd
    have hne : ¬ ∀ q, SPre d q → fs.lookup q = none := fun hall => he d ⟨hd0, hdp, hd, hall⟩
    apply Classical.byContradiction
    intro hcon
    apply hne
    intro q hs
    cases hq : fs.lookup q with
    | none => rfl
    | some x =>
      exfalso
      apply hcon
      cases x with
      | file c m i => exact ⟨q, hs, by rw [hq]; trivial⟩
      | dir =>
        have h1 := hN q _ hq
        have h2 := hs.1
        have hq0 : q ≠ [] := ne_nil_of_length_pos (by omega)
        obtain ⟨k, hk, hf⟩ := ih q (by omega) hq0 (not_pc_of_take hd0 hdp hs.2) hq
        exact ⟨k, spre_trans hs hk, hf⟩

/-- no empty directory outside `.pc` means every directory has a regular file below it (go down: trees are finite) -/
theorem fullo_of_noEmpty {fs : FS} (he : ∀ e, ¬ EmptyDir fs e) : Fullo fs := by
  obtain ⟨N, hN⟩ := exists_length_bound fs
  intro d hd0 hdp hd
  exact fullo_aux he hN (N - d.length) d (Nat.le_refl _) hd0 hdp hd

theorem tight_of_tinv {fs : FS} (h : TInv fs []) : Tight fs :=
  ⟨h.wf, fullo_of_noEmpty (fun e he => by cases h.empties e he), h.modes, h.root⟩

theorem tight_iff_tinv_nil {fs : FS} : Tight fs ↔ TInv fs [] := ⟨tinv_of_tight, tight_of_tinv⟩

/-! ## what the primitives do, on the level of `lookup` -/

theorem removeFile_spec {fs fs' : FS} {k : Key} (h : fs.removeFile k = .ok fs') :
    fs' = fs.erase k ∧ ∃ c m i, fs.lookup k = some (.file c m i) := by
  refine ⟨FS.removeFile_ok h, ?_⟩
  unfold FS.removeFile at h
  split at h
  · cases h
  · split at h
    · rename_i c m i hl
      exact ⟨c, m, i, hl⟩
    · cases h
    · split at h <;> cases h

theorem removeDir_spec {fs fs' : FS} {k : Key} (h : fs.removeDir k = .ok fs') :
    fs' = fs.erase k ∧ k ≠ [] ∧ fs.lookup k = some .dir ∧
      ∀ q : Key, q.length = k.length + 1 → q.take k.length = k → fs.lookup q = none := by
  refine ⟨FS.removeDir_ok h, ?_, removeDir_lookup h, ?_⟩
  · intro e
    subst e
    unfold FS.removeDir at h
    simp at h
  · intro q h1 h2
    unfold FS.removeDir at h
    split at h
    · cases h
    · split at h
      · split at h
        · cases h
        · rename_i hany
          cases hq : fs.lookup q with
          | none => rfl
          | some n =>
            exfalso
            apply hany
            rw [hasChild_iff]
            exact ⟨q, h1, h2, by rw [hq]; rfl⟩
      · cases h
      · cases h

theorem removeDir_notFound {fs : FS} {k : Key} (h : fs.removeDir k = .error .notFound) : fs.lookup k = none := by
  unfold FS.removeDir at h
  split at h
  · cases h
  · split at h
    · split at h <;> cases h
    · cases h
    · assumption

theorem createFile_spec {fs fs' : FS} {k : Key} (h : fs.createFile k = .ok fs') :
    k ≠ [] ∧ fs.isDir k.dropLast = true ∧ (∀ q, q ≠ k → fs'.lookup q = fs.lookup q) ∧
      ∃ m i, fs'.lookup k = some (.file [] m i) ∧
        ((∃ c, fs.lookup k = some (.file c m i)) ∨ (fs.lookup k = none ∧ m = 0o644)) := by
  unfold FS.createFile at h
  split at h
  · cases h
  · rename_i hk0
    split at h
    · cases h
    · split at h
      · cases h
      · rename_i hdir
        refine ⟨by simpa using hk0, by simpa using hdir, ?_⟩
        split at h
        · cases h
        · rename_i c m i hl
          cases h
          exact ⟨fun q hq => FS.lookup_set_ne fs k q _ hq, m, i, FS.lookup_set_self fs k _, .inl ⟨c, hl⟩⟩
        · rename_i hl
          cases h
          exact ⟨fun q hq => FS.lookup_set_ne fs k q _ hq, _, _, FS.lookup_set_self fs k _, .inr ⟨hl, rfl⟩⟩

theorem cdaFold_spec (d : Key) : ∀ (n : Nat) (fs fs' : FS),
    (List.range n).foldl (cdaStep d) (.ok fs) = .ok fs' →
    (∀ q, fs'.lookup q = fs.lookup q ∨
      (fs.lookup q = none ∧ fs'.lookup q = some .dir ∧ q ≠ [] ∧ ∃ i, q = d.take i)) ∧
    (∀ i, i < n → d.take i ≠ [] → fs'.lookup (d.take i) = some .dir) := by
  intro n
  induction n with
  | zero =>
    intro fs fs' h
    cases h
    exact ⟨fun _ => .inl rfl, fun i hi => absurd hi (Nat.not_lt_zero _)⟩
  | succ n ih =>
    intro fs fs' h
    rw [List.range_succ, List.foldl_append, List.foldl_cons, List.foldl_nil] at h
    cases hf : (List.range n).foldl (cdaStep d) (.ok fs) with
    | error e => rw [hf] at h; cases h
    | ok f =>
      rw [hf] at h
      obtain ⟨ih1, ih2⟩ := ih fs f hf
      unfold cdaStep at h
      simp only at h
      split at h
      · rename_i hp
        cases h
        refine ⟨ih1, fun i hi hne => ?_⟩
        by_cases hin : i = n
        · subst hin; exact absurd (by simpa using hp) hne
        · exact ih2 i (by omega) hne
      · rename_i hp
        have hp' : d.take n ≠ [] := by simpa using hp
        split at h
        · rename_i hl
          cases h
          refine ⟨ih1, fun i hi hne => ?_⟩
          by_cases hin : i = n
          · subst hin; exact hl
          · exact ih2 i (by omega) hne
        · cases h
        · rename_i hl
          cases h
          refine ⟨fun q => ?_, fun i hi hne => ?_⟩
          · by_cases hq : q = d.take n
            · subst hq
              right
              refine ⟨?_, FS.lookup_set_self f _ _, hp', n, rfl⟩
              rcases ih1 (d.take n) with e | ⟨e, _⟩
              · rw [← e]; exact hl
              · exact e
            · rw [FS.lookup_set_ne f _ q _ hq]
              exact ih1 q
          · by_cases hq : d.take i = d.take n
            · rw [hq]; exact FS.lookup_set_self f _ _
            · rw [FS.lookup_set_ne f _ _ _ hq]
              exact ih2 i (by
                have : i ≠ n := fun e => hq (e ▸ rfl)
                omega) hne

/-- `mkdir -p d`: new directories at non-empty prefixes of `d`, nothing else; afterwards all of them exist -/
theorem createDirAll_spec {fs fs' : FS} {d : Key} (h : fs.createDirAll d = .ok fs') :
    (∀ q, fs'.lookup q = fs.lookup q ∨
      (fs.lookup q = none ∧ fs'.lookup q = some .dir ∧ q ≠ [] ∧ ∃ i, q = d.take i)) ∧
    (∀ i, d.take i ≠ [] → fs'.lookup (d.take i) = some .dir) := by
  rw [Agree.createDirAll_eq] at h
  obtain ⟨h1, h2⟩ := cdaFold_spec d _ _ _ h
  refine ⟨h1, fun i hne => ?_⟩
  by_cases hi : i < d.length + 1
  · exact h2 i hi hne
  · have e : d.take i = d.take d.length := by
      rw [List.take_length, List.take_of_length_le (by omega)]
    rw [e] at hne ⊢
    exact h2 d.length (by omega) hne

/-! ## the primitives and the invariant -/

/-- replacing a regular file by a regular file -/
theorem tinv_setFile {fs : FS} {S : List Key} {k : Key} {c c' : Bytes} {m m' i i' : Nat} (h : TInv fs S)
    (hl : fs.lookup k = some (.file c m i)) (hm : m' = m ∨ m' < 4096) : TInv (fs.set k (.file c' m' i')) S := by
  have hself := FS.lookup_set_self fs k (.file c' m' i')
  have hne : ∀ q, q ≠ k → (fs.set k (.file c' m' i')).lookup q = fs.lookup q :=
    fun q hq => FS.lookup_set_ne fs k q _ hq
  have hdir : ∀ q, fs.lookup q = some .dir → (fs.set k (.file c' m' i')).lookup q = some .dir := by
    intro q hq
    rw [hne q (fun e => by rw [e, hl] at hq; cases hq)]; exact hq
  have hnode : ∀ q n, (fs.set k (.file c' m' i')).lookup q = some n → ∃ n', fs.lookup q = some n' := by
    intro q n hq
    by_cases e : q = k
    · subst e; exact ⟨_, hl⟩
    · rw [hne q e] at hq; exact ⟨n, hq⟩
  refine ⟨?_, ?_, ?_, ?_⟩
  · intro q hq n hn j h0 hj
    obtain ⟨n', hn'⟩ := hnode q n hn
    exact hdir _ (h.wf q hq n' hn' j h0 hj)
  · intro q hq c1 m1 i1 hl1
    by_cases e : q = k
    · subst e
      rw [hself] at hl1
      cases hl1
      rcases hm with rfl | hm
      · exact h.modes q hq _ _ _ hl
      · exact hm
    · rw [hne q e] at hl1
      exact h.modes q hq _ _ _ hl1
  · rw [hne [] (fun e => by rw [← e, h.root] at hl; cases hl)]; exact h.root
  · intro e ⟨he0, hep, hed, hemp⟩
    apply h.empties
    have hek : e ≠ k := fun x => by rw [x, hself] at hed; cases hed
    refine ⟨he0, hep, by rw [← hne e hek]; exact hed, fun q hs => ?_⟩
    have := hemp q hs
    by_cases x : q = k
    · subst x; rw [hself] at this; cases this
    · rw [← hne q x]; exact this

theorem tinv_setMode {fs : FS} {S : List Key} (h : TInv fs S) (k : Key) (p : Nat) : TInv (fs.setMode k p) S := by
  unfold FS.setMode
  split
  · rename_i c m i hl
    exact tinv_setFile h hl (.inr (Nat.mod_lt _ (by decide)))
  · exact h

theorem tinv_appendBytes {fs : FS} {S : List Key} (h : TInv fs S) (k : Key) (b : Bytes) :
    TInv (fs.appendBytes k b) S := by
  unfold FS.appendBytes
  split
  · rename_i c m i hl
    exact tinv_setFile h hl (.inl rfl)
  · exact h

/-- erasing a node that has nothing (outside `.pc`) below it: its parent may become empty -/
theorem tinv_erase {fs : FS} {S : List Key} {k : Key} (h : TInv fs S)
    (hch : ∀ q, ¬ isPcKey q → SPre k q → fs.lookup q = none) : TInv (fs.erase k) (k.dropLast :: S) := by
  have hne : ∀ q, q ≠ k → (fs.erase k).lookup q = fs.lookup q := fun q hq => FS.lookup_erase_ne fs k q hq
  have hself := FS.lookup_erase_self fs k
  refine ⟨?_, ?_, ?_, ?_⟩
  · intro q hq n hn j h0 hj
    have hqk : q ≠ k := fun e => by rw [e, hself] at hn; cases hn
    rw [hne q hqk] at hn
    have hd := h.wf q hq n hn j h0 hj
    have : q.take j ≠ k := by
      intro e
      have := hch q hq (take_eq_of_spre_take hj e)
      rw [this] at hn; cases hn
    rw [hne _ this]; exact hd
  · intro q hq c m i hl
    have hqk : q ≠ k := fun e => by rw [e, hself] at hl; cases hl
    rw [hne q hqk] at hl
    exact h.modes q hq c m i hl
  · by_cases e : [] = k
    · subst e; exact hself
    · rw [hne [] e]; exact h.root
  · intro e ⟨he0, hep, hed, hemp⟩
    have hek : e ≠ k := fun x => by rw [x, hself] at hed; cases hed
    have hed' : fs.lookup e = some .dir := by rw [← hne e hek]; exact hed
    by_cases hall : ∀ q, SPre e q → fs.lookup q = none
    · exact List.mem_cons_of_mem _ (h.empties e ⟨he0, hep, hed', hall⟩)
    · -- the only node that disappeared is `k`
      have hsk : SPre e k := by
        apply Classical.byContradiction
        intro hns
        apply hall
        intro q hs
        have hqk : q ≠ k := fun x => hns (x ▸ hs)
        rw [← hne q hqk]; exact hemp q hs
      have hkp : ¬ isPcKey k := not_pc_of_take he0 hep hsk.2
      have hkn : ∃ n, fs.lookup k = some n := by
        cases hk : fs.lookup k with
        | some n => exact ⟨n, rfl⟩
        | none =>
          exfalso
          apply hall
          intro q hs
          by_cases x : q = k
          · rw [x]; exact hk
          · rw [← hne q x]; exact hemp q hs
      obtain ⟨n, hkn⟩ := hkn
      rcases spre_dropLast_or_eq hsk with rfl | hs2
      · exact List.mem_cons_self ..
      · exfalso
        have h1 := hs2.1
        rw [List.length_dropLast] at h1
        have hd := h.wf k hkp n hkn (k.length - 1) (by have := length_pos_of_ne_nil he0; omega) (by omega)
        rw [← List.dropLast_eq_take] at hd
        have hdk : k.dropLast ≠ k := fun x => by
          have := congrArg List.length x
          rw [List.length_dropLast] at this
          omega
        have := hemp _ hs2
        rw [hne _ hdk, hd] at this
        cases this

theorem tinv_removeFile {fs fs' : FS} {S : List Key} {k : Key} (h : TInv fs S) (hr : fs.removeFile k = .ok fs') :
    TInv fs' (k.dropLast :: S) := by
  obtain ⟨rfl, c, m, i, hl⟩ := removeFile_spec hr
  apply tinv_erase h
  intro q hq hs
  cases hql : fs.lookup q with
  | none => rfl
  | some n =>
    exfalso
    have hk0 : k ≠ [] := fun e => by rw [e, h.root] at hl; cases hl
    have := h.wf q hq n hql k.length (length_pos_of_ne_nil hk0) hs.1
    rw [hs.2, hl] at this
    cases this

/-- removing a directory that was allowed to be empty: now its parent is -/
theorem tinv_removeDir {fs fs' : FS} {S : List Key} {k : Key} (h : TInv fs (k :: S)) (hr : fs.removeDir k = .ok fs') :
    TInv fs' (k.dropLast :: S) := by
  obtain ⟨rfl, hk0, hl, hch⟩ := removeDir_spec hr
  have h1 : TInv (fs.erase k) (k.dropLast :: k :: S) := by
    apply tinv_erase h
    intro q hq hs
    cases hql : fs.lookup q with
    | none => rfl
    | some n =>
      exfalso
      -- the child of `k` on the way to `q` is a node
      have hlen := hs.1
      have hchild : fs.lookup (q.take (k.length + 1)) = none := by
        apply hch
        · rw [List.length_take]; omega
        · rw [List.take_take, Nat.min_eq_left (by omega)]; exact hs.2
      by_cases e : k.length + 1 = q.length
      · rw [e, List.take_length, hql] at hchild; cases hchild
      · have := h.wf q hq n hql (k.length + 1) (by omega) (by omega)
        rw [this] at hchild; cases hchild
  refine h1.weaken (fun e he hE => ?_)
  rcases List.mem_cons.mp he with rfl | he
  · exact List.mem_cons_self ..
  · rcases List.mem_cons.mp he with rfl | he
    · have := hE.2.2.1
      rw [FS.lookup_erase_self] at this; cases this
    · exact List.mem_cons_of_mem _ he

theorem tinv_createDirAll {fs fs' : FS} {S : List Key} {d : Key} (h : TInv fs S) (hc : fs.createDirAll d = .ok fs') :
    TInv fs' (d :: S) := by
  obtain ⟨h1, h2⟩ := createDirAll_spec hc
  have hdir : ∀ q, fs.lookup q = some .dir → fs'.lookup q = some .dir := by
    intro q hq
    rcases h1 q with e | ⟨e, _⟩
    · rw [e]; exact hq
    · rw [e] at hq; cases hq
  have hnone : ∀ q, fs'.lookup q = none → fs.lookup q = none := by
    intro q hq
    rcases h1 q with e | ⟨e, _⟩
    · rw [← e]; exact hq
    · exact e
  refine ⟨?_, ?_, ?_, ?_⟩
  · intro q hq n hn j h0 hj
    rcases h1 q with e | ⟨_, _, _, i, rfl⟩
    · rw [e] at hn
      exact hdir _ (h.wf q hq n hn j h0 hj)
    · rw [List.take_take]
      apply h2
      intro e
      have hlen : ((d.take i).take j).length = j := by
        rw [List.length_take]; omega
      rw [List.take_take, e] at hlen
      simp at hlen
      omega
  · intro q hq c m i hl
    rcases h1 q with e | ⟨_, e, _⟩
    · rw [e] at hl; exact h.modes q hq c m i hl
    · rw [e] at hl; cases hl
  · rcases h1 [] with e | ⟨_, _, e, _⟩
    · rw [e]; exact h.root
    · exact absurd rfl e
  · intro e ⟨he0, hep, hed, hemp⟩
    rcases h1 e with x | ⟨_, _, _, j, rfl⟩
    · rw [x] at hed
      exact List.mem_cons_of_mem _ (h.empties e ⟨he0, hep, hed, fun q hs => hnone q (hemp q hs)⟩)
    · by_cases hj : j < d.length
      · exfalso
        have hs := spre_take_succ hj
        have := hemp _ hs
        rw [h2 (j + 1) (by
          intro x
          have := congrArg List.length x
          simp only [List.length_take, List.length_nil] at this
          omega)] at this
        cases this
      · rw [List.take_of_length_le (by omega)]
        exact List.mem_cons_self ..

/-- creating (or truncating) a regular file: its parent is not empty any more -/
theorem tinv_createFile {fs fs' : FS} {S : List Key} {k : Key} (h : TInv fs (k.dropLast :: S))
    (hc : fs.createFile k = .ok fs') : TInv fs' S := by
  obtain ⟨hk0, hdir, hne, m, i, hself, hold⟩ := createFile_spec hc
  have hklen := length_pos_of_ne_nil hk0
  have hkdir : fs.lookup k ≠ some .dir := by
    rcases hold with ⟨c, e⟩ | ⟨e, _⟩ <;> rw [e] <;> exact fun x => by cases x
  refine ⟨?_, ?_, ?_, ?_⟩
  · intro q hq n hn j h0 hj
    by_cases e : q = k
    · subst e
      have hjk : q.take j ≠ q := fun x => by
        have := congrArg List.length x
        rw [List.length_take] at this
        omega
      rw [hne _ hjk]
      by_cases hjl : j = q.length - 1
      · subst hjl
        rw [← List.dropLast_eq_take]
        unfold FS.isDir at hdir
        have : q.dropLast ≠ [] := by
          apply ne_nil_of_length_pos
          rw [List.length_dropLast]; exact h0
        simpa [this] using hdir
      · have hdl : fs.lookup q.dropLast = some .dir := by
          unfold FS.isDir at hdir
          have : q.dropLast ≠ [] := by
            apply ne_nil_of_length_pos
            rw [List.length_dropLast]; omega
          simpa [this] using hdir
        have := h.wf q.dropLast (not_isPcKey_dropLast hq) _ hdl j h0 (by rw [List.length_dropLast]; omega)
        rw [List.dropLast_eq_take, List.take_take, Nat.min_eq_left (by omega)] at this
        exact this
    · rw [hne q e] at hn
      have hd := h.wf q hq n hn j h0 hj
      have : q.take j ≠ k := fun x => hkdir (x ▸ hd)
      rw [hne _ this]; exact hd
  · intro q hq c1 m1 i1 hl
    by_cases e : q = k
    · subst e
      rw [hself] at hl
      cases hl
      rcases hold with ⟨c, e⟩ | ⟨_, e⟩
      · exact h.modes q hq _ _ _ e
      · rw [e]; decide
    · rw [hne q e] at hl
      exact h.modes q hq _ _ _ hl
  · rw [hne [] (fun e => hk0 e.symm)]; exact h.root
  · intro e ⟨he0, hep, hed, hemp⟩
    have hek : e ≠ k := fun x => by rw [x, hself] at hed; cases hed
    have hnk : ¬ SPre e k := fun hs => by
      have := hemp k hs
      rw [hself] at this; cases this
    have hE : EmptyDir fs e := by
      refine ⟨he0, hep, by rw [← hne e hek]; exact hed, fun q hs => ?_⟩
      have hqk : q ≠ k := fun x => hnk (x ▸ hs)
      rw [← hne q hqk]; exact hemp q hs
    rcases List.mem_cons.mp (h.empties e hE) with rfl | he
    · exact absurd (dropLast_spre hk0) hnk
    · exact he

theorem tinv_createFile' {fs fs' : FS} {S : List Key} {k : Key} (h : TInv fs S)
    (hc : fs.createFile k = .ok fs') : TInv fs' S :=
  tinv_createFile (h.cons _) hc

/-! ## `dirEmpty` -/

theorem dirEmpty_notFound {fs : FS} {k : Key} (h : fs.dirEmpty k = .error .notFound) : fs.lookup k = none := by
  unfold FS.dirEmpty at h
  split at h
  · cases h
  · split at h
    · split at h
      · cases h
      · assumption
    · cases h

theorem dirEmpty_false {fs : FS} {k : Key} (h : fs.dirEmpty k = .ok false) :
    ∃ q, SPre k q ∧ (fs.lookup q).isSome = true := by
  unfold FS.dirEmpty at h
  split at h
  · cases h
  · split at h
    · split at h <;> cases h
    · injection h with h
      have : fs.nodes.any (fun p => p.1.length == k.length + 1 && p.1.take k.length == k) = true := by
        simpa using h
      rw [hasChild_iff] at this
      obtain ⟨q, h1, h2, h3⟩ := this
      exact ⟨q, ⟨by omega, h2⟩, h3⟩

/-! ## operations on a path below `.pc` change nothing outside -/

theorem pcOnly_erase (fs : FS) {k : Key} (hk : isPcKey k) : PcOnly fs (fs.erase k) :=
  fun q hq => FS.lookup_erase_ne fs k q (fun e => hq (e ▸ hk))

theorem pcOnly_removeFile {fs fs' : FS} {k : Key} (hk : isPcKey k) (h : fs.removeFile k = .ok fs') : PcOnly fs fs' := by
  rw [FS.removeFile_ok h]; exact pcOnly_erase fs hk

theorem pcOnly_removeDir {fs fs' : FS} {k : Key} (hk : isPcKey k) (h : fs.removeDir k = .ok fs') : PcOnly fs fs' := by
  rw [FS.removeDir_ok h]; exact pcOnly_erase fs hk

theorem pcOnly_createFile {fs fs' : FS} {k : Key} (hk : isPcKey k) (h : fs.createFile k = .ok fs') : PcOnly fs fs' :=
  fun q hq => (createFile_spec h).2.2.1 q (fun e => hq (e ▸ hk))

theorem pcOnly_setMode (fs : FS) {k : Key} (hk : isPcKey k) (p : Nat) : PcOnly fs (fs.setMode k p) := by
  intro q hq
  unfold FS.setMode
  split
  · exact FS.lookup_set_ne fs k q _ (fun e => hq (e ▸ hk))
  · rfl

theorem pcOnly_appendBytes (fs : FS) {k : Key} (hk : isPcKey k) (b : Bytes) : PcOnly fs (fs.appendBytes k b) := by
  intro q hq
  unfold FS.appendBytes
  split
  · exact FS.lookup_set_ne fs k q _ (fun e => hq (e ▸ hk))
  · rfl

/-- `mkdir -p` of the parent of a path below `.pc` (`.pc` itself included: then the parent is the working directory) -/
theorem pcOnly_createDirAll_dropLast {fs fs' : FS} {k : Key} (hk : isPcKey k)
    (h : fs.createDirAll k.dropLast = .ok fs') : PcOnly fs fs' := by
  intro q hq
  rcases (createDirAll_spec h).1 q with e | ⟨_, _, hq0, i, rfl⟩
  · exact e
  · exfalso
    apply hq
    unfold isPcKey at *
    have hdl : k.dropLast ≠ [] := by
      intro h0; rw [h0] at hq0; simp at hq0
    rw [head?_take_of_ne_nil _ _ hq0, head?_dropLast_of_ne_nil _ hdl]
    exact hk

end RQ.Tight

#print axioms RQ.Tight.outsidePc_of_fileAt
#print axioms RQ.Tight.tight_of_pcOnly
#print axioms RQ.Tight.tight_iff_tinv_nil
#print axioms RQ.Tight.tinv_removeFile
#print axioms RQ.Tight.tinv_removeDir
#print axioms RQ.Tight.tinv_createDirAll
#print axioms RQ.Tight.tinv_createFile
#print axioms RQ.Tight.tinv_setMode
#print axioms RQ.Tight.tinv_appendBytes
#print axioms RQ.Tight.pcOnly_createDirAll_dropLast
