import RQ.Lemmas.SpecAgree
import RQ.Lemmas.RejDisk
import RQ.Lemmas.FSInterleave
/-!
# Pushes compose (C09) — part 1: the tree outside `.pc`, up to inode numbers

`OutsidePc a b`: the two trees hold the same node (regular file with the same content and permission bits, or
directory, or nothing) at every path that is not below `.pc`; inode numbers are ignored (two runs allocate them
differently).  Every file-system primitive the specification `Spec.applyFPTree` uses is a congruence for this relation
as long as the path it is given is not below `.pc`; hence so are `storeTree`, `applyFPTree`, `applyPatchTree` and
`applyRangeTree` (`applyRangeTree_congr`).
-/
namespace RQ.Compose
open RQ RQ.Push RQ.Spec RQ.Flush RQ.Agree RQ.Parse RQ.Write
open RQ.ParSave (noIno noIno_cases)

/-! ## paths outside `.pc` -/

theorem not_pc_nil : ¬ isPcKey [] := by simp [isPcKey]

theorem not_pc_take {k : Key} (h : ¬ isPcKey k) (i : Nat) : ¬ isPcKey (k.take i) := by
  by_cases hn : k.take i = []
  · rw [hn]; exact not_pc_nil
  · unfold isPcKey at *
    rw [head?_take_of_ne_nil k i hn]; exact h

theorem not_pc_of_spre {q k : Key} (h : ¬ isPcKey k) (hs : SPre q k) : ¬ isPcKey q := by
  rw [spre_eq_take hs]; exact not_pc_take h _

/-- a path with a non-empty prefix outside `.pc` is outside `.pc` -/
theorem not_pc_of_take {q k : Key} (hk0 : k ≠ []) (h : ¬ isPcKey k) (hq : q.take k.length = k) : ¬ isPcKey q := by
  unfold isPcKey at *
  have : (q.take k.length).head? = q.head? := head?_take_of_ne_nil q _ (by rw [hq]; exact hk0)
  rw [← this, hq]; exact h

theorem pc_of_spre {q k : Key} (h : isPcKey q) (hs : SPre q k) : isPcKey k := by
  apply Classical.byContradiction
  intro hk
  exact not_pc_of_spre hk hs h

/-! ## the relation -/

/-- same nodes outside `.pc`, inode numbers ignored -/
def OutsidePc (a b : FS) : Prop := ∀ k, ¬ isPcKey k → (a.lookup k).map noIno = (b.lookup k).map noIno

theorem OutsidePc.refl (a : FS) : OutsidePc a a := fun _ _ => rfl
theorem OutsidePc.symm {a b : FS} (h : OutsidePc a b) : OutsidePc b a := fun k hk => (h k hk).symm
theorem OutsidePc.trans {a b c : FS} (h1 : OutsidePc a b) (h2 : OutsidePc b c) : OutsidePc a c :=
  fun k hk => (h1 k hk).trans (h2 k hk)

/-- exact agreement outside `.pc` (what the last phase of a push guarantees) -/
def PcOnly (a b : FS) : Prop := ∀ k, ¬ isPcKey k → b.lookup k = a.lookup k

theorem PcOnly.refl (a : FS) : PcOnly a a := fun _ _ => rfl
theorem PcOnly.trans {a b c : FS} (h1 : PcOnly a b) (h2 : PcOnly b c) : PcOnly a c :=
  fun k hk => (h2 k hk).trans (h1 k hk)
theorem PcOnly.outside {a b : FS} (h : PcOnly a b) : OutsidePc a b := fun k hk => by rw [h k hk]

section consequences
variable {a b : FS} (h : OutsidePc a b)
include h

theorem OutsidePc.isSome_eq {k : Key} (hk : ¬ isPcKey k) : (a.lookup k).isSome = (b.lookup k).isSome := by
  rcases noIno_cases (h k hk) with ⟨e1, e2⟩ | ⟨e1, e2⟩ | ⟨c, m, i, i', e1, e2⟩ <;> rw [e1, e2] <;> rfl

theorem OutsidePc.isDir_eq {k : Key} (hk : ¬ isPcKey k) : a.isDir k = b.isDir k := by
  unfold FS.isDir
  rcases noIno_cases (h k hk) with ⟨e1, e2⟩ | ⟨e1, e2⟩ | ⟨c, m, i, i', e1, e2⟩ <;> rw [e1, e2] <;> rfl

theorem OutsidePc.isFile_iff {k : Key} (hk : ¬ isPcKey k) : IsFile (a.lookup k) ↔ IsFile (b.lookup k) := by
  rcases noIno_cases (h k hk) with ⟨e1, e2⟩ | ⟨e1, e2⟩ | ⟨c, m, i, i', e1, e2⟩ <;> rw [e1, e2] <;> exact Iff.rfl

theorem OutsidePc.fileOnPath_eq {k : Key} (hk : ¬ isPcKey k) : a.fileOnPath k = b.fileOnPath k :=
  fileOnPath_congr (fun _ hs => (h.isFile_iff (not_pc_of_spre hk hs)))

theorem OutsidePc.fileAt_eq {k : Key} (hk : ¬ isPcKey k) : fileAt a k = fileAt b k := by
  unfold fileAt
  rcases noIno_cases (h k hk) with ⟨e1, e2⟩ | ⟨e1, e2⟩ | ⟨c, m, i, i', e1, e2⟩ <;> rw [e1, e2]

theorem OutsidePc.exists_eq {k : Key} (hk : ¬ isPcKey k) : a.exists_ k = b.exists_ k := by
  unfold FS.exists_
  rw [h.fileOnPath_eq hk, h.isSome_eq hk]

theorem OutsidePc.readFile_eq {k : Key} (hk : ¬ isPcKey k) : a.readFile k = b.readFile k := by
  unfold FS.readFile
  rw [h.fileOnPath_eq hk]
  rcases noIno_cases (h k hk) with ⟨e1, e2⟩ | ⟨e1, e2⟩ | ⟨c, m, i, i', e1, e2⟩ <;> rw [e1, e2]

end consequences

/-! ## `set`, `erase` -/

theorem OutsidePc.erase {a b : FS} (h : OutsidePc a b) (k : Key) : OutsidePc (a.erase k) (b.erase k) := by
  intro q hq
  by_cases e : q = k
  · subst e; rw [FS.lookup_erase_self, FS.lookup_erase_self]
  · rw [FS.lookup_erase_ne _ _ _ e, FS.lookup_erase_ne _ _ _ e]; exact h q hq

theorem OutsidePc.set {a b : FS} (h : OutsidePc a b) (k : Key) {n n' : Node} (hn : noIno n = noIno n') :
    OutsidePc (a.set k n) (b.set k n') := by
  intro q hq
  by_cases e : q = k
  · subst e; rw [FS.lookup_set_self, FS.lookup_set_self]; simp [hn]
  · rw [FS.lookup_set_ne _ _ _ _ e, FS.lookup_set_ne _ _ _ _ e]; exact h q hq

theorem OutsidePc.withIno {a b : FS} (h : OutsidePc a b) (n m : Nat) :
    OutsidePc { a with nextIno := n } { b with nextIno := m } := fun k hk => h k hk

/-- results related: both fail in the same way, or both succeed with related trees -/
def ExRel {ε α : Type} (R : α → α → Prop) : Except ε α → Except ε α → Prop
  | .ok a, .ok b => R a b
  | .error e, .error e' => e = e'
  | _, _ => False

theorem ExRel.ok_left {ε α : Type} {R : α → α → Prop} {x y : Except ε α} (h : ExRel R x y) {a : α} (hx : x = .ok a) :
    ∃ b, y = .ok b ∧ R a b := by
  subst hx
  cases y with
  | ok b => exact ⟨b, rfl, h⟩
  | error e => exact h.elim

theorem ExRel.err_left {ε α : Type} {R : α → α → Prop} {x y : Except ε α} (h : ExRel R x y) {e : ε} (hx : x = .error e) :
    y = .error e := by
  subst hx
  cases y with
  | ok b => exact h.elim
  | error e' => exact congrArg _ (Eq.symm h)

/-! ## the primitives -/

theorem removeFile_congr {a b : FS} (h : OutsidePc a b) {k : Key} (hk : ¬ isPcKey k) :
    ExRel OutsidePc (a.removeFile k) (b.removeFile k) := by
  unfold FS.removeFile
  rw [h.fileOnPath_eq hk]
  split
  · rfl
  · rcases noIno_cases (h k hk) with ⟨e1, e2⟩ | ⟨e1, e2⟩ | ⟨c, m, i, i', e1, e2⟩ <;> rw [e1, e2] <;> simp only
    · split <;> rfl
    · rfl
    · exact h.erase k

theorem cdaStep_congr {a b : FS} (h : OutsidePc a b) {d : Key} (hd : ¬ isPcKey d) (i : Nat) :
    ExRel OutsidePc (cdaStep d (.ok a) i) (cdaStep d (.ok b) i) := by
  unfold cdaStep
  simp only
  split
  · exact h
  · rcases noIno_cases (h (d.take i) (not_pc_take hd i)) with ⟨e1, e2⟩ | ⟨e1, e2⟩ | ⟨c, m, j, j', e1, e2⟩ <;>
      rw [e1, e2] <;> simp only
    · exact h.set _ rfl
    · exact h
    · rfl

theorem cdaFold_congr {d : Key} (hd : ¬ isPcKey d) : ∀ (l : List Nat) (x y : Except IOErr FS), ExRel OutsidePc x y →
    ExRel OutsidePc (l.foldl (cdaStep d) x) (l.foldl (cdaStep d) y) := by
  intro l
  induction l with
  | nil => intro x y h; exact h
  | cons i t ih =>
    intro x y h
    rw [List.foldl_cons, List.foldl_cons]
    apply ih
    cases x with
    | error e =>
      cases y with
      | error e' => exact h
      | ok b => exact h.elim
    | ok a =>
      cases y with
      | error e' => exact h.elim
      | ok b => exact cdaStep_congr h hd i

theorem createDirAll_congr {a b : FS} (h : OutsidePc a b) {d : Key} (hd : ¬ isPcKey d) :
    ExRel OutsidePc (a.createDirAll d) (b.createDirAll d) := by
  rw [createDirAll_eq, createDirAll_eq]
  exact cdaFold_congr hd _ _ _ h

theorem createFile_congr {a b : FS} (h : OutsidePc a b) {k : Key} (hk : ¬ isPcKey k) :
    ExRel OutsidePc (a.createFile k) (b.createFile k) := by
  unfold FS.createFile
  split
  · rfl
  · rw [h.fileOnPath_eq hk]
    split
    · rfl
    · rw [h.isDir_eq (not_isPcKey_dropLast hk)]
      split
      · rfl
      · rcases noIno_cases (h k hk) with ⟨e1, e2⟩ | ⟨e1, e2⟩ | ⟨c, m, i, i', e1, e2⟩ <;> rw [e1, e2] <;> simp only
        · exact OutsidePc.withIno (a := a.set k (.file [] 0o644 a.nextIno)) (b := b.set k (.file [] 0o644 b.nextIno))
            (h.set k rfl) _ _
        · rfl
        · exact h.set k rfl

theorem setMode_congr {a b : FS} (h : OutsidePc a b) {k : Key} (hk : ¬ isPcKey k) (p : Nat) :
    OutsidePc (a.setMode k p) (b.setMode k p) := by
  unfold FS.setMode
  rcases noIno_cases (h k hk) with ⟨e1, e2⟩ | ⟨e1, e2⟩ | ⟨c, m, i, i', e1, e2⟩ <;> rw [e1, e2] <;> simp only
  · exact h
  · exact h
  · exact h.set k rfl

theorem appendBytes_congr {a b : FS} (h : OutsidePc a b) {k : Key} (hk : ¬ isPcKey k) (x : Bytes) :
    OutsidePc (a.appendBytes k x) (b.appendBytes k x) := by
  unfold FS.appendBytes
  rcases noIno_cases (h k hk) with ⟨e1, e2⟩ | ⟨e1, e2⟩ | ⟨c, m, i, i', e1, e2⟩ <;> rw [e1, e2] <;> simp only
  · exact h
  · exact h
  · exact h.set k rfl

/-! ## directories: `dirEmpty`, `removeDir`, `pruneUp` -/

/-- "the directory `k` has an entry", in terms of `lookup` -/
theorem hasChild_iff (fs : FS) (k : Key) :
    fs.nodes.any (fun p => p.1.length == k.length + 1 && p.1.take k.length == k) = true ↔
      ∃ q : Key, q.length = k.length + 1 ∧ q.take k.length = k ∧ (fs.lookup q).isSome = true := by
  rw [List.any_eq_true]
  constructor
  · rintro ⟨p, hp, hc⟩
    simp only [Bool.and_eq_true, beq_iff_eq] at hc
    refine ⟨p.1, hc.1, hc.2, ?_⟩
    unfold FS.lookup
    rw [Option.isSome_map, List.find?_isSome]
    exact ⟨p, hp, by simp⟩
  · rintro ⟨q, h1, h2, h3⟩
    unfold FS.lookup at h3
    rw [Option.isSome_map, List.find?_isSome] at h3
    obtain ⟨p, hp, hpq⟩ := h3
    have : p.1 = q := by simpa using hpq
    refine ⟨p, hp, ?_⟩
    simp only [Bool.and_eq_true, beq_iff_eq]
    rw [this]; exact ⟨h1, h2⟩

theorem hasChild_congr {a b : FS} (h : OutsidePc a b) {k : Key} (hk0 : k ≠ []) (hk : ¬ isPcKey k) :
    a.nodes.any (fun p => p.1.length == k.length + 1 && p.1.take k.length == k) =
      b.nodes.any (fun p => p.1.length == k.length + 1 && p.1.take k.length == k) := by
  rw [Bool.eq_iff_iff, hasChild_iff, hasChild_iff]
  constructor
  · rintro ⟨q, h1, h2, h3⟩
    exact ⟨q, h1, h2, by rw [← h.isSome_eq (not_pc_of_take hk0 hk h2)]; exact h3⟩
  · rintro ⟨q, h1, h2, h3⟩
    exact ⟨q, h1, h2, by rw [h.isSome_eq (not_pc_of_take hk0 hk h2)]; exact h3⟩

theorem dirEmpty_congr {a b : FS} (h : OutsidePc a b) {k : Key} (hk0 : k ≠ []) (hk : ¬ isPcKey k) :
    a.dirEmpty k = b.dirEmpty k := by
  unfold FS.dirEmpty
  rw [h.fileOnPath_eq hk, h.isDir_eq hk, hasChild_congr h hk0 hk]
  split
  · rfl
  · split
    · rcases noIno_cases (h k hk) with ⟨e1, e2⟩ | ⟨e1, e2⟩ | ⟨c, m, i, i', e1, e2⟩ <;> rw [e1, e2]
    · rfl

theorem removeDir_congr {a b : FS} (h : OutsidePc a b) {k : Key} (hk : ¬ isPcKey k) :
    ExRel OutsidePc (a.removeDir k) (b.removeDir k) := by
  unfold FS.removeDir
  split
  · rfl
  · rename_i hk0
    have hk0' : k ≠ [] := by simpa using hk0
    rw [hasChild_congr h hk0' hk]
    rcases noIno_cases (h k hk) with ⟨e1, e2⟩ | ⟨e1, e2⟩ | ⟨c, m, i, i', e1, e2⟩ <;> rw [e1, e2] <;> simp only
    · rfl
    · split
      · rfl
      · exact h.erase k
    · rfl

theorem pruneUp_congr : ∀ (fuel : Nat) {a b : FS}, OutsidePc a b → ∀ {k : Key}, ¬ isPcKey k →
    OutsidePc (pruneUp a fuel k) (pruneUp b fuel k) := by
  intro fuel
  induction fuel with
  | zero => intro a b h k _; exact h
  | succ n ih =>
    intro a b h k hk
    unfold pruneUp
    split
    · exact h
    · rename_i hk0
      have hk0' : k ≠ [] := by simpa using hk0
      rw [dirEmpty_congr h hk0' hk]
      split
      · have hr := removeDir_congr h hk
        cases ha : a.removeDir k with
        | error e => rw [hr.err_left ha]; exact h
        | ok a' =>
          obtain ⟨b', hb, hab⟩ := hr.ok_left ha
          rw [hb]
          exact ih hab (not_isPcKey_dropLast hk)
      · exact h

/-! ## `loadTree`, `chooseTree`, `storeTree` -/

theorem loadTree_congr {a b : FS} (h : OutsidePc a b) {name : Bytes} (hn : ∀ k, safeKey name = some k → ¬ isPcKey k) :
    loadTree a name = loadTree b name := by
  unfold loadTree
  cases hk : safeKey name with
  | none => rfl
  | some k => simp only; rw [h.readFile_eq (hn k hk)]

theorem chooseTree_congr {a b : FS} (h : OutsidePc a b) {old new : Option Bytes}
    (hn : ∀ o, old = some o → ∀ k, safeKey o = some k → ¬ isPcKey k) :
    chooseTree a old new = chooseTree b old new := by
  unfold chooseTree
  cases old with
  | none => cases new <;> rfl
  | some o =>
    cases new with
    | none => rfl
    | some n =>
      simp only
      cases hk : safeKey o with
      | none => rfl
      | some k => simp only [h.exists_eq (hn o rfl k hk)]

theorem chooseTree_mem {fs : FS} {old new : Option Bytes} {x : Bytes} (h : chooseTree fs old new = some x) :
    old = some x ∨ new = some x := by
  unfold chooseTree at h
  cases old with
  | none =>
    cases new with
    | none => cases h
    | some n => exact .inr h
  | some o =>
    cases new with
    | none => exact .inl h
    | some n =>
      simp only at h
      (repeat' split at h) <;> first | exact .inl h | exact .inr h

theorem storeTree_eq (fs : FS) (name : Bytes) (f : FileSt Bytes) :
    storeTree fs name f = match safeKey name with
      | none => .error ()
      | some k =>
        match (if (fs.lookup k).isSome then (match fs.removeFile k with | .ok x => .ok x | .error _ => .error ())
               else (.ok fs : Except Unit FS)) with
        | .error e => .error e
        | .ok fs1 => storeRest fs1 k f (fs.lookup k).isSome := by
  unfold storeTree storeRest
  rfl

theorem storeRest_congr {a b : FS} (h : OutsidePc a b) {k : Key} (hk : ¬ isPcKey k) (f : FileSt Bytes) (e : Bool) :
    ExRel OutsidePc (storeRest a k f e) (storeRest b k f e) := by
  unfold storeRest
  split
  · split
    · exact pruneUp_congr _ h (not_isPcKey_dropLast hk)
    · exact h
  · have h1 := createDirAll_congr h (not_isPcKey_dropLast hk)
    cases ha : a.createDirAll k.dropLast with
    | error e1 => rw [h1.err_left ha]; trivial
    | ok a2 =>
      obtain ⟨b2, hb, h2⟩ := h1.ok_left ha
      rw [hb]
      simp only
      have h3 := createFile_congr h2 hk
      cases ha3 : a2.createFile k with
      | error e1 => rw [h3.err_left ha3]; trivial
      | ok a3 =>
        obtain ⟨b3, hb3, h4⟩ := h3.ok_left ha3
        rw [hb3]
        simp only
        apply appendBytes_congr _ hk
        cases f.perms with
        | none => exact h4
        | some p => exact setMode_congr h4 hk p

theorem storeTree_congr {a b : FS} (h : OutsidePc a b) {name : Bytes} (hn : ∀ k, safeKey name = some k → ¬ isPcKey k)
    (f : FileSt Bytes) : ExRel OutsidePc (storeTree a name f) (storeTree b name f) := by
  rw [storeTree_eq, storeTree_eq]
  cases hk : safeKey name with
  | none => trivial
  | some k =>
    have hk' := hn k hk
    simp only
    rw [h.isSome_eq hk']
    cases hs : (b.lookup k).isSome with
    | true =>
      simp only [if_true]
      have h1 := removeFile_congr h hk'
      cases ha : a.removeFile k with
      | error e1 => rw [h1.err_left ha]; trivial
      | ok a1 =>
        obtain ⟨b1, hb, h2⟩ := h1.ok_left ha
        rw [hb]
        exact storeRest_congr h2 hk' f _
    | false =>
      simp only [Bool.false_eq_true, if_false]
      exact storeRest_congr h hk' f _

/-! ## one file patch: what it reads (`fpPlan`) and what it writes (`runPlan`) -/

/-- what a file patch is going to do to the tree, once it has looked at it -/
inductive FPPlan
  | refuse
  /-- refused: the rename would overwrite a file -/
  | keep
  | store (target : Bytes) (f : FileSt Bytes) (ok : Bool) (rej : Option (Bytes × Bytes))
      (touched : List (Bytes × FileSt Bytes))
  | move (target : Bytes) (f0 : FileSt Bytes) (newName : Bytes) (f : FileSt Bytes) (ok : Bool)
      (rej : Option (Bytes × Bytes)) (touched : List (Bytes × FileSt Bytes))

/-- the reading half of `applyFPTree` -/
def fpPlan (fs : FS) (cfg : Cfg) (entry : Series.Entry) (fp : PFilePatch) : FPPlan :=
  if !namesSafe fp then .refuse else
  match chooseTree fs fp.old fp.new with
  | none => .refuse
  | some target =>
    match loadTree fs target with
    | .error _ => .refuse
    | .ok file =>
      let dir : Dir := if entry.reverse then .rev else .fwd
      if fp.rename then
        match fp.new with
        | none => .refuse
        | some newName =>
          match loadTree fs newName with
          | .error _ => .refuse
          | .ok newFile =>
            if components newName == components target then
              match fp.apply dir cfg.fuzz { file with deleted := false } with
              | none => .refuse
              | some (f', rep) =>
                if rep.ok then .store target f' true none [(target, file)]
                else .store target f' false (some (makeRejName target, writeRej fp rep)) []
            else if !newFile.content.isEmpty && !newFile.deleted then .keep
            else
              let moved : FileSt Bytes := { newFile with content := file.content, deleted := false, perms := file.perms }
              match fp.apply dir cfg.fuzz moved with
              | none => .refuse
              | some (f', rep) =>
                if rep.ok then
                  .move target { file with content := [], deleted := true } newName f' true none
                    [(target, file), (newName, newFile)]
                else
                  .move target { file with content := [], deleted := true } newName f' false
                    (some (makeRejName target, writeRej fp rep)) []
      else
        match fp.apply dir cfg.fuzz file with
        | none => .refuse
        | some (f', rep) =>
          if rep.ok then .store target f' true none [(target, file)]
          else .store target f' false (some (makeRejName target, writeRej fp rep)) []

/-- the writing half of `applyFPTree` -/
def runPlan (fs : FS) : FPPlan → Except Unit FPResult
  | .refuse => .error ()
  | .keep => .ok { fs, ok := false, rej := none, touched := [] }
  | .store target f ok rej touched =>
    match storeTree fs target f with
    | .error e => .error e
    | .ok fs' => .ok { fs := fs', ok, rej, touched }
  | .move target f0 newName f ok rej touched =>
    match storeTree fs target f0 with
    | .error e => .error e
    | .ok fs1 =>
      match storeTree fs1 newName f with
      | .error e => .error e
      | .ok fs2 => .ok { fs := fs2, ok, rej, touched }

theorem applyFPTree_eq (fs : FS) (cfg : Cfg) (entry : Series.Entry) (fp : PFilePatch) :
    applyFPTree fs cfg entry fp = runPlan fs (fpPlan fs cfg entry fp) := by
  unfold applyFPTree fpPlan
  cases hns : namesSafe fp with
  | false => rfl
  | true =>
    simp only [Bool.not_true, Bool.false_eq_true, if_false]
    cases hch : chooseTree fs fp.old fp.new with
    | none => rfl
    | some target =>
      simp only
      cases hl : loadTree fs target with
      | error e => rfl
      | ok file =>
        simp only
        generalize (if entry.reverse = true then Dir.rev else Dir.fwd) = dir
        cases hren : fp.rename with
        | false =>
          simp only [Bool.false_eq_true, if_false]
          cases happ : FilePatch.apply fp dir cfg.fuzz file with
          | none => rfl
          | some x =>
            obtain ⟨f', rep⟩ := x
            simp only
            cases hok : rep.ok <;> simp only [runPlan, Bool.false_eq_true, if_false, if_true] <;>
              cases storeTree fs target f' <;> rfl
        | true =>
          simp only [if_true]
          cases hnew : fp.new with
          | none => rfl
          | some newName =>
            simp only
            cases hl2 : loadTree fs newName with
            | error e => rfl
            | ok newFile =>
              simp only
              cases hself : (components newName == components target) with
              | true =>
                simp only [if_true]
                cases happ : FilePatch.apply fp dir cfg.fuzz { file with deleted := false } with
                | none => rfl
                | some x =>
                  obtain ⟨f', rep⟩ := x
                  simp only
                  cases hok : rep.ok <;> simp only [runPlan, Bool.false_eq_true, if_false, if_true] <;>
                    cases storeTree fs target f' <;> rfl
              | false =>
                simp only [Bool.false_eq_true, if_false]
                cases href : (!newFile.content.isEmpty && !newFile.deleted) with
                | true => rfl
                | false =>
                  simp only [Bool.false_eq_true, if_false]
                  cases happ : FilePatch.apply fp dir cfg.fuzz
                      { newFile with content := file.content, deleted := false, perms := file.perms } with
                  | none => rfl
                  | some x =>
                    obtain ⟨f', rep⟩ := x
                    simp only
                    cases hok : rep.ok <;> simp only [runPlan, Bool.false_eq_true, if_false, if_true] <;>
                      cases storeTree fs target { file with content := [], deleted := true } <;> simp only <;>
                      rename_i fs1 <;> cases storeTree fs1 newName f' <;> rfl

/-- the names of a file patch all have paths with the property `P` -/
def NamesSat (P : Key → Prop) (fp : PFilePatch) : Prop :=
  ∀ n, fp.old = some n ∨ fp.new = some n → ∀ k, safeKey n = some k → P k

/-- the names a plan writes to -/
def planNames : FPPlan → List Bytes
  | .refuse => []
  | .keep => []
  | .store target .. => [target]
  | .move target _ newName .. => [target, newName]

theorem planNames_sub {fs : FS} {cfg : Cfg} {entry : Series.Entry} {fp : PFilePatch} {n : Bytes}
    (h : n ∈ planNames (fpPlan fs cfg entry fp)) : fp.old = some n ∨ fp.new = some n := by
  unfold fpPlan at h
  split at h
  · cases h
  · split at h
    · cases h
    · rename_i target hch
      have hmem := chooseTree_mem hch
      split at h
      · cases h
      · simp only at h
        split at h
        · split at h
          · cases h
          · rename_i newName hnew
            split at h
            · cases h
            · split at h
              · split at h
                · cases h
                · split at h <;>
                  · simp only [planNames, List.mem_singleton] at h
                    subst h; exact hmem
              · split at h
                · cases h
                · split at h
                  · cases h
                  · split at h <;>
                    · simp only [planNames, List.mem_cons, List.not_mem_nil, or_false] at h
                      rcases h with h | h
                      · subst h; exact hmem
                      · subst h; exact .inr hnew
        · split at h
          · cases h
          · split at h <;>
            · simp only [planNames, List.mem_singleton] at h
              subst h; exact hmem

theorem fpPlan_congr {a b : FS} (h : OutsidePc a b) {fp : PFilePatch} (hn : NamesSat (fun k => ¬ isPcKey k) fp)
    (cfg : Cfg) (entry : Series.Entry) : fpPlan a cfg entry fp = fpPlan b cfg entry fp := by
  unfold fpPlan
  rw [chooseTree_congr h (fun o ho => hn o (.inl ho))]
  split
  · rfl
  · split
    · rfl
    · rename_i target hch
      have hmem := chooseTree_mem hch
      rw [loadTree_congr h (hn target hmem)]
      cases hnew : fp.new with
      | none => rfl
      | some newName =>
        simp only
        rw [loadTree_congr h (hn newName (.inr hnew))]

/-- results of a file patch that agree outside `.pc` -/
def FPRel (r r' : FPResult) : Prop :=
  OutsidePc r.fs r'.fs ∧ r.ok = r'.ok ∧ r.rej = r'.rej ∧ r.touched = r'.touched

theorem runPlan_congr {a b : FS} (h : OutsidePc a b) (pl : FPPlan)
    (hn : ∀ n ∈ planNames pl, ∀ k, safeKey n = some k → ¬ isPcKey k) :
    ExRel FPRel (runPlan a pl) (runPlan b pl) := by
  cases pl with
  | refuse => trivial
  | keep => exact ⟨h, rfl, rfl, rfl⟩
  | store target f ok rej touched =>
    simp only [runPlan]
    have h1 := storeTree_congr h (hn target (by simp [planNames])) f
    cases ha : storeTree a target f with
    | error e => rw [h1.err_left ha]; trivial
    | ok a1 =>
      obtain ⟨b1, hb, h2⟩ := h1.ok_left ha
      rw [hb]
      exact ⟨h2, rfl, rfl, rfl⟩
  | move target f0 newName f ok rej touched =>
    simp only [runPlan]
    have h1 := storeTree_congr h (hn target (by simp [planNames])) f0
    cases ha : storeTree a target f0 with
    | error e => rw [h1.err_left ha]; trivial
    | ok a1 =>
      obtain ⟨b1, hb, h2⟩ := h1.ok_left ha
      rw [hb]
      simp only
      have h3 := storeTree_congr h2 (hn newName (by simp [planNames])) f
      cases ha2 : storeTree a1 newName f with
      | error e => rw [h3.err_left ha2]; trivial
      | ok a2 =>
        obtain ⟨b2, hb2, h4⟩ := h3.ok_left ha2
        rw [hb2]
        exact ⟨h4, rfl, rfl, rfl⟩

/-- **one file patch is a congruence** for "same tree outside `.pc`" -/
theorem applyFPTree_congr {a b : FS} (h : OutsidePc a b) {fp : PFilePatch} (hn : NamesSat (fun k => ¬ isPcKey k) fp)
    (cfg : Cfg) (entry : Series.Entry) :
    ExRel FPRel (applyFPTree a cfg entry fp) (applyFPTree b cfg entry fp) := by
  rw [applyFPTree_eq, applyFPTree_eq, ← fpPlan_congr h hn]
  exact runPlan_congr h _ (fun n hmem => hn n (planNames_sub hmem))

/-! ## a patch, a range -/

def PatchRel (r r' : PatchResult) : Prop :=
  OutsidePc r.fs r'.fs ∧ r.ok = r'.ok ∧ r.rejs = r'.rejs ∧ r.touched = r'.touched

theorem applyPatchTree_congr (cfg : Cfg) (entry : Series.Entry) : ∀ (fps : List PFilePatch),
    (∀ fp ∈ fps, NamesSat (fun k => ¬ isPcKey k) fp) → ∀ (acc acc' : PatchResult), PatchRel acc acc' →
    ExRel PatchRel (applyPatchTree cfg entry fps acc) (applyPatchTree cfg entry fps acc') := by
  intro fps
  induction fps with
  | nil => intro _ acc acc' h; exact h
  | cons fp fps ih =>
    intro hn acc acc' h
    obtain ⟨h1, h2, h3, h4⟩ := h
    unfold applyPatchTree
    have hc := applyFPTree_congr h1 (hn fp (List.mem_cons_self ..)) cfg entry
    cases ha : applyFPTree acc.fs cfg entry fp with
    | error e => rw [hc.err_left ha]; trivial
    | ok r =>
      obtain ⟨r', hb, hr1, hr2, hr3, hr4⟩ := hc.ok_left ha
      rw [hb]
      simp only
      apply ih (fun fp' hm => hn fp' (List.mem_cons_of_mem _ hm))
      exact ⟨hr1, by rw [h2, hr2], by rw [h3, hr3], by rw [h4, hr4]⟩

/-- progress records that agree outside `.pc`; the first run is `dk` patches (with backup records `pre`) ahead -/
def ProgRel (dk : Nat) (pre : List (Bytes × List (Bytes × FileSt Bytes))) (pa pb : Progress) : Prop :=
  OutsidePc pa.fs pb.fs ∧ pa.k = pb.k + dk ∧ pa.rejs = pb.rejs ∧ pa.failed = pb.failed ∧
    pa.backups = pre ++ pb.backups

/-- **(1) congruence**: applying a range to two trees that agree outside `.pc` and have the same patch files, where no
patch names a path below `.pc`, gives trees that agree outside `.pc`, the same number of applied patches, the same
reject files and the same backup records (or both runs are refused) -/
theorem applyRangeTree_congr (cfg : Cfg) (a b : FS) (dk : Nat) (pre : List (Bytes × List (Bytes × FileSt Bytes))) :
    ∀ (range : List Series.Entry), (∀ e ∈ range, patchOf a cfg e = patchOf b cfg e) →
    (∀ e ∈ range, ∀ patch, patchOf a cfg e = some patch → ∀ fp ∈ patch.fps, NamesSat (fun k => ¬ isPcKey k) fp) →
    ∀ (pa pb : Progress), ProgRel dk pre pa pb →
    ExRel (ProgRel dk pre) (applyRangeTree cfg a range pa) (applyRangeTree cfg b range pb) := by
  intro range
  induction range with
  | nil => intro _ _ pa pb h; exact h
  | cons entry rest ih =>
    intro hpf hn pa pb h
    rw [applyRangeTree_cons, applyRangeTree_cons, ← hpf entry (List.mem_cons_self ..)]
    cases hp : patchOf a cfg entry with
    | none => trivial
    | some patch =>
      simp only
      obtain ⟨h1, h2, h3, h4, h5⟩ := h
      have hc := applyPatchTree_congr cfg entry patch.fps (hn entry (List.mem_cons_self ..) patch hp)
        { fs := pa.fs, ok := true, rejs := [], touched := [] } { fs := pb.fs, ok := true, rejs := [], touched := [] }
        ⟨h1, rfl, rfl, rfl⟩
      cases ha : applyPatchTree cfg entry patch.fps { fs := pa.fs, ok := true, rejs := [], touched := [] } with
      | error e => rw [hc.err_left ha]; trivial
      | ok r =>
        obtain ⟨r', hb, hr1, hr2, hr3, hr4⟩ := hc.ok_left ha
        rw [hb]
        simp only
        rw [← hr2]
        cases hok : r.ok with
        | true =>
          simp only [if_true]
          apply ih (fun e hm => hpf e (List.mem_cons_of_mem _ hm)) (fun e hm => hn e (List.mem_cons_of_mem _ hm))
          refine ⟨hr1, ?_, h3, h4, ?_⟩
          · simp only; omega
          · simp only; rw [h5, hr4, List.append_assoc]
        | false =>
          simp only [Bool.false_eq_true, if_false]
          exact ⟨h1, h2, hr3, rfl, h5⟩

end RQ.Compose
