import RQ.Model.ParPush
import RQ.Lemmas.ParLemmas
import RQ.Lemmas.Refine
/-!
# The abstract side of "parallel = sequential" (C06, stage 2)

`absRun`: the abstract file-patch function `Abs.applyFP` folded over a list of queue entries.
* `applyRange_eq_absRange`, `absRange_decomp`: `Abs.applyRange` on a range that parses is a fold over
  `allEntries`: all entries of the patches before the first bad one apply cleanly, and the first bad patch
  either has a failing hunk or an error.
* `absRun_proj` — the PROJECTION LEMMA: folding over all entries (series order) and over the sub-list of one
  worker gives the same files under that worker's names and the same outcome (`ok`, reject file) for
  each of its entries, because the other entries have no name in common with them.
-/
namespace RQ.Par
open RQ RQ.Push RQ.Parse RQ.Abs

/-- the outcome of one queue entry -/
structure Out where
  q : QEntry
  ok : Bool
  rej : Option (Bytes × Bytes)

/-- `Abs.applyFP` over a list of entries, stopping at an error -/
def absRun (fs : FS) (cfg : Cfg) : ATree → List QEntry → Except Fail (ATree × List Out)
  | t, [] => .ok (t, [])
  | t, q :: L =>
    match applyFP t fs cfg q.entry q.fp with
    | .error e => .error e
    | .ok r =>
      match absRun fs cfg r.tree L with
      | .error e => .error e
      | .ok (t', outs) => .ok (t', ⟨q, r.ok, r.rej⟩ :: outs)

/-- the reject files of a list of outcomes, newest first (as the driver collects them) -/
def outRejs : List Out → List (Bytes × Bytes)
  | [] => []
  | o :: os => outRejs os ++ o.rej.toList

/-- the entries of one patch -/
def mkEntries (i : Nat) (e : Series.Entry) (fps : List PFilePatch) : List QEntry :=
  fps.map (fun fp => { idx := i, entry := e, fp })

variable {fs : FS} {cfg : Cfg}

theorem absRun_cons_ok {t : ATree} {q : QEntry} {L : List QEntry} {t' : ATree} {outs : List Out}
    (h : absRun fs cfg t (q :: L) = .ok (t', outs)) :
    ∃ r outs0, applyFP t fs cfg q.entry q.fp = .ok r ∧ absRun fs cfg r.tree L = .ok (t', outs0) ∧
      outs = ⟨q, r.ok, r.rej⟩ :: outs0 := by
  unfold absRun at h
  split at h
  · cases h
  · rename_i r hr
    split at h
    · cases h
    · rename_i t1 outs0 hL
      cases h
      exact ⟨r, outs0, hr, hL, rfl⟩

theorem absRun_append (L1 : List QEntry) : ∀ (t : ATree) (L2 : List QEntry),
    absRun fs cfg t (L1 ++ L2) = match absRun fs cfg t L1 with
      | .error e => .error e
      | .ok (t1, o1) =>
        match absRun fs cfg t1 L2 with
        | .error e => .error e
        | .ok (t2, o2) => .ok (t2, o1 ++ o2) := by
  induction L1 with
  | nil =>
    intro t L2
    simp only [List.nil_append, absRun]
    cases absRun fs cfg t L2 with
    | error e => rfl
    | ok r => rfl
  | cons q L1 ih =>
    intro t L2
    simp only [List.cons_append, absRun]
    cases applyFP t fs cfg q.entry q.fp with
    | error e => rfl
    | ok r =>
      simp only
      rw [ih]
      cases absRun fs cfg r.tree L1 with
      | error e => rfl
      | ok r1 =>
        simp only
        cases absRun fs cfg r1.1 L2 with
        | error e => rfl
        | ok r2 => rfl

theorem absRun_outs_q : ∀ (L : List QEntry) (t t' : ATree) (outs : List Out),
    absRun fs cfg t L = .ok (t', outs) → outs.map (·.q) = L := by
  intro L
  induction L with
  | nil => intro t t' outs h; simp only [absRun] at h; cases h; rfl
  | cons q L ih =>
    intro t t' outs h
    obtain ⟨r, outs0, _, hL, rfl⟩ := absRun_cons_ok h
    simp only [List.map_cons, ih _ _ _ hL]

/-- a run that ends in an error: a clean part, then the entry at which `applyFP` gives that error -/
theorem absRun_err_split : ∀ (L : List QEntry) (t : ATree) (x : Fail), absRun fs cfg t L = .error x →
    ∃ L1 q L2 t1 o1, L = L1 ++ q :: L2 ∧ absRun fs cfg t L1 = .ok (t1, o1) ∧
      applyFP t1 fs cfg q.entry q.fp = .error x := by
  intro L
  induction L with
  | nil => intro t x h; simp only [absRun] at h; cases h
  | cons q L ih =>
    intro t x h
    unfold absRun at h
    split at h
    · rename_i e he
      cases h
      exact ⟨[], q, L, t, [], rfl, rfl, he⟩
    · rename_i r hr
      split at h
      · rename_i e hL
        cases h
        obtain ⟨L1, q', L2, t1, o1, hsplit, hrun, herr⟩ := ih _ _ hL
        refine ⟨q :: L1, q', L2, t1, ⟨q, r.ok, r.rej⟩ :: o1, by rw [hsplit]; rfl, ?_, herr⟩
        simp only [absRun, hr, hrun]
      · cases h

/-- a run without error in which some entry does not apply cleanly: a part before it, then that entry -/
theorem absRun_bad_split : ∀ (L : List QEntry) (t t' : ATree) (outs : List Out),
    absRun fs cfg t L = .ok (t', outs) → (∃ o ∈ outs, o.ok = false) →
    ∃ L1 q L2 t1 o1 r, L = L1 ++ q :: L2 ∧ absRun fs cfg t L1 = .ok (t1, o1) ∧
      applyFP t1 fs cfg q.entry q.fp = .ok r ∧ r.ok = false := by
  intro L
  induction L with
  | nil =>
    intro t t' outs h hb
    simp only [absRun] at h
    cases h
    obtain ⟨o, ho, _⟩ := hb
    cases ho
  | cons q L ih =>
    intro t t' outs h hb
    obtain ⟨r, outs0, hr, hL, rfl⟩ := absRun_cons_ok h
    by_cases hrok : r.ok = false
    · exact ⟨[], q, L, t, [], r, rfl, rfl, hr, hrok⟩
    · obtain ⟨o, ho, hob⟩ := hb
      have ho' : o ∈ outs0 := by
        rcases List.mem_cons.mp ho with rfl | ho
        · exact absurd hob hrok
        · exact ho
      obtain ⟨L1, q', L2, t1, o1, r', hsplit, hrun, hr', hbad⟩ := ih _ _ _ hL ⟨o, ho', hob⟩
      refine ⟨q :: L1, q', L2, t1, ⟨q, r.ok, r.rej⟩ :: o1, r', by rw [hsplit]; rfl, ?_, hr', hbad⟩
      simp only [absRun, hr, hrun]

/-! ## `applyFPs` and `applyRange` as folds over entries -/

theorem applyFPs_absRun (i : Nat) (e : Series.Entry) : ∀ (fps : List PFilePatch) (t : ATree) (ok : Bool)
    (rejs : List (Bytes × Bytes)),
    applyFPs fs cfg e fps t ok rejs = match absRun fs cfg t (mkEntries i e fps) with
      | .error x => .error x
      | .ok (t', outs) => .ok (t', ok && outs.all (·.ok), outRejs outs ++ rejs) := by
  intro fps
  induction fps with
  | nil =>
    intro t ok rejs
    simp [applyFPs, mkEntries, absRun, outRejs]
  | cons fp fps ih =>
    intro t ok rejs
    rw [applyFPs_cons]
    simp only [mkEntries, List.map_cons, absRun]
    cases applyFP t fs cfg e fp with
    | error x => rfl
    | ok r =>
      simp only
      rw [ih]
      simp only [mkEntries]
      cases absRun fs cfg r.tree (fps.map (fun fp => ({ idx := i, entry := e, fp } : QEntry))) with
      | error x => rfl
      | ok r1 =>
        simp only [List.all_cons, outRejs, Bool.and_assoc, List.append_assoc]

/-- `Abs.applyRange` on the parsed patches -/
def absRange (fs : FS) (cfg : Cfg) : List (Series.Entry × List PFilePatch) → Nat → ATree →
    Except Fail (ATree × Nat × List (Bytes × Bytes))
  | [], k, t => .ok (t, k, [])
  | (e, fps) :: rest, k, t =>
    match applyFPs fs cfg e fps t true [] with
    | .error x => .error x
    | .ok (t', ok, rejs) =>
      if ok then absRange fs cfg rest (k + 1) t'
      else .ok (t, k, if cfg.dryRun then [] else rejs)

theorem parseRange_cons {entry : Series.Entry} {rest : List Series.Entry}
    {patches : List (Series.Entry × List PFilePatch)}
    (h : parseRange fs cfg (entry :: rest) = some patches) :
    ∃ pk bytes mode patch ps, patchKey cfg entry.name = some pk ∧ fs.readFile pk = .ok (bytes, mode) ∧
      parsePatch bytes entry.strip false = .ok patch ∧ parseRange fs cfg rest = some ps ∧
      patches = (entry, patch.fps) :: ps := by
  unfold parseRange at h
  split at h
  · cases h
  · rename_i pk hpk
    split at h
    · cases h
    · rename_i bytes mode hrd
      split at h
      · cases h
      · rename_i patch hpp
        split at h
        · cases h
        · rename_i ps hps
          cases h
          exact ⟨pk, bytes, mode, patch, ps, hpk, hrd, hpp, hps, rfl⟩

theorem applyRange_eq_absRange : ∀ (range : List Series.Entry) (patches : List (Series.Entry × List PFilePatch)),
    parseRange fs cfg range = some patches →
    ∀ (k : Nat) (t : ATree), applyRange fs cfg range k t = absRange fs cfg patches k t := by
  intro range
  induction range with
  | nil =>
    intro patches h k t
    simp only [parseRange] at h
    cases h
    rfl
  | cons entry rest ih =>
    intro patches h k t
    obtain ⟨pk, bytes, mode, patch, ps, hpk, hrd, hpp, hps, rfl⟩ := parseRange_cons h
    unfold applyRange absRange
    simp only [hpk, hrd, hpp]
    cases applyFPs fs cfg entry patch.fps t true [] with
    | error x => rfl
    | ok r =>
      obtain ⟨t', ok, rejs⟩ := r
      simp only
      cases ok with
      | true => simp only [if_true]; exact ih ps hps (k + 1) t'
      | false => rfl

theorem parseRange_length : ∀ (range : List Series.Entry) (patches : List (Series.Entry × List PFilePatch)),
    parseRange fs cfg range = some patches → patches.length = range.length := by
  intro range
  induction range with
  | nil => intro patches h; simp only [parseRange] at h; cases h; rfl
  | cons entry rest ih =>
    intro patches h
    obtain ⟨pk, bytes, mode, patch, ps, _, _, _, hps, rfl⟩ := parseRange_cons h
    simp only [List.length_cons, ih ps hps]

/-- every file patch of a parsed range comes out of `parsePatch` -/
theorem parseRange_parsed : ∀ (range : List Series.Entry) (patches : List (Series.Entry × List PFilePatch)),
    parseRange fs cfg range = some patches →
    ∀ p ∈ patches, ∃ bytes patch, parsePatch bytes p.1.strip false = .ok patch ∧ p.2 = patch.fps := by
  intro range
  induction range with
  | nil => intro patches h p hp; simp only [parseRange] at h; cases h; cases hp
  | cons entry rest ih =>
    intro patches h p hp
    obtain ⟨pk, bytes, mode, patch, ps, _, _, hpp, hps, rfl⟩ := parseRange_cons h
    rcases List.mem_cons.mp hp with rfl | hp
    · exact ⟨bytes, patch, hpp, rfl⟩
    · exact ih ps hps p hp

/-! ### entries -/

theorem allEntries_cons (e : Series.Entry) (fps : List PFilePatch) (rest : List (Series.Entry × List PFilePatch))
    (i : Nat) : allEntries ((e, fps) :: rest) i = mkEntries i e fps ++ allEntries rest (i + 1) := rfl

theorem allEntries_split : ∀ (patches : List (Series.Entry × List PFilePatch)) (k0 j : Nat),
    allEntries patches k0 = allEntries (patches.take j) k0 ++ allEntries (patches.drop j) (k0 + j) := by
  intro patches
  induction patches with
  | nil => intro k0 j; simp [allEntries]
  | cons p rest ih =>
    intro k0 j
    obtain ⟨e, fps⟩ := p
    cases j with
    | zero => simp [allEntries]
    | succ j =>
      simp only [List.take_succ_cons, List.drop_succ_cons, allEntries_cons, List.append_assoc]
      rw [ih (k0 + 1) j]
      have : k0 + 1 + j = k0 + (j + 1) := by omega
      rw [this]

theorem allEntries_lt (patches : List (Series.Entry × List PFilePatch)) :
    ∀ (i : Nat) (q : QEntry), q ∈ allEntries patches i → q.idx < i + patches.length := by
  induction patches with
  | nil => intro i q h; simp [allEntries] at h
  | cons p rest ih =>
    intro i q h
    obtain ⟨e, fps⟩ := p
    rw [allEntries_cons, List.mem_append] at h
    rcases h with h | h
    · simp only [mkEntries, List.mem_map] at h
      obtain ⟨fp, _, rfl⟩ := h
      simp only [List.length_cons]
      omega
    · have := ih (i + 1) q h
      simp only [List.length_cons]
      omega

theorem mem_mkEntries {i : Nat} {e : Series.Entry} {fps : List PFilePatch} {q : QEntry}
    (h : q ∈ mkEntries i e fps) : q.idx = i ∧ q.entry = e ∧ q.fp ∈ fps := by
  simp only [mkEntries, List.mem_map] at h
  obtain ⟨fp, hfp, rfl⟩ := h
  exact ⟨rfl, rfl, hfp⟩

/-- every entry belongs to a patch of the list -/
theorem allEntries_mem (patches : List (Series.Entry × List PFilePatch)) :
    ∀ (i : Nat) (q : QEntry), q ∈ allEntries patches i → ∃ p ∈ patches, q.entry = p.1 ∧ q.fp ∈ p.2 := by
  induction patches with
  | nil => intro i q h; simp [allEntries] at h
  | cons p rest ih =>
    intro i q h
    obtain ⟨e, fps⟩ := p
    rw [allEntries_cons, List.mem_append] at h
    rcases h with h | h
    · obtain ⟨_, h2, h3⟩ := mem_mkEntries h
      exact ⟨(e, fps), List.mem_cons_self .., h2, h3⟩
    · obtain ⟨p, hp, r⟩ := ih (i + 1) q h
      exact ⟨p, List.mem_cons_of_mem _ hp, r⟩

/-! ### the first bad patch -/

/-- how a range ends, seen from its entries: the entries of the patches before index `j` all apply
cleanly (tree `t`); then either the range is exhausted, or patch `j` runs without error but not cleanly
(the push stops there, tree `t`), or it runs into an error -/
theorem absRange_decomp : ∀ (patches : List (Series.Entry × List PFilePatch)) (k0 : Nat) (t0 : ATree),
    ∃ j t outs, j ≤ patches.length ∧
      absRun fs cfg t0 (allEntries (patches.take j) k0) = .ok (t, outs) ∧ (∀ o ∈ outs, o.ok = true) ∧
      ((j = patches.length ∧ absRange fs cfg patches k0 t0 = .ok (t, k0 + j, [])) ∨
       (∃ e fps, patches[j]? = some (e, fps) ∧
         ((∃ t' outs', absRun fs cfg t (mkEntries (k0 + j) e fps) = .ok (t', outs') ∧
              (∃ o ∈ outs', o.ok = false) ∧
              absRange fs cfg patches k0 t0 = .ok (t, k0 + j, if cfg.dryRun then [] else outRejs outs')) ∨
          (∃ x, absRun fs cfg t (mkEntries (k0 + j) e fps) = .error x ∧
              absRange fs cfg patches k0 t0 = .error x)))) := by
  intro patches
  induction patches with
  | nil =>
    intro k0 t0
    exact ⟨0, t0, [], Nat.le_refl _, rfl, (fun o ho => by cases ho), .inl ⟨rfl, rfl⟩⟩
  | cons p rest ih =>
    intro k0 t0
    obtain ⟨e, fps⟩ := p
    have hF := applyFPs_absRun (fs := fs) (cfg := cfg) k0 e fps t0 true []
    cases hrun : absRun fs cfg t0 (mkEntries k0 e fps) with
    | error x =>
      rw [hrun] at hF
      refine ⟨0, t0, [], Nat.zero_le _, rfl, (fun o ho => by cases ho), .inr ⟨e, fps, rfl, .inr ⟨x, hrun, ?_⟩⟩⟩
      simp only [absRange, hF]
    | ok r =>
      obtain ⟨t1, outs1⟩ := r
      rw [hrun] at hF
      simp only [Bool.true_and, List.append_nil] at hF
      by_cases hbad : ∃ o ∈ outs1, o.ok = false
      case neg =>
        -- the patch applies: go on
        have hall : outs1.all (·.ok) = true := by
          rw [List.all_eq_true]
          intro o ho
          cases hob : o.ok with
          | true => rfl
          | false => exact absurd ⟨o, ho, hob⟩ hbad
        obtain ⟨j, t, outs, hj, hpre, hok, hcase⟩ := ih (k0 + 1) t1
        have hk : k0 + 1 + j = k0 + (j + 1) := by omega
        have hrange : absRange fs cfg ((e, fps) :: rest) k0 t0 = absRange fs cfg rest (k0 + 1) t1 := by
          simp only [absRange, hF, hall, if_true]
        refine ⟨j + 1, t, outs1 ++ outs, by simp only [List.length_cons]; omega, ?_, ?_, ?_⟩
        · rw [List.take_succ_cons, allEntries_cons, absRun_append, hrun]
          simp only [hpre]
        · intro o ho
          rcases List.mem_append.mp ho with ho | ho
          · exact (List.all_eq_true.mp hall) o ho
          · exact hok o ho
        · rw [hrange, ← hk]
          rcases hcase with ⟨hjl, hr⟩ | ⟨e', fps', hget, hr⟩
          · exact .inl ⟨by simp only [List.length_cons]; omega, hr⟩
          · exact .inr ⟨e', fps', by simpa using hget, hr⟩
      case pos =>
        -- the patch does not apply cleanly: the push stops here
        have hall' : outs1.all (·.ok) = false := by
          rw [List.all_eq_false]
          obtain ⟨o, ho, hob⟩ := hbad
          exact ⟨o, ho, by simp [hob]⟩
        refine ⟨0, t0, [], Nat.zero_le _, rfl, (fun o ho => by cases ho),
          .inr ⟨e, fps, rfl, .inl ⟨t1, outs1, hrun, hbad, ?_⟩⟩⟩
        simp only [absRange, hF, hall', Bool.false_eq_true, if_false, Nat.add_zero]

/-! ## The projection lemma -/

/-- PROJECTION LEMMA.  `p` selects the entries of one worker, `A` is the set of that worker's names: the
selected entries have all their names in `A`, the others none.  If the trees `u` (the worker's) and `t`
(everybody's) hold the same files under the names in `A`, then running the selected entries on `u` does
for them exactly what running all entries on `t` does: same outcomes, and the resulting trees again hold
the same files under the names in `A`.  Outside `A` the worker's tree does not change. -/
theorem absRun_proj (p : QEntry → Bool) (A : List Comp → Prop) :
    ∀ (L : List QEntry) (t u t' : ATree) (outs : List Out),
      (∀ q ∈ L, p q = true → ∀ c ∈ fpNames q.fp, A c) →
      (∀ q ∈ L, p q = false → ∀ c ∈ fpNames q.fp, ¬ A c) →
      (∀ n, A (components n) → look u fs n = look t fs n) →
      absRun fs cfg t L = .ok (t', outs) →
      ∃ u', absRun fs cfg u (L.filter p) = .ok (u', outs.filter (fun o => p o.q)) ∧
        (∀ n, A (components n) → look u' fs n = look t' fs n) ∧
        (∀ n, ¬ A (components n) → look u' fs n = look u fs n) := by
  intro L
  induction L with
  | nil =>
    intro t u t' outs _ _ hag h
    simp only [absRun] at h
    cases h
    exact ⟨u, rfl, hag, fun _ _ => rfl⟩
  | cons q L ih =>
    intro t u t' outs hin hout hag h
    obtain ⟨r, outs0, hr, hL, rfl⟩ := absRun_cons_ok h
    have hin' : ∀ q' ∈ L, p q' = true → ∀ c ∈ fpNames q'.fp, A c :=
      fun q' hq' => hin q' (List.mem_cons_of_mem _ hq')
    have hout' : ∀ q' ∈ L, p q' = false → ∀ c ∈ fpNames q'.fp, ¬ A c :=
      fun q' hq' => hout q' (List.mem_cons_of_mem _ hq')
    cases hp : p q with
    | true =>
      have hqA := hin q (List.mem_cons_self ..) hp
      have hloc := applyFP_local u t fs cfg q.entry q.fp (fun n hn => hag n (hqA _ hn))
      rw [hr] at hloc
      cases hr' : applyFP u fs cfg q.entry q.fp with
      | error x => rw [hr'] at hloc; exact hloc.elim
      | ok r' =>
        rw [hr'] at hloc
        simp only at hloc
        obtain ⟨hok, hrej, hlk⟩ := hloc
        have hag' : ∀ n, A (components n) → look r'.tree fs n = look r.tree fs n := by
          intro n hn
          by_cases hm : components n ∈ fpNames q.fp
          · exact hlk n hm
          · rw [applyFP_frame u fs cfg q.entry q.fp r' hr' n hm,
              applyFP_frame t fs cfg q.entry q.fp r hr n hm]
            exact hag n hn
        obtain ⟨u', hrun, hA, hnA⟩ := ih r.tree r'.tree t' outs0 hin' hout' hag' hL
        refine ⟨u', ?_, hA, ?_⟩
        · simp only [List.filter_cons, hp, if_true, absRun, hr', hrun, hok, hrej]
        · intro n hn
          rw [hnA n hn]
          exact applyFP_frame u fs cfg q.entry q.fp r' hr' n (fun hm => hn (hqA _ hm))
    | false =>
      have hqA := hout q (List.mem_cons_self ..) hp
      have hag' : ∀ n, A (components n) → look u fs n = look r.tree fs n := by
        intro n hn
        rw [applyFP_frame t fs cfg q.entry q.fp r hr n (fun hm => hqA _ hm hn)]
        exact hag n hn
      obtain ⟨u', hrun, hA, hnA⟩ := ih r.tree u t' outs0 hin' hout' hag' hL
      refine ⟨u', ?_, hA, hnA⟩
      simp only [List.filter_cons, hp, Bool.false_eq_true, if_false]
      exact hrun

/-- a file patch that does not apply cleanly (a hunk fails, or an error) -/
def Bad (fs : FS) (cfg : Cfg) (t : ATree) (q : QEntry) : Prop :=
  match applyFP t fs cfg q.entry q.fp with
  | .ok r => r.ok = false
  | .error _ => True

theorem bad_local {t u : ATree} {q : QEntry}
    (h : ∀ n, components n ∈ fpNames q.fp → look u fs n = look t fs n) (hb : Bad fs cfg t q) :
    Bad fs cfg u q := by
  have hloc := applyFP_local u t fs cfg q.entry q.fp h
  unfold Bad at hb ⊢
  cases hu : applyFP u fs cfg q.entry q.fp with
  | error x => trivial
  | ok r' =>
    rw [hu] at hloc
    cases ht : applyFP t fs cfg q.entry q.fp with
    | error x => rw [ht] at hloc; exact hloc.elim
    | ok r =>
      rw [ht] at hloc hb
      simp only at hloc hb ⊢
      rw [hloc.1]; exact hb

/-- the outcome lists of a projected run: the rejects of the worker are those of its entries -/
theorem outRejs_filter_all (p : Out → Bool) : ∀ (outs : List Out), (∀ o ∈ outs, o.ok = true) →
    ∀ o ∈ outs.filter p, o.ok = true := by
  intro outs h o ho
  exact h o (List.mem_filter.mp ho).1

end RQ.Par
