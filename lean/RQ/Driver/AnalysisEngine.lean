import RQ.Driver.Proto
import RQ.Model.Analysis
/-! Engine `N` (C14): the `-A multiapply` analysis and the line searcher, model against implementation.
The verdict field is called `SPEC` like the one of the `push` engine: both serve the check of C14. -/
namespace RQ.AnalysisEngine
open RQ RQ.Proto RQ.Analysis

/-- `MultiApplyNote::write` -/
def noteText (n : Note) : String :=
  let off := if n.offset == 0 then "" else s!" (offset {n.offset})"
  let pl := if n.places.length == 1 then "" else "s"
  s!"Applied on line {n.line + 1}{off}, but would also apply on line{pl} {", ".intercalate (n.places.map (fun p => toString (p.1 + 1)))}"

def notesS (ns : List Note) : String :=
  if ns.isEmpty then "-" else ",".intercalate (ns.map (fun n => s!"{n.hunk}:{hexOf (noteText n).toUTF8.toList}"))

def step (fields : List String) : String :=
  match fields with
  | [_, cid, "S", needle, hay, _, impl] =>
    -- `none`: the model says the real code indexes out of range / underflows (never, by `C14_search_total`)
    let m := match searchAllC (csvNat needle) (csvNat hay) with | none => "P" | some l => natCsv l
    s!"{cid} eq={boolS (m == impl)} SPEC={if impl == "P" then "FAIL:searcher-panicked" else "ok"} model={m}"
  | [_, cid, "M", file, patch, _, reps, notes] =>
    let f := fileOf file
    let p := patchOf patch
    -- the analysis is called by `apply_modify` only (kind Modify), between its two loops
    let (res, ns) : Option (FileSt Nat × Report) × List Note :=
      match p.fp.kind with
      | .modify => applyModifyA p.fp.hunks p.dir p.fuzz f
      | _ => (p.fp.apply p.dir p.fuzz f, [])
    let m := match res with
      | none => "P|P"
      | some (_, rep) => s!"{repsS rep.reps}|{notesS ns}"
    -- C14 on the implementation: the analysis did not crash, and the reports are those of a run without analysis
    -- (the model's `apply` has no analysis parameter)
    let plain := match p.fp.apply p.dir p.fuzz f with | none => "P" | some (_, rep) => repsS rep.reps
    let c14 := if reps == "P" then "FAIL:analysis-panicked" else if reps != plain then "FAIL:analysis-changed-the-result" else "ok"
    s!"{cid} eq={boolS (m == s!"{reps}|{notes}")} SPEC={c14} model={m}"
  | _ => "bad-line"

end RQ.AnalysisEngine
