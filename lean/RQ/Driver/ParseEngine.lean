import RQ.Driver.Proto
import RQ.Spec.Write
import RQ.Spec.Apply
/-! Engine `U`: parser and writer model vs the real `parse_patch` / `UnifiedPatchWriter`. -/
namespace RQ.ParseEngine
open RQ RQ.Proto RQ.Parse RQ.Write

def optHex : Option Bytes → String | none => "~" | some b => "=" ++ hexOf b
def kindS : Kind → String | .modify => "M" | .create => "C" | .delete => "D"
def linesS (ls : List Bytes) : String := if ls.isEmpty then "-" else ",".intercalate (ls.map hexOf)
def hunkS (h : PHunk) : String :=
  s!"[{h.remLine},{h.addLine},{h.pre},{h.suf},fn={hexOf h.func},rem={linesS h.rem},add={linesS h.add}]"
def fpS (f : PFilePatch) : String :=
  s!"fp k={kindS f.kind} old{optHex f.old} new{optHex f.new} ren={boolS f.rename} om={optNatS f.oldPerm} nm={optNatS f.newPerm} oh{optHex f.oldHash} nh{optHex f.newHash} hunks=" ++ "".intercalate (f.hunks.map hunkS)
def dumpS (p : Patch) : String := s!"hdr={hexOf p.header};" ++ ";".intercalate (p.fps.map fpS)

def projHunkS (h : PHunk) : String := s!"[{h.remLine},{h.addLine},rem={linesS h.rem},add={linesS h.add}]"
def projFpS (f : PFilePatch) : String :=
  s!"k={kindS f.kind},old{optHex f.old},new{optHex f.new},ren={boolS f.rename},om={optNatS f.oldPerm},nm={optNatS f.newPerm},oh{optHex f.oldHash},nh{optHex f.newHash},hunks=" ++ "".intercalate (f.hunks.map projHunkS)
def projS (p : Patch) : String := if p.fps.isEmpty then "-" else ";".intercalate (p.fps.map projFpS)

def errS : EB → String
  | .noMatch => "NoMatch" | .unsupportedMetadata => "UnsupportedMetadata" | .missingFilenameForHunk => "MissingFilenameForHunk"
  | .unexpectedEndOfLine => "UnexpectedEndOfLine" | .unexpectedEndOfFile => "UnexpectedEndOfFile" | .badHunkHeader => "BadHunkHeader"
  | .badLineInHunk => "BadLineInHunk" | .numberTooBig => "NumberTooBig" | .badNumber => "BadNumber" | .badMode => "BadMode"
  | .badSequence => "BadSequence" | .badHash => "BadHash" | .outOfFuel => "OUTOFFUEL"

def modelOut (bs : Bytes) (strip : Nat) : String :=
  match parsePatch bs strip true with
  | .error e => "ERR " ++ errS e
  | .ok p =>
    let w := writePatch p
    let second := match parsePatch w 0 true with
      | .error e => s!"R=ERR:{errS e} J2=- W2=-"
      | .ok p2 => s!"R={dumpS p2} J2={projS p2} W2={hexOf (writePatch p2)}"
    s!"OK {dumpS p} W={hexOf w} J={projS p} {second}"

def between (s a b : String) : String :=
  match s.splitOn a with
  | _ :: r :: _ => (r.splitOn b).headD ""
  | _ => ""

/-- C12 evaluated on the implementation's own outputs: the written form is accepted, the re-parsed
patch has the same kind, names, rename flag, modes, hashes, start lines and sides, and writing it again
gives the same bytes -/
def c12 (bs : Bytes) (strip : Nat) (impl : String) : String :=
  if !impl.startsWith "OK " then "na" else
  let w := between impl " W=" " J="
  let j := between impl " J=" " R="
  let r := between impl " R=" " J2="
  let j2 := between impl " J2=" " W2="
  let w2 := (impl.splitOn " W2=").getLastD ""
  let verdict :=
    if r.startsWith "ERR" then "FAIL:written-form-rejected"
    else if j2 != j then "FAIL:reparsed-patch-differs"
    else if w2 != w then "FAIL:write-not-fixed-point"
    else "ok"
  if verdict == "ok" then "ok"
  else match parsePatch bs strip true with
    | .ok p => if p.fps.any noopHunkless then "KNOWN:hunkless-noop-vanishes"
               else if p.fps.any nullNamed then "KNOWN:dev-null-named-file" else verdict
    | .error _ => verdict

/-- the invariants `RQ.Props.C11` proves about every parsed patch, evaluated for the record -/
def invOK (p : Patch) : Bool :=
  p.fps.all (fun fp =>
    (fp.old.isSome || fp.new.isSome) &&
    (fp.kind == .modify || fp.hunks.length == 1) &&
    fp.hunks.all (fun h => decide h.WF && decide (0 ≤ h.remLine) && decide (0 ≤ h.addLine)))

def step (fields : List String) : String :=
  match fields with
  | [_, id, strip, bytes, _, impl] =>
    let bs := unhex bytes
    let m := modelOut bs (natOf strip)
    let inv := match parsePatch bs (natOf strip) true with
      | .ok p => invOK p
      | .error e => e != .outOfFuel && e != .noMatch
    let c11 := if impl == "PANIC" then "FAIL:panic" else if !inv then "FAIL:invariant" else "ok"
    s!"{id} eq={boolS (m == impl)} C11={c11} C12={c12 bs (natOf strip) impl} model={m}"
  | _ => "bad-line"

end RQ.ParseEngine
