import RQ.Model.Apply
/-! Line-protocol helpers shared by the engines of the driver (not part of the verified model). -/
namespace RQ.Proto
open RQ

def hexDigit (n : Nat) : Char := if n < 10 then Char.ofNat (48 + n) else Char.ofNat (87 + n)
def hexOf (b : Bytes) : String :=
  if b.isEmpty then "-" else
  String.ofList (b.foldr (fun x acc => hexDigit (x.toNat / 16) :: hexDigit (x.toNat % 16) :: acc) [])
def hexVal (c : Char) : Nat := if c.isDigit then c.toNat - 48 else c.toNat - 87
def unhexL : List Char → Bytes
  | a :: b :: r => UInt8.ofNat (hexVal a * 16 + hexVal b) :: unhexL r
  | _ => []
def unhex (s : String) : Bytes := if s == "-" then [] else unhexL s.toList

def natOf (s : String) : Nat := s.toNat?.getD 0
def intOf (s : String) : Int := s.toInt?.getD 0
def optNatOf (s : String) : Option Nat := if s == "-" then none else s.toNat?
def optNatS : Option Nat → String
  | none => "-"
  | some n => toString n
def boolOf (s : String) : Bool := s == "1"
def boolS (b : Bool) : String := if b then "1" else "0"

def csvNat (s : String) : List Nat := if s == "-" then [] else (s.splitOn ",").map natOf
def natCsv (l : List Nat) : String := if l.isEmpty then "-" else ",".intercalate (l.map toString)

def dirOf (s : String) : Dir := if s == "R" then .rev else .fwd
def kindOf (s : String) : Kind := if s == "C" then .create else if s == "D" then .delete else .modify

def reasonS : Reason → String
  | .noMatch => "NoMatchingLines" | .noFile => "FileDoesNotExist" | .createExists => "CreatingFileThatExists"
  | .deleteMismatch => "DeletingFileThatDoesNotMatch" | .misordered => "MisorderedHunks"
def reasonOf (s : String) : Reason :=
  if s == "FileDoesNotExist" then .noFile else if s == "CreatingFileThatExists" then .createExists
  else if s == "DeletingFileThatDoesNotMatch" then .deleteMismatch else if s == "MisorderedHunks" then .misordered
  else .noMatch
def repS : Rep → String
  | .applied l rb o d f => s!"A({l},{rb},{o},{d},{f})"
  | .failed r => s!"F({reasonS r})"
  | .skipped => "K"
def repsS (l : List Rep) : String := if l.isEmpty then "-" else ";".intercalate (l.map repS)

def repOf (s : String) : Rep :=
  if s == "K" then .skipped
  else if s.startsWith "F(" then .failed (reasonOf ((s.drop 2).dropEnd 1).toString)
  else
    match (((s.drop 2).dropEnd 1).toString.splitOn ",") with
    | [l, rb, o, d, f] => .applied (intOf l) (intOf rb) (intOf o) (intOf d) (natOf f)
    | _ => .skipped
def repsOf (s : String) : List Rep := if s == "-" then [] else (s.splitOn ";").map repOf

def hunkOf (s : String) : Hunk Nat :=
  match s.splitOn ":" with
  | [rl, al, pre, suf, rem, add] =>
    { rem := csvNat rem, add := csvNat add, remLine := intOf rl, addLine := intOf al, pre := natOf pre, suf := natOf suf }
  | _ => { rem := [], add := [], remLine := 0, addLine := 0, pre := 0, suf := 0 }
def hunksOf (s : String) : List (Hunk Nat) := if s == "-" then [] else (s.splitOn ";").map hunkOf

structure PatchCase where
  dir : Dir
  fuzz : Nat
  fp : FilePatch Nat

def someIf (b : Bool) : Option Bytes := if b then some [120] else none

def patchOf (s : String) : PatchCase :=
  match s.splitOn " " with
  | [d, fz, k, o, n, op, np, hs] =>
    { dir := dirOf d, fuzz := natOf fz,
      fp := { kind := kindOf k, old := someIf (boolOf o), new := someIf (boolOf n),
              oldPerm := optNatOf op, newPerm := optNatOf np, hunks := hunksOf hs } }
  | _ => { dir := .fwd, fuzz := 0, fp := { kind := .modify } }

def fileOf (s : String) : FileSt Nat :=
  match s.splitOn " " with
  | [del, ex, perms, lines] => { content := csvNat lines, existed := boolOf ex, deleted := boolOf del, perms := optNatOf perms }
  | _ => { content := [], existed := false, deleted := true, perms := none }

def fileS (f : FileSt Nat) : String := s!"{boolS f.deleted}/{optNatS f.perms}/{natCsv f.content}"

end RQ.Proto
