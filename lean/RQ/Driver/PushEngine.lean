import RQ.Spec.Tight
import RQ.Driver.Proto
import RQ.Model.ParPush
import RQ.Spec.Abs
import RQ.Model.Args
import RQ.Spec.Backups
/-! Engine `W`: whole `push` invocations -/
namespace RQ.PushEngine
open RQ RQ.Proto RQ.Push

def splitSlash : Bytes → Bytes → List Bytes
  | [], cur => if cur.isEmpty then [] else [cur]
  | b :: bs, cur => if b == 47 then (if cur.isEmpty then splitSlash bs [] else cur :: splitSlash bs []) else splitSlash bs (cur ++ [b])

def keyOfPath (p : Bytes) : Key := splitSlash p []
def pathOfKey (k : Key) : Bytes := (k.intersperse [47]).flatten

def octVal (s : String) : Nat := s.toList.foldl (fun a c => a * 8 + (c.toNat - 48)) 0
def octDigitsS : Nat → Nat → String
  | 0, _ => ""
  | fuel+1, n => if n < 8 then toString n else octDigitsS fuel (n / 8) ++ toString (n % 8)
def octS (n : Nat) : String := octDigitsS (n + 1) n

def parseTree (s : String) : FS :=
  if s == "-" then { nodes := [], nextIno := 1 } else
  let es := s.splitOn ","
  let (nodes, ino) := es.foldl (fun (acc : List (Key × Node) × Nat) e =>
    match e.splitOn ":" with
    | [p, _] => (acc.1 ++ [(keyOfPath (unhex p), Node.dir)], acc.2)
    | [p, m, c] => (acc.1 ++ [(keyOfPath (unhex p), Node.file (unhex c) (octVal m) acc.2)], acc.2 + 1)
    | _ => acc) ([], 1)
  -- parents of files are directories even if not listed
  let withDirs := nodes.foldl (fun (acc : List (Key × Node)) (kn : Key × Node) =>
    let pre := (List.range kn.1.length).filterMap (fun i => if i == 0 then none else some (kn.1.take i))
    let acc := pre.foldl (fun a d => if a.any (fun x => x.1 == d) then a else a ++ [(d, Node.dir)]) acc
    if acc.any (fun x => x.1 == kn.1) then acc else acc ++ [kn]) []
  { nodes := withDirs, nextIno := ino }

def bytesLt : Bytes → Bytes → Bool
  | [], [] => false
  | [], _ => true
  | _, [] => false
  | a :: as, b :: bs => if a < b then true else if a > b then false else bytesLt as bs

def insertSorted (x : Bytes × String) : List (Bytes × String) → List (Bytes × String)
  | [] => [x]
  | y :: ys => if bytesLt x.1 y.1 then x :: y :: ys else y :: insertSorted x ys

def renderTree (fs : FS) : String :=
  let es : List (Bytes × String) := fs.nodes.map (fun (k, n) =>
    let p := pathOfKey k
    match n with
    | .dir => (p, s!"{hexOf p}:d")
    | .file c m _ => (p, s!"{hexOf p}:{octS (m % 4096)}:{hexOf c}"))
  let sorted := es.foldr insertSorted []
  if sorted.isEmpty then "-" else ",".intercalate (sorted.map (·.2))

def newInodes (before after : FS) : String :=
  let ps : List (Bytes × String) := after.nodes.filterMap (fun (k, n) =>
    match n with
    | .dir => none
    | .file _ _ i =>
      let changed := match before.lookup k with
        | some (.file _ _ j) => i != j
        | _ => true
      if changed then some (pathOfKey k, hexOf (pathOfKey k)) else none)
  let sorted := ps.foldr insertSorted []
  if sorted.isEmpty then "-" else ",".intercalate (sorted.map (·.2))

/-- the arguments of one invocation, through the option model -/
def parseArgs (args : List String) (_ : Unit) : Args.Inv := Args.parse (Args.tokenize args) {}

def sameFS (a b : FS) : Bool :=
  a.nodes.length == b.nodes.length && a.nodes.all (fun (k, n) => b.lookup k == some n)

/-- `cmd_push` with the PARALLEL driver, through the model `Par.parApplyPatches` (Model/ParPush.lean): both
phases run under round-robin schedules long enough for every worker to finish — by
`C06_parallel_eq_sequential_tree` the result does not depend on the schedule.  `none`: the schedules were
too short (a defect of this driver, reported as a mismatch). -/
def parPushInv (inv : Args.Inv) (w : World) : Option (Outcome × World) :=
  if inv.bad then some (.error, w)
  else match plan inv.cfg w.fs with
    | .refuse => some (.error, w)
    | .nothingToDo => some (.allApplied, w)
    | .apply range =>
      if inv.badLate then some (.error, w) else
      let n := inv.threads
      let total := match Par.parseRange w.fs inv.cfg range with
        | some patches => (patches.map (fun p => p.2.length)).foldl (· + ·) 0
        | none => 0
      let rr := fun (k : Nat) => (List.replicate k (List.range n)).flatten
      match Par.parApplyPatches w inv.cfg range n (rr (2 * total + 4)) (rr (25 * total + 30)) with
      | none => none
      | some (.error (.err, w')) => some (.error, w')
      | some (.error (.panic, w')) => some (.panic, w')
      | some (.ok (w', final)) =>
        if inv.cfg.dryRun then some (if final == range.length then .allApplied else .notAll, w')
        else match saveApplied w' ((range.take final).map (·.name)) with
          | .error (_, w'') => some (.error, w'')
          | .ok w'' => some (if final == range.length then .allApplied else .notAll, w'')

def runInvs (fs : FS) : List String → List String
  | [] => []
  | a :: rest =>
    let inv := parseArgs (if a == "-" then [] else a.splitOn " ") ()
    -- a parallel invocation goes through the model of the parallel driver
    let (out, w) := if inv.threads > 1 then
        (match parPushInv inv { fs := fs } with
         | some r => r
         | none => (.panic, { fs := { nodes := [], nextIno := 0 } }))      -- schedules too short: shows up as a mismatch
      else Args.pushInv inv { fs := fs }
    -- the patch reported as failing ("Patch <name> FAILED"): the first one of the range that did not apply
    let failed : String := match out, plan inv.cfg fs with
      | .notAll, .apply range =>
        (match applyLoop fs inv.cfg range 0 {} with
         | .ok (_, k, _) => (match range[k]? with | some e => hexOf e.name | none => "-")
         | .error _ => "-")
      | _, _ => "-"
    let r := s!"exit={out.exit};failed={failed};tree={renderTree w.fs};newino={newInodes fs w.fs};same={boolS (sameFS fs w.fs)};twin=ok;outside=ok"
    r :: runInvs w.fs rest

/-- drop the `same=` field (full metadata equality incl. mtime: only meaningful for C10) -/
def dropSame (r : String) : String := ";".intercalate ((r.splitOn ";").filter (fun x => !x.startsWith "same=" && !x.startsWith "sched=" && !x.startsWith "dev=" && !x.startsWith "rexit=" && !x.startsWith "rfailed=" && !x.startsWith "queues="))

def fieldOf (r name : String) : String :=
  (((r.splitOn ";").find? (fun x => x.startsWith (name ++ "="))).map (fun x => (x.drop (name.length + 1)).toString)).getD ""

/-- C10 on the implementation: a `--dry-run` invocation leaves every path, byte, mode, inode and
timestamp under the working directory as it was -/
def c10 (invs impl : List String) (realIo : List Bool) : String :=
  let dry := ((invs.zip impl).zip realIo).filter (fun ((a, _), _) => (a.splitOn " ").contains "--dry-run")
  if dry.isEmpty then "na"
  else if !dry.all (fun ((_, r), _) => fieldOf r "same" == "1") then "FAIL:dry-run-changed-the-tree"
  else if !dry.all (fun ((_, r), _) => fieldOf r "exit" == fieldOf r "rexit") then "FAIL:exit-status-differs-from-real-run"
  -- (a real run that stops with an output failure — something is in the way of a reject or backup file —
  -- names no failing patch; a dry run writes nothing and cannot meet that failure: only the exit status is compared then)
  else if !dry.all (fun ((_, r), io) => io || fieldOf r "failed" == fieldOf r "rfailed") then "FAIL:failing-patch-differs-from-real-run"
  else "ok"

/-- C15 on the implementation: hard-linked twins keep content and mode -/
def c15 (impl : List String) : String :=
  if impl.all (fun r => fieldOf r "twin" == "ok") then "ok" else "FAIL:twin-changed"

/-- the mode of a zero-length quilt backup (a file that did not exist before the patch) is not specified:
compare such entries without their mode -/
def normTree (t : String) : String :=
  ",".intercalate ((t.splitOn ",").map (fun e =>
    match e.splitOn ":" with
    | [p, _, c] => if c == "-" && p.startsWith "2e70632f" then s!"{p}:*:{c}" else e
    | _ => e))

/-- only the last line of a file may lack its newline (then the lines are exactly what splitting the
file's bytes gives back) -/
def lineOK (l : Bytes) : Bool := !l.isEmpty && !(l.dropLast.contains 10)

/-- (mirror of `Agree.Terminated`: every line is non-empty and has no newline inside, every line but the last ends
with one — an EMPTY last line, as `+` followed by `\ No newline` produces, is zero bytes on disk and not a line after
re-reading) -/
def termOK : List Bytes → Bool
  | [] => true
  | [l] => lineOK l
  | l :: rest => lineOK l && l.getLast? == some 10 && termOK rest

/-- Class of the known finding `unterminated-line-mid-file`: while the patches of this invocation are
applied (up to and including the failing one), some file patch leaves a file whose in-memory lines have
a line without newline that is not the last one — an offset / fuzz placement put lines behind an
unterminated last line, or a `\ No newline` line in front of other lines.  From then on the in-memory
lines are not what re-reading the saved bytes gives, and later hunks can match differently than they
would after a flush. -/
def termBroken (fs : FS) (cfg : Cfg) (range : List Series.Entry) : Bool := Id.run do
  let mut t : Abs.ATree := []
  for entry in range do
    match patchKey cfg entry.name with
    | none => return false
    | some pk =>
      match fs.readFile pk with
      | .error _ => return false
      | .ok (bytes, _) =>
        match Parse.parsePatch bytes entry.strip false with
        | .error _ => return false
        | .ok patch =>
          let mut t' := t
          let mut ok := true
          for fp in patch.fps do
            match Abs.applyFP t' fs cfg entry fp with
            | .error _ => return false
            | .ok r =>
              t' := r.tree
              ok := ok && r.ok
              if t'.any (fun e => !termOK e.2.content) then return true
          if ok then t := t' else return false
  return false

def termBrokenInv (fs : FS) (a : String) : Bool :=
  let inv := parseArgs (if a == "-" then [] else a.splitOn " ") ()
  match plan inv.cfg fs with
  | .apply range => termBroken fs inv.cfg range
  | _ => false

/-- Class of the known finding `dir-file-swap`: some file patch of the range names a path that is a
directory in the tree the invocation starts from, or lies below a regular file of that tree.  The driver
looks at the disk when it loads such a name: even if earlier patches of the same invocation have (in
memory) emptied that directory / removed that file, the load fails with EISDIR / ENOTDIR and the push is
refused, whereas the same patches pushed by separate invocations succeed. -/
def dirFileSwap (fs : FS) (cfg : Cfg) (range : List Series.Entry) : Bool :=
  range.any (fun entry =>
    match patchKey cfg entry.name with
    | none => false
    | some pk =>
      match fs.readFile pk with
      | .error _ => false
      | .ok (bytes, _) =>
        match Parse.parsePatch bytes entry.strip false with
        | .error _ => false
        | .ok patch => patch.fps.any (fun fp =>
            ((match fp.old with | some n => [n] | none => []) ++ (match fp.new with | some n => [n] | none => [])).any (fun n =>
              match safeKey n with
              | some k => (k != [] && fs.lookup k == some Node.dir) || fs.fileOnPath k
              | none => false)))

def dirFileSwapInv (fs : FS) (a : String) : Bool :=
  let inv := parseArgs (if a == "-" then [] else a.splitOn " ") ()
  match plan inv.cfg fs with
  | .apply range => dirFileSwap fs inv.cfg range
  | _ => false

/-- the paths the file patches of the range name (both names, stripped) -/
def rangeKeys (fs : FS) (cfg : Cfg) (range : List Series.Entry) : List Key :=
  range.flatMap (fun entry =>
    match patchKey cfg entry.name with
    | none => []
    | some pk =>
      match fs.readFile pk with
      | .error _ => []
      | .ok (bytes, _) =>
        match Parse.parsePatch bytes entry.strip false with
        | .error _ => []
        | .ok patch => patch.fps.flatMap (fun fp =>
            ((match fp.old with | some n => [n] | none => []) ++ (match fp.new with | some n => [n] | none => [])).filterMap safeKey))

/-- Class of the known finding `empty-dir-kept`: the tree the invocation starts from has, outside `.pc`, a directory
without any regular file in or below it, and some file patch of the range names a path below that directory.  If the
invocation creates a file there and a later patch of the same invocation removes it again, nothing is ever written
and the directory stays; two invocations write the file, remove it and — like GNU patch — remove the directories the
removal left empty, the old empty one included.  The difference between the implementation's tree and the
specification's is confined to such directories (and what lies below them: a reject file is written only if its
directory is there). -/
def emptyDirKept (fs : FS) (cfg : Cfg) (range : List Series.Entry) (implT specT : FS) : Bool :=
  let keys := rangeKeys fs cfg range
  let ds := fs.nodes.filterMap (fun (k, n) =>
    if n == Node.dir && k.head? != some [46, 112, 99] &&
       !fs.nodes.any (fun (k', n') => n' != Node.dir && k.isPrefixOf k') &&
       keys.any (fun key => k.isPrefixOf key && k != key) then some k else none)
  let outside := fun (t : FS) => { t with nodes := t.nodes.filter (fun (k, _) => !ds.any (fun d => d.isPrefixOf k)) }
  !cfg.dryRun && ds.any (fun d => implT.isDir d && !specT.isDir d) && renderTree (outside implT) == renderTree (outside specT)

def emptyDirKeptInv (fs : FS) (a : String) (implT specT : FS) : Bool :=
  let inv := parseArgs (if a == "-" then [] else a.splitOn " ") ()
  match plan inv.cfg fs with
  | .apply range => emptyDirKept fs inv.cfg range implT specT
  | _ => false

/-- quilt's own paths (mirror of `Compose.Own`) -/
def ownB (cfg : Cfg) (k : Key) : Bool :=
  k.head? == some [46, 112, 99] || k == [] || k == seriesKey ||
  (match safeKey cfg.patchesDir with | some d => d.isPrefixOf k || k.isPrefixOf d | none => false)

/-- Do the hypotheses of the refinement theorems (`C05_push_refines_pushSpec_all`, `C06_par_refines_pushSpec`,
`C09_disk_composes`) hold for this invocation?  A Bool mirror of `Tight` (this one is proven equivalent:
`tightB_iff`), `Compose.Clean`, `Agree.PrefixFree`, the terminated-lines condition (through the class predicate
`termBroken`) and `PatchPathsDistinct` — for the evidence only: it says how much of the generated space the theorems
speak about; the verdicts do not depend on it. -/
def hypsHold (fs : FS) (cfg : Cfg) (range : List Series.Entry) : Bool :=
  let keys := rangeKeys fs cfg range
  Tight.tightB fs &&
  range.all (fun e =>
    (match patchKey cfg e.name with | some pk => pk.head? != some [46, 112, 99] | none => true) &&
    (match safeKey e.name with | some p => p != [] && p.head? != some [97, 112, 112, 108, 105, 101, 100, 45, 112, 97, 116, 99, 104, 101, 115] | none => true) &&
    (match patchKey cfg e.name with
     | some pk => (match fs.readFile pk with
        | .ok (b, _) => (match Parse.parsePatch b e.strip false with | .ok _ => true | .error _ => false)
        | .error _ => false)
     | none => false)) &&
  keys.all (fun k => !ownB cfg k) &&
  keys.all (fun k => keys.all (fun k' => !(k.length < k'.length && k'.take k.length == k))) &&
  !termBroken fs cfg range &&
  (let ps := range.map (fun e => safeKey e.name); ps.all (fun p => (ps.filter (· == p)).length == 1))

/-- `1` / `0`: the hypotheses hold / do not hold for the first invocation that applies something; `na`: none does -/
def hypField (fs0 : FS) (invs : List String) : String :=
  match invs with
  | a :: _ =>
    let inv := parseArgs (if a == "-" then [] else a.splitOn " ") ()
    if inv.bad || inv.cfg.dryRun then "na"
    else match plan inv.cfg fs0 with
      | .apply range => boolS (hypsHold fs0 inv.cfg range)
      | _ => "na"
  | [] => "na"

/-- An instance of the refinement theorem, checked on the executed model (`C05_checked_instance`, whose static
hypotheses are discharged by `hypsHold`: `hypsHold_sound`): for the first invocation, if `hypsHold` holds, it is a real
single-threaded run that applies something, and the specification neither refuses nor meets an output failure, the
driver model's tree and exit status ARE the specification's.  `FAIL` here would mean that the compiled model and the
model the kernel checked are not the same function. -/
def thmField (fs0 : FS) (invs : List String) : String :=
  match invs with
  | a :: _ =>
    let inv := parseArgs (if a == "-" then [] else a.splitOn " ") ()
    if inv.bad || inv.badLate || inv.cfg.dryRun || inv.threads > 1 then "na"
    else match plan inv.cfg fs0 with
      | .apply range =>
        if !hypsHold fs0 inv.cfg range then "na"
        else
          let sp := Spec.pushSpec inv.cfg fs0
          let refused := match Spec.applyRangeTree inv.cfg fs0 range { fs := fs0, k := 0, rejs := [], failed := false, backups := [] } with
            | .ok _ => false | .error _ => true
          if refused || sp.ioError then "na"
          else
            let (out, w) := push inv.cfg { fs := fs0 }
            if out.exit == sp.exit && renderTree w.fs == renderTree sp.fs then "ok" else "FAIL"
      | _ => "na"
  | [] => "na"

/-- the class of known finding the invocation falls in, if its outcome differs from the specification.
`refused`: the implementation exited with status 1 and left the tree as it was. -/
def knownClass (fs : FS) (a : String) (refused : Bool) (implT specT : FS) : Option String :=
  if termBrokenInv fs a then some "unterminated-line-mid-file"
  else if refused && dirFileSwapInv fs a then some "dir-file-swap"
  else if emptyDirKeptInv fs a implT specT then some "empty-dir-kept"
  else none

/-- `pushSpec` evaluated against the implementation: starting from the tree the implementation left
after the previous invocation, the exit status and the whole resulting tree must be what the
specification says -/
def specVerdict (fs0 : FS) (invs impl : List String) : String := Id.run do
  let mut fs := fs0
  for (a, r) in invs.zip impl do
    let inv := parseArgs (if a == "-" then [] else a.splitOn " ") ()
    -- an option value the tool refuses: exit 1, nothing touched (before the quilt state is read, or —
    -- unknown analysis, bad thread count — once it is known that there is something to apply)
    let sp : Spec.SpecOut :=
      if inv.bad then { exit := 1, fs }
      else if inv.badLate && (match plan inv.cfg fs with | .apply _ => true | _ => false) then { exit := 1, fs }
      else Spec.pushSpec inv.cfg fs
    let implTree := fieldOf r "tree"
    let known := knownClass fs a (fieldOf r "exit" == "1" && implTree == renderTree fs) (parseTree implTree) sp.fs
    if fieldOf r "exit" != toString sp.exit then
      return (match known with | some c => s!"KNOWN:{c}" | none => s!"FAIL:exit(spec={sp.exit})")
    if sp.ioError then
      -- an output failure in the last phase (rejects, backups, .pc): exit status 1 (checked above) and
      -- nothing recorded as applied; how far that phase got is not specified
      let appliedOf := fun (f : FS) => match f.readFile appliedKey with | .ok (b, _) => some b | .error _ => none
      if appliedOf (parseTree implTree) != appliedOf fs then
        return (match known with | some c => s!"KNOWN:{c}" | none => "FAIL:recorded-despite-output-failure")
    else if implTree != renderTree sp.fs then
      return (match known with | some c => s!"KNOWN:{c}" | none => s!"FAIL:tree spectree={renderTree sp.fs}")
    fs := parseTree implTree
  return "ok"

/-- executable check of the statement of `RQ.Abs.apply_refines` (model application loop = abstract
specification) on the generated workspace — validates the theorem's statement, not the implementation -/
def absVerdict (fs0 : FS) (invs impl : List String) : String := Id.run do
  let mut fs := fs0
  for (a, r) in invs.zip impl do
    let inv := parseArgs (if a == "-" then [] else a.splitOn " ") ()
    match plan inv.cfg fs with
    | .apply range =>
      match applyLoop fs inv.cfg range 0 {}, Abs.applyRange fs inv.cfg range 0 [] with
      | .ok (st, k, rejs), .ok (t, k', rejs') =>
        if k != k' then return "FAIL:k"
        if rejs != rejs' then return "FAIL:rejs"
        let names := st.mem.map (·.2.1)
        let t1 := Abs.ofMem st.mem
        for n in (if inv.cfg.dryRun then [] else names) do   -- a dry run does not bother to undo the failing patch
          match Abs.look t1 fs n, Abs.look t fs n with
          | .ok x, .ok y => if x != y then return s!"FAIL:tree:{hexOf n}:model={reprStr x}:abs={reprStr y}".replace " " "_"
          | .error _, .error _ => pure ()
          | _, _ => return "FAIL:tree-err"
        if !(t.all (fun e => t1.any (fun e' => e'.1 == e.1))) then return "FAIL:names"
      | .error e, .error e' => if e != e' then return "FAIL:errkind"
      | _, _ => return "FAIL:ok-vs-error"
    | _ => pure ()
    fs := parseTree (fieldOf r "tree")
  return "ok"

/-- executable check of the statement of `RQ.Abs.C08_backup_is_prestate` on the generated workspace -/
def c08Statement (fs0 : FS) (invs impl : List String) : String := Id.run do
  let mut fs := fs0
  for (a, r) in invs.zip impl do
    let inv := parseArgs (if a == "-" then [] else a.splitOn " ") ()
    match plan inv.cfg fs with
    | .apply range =>
      if !inv.cfg.dryRun then
        match applyLoop fs inv.cfg range 0 {} with
        | .ok (st, k, _) =>
          let downTo := match inv.cfg.backupCount with | none => 0 | some n => if k > n then k - n else 0
          match Abs.backupCalls st.mem st.applied downTo with
          | .error _ => return "FAIL:calls-error"
          | .ok (calls, _) =>
            for (j, _, name, _) in calls do
              match Abs.lastCall j name calls with
              | none => return "FAIL:no-last"
              | some f =>
                if !(downTo ≤ j && j < k) then return "FAIL:window"
                match Abs.applyRange fs inv.cfg (range.take j) 0 [] with
                | .ok (t, j', _) =>
                  if j' != j then return "FAIL:count"
                  match Abs.look t fs name with
                  | .ok af => if af != Abs.absOf f then return "FAIL:state"
                  | .error _ => return "FAIL:look"
                | .error _ => return "FAIL:range"
        | .error _ => pure ()
    | _ => pure ()
    fs := parseTree (fieldOf r "tree")
  return "ok"

/-- C13: the reject files on disk hold the failed hunks of the failing patch.  `pushSpec` mirrors one
documented defect (known finding `dup-entry-rej-overwrite`): if the failing patch has two failing file
patches for the same file, the second reject file replaces the first, so only one file patch's hunks
survive.  Such cases are reported as KNOWN instead of ok. -/
def c13 (fs0 : FS) (invs impl : List String) (specV : String) : String := Id.run do
  let mut fs := fs0
  let mut dup := false
  for (a, r) in invs.zip impl do
    let inv := parseArgs (if a == "-" then [] else a.splitOn " ") ()
    match plan inv.cfg fs with
    | .apply range =>
      match Abs.applyRange fs inv.cfg range 0 [] with
      | .ok (_, _, rejs) =>
        let names := rejs.map (fun x => components x.1)
        if !inv.cfg.dryRun && names.any (fun n => (names.filter (· == n)).length > 1) then dup := true
      | .error _ => pure ()
    | _ => pure ()
    fs := parseTree (fieldOf r "tree")
  if specV.startsWith "KNOWN:" then return specV
  if specV != "ok" then return "FAIL:" ++ (specV.splitOn " ").headD ""
  if dup then return "KNOWN:dup-entry-rej-overwrite"
  return "ok"

/-- C07 on the implementation, at the level of the driver: the parallel driver reports (hook) which file patches it
queued for which worker thread, `thread:patch:old:new`.  Every file name (compared the way `Path` compares: by
components) must be mentioned — as old or as new name of a queued file patch — by the queue of ONE worker only; then
names related through any file patch, directly or through a chain, are on one worker, and no file is loaded or
written by two. -/
def queuesOK (q : String) : Bool :=
  let ents : List (Nat × List Comp) := (q.splitOn ",").flatMap (fun e =>
    match e.splitOn ":" with
    | [t, _, o, n] => ([o, n].filter (· != "~")).map (fun x => (natOf t, components (unhex x)))
    | _ => [])
  ents.all (fun (t, c) => ents.all (fun (t', c') => c != c' || t == t'))

def c07 (impl : List String) : String :=
  let qs := (impl.map (fun r => fieldOf r "queues")).filter (fun q => q != "" && q != "-")
  if qs.isEmpty then "na" else if qs.all queuesOK then "ok" else "FAIL:name-on-two-workers"

/-- C19 on the implementation: nothing outside the working directory appeared, vanished or changed -/
def c19 (impl : List String) : String :=
  if impl.all (fun r => fieldOf r "outside" == "ok") then "ok" else "FAIL:touched-outside"

/-- per invocation: does the specification of the REAL (not dry) run, started from the tree the
implementation left after the previous invocation, end in an output failure of the last phase -/
def realIoFlags (fs0 : FS) (invs impl : List String) : List Bool := Id.run do
  let mut fs := fs0
  let mut out : List Bool := []
  for (a, r) in invs.zip impl do
    let inv := parseArgs (if a == "-" then [] else a.splitOn " ") ()
    let sp := if inv.bad then ({ exit := 1, fs } : Spec.SpecOut) else Spec.pushSpec { inv.cfg with dryRun := false } fs
    out := out ++ [sp.ioError && !inv.bad]
    fs := parseTree (fieldOf r "tree")
  return out

/-- C11 on the implementation: the tool exits with 0 or 1, never by a crash -/
def c11 (impl : List String) : String :=
  if impl.all (fun r => fieldOf r "exit" == "0" || fieldOf r "exit" == "1") then "ok" else "FAIL:crash"

/-- do all patch files of the requested range parse (the premise of C06) -/
def rangeParses (fs : FS) (a : String) : Bool :=
  let inv := parseArgs (if a == "-" then [] else a.splitOn " ") ()
  match plan inv.cfg fs with
  | .apply range => range.all (fun e =>
      match patchKey inv.cfg e.name with
      | none => false
      | some pk => match fs.readFile pk with
        | .error _ => false
        | .ok (b, _) => (match Parse.parsePatch b e.strip false with | .ok _ => true | .error _ => false))
  | _ => true

def step (fields : List String) : String :=
  match fields with
  | _ :: cid :: tree :: rest =>
    let invs := rest.takeWhile (· ≠ "=>")
    let impl := (rest.dropWhile (· ≠ "=>")).drop 1
    let m := runInvs (parseTree tree) invs
    let par := invs.any (fun a => (parseArgs (if a == "-" then [] else a.splitOn " ") ()).threads > 1)
    -- a parallel run may re-save (new inode, same bytes) files of patches behind the failing one, which the
    -- single-threaded driver never loads: the set of new inodes is compared for single-threaded runs only
    let proj := fun (r : String) => if par then ";".intercalate ((dropSame r).splitOn ";" |>.filter (fun x => !x.startsWith "newino=")) else dropSame r
    -- an invocation whose real run ends in an output failure: how far the last phase got is not
    -- specified (the parallel driver writes backups before rejects, the sequential one after): only
    -- the exit status is compared, and nothing behind it (the model continues from its own tree)
    -- the patch reported as failing is read off the tool's messages: where the harness could not find it (`-`, e.g.
    -- after a rewording) it is unknown, not different — C10 compares the dry run's with the real run's, both read the same way
    let m := (m.zip (impl ++ List.replicate (m.length - impl.length) "")).map (fun (a, b) =>
      if fieldOf b "failed" == "-" then ";".intercalate ((a.splitOn ";").map (fun x => if x.startsWith "failed=" then "failed=-" else x)) else a)
    let ioFlags := realIoFlags (parseTree tree) invs impl
    let firstIo := (ioFlags.zipIdx.find? (fun (b, _) => b)).map (·.2)
    let eqs := ((m.zip impl).zipIdx).map (fun ((a, b), i) =>
      match firstIo with
      | some j => if i < j then proj a == proj b else if i == j && !((invs.getD i "").splitOn " ").contains "--dry-run" then fieldOf a "exit" == fieldOf b "exit" else if i == j then proj a == proj b else true
      | none => proj a == proj b)
    let firstBad := (eqs.zipIdx.find? (fun (e, _) => !e)).map (·.2)
    let ok := m.length == impl.length && eqs.all (fun b => b)
    -- C06: a parallel run (any forced schedule) must equal the single-threaded specification, provided all
    -- patches of the range parse (the parallel driver parses the whole range up front)
    let specV := specVerdict (parseTree tree) invs impl
    -- (every invocation's range is resolved on the tree that invocation starts from: the one the implementation left)
    let startTrees : List FS := (parseTree tree) :: (impl.map (fun r => parseTree (fieldOf r "tree")))
    let allParse := (invs.zip startTrees).all (fun (a, t) => rangeParses t a)
    let c06 := if !par then "na" else if !allParse then "na"
               else if specV.startsWith "KNOWN:" then specV
               else if specV != "ok" then "FAIL:differs-from-single-threaded:" ++ (specV.splitOn " ").headD "" else if !ok then "MODEL" else "ok"
    s!"{cid} eq={boolS (ok || c06 == "na" && par)} firstbad={optNatS firstBad} C06={c06} SPEC={specV} ABS={absVerdict (parseTree tree) invs impl} C08S={c08Statement (parseTree tree) invs impl} C13={c13 (parseTree tree) invs impl specV} C10={c10 invs impl ioFlags} C15={c15 impl} C19={c19 impl} C11={c11 impl} C07={c07 impl} HYP={hypField (parseTree tree) invs} THM={thmField (parseTree tree) invs} model={"|".intercalate m}"
  | _ => "bad-line"

/-- Engine `F` (C18): one invocation with the k-th file-system write failing.
`F|id|tree|args|k|=>|exit=..;tree=..;op=..;msg=..;nops=..` -/
def stepF (fields : List String) : String :=
  match fields with
  | [_, cid, tree, a, k, _, impl] =>
    let fs := parseTree tree
    let inv := parseArgs (if a == "-" then [] else a.splitOn " ") ()
    let (out, w) := push inv.cfg { fs := fs, faultAt := some (natOf k) }
    let (_, w0) := push inv.cfg { fs := fs }
    -- the tree at the point of failure depends on the order in which the files are saved (HashMap
    -- iteration order, unspecified): exit status and the number of operations of the fault-free run are compared
    let _ := w
    let m := s!"exit={out.exit};nops={w0.trace.length}"
    let i := s!"exit={fieldOf impl "exit"};nops={fieldOf impl "nops"}"
    -- C18 on the implementation: non-zero exit, no crash, a message naming the file, nothing recorded
    let appliedBefore := match fs.readFile appliedKey with | .ok (b, _) => b | .error _ => []
    let appliedAfter := match (parseTree (fieldOf impl "tree")).readFile appliedKey with | .ok (b, _) => b | .error _ => []
    let c18 :=
      -- (a parallel run may need fewer operations than the probe run did: then no fault was injected)
      if fieldOf impl "op" == "-" then (if fieldOf impl "exit" == "101" then "FAIL:crash" else "na")
      else if fieldOf impl "exit" == "101" then "FAIL:crash"
      else if fieldOf impl "exit" != "1" then "FAIL:reported-success"
      -- (a short write to .pc/applied-patches itself leaves a torn record: by then every file of the
      -- patches being recorded has been written, so nothing that was not saved is recorded — but the
      -- old content must still be there)
      else if appliedAfter != appliedBefore &&
          !(fieldOf impl "op" == "write:2e70632f6170706c6965642d70617463686573" && appliedBefore.isPrefixOf appliedAfter) then "FAIL:recorded-as-applied"
      else if fieldOf impl "msg" != "1" then "FAIL:message-does-not-name-the-file"
      else "ok"
    -- a parallel run numbers its operations in an order that depends on the schedule, and an output
    -- failure of one worker leaves the others' files written: only the C18 verdict applies to it
    s!"{cid} eq={boolS (m == i || inv.threads > 1)} C18={c18} model={m}"
  | _ => "bad-line"

end RQ.PushEngine
