import RQ.Driver.Proto
import RQ.Spec.Dist
/-! Engine `D` (C07) -/
namespace RQ.DistEngine
open RQ RQ.Proto

def pairOf (s : String) : Nat × Option Nat :=
  match s.splitOn ":" with
  | [a, b] => (natOf a, optNatOf b)
  | _ => (0, none)

def assignS (l : List (Nat × Nat)) : String :=
  if l.isEmpty then "-" else ",".intercalate (l.map (fun (n, w) => s!"{n}:{w}"))

def insertSorted (x : Nat × Nat) : List (Nat × Nat) → List (Nat × Nat)
  | [] => [x]
  | y :: ys => if x.1 ≤ y.1 then x :: y :: ys else y :: insertSorted x ys

def step (fields : List String) : String :=
  match fields with
  | [_, id, t, ps, _, impl] =>
    let pairs := if ps == "-" then [] else (ps.splitOn ";").map pairOf
    let threads := natOf t
    let d := (Dist.new threads : Dist Nat).addAll pairs
    let m := assignS (d.build.foldr insertSorted [])
    let implMap : List (Nat × Nat) := if impl == "-" || impl == "P" then [] else
      (impl.splitOn ",").map (fun s => match s.splitOn ":" with | [a, b] => (natOf a, natOf b) | _ => (0, 0))
    let w := fun n => (implMap.find? (fun p => p.1 == n)).map (·.2)
    let v := if impl == "P" then "FAIL:panic" else if pairsOK threads pairs w then "ok" else "FAIL:related-names-split"
    s!"{id} eq={boolS (m == impl)} C07={v} model={m}"
  | _ => "bad-line"

end RQ.DistEngine
