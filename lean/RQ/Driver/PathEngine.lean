import RQ.Driver.Proto
import RQ.Model.Path
/-! Engine `P`: std::path model vs the real library -/
namespace RQ.PathEngine
open RQ RQ.Proto

def compS : Comp → String
  | .root => "R" | .cur => "C" | .parent => "U" | .normal n => "N" ++ hexOf n

def step (fields : List String) : String :=
  match fields with
  | [_, id, raw, n, _, impl] =>
    let bs := unhex raw
    let st := stripPath (natOf n) bs
    let cs := components bs
    let csS := if cs.isEmpty then "-" else ",".intercalate (cs.map compS)
    let m := s!"strip={hexOf st} comps={csS} rej={hexOf (makeRejName st)}"
    s!"{id} eq={boolS (m == impl)} model={m}"
  | _ => "bad-line"

end RQ.PathEngine
