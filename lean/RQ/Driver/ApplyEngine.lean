import RQ.Driver.Proto
import RQ.Spec.Apply
/-! Engine `A`: a stack of file patches applied to one file, then rolled back in LIFO order. -/
namespace RQ.ApplyEngine
open RQ RQ.Proto

/-- model: apply all, then roll back all; output items in the implementation's canonical form -/
def applyAll (f : FileSt Nat) : List PatchCase → Nat → List String × List (PatchCase × Report × FileSt Nat) → List String × List (PatchCase × Report × FileSt Nat) × Option (FileSt Nat)
  | [], _, (out, st) => (out, st, some f)
  | p :: ps, i, (out, st) =>
    match p.fp.apply p.dir p.fuzz f with
    | none => (out ++ [s!"a{i}=P"], st, none)
    | some (f', rep) =>
      applyAll f' ps (i+1) (out ++ [s!"a{i}={repsS rep.reps}/{fileS f'}"], (p, rep, f) :: st)

def rollbackAll (f : FileSt Nat) : List (PatchCase × Report × FileSt Nat) → Nat → List String → List String
  | [], _, out => out
  | (p, rep, _) :: st, i, out =>
    match p.fp.rollback p.dir rep f with
    | none => out ++ [s!"r{i}=P"]
    | some f' => rollbackAll f' st (i-1) (out ++ [s!"r{i}={fileS f'}"])

def modelOut (f : FileSt Nat) (ps : List PatchCase) : String :=
  let (out, st, last) := applyAll f ps 0 ([], [])
  match last with
  | none => " ".intercalate out
  | some fl => " ".intercalate (rollbackAll fl st (st.length - 1) out)

/-- parsed implementation output -/
structure ImplItem where
  tag : String     -- "a" or "r"
  idx : Nat
  panic : Bool
  reps : List Rep
  file : FileSt Nat

def parseFile3 (existed : Bool) (s : List String) : FileSt Nat :=
  match s with
  | [del, perms, lines] => { content := csvNat lines, existed := existed, deleted := boolOf del, perms := optNatOf perms }
  | _ => { content := [], existed := existed, deleted := true, perms := none }

def itemOf (existed : Bool) (s : String) : ImplItem :=
  match s.splitOn "=" with
  | [k, v] =>
    let tag := (k.take 1).toString
    let idx := natOf (k.drop 1).toString
    if v == "P" then { tag, idx, panic := true, reps := [], file := parseFile3 existed [] }
    else
      let parts := v.splitOn "/"
      if tag == "a" then
        match parts with
        | r :: rest => { tag, idx, panic := false, reps := repsOf r, file := parseFile3 existed rest }
        | _ => { tag, idx, panic := true, reps := [], file := parseFile3 existed [] }
      else { tag, idx, panic := false, reps := [], file := parseFile3 existed parts }
  | _ => { tag := "?", idx := 0, panic := true, reps := [], file := parseFile3 existed [] }

def sameState (a b : FileSt Nat) : Bool := a.content == b.content && a.deleted == b.deleted && a.perms == b.perms

/-- C03 for the two whole-file kinds -/
def wholeFileOK (p : PatchCase) (before after : FileSt Nat) (reps : List Rep) : Bool :=
  match p.fp.hunks with
  | [h] =>
    let creating := (p.fp.kind == .create && p.dir == .fwd) || (p.fp.kind == .delete && p.dir == .rev)
    let newSide := if p.dir == .fwd then h.add else h.rem
    let oldSide := if p.dir == .fwd then h.rem else h.add
    match reps with
    | [.applied ..] =>
      if creating then before.content.isEmpty && after.content == newSide && !after.deleted
      else before.content == oldSide && after.content.isEmpty
    | [.failed _] => after.content == before.content && after.deleted == before.deleted
    | _ => false
  | _ => false

structure Verdicts where
  c02 : String := "na"
  c03 : String := "na"
  c04 : String := "na"

def fails (old : String) (msg : String) : String := if old == "ok" || old == "na" then msg else old
def oks (old : String) : String := if old == "na" then "ok" else old

/-- evaluate the specifications on the implementation's output -/
def verdicts (f0 : FileSt Nat) (ps : List PatchCase) (impl : String) : Verdicts := Id.run do
  let items := (impl.splitOn " ").filter (· ≠ "") |>.map (itemOf f0.existed)
  let mut v : Verdicts := {}
  let mut cur := f0
  let mut states : List (FileSt Nat) := []   -- states before each successfully applied patch, newest first
  let mut applyPanicked := false
  -- applications
  for (p, i) in ps.zipIdx do
    match items.find? (fun it => it.tag == "a" && it.idx == i) with
    | none => pure ()
    | some it =>
      if it.panic then
        applyPanicked := true
        v := { v with c03 := fails v.c03 s!"FAIL:apply-panic@{i}", c04 := fails v.c04 s!"FAIL:apply-panic@{i}" }
      else
        if p.fp.kind == .modify then
          if reportsOK p.dir p.fuzz cur.content cur.deleted p.fp.hunks it.reps 0 (-1) then v := { v with c02 := oks v.c02 }
          else v := { v with c02 := fails v.c02 s!"FAIL:placement@{i}" }
          if contentOK p.dir p.fp.hunks it.reps cur.content it.file.content && it.file.deleted == cur.deleted then
            v := { v with c03 := oks v.c03 }
          else v := { v with c03 := fails v.c03 s!"FAIL:content@{i}" }
        else
          if wholeFileOK p cur it.file it.reps then v := { v with c03 := oks v.c03 }
          else v := { v with c03 := fails v.c03 s!"FAIL:wholefile@{i}" }
        states := cur :: states
        cur := it.file
  -- rollbacks
  if !applyPanicked then
    let n := states.length
    let mut expect := states
    for j in List.range n do
      let i := n - 1 - j
      match items.find? (fun it => it.tag == "r" && it.idx == i), expect with
      | some it, e :: rest =>
        if it.panic then v := { v with c04 := fails v.c04 s!"FAIL:rollback-panic@{i}" }
        else if sameState it.file e then v := { v with c04 := oks v.c04 }
        else v := { v with c04 := fails v.c04 s!"FAIL:rollback-state@{i}" }
        expect := rest
      | _, _ => v := { v with c04 := fails v.c04 s!"FAIL:rollback-missing@{i}" }
  return v

/-- one protocol line: `A|id|file|patch|…|=>|impl` -/
def step (fields : List String) : String :=
  match fields with
  | _ :: id :: file :: rest =>
    let ps := (rest.takeWhile (· ≠ "=>")).map patchOf
    let impl := ((rest.dropWhile (· ≠ "=>")).drop 1).headD ""
    let f0 := fileOf file
    let m := modelOut f0 ps
    let v := verdicts f0 ps impl
    s!"{id} eq={boolS (m == impl)} C02={v.c02} C03={v.c03} C04={v.c04} model={m}"
  | _ => "bad-line"

/-- one protocol line of engine `T` (C20): `T|id|file|patch|F'|=>|implF|implF'` -/
def stepT (fields : List String) : String :=
  match fields with
  | [_, id, file, patch, f2, _, impl1, impl2] =>
    let f0 := fileOf file
    let p := patchOf patch
    let p2 := { p with fuzz := natOf f2 }
    let m1 := modelOut f0 [p]
    let m2 := modelOut f0 [p2]
    let a1 := (impl1.splitOn " ").filter (· ≠ "") |>.map (itemOf f0.existed) |>.find? (fun it => it.tag == "a")
    let a2 := (impl2.splitOn " ").filter (· ≠ "") |>.map (itemOf f0.existed) |>.find? (fun it => it.tag == "a")
    let c20 := match a1, a2 with
      | some x, some y =>
        if x.panic || x.reps.any Rep.isFailed then "na"
        else if y.panic then "FAIL:panic-at-higher-fuzz"
        else if !sameState x.file y.file then "FAIL:file-differs"
        else if y.reps.any Rep.isFailed then "FAIL:fails-at-higher-fuzz"
        else if p.fp.kind == Kind.modify && x.reps != y.reps then "FAIL:reports-differ"
        else "ok"
      | _, _ => "FAIL:missing-output"
    s!"{id} eq={boolS (m1 == impl1 && m2 == impl2)} C20={c20} model={m1}|{m2}"
  | _ => "bad-line"

end RQ.ApplyEngine
