import RQ.Driver.Proto
import RQ.Model.Parse
import RQ.Model.Lines
/-! Engine `C` (C01): a diff A→B applied to A (or, -R, to B) -/
namespace RQ.DiffEngine
open RQ RQ.Proto RQ.Parse

def kindS : Kind → String | .modify => "M" | .create => "C" | .delete => "D"

def startFile (x : String) : FileSt Bytes :=
  if x == "~" then { content := [], existed := false, deleted := true, perms := none }
  else { content := linesOf (unhex x), existed := true, deleted := false, perms := none }

def exact : Rep → Bool
  | .applied _ _ off _ fz => off == 0 && fz == 0
  | _ => false

def step (fields : List String) : String :=
  match fields with
  | [_, cid, a, b, d, strip, patch, _, lib, cli] =>
    let rev := d == "R"
    let start := startFile (if rev then b else a)
    let target := if rev then a else b
    let parsed := parsePatch (unhex patch) (natOf strip) false
    let m := match parsed with
      | .error _ => "ERR"
      | .ok p =>
        match p.fps with
        | [fp] =>
          (match fp.apply (if rev then .rev else .fwd) 0 start with
           | none => "P"
           | some (f, rep) => s!"{kindS fp.kind};{repsS rep.reps};{boolS f.deleted};{hexOf (bytesOf f.content)}")
        | fps => s!"NFP{fps.length}"
    -- C01 on the implementation
    let parts := lib.splitOn ";"
    let libOK := parts.length ≥ 4 &&
      (let content := parts.getLastD ""
       let reps := ((parts.drop 1).take (parts.length - 3)).map repOf
       let deleted := (parts.drop (parts.length - 2)).headD ""
       reps.all exact && !reps.isEmpty &&
       -- an absent file must be absent (not an empty file that exists), and the other way round
       (if target == "~" then content == "-" && deleted == "1" else content == target && deleted == "0"))
    let cliOK := if cli == "-" then true else
      match cli.splitOn ";" with
      | [e, content] => e == "exit=0" && content == target
      | _ => false
    let nothingToDo := patch == "-"
    let verdict := if nothingToDo then "na" else if libOK && cliOK then "ok" else
      -- known finding `c0-top-of-file`: a context-free hunk with an empty side at line 0 is taken for a
      -- whole-file creation/deletion although the file is (or stays) non-empty
      (match parsed with
       | .ok p => (match p.fps with
          | [fp] =>
            let startNonEmpty := !start.content.isEmpty
            let targetNonEmpty := target != "~" && target != "-"
            let creating := (fp.kind == .create && !rev) || (fp.kind == .delete && rev)
            let deleting := (fp.kind == .delete && !rev) || (fp.kind == .create && rev)
            if (creating && startNonEmpty) || (deleting && targetNonEmpty) then "KNOWN:c0-top-of-file"
            else if !libOK then "FAIL:lib" else "FAIL:cli"
          | _ => "FAIL:file-patches")
       | .error _ => "FAIL:rejected")
    s!"{cid} eq={boolS (m == lib)} C01={verdict} model={m}"
  | _ => "bad-line"

end RQ.DiffEngine
