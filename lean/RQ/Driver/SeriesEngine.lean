import RQ.Driver.Proto
import RQ.Model.Series
/-! Engine `S`: series file reader -/
namespace RQ.SeriesEngine
open RQ RQ.Proto RQ.Series

def step (fields : List String) : String :=
  match fields with
  | [_, id, bytes, _, impl] =>
    let m := match readSeries (unhex bytes) with
      | .error _ => "ERR"
      | .ok es => "OK " ++ (if es.isEmpty then "-" else ";".intercalate (es.map (fun e => s!"{hexOf e.name}:{e.strip}:{boolS e.reverse}")))
    let c11 := if impl == "PANIC" then "FAIL:panic" else "ok"
    s!"{id} eq={boolS (m == impl)} C11={c11} model={m}"
  | _ => "bad-line"

end RQ.SeriesEngine
