import RQ.Spec.Diff
/-!
# A diff function: `editScript` (LCS line alignment) and `mkDiff` (GNU-style grouping into hunks)

`editScript A B` is a list of segments — `keep ls` (lines common to both files) or `change del ins`
(lines of `A` replaced by lines of `B`) — whose old side is `A` and whose new side is `B`.  The alignment
follows a longest-common-subsequence table (`lcsTable`); its correctness does not depend on the table
(any table yields a correct, normal-form script, only not a minimal one).

`mkDiff c s` groups a script into unified-diff hunks with context width `c` the way GNU diff does: first
two changes separated by at most `2*c` common lines are merged into one change whose middle contains
those lines (`mergeSmall`); then every change becomes one hunk with up to `c` lines of leading and of
trailing context cut from the neighbouring keeps (`emit`).  Line numbers are 0-based positions in `A` and
`B` of the first line of the hunk (including its leading context).

`RQ/Lemmas/MkDiff.lean` proves `ValidDiff A B (mkDiff c (editScript A B))` for all `A`, `B`, `c`.
-/
namespace RQ
variable {α : Type}

/-- a segment of a line diff -/
inductive Seg (α : Type) where
  | keep (ls : List α)
  | change (del ins : List α)
deriving Repr, DecidableEq

/-- the old file described by a script: keeps and deleted lines -/
def oldOf : List (Seg α) → List α
  | [] => []
  | .keep ls :: r => ls ++ oldOf r
  | .change d _ :: r => d ++ oldOf r

/-- the new file described by a script: keeps and inserted lines -/
def newOf : List (Seg α) → List α
  | [] => []
  | .keep ls :: r => ls ++ newOf r
  | .change _ i :: r => i ++ newOf r

/-- normal form: no empty keep, no empty change, keeps and changes alternate -/
def NF : List (Seg α) → Prop
  | [] => True
  | .keep ls :: r => ls ≠ [] ∧ (match r with | .keep _ :: _ => False | _ => True) ∧ NF r
  | .change d i :: r => (d ≠ [] ∨ i ≠ []) ∧ (match r with | .change _ _ :: _ => False | _ => True) ∧ NF r

/-! ## the edit script -/

/-- put a common line in front of a script -/
def consKeep (a : α) : List (Seg α) → List (Seg α)
  | .keep ls :: r => .keep (a :: ls) :: r
  | r => .keep [a] :: r

/-- put a deleted line in front of a script -/
def consDel (a : α) : List (Seg α) → List (Seg α)
  | .change d i :: r => .change (a :: d) i :: r
  | r => .change [a] [] :: r

/-- put an inserted line in front of a script -/
def consIns (b : α) : List (Seg α) → List (Seg α)
  | .change d i :: r => .change d (b :: i) :: r
  | r => .change [] [b] :: r

/-- the script for "replace all of `A` by all of `B`" -/
def tailSeg (A B : List α) : List (Seg α) :=
  match A, B with
  | [], [] => []
  | A, B => [.change A B]

/-- one row of the LCS table: `nxt` is the row of the next line of `A` (entry `j` = LCS length of the rest
of `A` after `a` and `B.drop j`), the result is the row of `a` -/
def lcsRow [DecidableEq α] (a : α) : List α → List Nat → List Nat
  | [], _ => [0]
  | b :: bs, nxt =>
    let r := lcsRow a bs nxt.tail
    (if a = b then nxt.tail.headD 0 + 1 else max (nxt.headD 0) (r.headD 0)) :: r

/-- the LCS table: row `i`, entry `j` = length of a longest common subsequence of `A.drop i`, `B.drop j` -/
def lcsTable [DecidableEq α] : List α → List α → List (List Nat)
  | [], B => [List.replicate (B.length + 1) 0]
  | a :: as, B =>
    let t := lcsTable as B
    lcsRow a B (t.headD []) :: t

/-- walk through both files along a table `T` (`T i j` = how many lines `A.drop i` and `B.drop j` can
share): equal heads are kept, otherwise the side whose removal loses nothing is dropped.  `fuel` bounds the
number of steps (`A.length + B.length` suffices); when it runs out the rest becomes one change. -/
def walk [DecidableEq α] (T : Nat → Nat → Nat) : (fuel i j : Nat) → List α → List α → List (Seg α)
  | fuel + 1, i, j, a :: as, b :: bs =>
    if a = b then consKeep a (walk T fuel (i + 1) (j + 1) as bs)
    else if T i (j + 1) ≤ T (i + 1) j then consDel a (walk T fuel (i + 1) j as (b :: bs))
    else consIns b (walk T fuel i (j + 1) (a :: as) bs)
  | _, _, _, A, B => tailSeg A B

/-- a line diff of `A` and `B` along a longest common subsequence -/
def editScript [DecidableEq α] (A B : List α) : List (Seg α) :=
  let tbl : Array (Array Nat) := ((lcsTable A B).map List.toArray).toArray
  walk (fun i j => (tbl.getD i #[]).getD j 0) (A.length + B.length) 0 0 A B

/-! ## grouping into hunks -/

/-- put a change in front of an already merged script: it swallows a following change, and a following
keep of at most `2*c` lines together with the change after it -/
def absorb (c : Nat) (d i : List α) : List (Seg α) → List (Seg α)
  | .keep ls :: .change d' i' :: t =>
    if ls.length ≤ 2 * c then .change (d ++ ls ++ d') (i ++ ls ++ i') :: t
    else .change d i :: .keep ls :: .change d' i' :: t
  | .change d' i' :: t => .change (d ++ d') (i ++ i') :: t
  | t => .change d i :: t

/-- merge changes that are at most `2*c` common lines apart (their hunks would touch or overlap) -/
def mergeSmall (c : Nat) : List (Seg α) → List (Seg α)
  | [] => []
  | .keep ls :: r => .keep ls :: mergeSmall c r
  | .change d i :: r => absorb c d i (mergeSmall c r)

/-- the lines of the keep a script starts with (none if it starts with a change) -/
def headKeep : List (Seg α) → List α
  | .keep ls :: _ => ls
  | _ => []

/-- one hunk per change.  `lead`: the common lines since the previous change (or the start of the file),
`pa`/`pb`: 0-based line of the first line of `lead` in the old / new file -/
def emit (c : Nat) : (pa pb : Nat) → (lead : List α) → List (Seg α) → List (Hunk α)
  | _, _, _, [] => []
  | pa, pb, lead, .keep ls :: r => emit c pa pb (lead ++ ls) r
  | pa, pb, lead, .change d i :: r =>
    let g := lead.length - c
    let P := lead.drop g
    let S := (headKeep r).take c
    { rem := P ++ d ++ S, add := P ++ i ++ S,
      remLine := ((pa + g : Nat) : Int), addLine := ((pb + g : Nat) : Int),
      pre := P.length, suf := S.length }
      :: emit c (pa + lead.length + d.length) (pb + lead.length + i.length) [] r

/-- the unified diff with context width `c` for a script -/
def mkDiff (c : Nat) (s : List (Seg α)) : List (Hunk α) := emit c 0 0 [] (mergeSmall c s)

end RQ
