import RQ.Model.Dist
/-! Specification for C07: names related through any chain of pairs go to the same worker. -/
namespace RQ
variable {ν : Type} [DecidableEq ν]

/-- equivalence closure of "some pair relates `a` and `b`" -/
inductive Related (pairs : List (ν × Option ν)) : ν → ν → Prop
  | pair {a b : ν} : (a, some b) ∈ pairs → Related pairs a b
  | refl (a : ν) : Related pairs a a
  | symm {a b : ν} : Related pairs a b → Related pairs b a
  | trans {a b c : ν} : Related pairs a b → Related pairs b c → Related pairs a c

/-- a name occurs in the sequence -/
def Mentioned (pairs : List (ν × Option ν)) (n : ν) : Prop := ∃ p ∈ pairs, p.1 = n ∨ p.2 = some n

/-- The check evaluated on an assignment `w` (name ↦ worker): every mentioned name has a worker below
`threads`, and the two names of every pair have the same worker.  By `pairsOK_related` this is the
property for arbitrary chains. -/
def pairsOK (threads : Nat) (pairs : List (ν × Option ν)) (w : ν → Option Nat) : Bool :=
  pairs.all (fun p =>
    (match w p.1 with | some x => decide (x < threads) | none => false) &&
    (match p.2 with
     | none => true
     | some b => (match w b with | some x => decide (x < threads) | none => false) && w p.1 == w b))

end RQ
