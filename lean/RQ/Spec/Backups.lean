import RQ.Spec.Abs
/-! Vocabulary for C08: the backup writes of `rollback_and_save_backup_files` as a list of calls. -/
namespace RQ.Abs
open RQ RQ.Push

/-- the calls `save_backup_file(patch, file, state)` made by `rollback_and_save_backup_files`, in order,
and the memory afterwards -/
def backupCalls (mem : Mem) : List Status → Nat → Except Fail (List (Nat × Bytes × Bytes × FileSt Bytes) × Mem)
  | [], _ => .ok ([], mem)
  | s :: rest, downTo =>
    if s.index < downTo then .ok ([], mem)
    else
      match rollbackOne mem s with
      | .error e => .error e
      | .ok (mem', file) =>
        let extra : Except Fail (List (Nat × Bytes × Bytes × FileSt Bytes)) :=
          if s.fp.rename then
            match s.fp.new with
            | none => .error .panic
            | some newName =>
              match mem'.get newName with
              | none => .error .panic
              | some nf => .ok [(s.index, s.patchName, newName, nf)]
          else .ok []
        match extra with
        | .error e => .error e
        | .ok ex =>
          match backupCalls mem' rest downTo with
          | .error e => .error e
          | .ok (calls, mem'') => .ok ((s.index, s.patchName, s.target, file) :: ex ++ calls, mem'')

/-- write the backups of a list of calls -/
def saveBackups (w : World) : List (Nat × Bytes × Bytes × FileSt Bytes) → WR World
  | [] => .ok w
  | (_, pn, name, f) :: rest =>
    match saveBackup w pn name f with
    | .error e => .error e
    | .ok w' => saveBackups w' rest

/-- the state of the last call for backup file `.pc/<patch idx>/<name>` — the one that stays on disk -/
def lastCall (idx : Nat) (name : Bytes) : List (Nat × Bytes × Bytes × FileSt Bytes) → Option (FileSt Bytes)
  | [] => none
  | (i, _, n, f) :: rest =>
    match lastCall idx name rest with
    | some g => some g
    | none => if i = idx ∧ components n = components name then some f else none

end RQ.Abs
