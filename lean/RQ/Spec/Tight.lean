import RQ.Model.FS
/-!
# An executable check for tight trees

`RQ/Lemmas/Tight.lean` defines `Tight fs` (outside `.pc`: the parents of every node are directories, every directory
has a regular file somewhere below it, permission bits are permission bits, the working directory itself is not a
node) with quantifiers over all keys.  `tightB` is the same thing as finitely many checks over `fs.nodes`;
`RQ/Lemmas/TightDec.lean` proves `tightB fs = true ↔ Tight fs`.  This file is import-free of the lemma modules so that
the compiled driver can run the check.
-/
namespace RQ.Tight
open RQ

/-- the key lies below `.pc` (or is `.pc` itself) -/
def pcB (k : Key) : Bool := k.head? == some [46, 112, 99]

/-- every proper non-empty prefix of `k` is a directory -/
def parentsB (fs : FS) (k : Key) : Bool :=
  (List.range k.length).all (fun i => i == 0 || fs.lookup (k.take i) == some .dir)

def isFileB : Option Node → Bool
  | some (.file ..) => true
  | _ => false

/-- `d` is a strict prefix of `k` -/
def spreB (d k : Key) : Bool := decide (d.length < k.length) && k.take d.length == d

/-- the checks for one node key `k` outside `.pc` (what `lookup` sees there decides which) -/
def nodeB (fs : FS) (k : Key) : Bool :=
  parentsB fs k &&
    match fs.lookup k with
    | some .dir => k == [] || fs.nodes.any (fun q => spreB k q.1 && isFileB (fs.lookup q.1))
    | some (.file _ m _) => decide (m < 4096)
    | none => true

def tightB (fs : FS) : Bool :=
  (fs.lookup []).isNone && fs.nodes.all (fun p => pcB p.1 || nodeB fs p.1)

end RQ.Tight
