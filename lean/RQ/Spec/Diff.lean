import RQ.Spec.Apply
import RQ.Model.Lines
/-!
# What "a unified diff from A to B" is (C01)

`ValidDiff A B hs`: the hunks `hs`, in order, describe how to turn the line list `A` into `B`.  Each hunk
has leading context `P`, a changed middle (`D` on the old side, `I` on the new side — the middle may
itself contain common lines), trailing context `S`; it sits at its stated 0-based lines in `A` and `B`;
between the changed middles of two consecutive hunks at least one line is unchanged (otherwise diff
would have produced one hunk); a hunk with more leading than trailing context reaches the end of `A`
and of `B` (that is the only way diff emits such a hunk: its trailing context, common to both files, was
cut short by the end of both; requiring the end of `A` only would allow `A = a b x s`, `B = a b s y`,
hunks `a b -x s` (2/1 context) and `s +y` (1/0), which applies forwards but whose first hunk, being
end-anchored, finds no place backwards on `B`).  No particular diff algorithm or context width is
assumed: any `hs` with this property is covered (context width 0 gives `P = S = []`).
-/
namespace RQ
variable {α : Type}

/-- `pa`, `pb`: 0-based line numbers in the whole `A` / `B` of the first line of the suffixes `A`, `B`
still to be described; `gap`: at least one unchanged line is required before the next changed middle -/
def ValidFrom : (gap : Bool) → (pa pb : Nat) → (A B : List α) → List (Hunk α) → Prop
  | _, _, _, A, B, [] => A = B
  | gap, pa, pb, A, B, h :: hs =>
    ∃ (G0 P D I S A' B' : List α),
      A = G0 ++ P ++ D ++ S ++ A' ∧ B = G0 ++ P ++ I ++ S ++ B' ∧
      h.rem = P ++ D ++ S ∧ h.add = P ++ I ++ S ∧ h.pre = P.length ∧ h.suf = S.length ∧
      h.remLine = ((pa + G0.length : Nat) : Int) ∧ h.addLine = ((pb + G0.length : Nat) : Int) ∧
      (D ≠ [] ∨ I ≠ []) ∧
      (gap = true → G0 ++ P ≠ []) ∧
      (h.pre > h.suf → A' = [] ∧ B' = []) ∧
      ValidFrom true (pa + G0.length + P.length + D.length) (pb + G0.length + P.length + I.length) (S ++ A') (S ++ B') hs

/-- `hs` is a unified diff from `A` to `B` -/
def ValidDiff (A B : List α) (hs : List (Hunk α)) : Prop := ValidFrom false 0 0 A B hs

/-- the reports of an exact application: every hunk at its stated line, offset 0, fuzz 0;
`mo` = lines added minus lines removed so far -/
def exactReports : List (Hunk α) → Int → List Rep
  | [], _ => []
  | h :: hs, mo =>
    .applied h.remLine (h.remLine + mo) 0 ((h.add.length : Int) - h.rem.length) 0
      :: exactReports hs (mo + ((h.add.length : Int) - h.rem.length))

/-- the same hunks read from `B` to `A` (what `-R` applies) -/
def Hunk.swap (h : Hunk α) : Hunk α := { h with rem := h.add, add := h.rem, remLine := h.addLine, addLine := h.remLine }

end RQ
