import RQ.Model.Push
/-!
# What the disk must hold after the cache of a push has been written out (`ModifiedFiles::save`)

The application phase of a push works on an in-memory cache (`Push.Mem`: one `ModifiedFile` per file name
touched); `saveAll` + `cleanAll` write it out.  `flushView` says, independently of the order in which the
entries are saved and of the individual file-system operations used, what a user must find at every path
afterwards: for a path that has a cache entry the entry's lines (or nothing, if the entry says "deleted")
with the entry's permission bits (644 if it has none), for every other path what was there before.
Directories and inode numbers are projected away (`fileAt`): the property speaks about files.
`RQ/Lemmas/SaveFlush.lean` proves that the model of the save phase computes exactly this view.
-/
namespace RQ.Flush
open RQ RQ.Push

/-- the regular file at `k` as a user sees it: content and permission bits -/
def fileAt (fs : FS) (k : Key) : Option (Bytes × Nat) :=
  match fs.lookup k with
  | some (.file c m _) => some (c, m % 4096)
  | _ => none

/-- permission bits a freshly written file ends up with -/
def modeOf (perms : Option Nat) : Nat :=
  match perms with
  | some p => p % 4096
  | none => 0o644

/-- the cache entry responsible for the path `k`, if any -/
def entryFor (mem : Mem) (k : Key) : Option (List Comp × Bytes × FileSt Bytes) :=
  mem.find? (fun e => safeKey e.2.1 == some k)

/-- what the disk must hold at `k` once `mem` has been flushed over `fs` -/
def flushView (mem : Mem) (fs : FS) (k : Key) : Option (Bytes × Nat) :=
  match entryFor mem k with
  | some e => if e.2.2.deleted then none else some (bytesOf e.2.2.content, modeOf e.2.2.perms)
  | none => fileAt fs k

/-- no two cache entries are responsible for the same path -/
def KeysDistinct (mem : Mem) : Prop :=
  mem.Pairwise (fun a b => ∀ k, safeKey a.2.1 = some k → safeKey b.2.1 ≠ some k)

end RQ.Flush
