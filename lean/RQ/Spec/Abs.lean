import RQ.Spec.Push
/-!
# Abstract specification of the application phase

A push is *supposed* to behave as if every file patch were applied to the tree directly, one after
another, a whole patch being discarded when one of its hunks fails.  Here that is written down on an
abstract tree: an overlay of changed files (`ATree`) over the file system the push started from —
no in-memory bookkeeping (`existed`, reports, applied-patch stack), no rollback.  `RQ/Props/C05.lean`
proves that the model of the real driver's application loop (`RQ.Push.applyLoop`, with its cache of
`ModifiedFile`s and its rollback of the failing patch) computes exactly this.
-/
namespace RQ.Abs
open RQ RQ.Parse RQ.Write RQ.Push RQ.Spec

/-- a file as patches see it: its lines, whether it exists, the permissions recorded for it -/
structure AFile where
  content : List Bytes
  deleted : Bool
  perms : Option Nat
deriving DecidableEq, Repr

def absOf (f : FileSt Bytes) : AFile := { content := f.content, deleted := f.deleted, perms := f.perms }

/-- the `FileSt` handed to libpatch for an abstract file (`existed` is irrelevant to libpatch) -/
def concr (a : AFile) : FileSt Bytes := { content := a.content, existed := false, deleted := a.deleted, perms := a.perms }

/-- changed files, keyed like `Path` compares (by components), over the initial file system -/
abbrev ATree := List (List Comp × AFile)

/-- the file called `name` in the tree: from the overlay, else from the initial file system -/
def look (t : ATree) (fs : FS) (name : Bytes) : Except Unit AFile :=
  match t.find? (fun e => e.1 == components name) with
  | some e => .ok e.2
  | none => (match loadTree fs name with | .ok f => .ok (absOf f) | .error e => .error e)

def put (t : ATree) (name : Bytes) (a : AFile) : ATree :=
  if t.any (fun e => e.1 == components name) then t.map (fun e => if e.1 == components name then (e.1, a) else e)
  else t ++ [(components name, a)]

/-- the old name if that file exists in the tree now, else the new name -/
def chooseA (t : ATree) (fs : FS) (old new : Option Bytes) : Option Bytes :=
  match old, new with
  | some o, none => some o
  | none, some n => some n
  | some o, some n =>
    if components o == components n then some o
    else
      let oldExists := match t.find? (fun e => e.1 == components o) with
        | some e => !e.2.deleted
        | none => (match safeKey o with | some k => fs.exists_ k | none => false)
      if oldExists then some o else some n
  | none, none => none

structure FPOut where
  tree : ATree
  ok : Bool
  rej : Option (Bytes × Bytes)

/-- one file patch on the abstract tree (`error` = the push is refused / aborts) -/
def applyFP (t : ATree) (fs : FS) (cfg : Cfg) (entry : Series.Entry) (fp : PFilePatch) : Except Fail FPOut :=
  if !namesSafe fp then .error .err else
  match chooseA t fs fp.old fp.new with
  | none => .error .panic
  | some target =>
    match look t fs target with
    | .error _ => .error .err
    | .ok file =>
      let dir : Dir := if entry.reverse then .rev else .fwd
      if fp.rename then
        match fp.new with
        | none => .error .panic
        | some newName =>
          -- the old file is emptied first, then the new one is looked at (they may be the same file)
          let t1 := put t target { content := [], deleted := true, perms := none }
          match look t1 fs newName with
          | .error _ => .error .err
          | .ok newFile =>
            if !newFile.content.isEmpty && !newFile.deleted then
              .ok { tree := t, ok := false, rej := none }                 -- refused: would overwrite
            else
              match fp.apply dir cfg.fuzz (concr { content := file.content, deleted := false, perms := file.perms }) with
              | none => .error .panic
              | some (f', rep) =>
                .ok { tree := put t1 newName (absOf f'), ok := rep.ok,
                      rej := if rep.ok then none else some (makeRejName target, writeRej fp rep) }
      else
        match fp.apply dir cfg.fuzz (concr file) with
        | none => .error .panic
        | some (f', rep) =>
          .ok { tree := put t target (absOf f'), ok := rep.ok,
                rej := if rep.ok then none else some (makeRejName target, writeRej fp rep) }

/-- all file patches of one patch; later ones see the (possibly partial) result of earlier ones -/
def applyFPs (fs : FS) (cfg : Cfg) (entry : Series.Entry) : List PFilePatch → ATree → Bool → List (Bytes × Bytes) →
    Except Fail (ATree × Bool × List (Bytes × Bytes))
  | [], t, ok, rejs => .ok (t, ok, rejs)
  | fp :: fps, t, ok, rejs =>
    match applyFP t fs cfg entry fp with
    | .error e => .error e
    | .ok r => applyFPs fs cfg entry fps r.tree (ok && r.ok) (match r.rej with | some x => x :: rejs | none => rejs)

/-- the range, patch by patch: a patch whose hunks all apply is adopted, the first one with a failing
hunk is discarded as a whole (only its reject files remain) and ends the push.  Returns the tree, the
number of adopted patches and the reject files (newest first, as the driver renders them). -/
def applyRange (fs : FS) (cfg : Cfg) : List Series.Entry → Nat → ATree → Except Fail (ATree × Nat × List (Bytes × Bytes))
  | [], k, t => .ok (t, k, [])
  | entry :: rest, k, t =>
    match patchKey cfg entry.name with
    | none => .error .err
    | some pk =>
      match fs.readFile pk with
      | .error _ => .error .err
      | .ok (bytes, _) =>
        match parsePatch bytes entry.strip false with
        | .error _ => .error .err
        | .ok patch =>
          match applyFPs fs cfg entry patch.fps t true [] with
          | .error e => .error e
          | .ok (t', ok, rejs) =>
            if ok then applyRange fs cfg rest (k + 1) t'
            else .ok (t, k, if cfg.dryRun then [] else rejs)

/-- the overlay a `Mem` of the driver stands for -/
def ofMem (m : Mem) : ATree := m.map (fun e => (e.1, absOf e.2.2))

/-- two overlays describe the same tree over `fs` -/
def SameTree (fs : FS) (a b : ATree) : Prop := ∀ name, look a fs name = look b fs name

end RQ.Abs
