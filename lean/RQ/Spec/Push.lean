import RQ.Model.Push
/-!
# What a push is supposed to do (`pushSpec`)

No in-memory cache, no rollback, no deferred saving: every file patch is applied to the *tree itself*,
one after another ("as if each file patch were pushed on its own and flushed").  A patch is tried on a
scratch copy of the tree and adopted only if all of its hunks applied.  The driver-level properties
(C05, C08, C09, C10, C13, C16, C17, C19, C20 at series level) are statements about this function; the
model of the real driver (`RQ.Push.push`) is related to it by `RQ/Props/C05.lean`.
-/
namespace RQ.Spec
open RQ RQ.Parse RQ.Write RQ.Push

/-- the file as the tree has it -/
def loadTree (fs : FS) (name : Bytes) : Except Unit (FileSt Bytes) :=
  match safeKey name with
  | none => .error ()
  | some k =>
    match fs.readFile k with
    | .ok (c, mode) => .ok { content := linesOf c, existed := true, deleted := false, perms := some mode }
    | .error .notFound => .ok nonExistent
    | .error .other => .error ()

/-- remove now-empty parent directories, climbing (never the working directory itself) -/
def pruneUp (fs : FS) : Nat → Key → FS
  | 0, _ => fs
  | fuel+1, k =>
    if k.isEmpty then fs
    else match fs.dirEmpty k with
      | .ok true => (match fs.removeDir k with | .ok fs' => pruneUp fs' fuel k.dropLast | .error _ => fs)
      | _ => fs

/-- put the file into the tree: a fresh file with the given content (and permissions, default 644), or
remove it — then prune directories that became empty *by this removal* -/
def storeTree (fs : FS) (name : Bytes) (f : FileSt Bytes) : Except Unit FS :=
  match safeKey name with
  | none => .error ()
  | some k =>
    let existed := (fs.lookup k).isSome
    let fs1 : Except Unit FS := if existed then (match fs.removeFile k with | .ok x => .ok x | .error _ => .error ()) else .ok fs
    match fs1 with
    | .error e => .error e
    | .ok fs1 =>
      if f.deleted then .ok (if existed then pruneUp fs1 (k.length + 1) k.dropLast else fs1)
      else
        match fs1.createDirAll k.dropLast with
        | .error _ => .error ()
        | .ok fs2 =>
          match fs2.createFile k with
          | .error _ => .error ()
          | .ok fs3 =>
            let fs4 := match f.perms with | some p => fs3.setMode k p | none => fs3
            .ok (fs4.appendBytes k (bytesOf f.content))

/-- the file to patch: the old name if that file exists now, otherwise the new name; never /dev/null -/
def chooseTree (fs : FS) (old new : Option Bytes) : Option Bytes :=
  match old, new with
  | some o, none => some o
  | none, some n => some n
  | some o, some n =>
    if components o == components n then some o
    else if (match safeKey o with | some k => fs.exists_ k | none => false) then some o else some n
  | none, none => none

/-- outcome of one file patch on the tree -/
structure FPResult where
  fs : FS
  ok : Bool
  /-- reject file (name, content) if hunks failed -/
  rej : Option (Bytes × Bytes)
  /-- names whose pre-patch state a backup must hold, with that state -/
  touched : List (Bytes × FileSt Bytes)

/-- apply one file patch directly to the tree.  `error` = the push must be refused (unsafe name, I/O) -/
def applyFPTree (fs : FS) (cfg : Cfg) (entry : Series.Entry) (fp : PFilePatch) : Except Unit FPResult :=
  if !namesSafe fp then .error () else
  match chooseTree fs fp.old fp.new with
  | none => .error ()
  | some target =>
    match loadTree fs target with
    | .error e => .error e
    | .ok file =>
      let dir : Dir := if entry.reverse then .rev else .fwd
      if fp.rename then
        match fp.new with
        | none => .error ()
        | some newName =>
          match loadTree fs newName with
          | .error e => .error e
          | .ok newFile =>
            if components newName == components target then
              -- renaming a file onto itself: the content stays where it is
              match fp.apply dir cfg.fuzz { file with deleted := false } with
              | none => .error ()
              | some (f', rep) =>
                match storeTree fs target f' with
                | .error e => .error e
                | .ok fs' =>
                  if rep.ok then .ok { fs := fs', ok := true, rej := none, touched := [(target, file)] }
                  else .ok { fs := fs', ok := false, rej := some (makeRejName target, writeRej fp rep), touched := [] }
            else if !newFile.content.isEmpty && !newFile.deleted then
              .ok { fs, ok := false, rej := none, touched := [] }       -- refused: would overwrite
            else
              let moved : FileSt Bytes := { newFile with content := file.content, deleted := false, perms := file.perms }
              match fp.apply dir cfg.fuzz moved with
              | none => .error ()
              | some (f', rep) =>
                match storeTree fs target { file with content := [], deleted := true } with
                | .error e => .error e
                | .ok fs1 =>
                  match storeTree fs1 newName f' with
                  | .error e => .error e
                  | .ok fs2 =>
                    if rep.ok then .ok { fs := fs2, ok := true, rej := none, touched := [(target, file), (newName, newFile)] }
                    else .ok { fs := fs2, ok := false, rej := some (makeRejName target, writeRej fp rep), touched := [] }
      else
        match fp.apply dir cfg.fuzz file with
        | none => .error ()
        | some (f', rep) =>
          if rep.ok then
            match storeTree fs target f' with
            | .error e => .error e
            | .ok fs' => .ok { fs := fs', ok := true, rej := none, touched := [(target, file)] }
          else
            -- hunks failed: the patch will be discarded, but later file patches of the same patch see the
            -- partial result (that is what their reject files are computed against)
            match storeTree fs target f' with
            | .error e => .error e
            | .ok fs' => .ok { fs := fs', ok := false, rej := some (makeRejName target, writeRej fp rep), touched := [] }

structure PatchResult where
  fs : FS
  ok : Bool
  rejs : List (Bytes × Bytes)
  touched : List (Bytes × FileSt Bytes)

/-- all file patches of a patch, on a scratch tree -/
def applyPatchTree (cfg : Cfg) (entry : Series.Entry) : List PFilePatch → PatchResult → Except Unit PatchResult
  | [], acc => .ok acc
  | fp :: fps, acc =>
    match applyFPTree acc.fs cfg entry fp with
    | .error e => .error e
    | .ok r =>
      applyPatchTree cfg entry fps
        { fs := r.fs, ok := acc.ok && r.ok,
          rejs := acc.rejs ++ (match r.rej with | some x => [x] | none => []),
          -- the first state seen for a name is the one from before the patch
          touched := r.touched.foldl (fun t x => if t.any (fun y => components y.1 == components x.1) then t else t ++ [x]) acc.touched }

structure Progress where
  fs : FS
  /-- number of patches applied so far -/
  k : Nat
  /-- reject files of the patch that failed, if one did -/
  rejs : List (Bytes × Bytes)
  failed : Bool
  /-- per applied patch (oldest first): its name and the pre-states of the files it touched -/
  backups : List (Bytes × List (Bytes × FileSt Bytes))

/-- apply the patches of the range one after another until one fails -/
def applyRangeTree (cfg : Cfg) (orig : FS) : List Series.Entry → Progress → Except Unit Progress
  | [], p => .ok p
  | entry :: rest, p =>
    match patchKey cfg entry.name with
    | none => .error ()
    | some pk =>
      match orig.readFile pk with      -- patch files are read from the tree as it was when the push started
      | .error _ => .error ()
      | .ok (bytes, _) =>
        match parsePatch bytes entry.strip false with
        | .error _ => .error ()
        | .ok patch =>
          match applyPatchTree cfg entry patch.fps { fs := p.fs, ok := true, rejs := [], touched := [] } with
          | .error e => .error e
          | .ok r =>
            if r.ok then applyRangeTree cfg orig rest { p with fs := r.fs, k := p.k + 1, backups := p.backups ++ [(entry.name, r.touched)] }
            else .ok { p with rejs := r.rejs, failed := true }

/-- write one file below the working directory, replacing what is there -/
def putFile (fs : FS) (k : Key) (content : Bytes) (perms : Option Nat) : Except Unit FS :=
  let fs0 := match fs.removeFile k with | .ok x => x | .error _ => fs
  match fs0.createDirAll k.dropLast with
  | .error _ => .error ()
  | .ok fs1 =>
    match fs1.createFile k with
    | .error _ => .error ()
    | .ok fs2 =>
      let fs3 := match perms with | some p => fs2.setMode k p | none => fs2
      .ok (fs3.appendBytes k content)

/-- reject files: written if the directory exists in the final tree; a reject whose path leads through a
regular file (for example another reject file) is skipped like one whose directory does not exist -/
def putRejects (fs : FS) : List (Bytes × Bytes) → Except Unit FS
  | [] => .ok fs
  | (name, content) :: rest =>
    match safeKey name with
    | none => .error ()
    | some k =>
      if fs.fileOnPath k then putRejects fs rest
      else if !fs.isDir k.dropLast then putRejects fs rest
      else match putFile fs k content none with
        | .error e => .error e
        | .ok fs' => putRejects fs' rest

/-- quilt backups: `.pc/<patch>/<file>` = the file as it was before that patch (empty if absent) -/
def putBackups (fs : FS) : List (Bytes × List (Bytes × FileSt Bytes)) → Except Unit FS
  | [] => .ok fs
  | (patchName, files) :: rest =>
    let r := files.foldl (fun (acc : Except Unit FS) (nf : Bytes × FileSt Bytes) =>
      match acc with
      | .error e => .error e
      | .ok f =>
        match pcKey patchName nf.1 with
        | none => .error ()
        | some k => putFile f k (bytesOf nf.2.content) nf.2.perms) (.ok fs)
    match r with
    | .error e => .error e
    | .ok fs' => putBackups fs' rest

structure SpecOut where
  exit : Nat
  fs : FS
  /-- the push ran into an output failure (a reject, backup or `.pc` file could not be written because
  something else is in the way): the exit status is 1 and nothing is recorded as applied, but which of the
  files of that last phase were written before the failure is not specified (C18 governs such runs) -/
  ioError : Bool := false

/-- what the push leaves behind once it is known which patches apply: the tree with the first `k`
patches applied, reject files of the failing one, quilt backups, and `.pc/applied-patches` -/
def finishSpec (cfg : Cfg) (fs : FS) (range : List Series.Entry) (p : Progress) : SpecOut :=
  let exit := if p.k == range.length then 0 else 1
  if cfg.dryRun then { exit, fs }
  else
    -- (several failing file patches for one file overwrite each other's reject file; the one
    -- applied first is written last — known finding `dup-entry-rej-overwrite`)
    match putRejects p.fs p.rejs.reverse with
    | .error _ => { exit := 1, fs := p.fs, ioError := true }
    | .ok fs1 =>
      let doBackups := cfg.backup == .always || (cfg.backup == .onfail && p.k != range.length)
      let window := match cfg.backupCount with
        | none => p.backups
        | some n => p.backups.drop (p.k - n)
      match (if doBackups then putBackups fs1 window else .ok fs1) with
      | .error _ => { exit := 1, fs := fs1, ioError := true }
      | .ok fs2 =>
        -- .pc/applied-patches gains exactly the applied names, in order
        match fs2.createDirAll pcDir with
        | .error _ => { exit := 1, fs := fs2, ioError := true }
        | .ok fs3 =>
          match fs3.appendFile appliedKey ((range.take p.k).map (fun e => e.name ++ [10])).flatten with
          | .error _ => { exit := 1, fs := fs3, ioError := true }
          | .ok fs4 => { exit, fs := fs4 }

/-- **the specification of `rapidquilt push`**: refuse inconsistent state or arguments (`plan`, see
C17), otherwise apply the range patch by patch on the tree -/
def pushSpec (cfg : Cfg) (fs : FS) : SpecOut :=
  match plan cfg fs with
  | .refuse => { exit := 1, fs }
  | .nothingToDo => { exit := 0, fs }
  | .apply range =>
    match applyRangeTree cfg fs range { fs, k := 0, rejs := [], failed := false, backups := [] } with
    | .error _ => { exit := 1, fs }
    | .ok p => finishSpec cfg fs range p

end RQ.Spec
