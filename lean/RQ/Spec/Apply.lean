import RQ.Model.Apply
/-!
# Declarative specifications for hunk placement (C02), application (C03), rollback (C04), fuzz (C20)

Everything here is executable (the driver evaluates it on the *implementation's* output) and
deliberately naive: brute force over all positions, "original with the changed lines replaced".
-/
namespace RQ
variable {α : Type} [DecidableEq α]

/-! ## C02: placement -/

/-- search order of GNU patch: distance-major, forward first.  `key t x < key t y` iff `x` is nearer to
`t` than `y`, or equally near and `x` is the forward one. -/
def key (t x : Int) : Int := if x > t then 2 * (x - t) - 1 else 2 * (t - x)

/-- a position is admissible for a view: inside the file, and at the anchor when the view is anchored -/
def admissible (v : View α) (len : Nat) (p : Int) : Bool :=
  match v.position with
  | .start => p == v.remLine
  | .end_ => p == (len : Int) - v.rem.length
  | .middle => true

/-- the element of `l` with the least key (first one wins; keys are injective anyway) -/
def argminKey (t : Int) : List Int → Option Int
  | [] => none
  | x :: xs =>
    match argminKey t xs with
    | none => some x
    | some y => if key t x ≤ key t y then some x else some y

/-- all positions `0..len` of the file -/
def allPositions (len : Nat) : List Int := (List.range (len + 1)).map (fun (i : Nat) => (i : Int))

/-- brute-force placement: of all admissible positions where the (trimmed) old side occurs, the one
nearest to the first guess, forward winning ties -/
def specPlace (v : View α) (content : List α) (lastOff : Int) : Option Int :=
  argminKey (firstGuess v content.length lastOff)
    ((allPositions content.length).filter (fun p => matchesAt v.rem content p && admissible v content.length p))

/-- level `f` of hunk `h` is acceptable: a best place exists and does not touch frozen lines -/
def acceptAt (h : Hunk α) (d : Dir) (content : List α) (lo lf : Int) (f : Nat) : Bool :=
  match specPlace (view h d f) content lo with
  | none => false
  | some t => !decide (t + (view h d f).pre ≤ lf)

/-- The relation C02 demands between a hunk, the state of the scan (`lo` = previous offset,
`lf` = last frozen line) and the report. -/
def hunkOK (h : Hunk α) (d : Dir) (F : Nat) (content : List α) (deleted : Bool) (lo lf : Int) : Rep → Bool
  | .applied line _ off diff fz =>
    let v := view h d fz
    !deleted && decide (fz ≤ min F h.maxFuzz) &&
    specPlace v content lo == some line && !decide (line + v.pre ≤ lf) &&
    off == line - v.remLine && diff == (v.add.length : Int) - v.rem.length &&
    (List.range fz).all (fun f => !acceptAt h d content lo lf f)
  | .failed .noMatch =>
    !deleted && (List.range (min F h.maxFuzz + 1)).all (fun f => specPlace (view h d f) content lo == none)
  | .failed .misordered =>
    !deleted && (List.range (min F h.maxFuzz + 1)).all (fun f => !acceptAt h d content lo lf f) &&
    (specPlace (view h d (min F h.maxFuzz)) content lo).isSome
  | .failed .noFile => deleted
  | _ => false

/-- thread `lo`/`lf` through the reports the way the property states it ("stated line plus the previous
hunk's offset") and check every hunk -/
def reportsOK (d : Dir) (F : Nat) (content : List α) (deleted : Bool) :
    List (Hunk α) → List Rep → Int → Int → Bool
  | [], [], _, _ => true
  | h :: hs, r :: rs, lo, lf =>
    hunkOK h d F content deleted lo lf r &&
    (match r with
     | .applied line _ off _ fz =>
        reportsOK d F content deleted hs rs off (line + (view h d fz).rem.length - (view h d fz).suf)
     | _ => reportsOK d F content deleted hs rs lo lf)
  | _, _, _, _ => false

/-! ## C03: what an application does to the content -/

/-- replace `del` lines at original position `pos` by `ins` -/
structure Edit (α : Type) where
  pos : Nat
  del : Nat
  ins : List α
deriving Repr

/-- specification: `l` is the suffix of the original starting at original index `base`;
every edit replaces its lines, everything else is kept. -/
def applySpec : Nat → List α → List (Edit α) → List α
  | _, l, [] => l
  | base, l, e :: es =>
    l.take (e.pos - base) ++ e.ins ++ applySpec (e.pos + e.del) (l.drop (e.pos - base + e.del)) es

/-- edits ordered, disjoint, inside a list of length `n` whose first element has original index `base` -/
def Ordered : Nat → Nat → List (Edit α) → Prop
  | _, _, [] => True
  | base, n, e :: es =>
    base ≤ e.pos ∧ e.pos + e.del ≤ base + n ∧ Ordered (e.pos + e.del) (base + n - (e.pos + e.del)) es

def orderedB : Nat → Nat → List (Edit α) → Bool
  | _, _, [] => true
  | base, n, e :: es =>
    decide (base ≤ e.pos) && decide (e.pos + e.del ≤ base + n) &&
      orderedB (e.pos + e.del) (base + n - (e.pos + e.del)) es

/-- the changed lines of the applied hunks, in original coordinates; failed hunks contribute nothing -/
def coreEdits (d : Dir) : List (Hunk α) → List Rep → List (Edit α)
  | h :: hs, (.applied line _ _ _ fz) :: rs =>
    let v := view h d fz
    { pos := (line + v.pre).toNat, del := v.rem.length - v.pre - v.suf, ins := core v.add v.pre v.suf }
      :: coreEdits d hs rs
  | _ :: hs, _ :: rs => coreEdits d hs rs
  | _, _ => []

/-- C03 as a check on (original content, reports, resulting content) -/
def contentOK (d : Dir) (hs : List (Hunk α)) (reps : List Rep) (orig result : List α) : Bool :=
  orderedB 0 orig.length (coreEdits d hs reps) &&
  decide (result = applySpec 0 orig (coreEdits d hs reps))

/-! ## well-formedness of hunks (what the parser guarantees) -/

/-- context lines are on both sides -/
def Hunk.WF (h : Hunk α) : Prop :=
  h.pre + h.suf ≤ h.rem.length ∧ h.pre + h.suf ≤ h.add.length ∧
  h.rem.take h.pre = h.add.take h.pre ∧
  h.rem.drop (h.rem.length - h.suf) = h.add.drop (h.add.length - h.suf)

instance (h : Hunk α) : Decidable h.WF := by unfold Hunk.WF; exact inferInstance

end RQ
