import RQ.Model.Write
/-! Specification vocabulary for C12: what "the same patch" means for the written form. -/
namespace RQ.Write
open RQ RQ.Parse

/-- the written form carries everything of a hunk but its context counts -/
def sameHunk (a b : PHunk) : Prop :=
  a.rem = b.rem ∧ a.add = b.add ∧ a.remLine = b.remLine ∧ a.addLine = b.addLine ∧ a.func = b.func

def sameHunks : List PHunk → List PHunk → Prop
  | [], [] => True
  | a :: as, b :: bs => sameHunk a b ∧ sameHunks as bs
  | _, _ => False

/-- same kind, names, rename flag, modes, hashes, and hunk by hunk the same sides and start lines -/
def sameFP (a b : PFilePatch) : Prop :=
  a.kind = b.kind ∧ a.old = b.old ∧ a.new = b.new ∧ a.rename = b.rename ∧
  a.oldPerm = b.oldPerm ∧ a.newPerm = b.newPerm ∧ a.oldHash = b.oldHash ∧ a.newHash = b.newHash ∧
  sameHunks a.hunks b.hunks

def sameFPs : List PFilePatch → List PFilePatch → Prop
  | [], [] => True
  | a :: as, b :: bs => sameFP a b ∧ sameFPs as bs
  | _, _ => False

def SamePatch (p q : Patch) : Prop := p.header = q.header ∧ sameFPs p.fps q.fps

/-- known finding `hunkless-noop-vanishes`: a file patch without hunks whose extended headers are none
the writer reproduces (no rename, no modes, no hashes) is written as three lines the parser takes for
garbage -/
def noopHunkless (f : PFilePatch) : Bool :=
  f.hunks.isEmpty && !f.rename && f.oldPerm.isNone && f.newPerm.isNone && (f.oldHash.isNone || f.newHash.isNone)

/-- known finding `dev-null-named-file`: a real file name that *becomes* `/dev/null` only after
stripping (raw `/dev/null/`, `/dev/null/.` with strip 0) is written as `/dev/null` and read back as
"no file" -/
def nullNamed (f : PFilePatch) : Bool := f.old == some nullFilename || f.new == some nullFilename

end RQ.Write
