import RQ.Model.Path
/-!
# Abstract file system

The part of the kernel's file-system semantics rapidquilt's driver relies on, as total functions on
an abstract tree: regular files (bytes, permission bits, inode number) and directories, addressed by
lexical component lists relative to the working directory (no symlinks).  *Modelled, not verified*:
these definitions are the assumptions about the kernel; the `push` engine compares whole runs.
-/
namespace RQ

/-- a path below the working directory: its `Normal` components -/
abbrev Key := List Bytes

inductive Node
  | file (content : Bytes) (mode : Nat) (ino : Nat)
  | dir
deriving Repr, DecidableEq

structure FS where
  nodes : List (Key × Node)
  nextIno : Nat
deriving Repr

inductive IOErr | notFound | other
deriving Repr, DecidableEq

namespace FS

def lookup (fs : FS) (k : Key) : Option Node := (fs.nodes.find? (fun p => p.1 == k)).map (·.2)

def isDir (fs : FS) (k : Key) : Bool := k == [] || fs.lookup k == some .dir

/-- some strict prefix of `k` is a regular file (ENOTDIR) -/
def fileOnPath (fs : FS) (k : Key) : Bool :=
  (List.range k.length).any (fun i => match fs.lookup (k.take i) with | some (.file ..) => i > 0 | _ => false)

def set (fs : FS) (k : Key) (n : Node) : FS :=
  if fs.nodes.any (fun p => p.1 == k) then { fs with nodes := fs.nodes.map (fun p => if p.1 == k then (k, n) else p) }
  else { fs with nodes := fs.nodes ++ [(k, n)] }

def erase (fs : FS) (k : Key) : FS := { fs with nodes := fs.nodes.filter (fun p => p.1 != k) }

/-- `Path::exists` -/
def exists_ (fs : FS) (k : Key) : Bool := !fs.fileOnPath k && (k == [] || (fs.lookup k).isSome)

/-- `fs::read` + `fs::metadata(..).permissions()`: content and full `st_mode` -/
def readFile (fs : FS) (k : Key) : Except IOErr (Bytes × Nat) :=
  if fs.fileOnPath k then .error .other
  else match fs.lookup k with
    | some (.file c m _) => .ok (c, 0o100000 + m % 4096)
    | some .dir => .error .other
    | none => if k == [] then .error .other else .error .notFound

/-- `fs::remove_file` -/
def removeFile (fs : FS) (k : Key) : Except IOErr FS :=
  if fs.fileOnPath k then .error .other
  else match fs.lookup k with
    | some (.file ..) => .ok (fs.erase k)
    | some .dir => .error .other
    | none => if k == [] then .error .other else .error .notFound

/-- `fs::create_dir_all` -/
def createDirAll (fs : FS) (k : Key) : Except IOErr FS :=
  (List.range (k.length + 1)).foldl (fun acc i =>
    match acc with
    | .error e => .error e
    | .ok f =>
      let p := k.take i
      if p == [] then .ok f
      else match f.lookup p with
        | some .dir => .ok f
        | some (.file ..) => .error .other
        | none => .ok (f.set p .dir)) (.ok fs)

/-- `File::create`: truncate an existing file in place (same inode, same mode), or make a new one (mode 644) -/
def createFile (fs : FS) (k : Key) : Except IOErr FS :=
  if k == [] then .error .other
  else if fs.fileOnPath k then .error .other
  else if !fs.isDir k.dropLast then .error .notFound
  else match fs.lookup k with
    | some .dir => .error .other
    | some (.file _ m i) => .ok (fs.set k (.file [] m i))
    | none => .ok { (fs.set k (.file [] 0o644 fs.nextIno)) with nextIno := fs.nextIno + 1 }

/-- `File::set_permissions` on an open file -/
def setMode (fs : FS) (k : Key) (mode : Nat) : FS :=
  match fs.lookup k with
  | some (.file c _ i) => fs.set k (.file c (mode % 4096) i)
  | _ => fs

/-- append to an open file -/
def appendBytes (fs : FS) (k : Key) (b : Bytes) : FS :=
  match fs.lookup k with
  | some (.file c m i) => fs.set k (.file (c ++ b) m i)
  | _ => fs

/-- `fs::read_dir(..).next()`: is the directory empty -/
def dirEmpty (fs : FS) (k : Key) : Except IOErr Bool :=
  if fs.fileOnPath k then .error .other
  else if !fs.isDir k then (match fs.lookup k with | some _ => .error .other | none => .error .notFound)
  else .ok (!fs.nodes.any (fun p => p.1.length == k.length + 1 && p.1.take k.length == k))

/-- `fs::remove_dir` -/
def removeDir (fs : FS) (k : Key) : Except IOErr FS :=
  if k == [] then .error .other
  else match fs.lookup k with
    | some .dir =>
      if fs.nodes.any (fun p => p.1.length == k.length + 1 && p.1.take k.length == k) then .error .other
      else .ok (fs.erase k)
    | some _ => .error .other
    | none => .error .notFound

/-- `OpenOptions::new().create(true).append(true).open` then write -/
def appendFile (fs : FS) (k : Key) (b : Bytes) : Except IOErr FS :=
  if fs.fileOnPath k then .error .other
  else if !fs.isDir k.dropLast then .error .notFound
  else match fs.lookup k with
    | some .dir => .error .other
    | some (.file ..) => .ok (fs.appendBytes k b)
    | none => .ok { (fs.set k (.file b 0o644 fs.nextIno)) with nextIno := fs.nextIno + 1 }

/-- all regular files: (path, content, permission bits), unordered -/
def files (fs : FS) : List (Key × Bytes × Nat) :=
  fs.nodes.filterMap (fun p => match p.2 with | .file c m _ => some (p.1, c, m % 4096) | .dir => none)

end FS

/-- the normal components of a (stripped) file name, or `none` if the name is empty or leaves the
working directory (root or `..` component) — the check at the top of `apply_one_file_patch` -/
def safeKey (name : Bytes) : Option Key :=
  if name.isEmpty then none
  else
    let cs := components name
    if cs.all (fun c => match c with | .normal _ => true | .cur => true | _ => false) then
      some (cs.filterMap (fun c => match c with | .normal n => some n | _ => none))
    else none

end RQ
