import RQ.Model.Push
/-!
# Model of the option handling of `rapidquilt push` (`cmd::run`, `cmd_push`)

The tokens after `push` as the harness passes them (options never abbreviated, values as separate
tokens) are first grouped into options (`tokenize`), then folded into the configuration (`parse`).
Options that only affect what is printed or how files are loaded — `-q`, `-v`, `--mmap`, `--stats`,
`--color X`, `-A X` — are recognised and have *no field* in the result: the model of the driver
(`RQ.Push.push`) cannot depend on them.  `getopts` itself is modelled, not verified.

`getopts` refuses an option that is declared `optflag`/`optopt` and given more than once ("Option 'quiet'
given more than once", exit status 1, nothing touched); only `-v` (`optflagmulti`) and `-A` (`optmulti`)
may repeat.  `parse` therefore first checks `SingleOnce` and only then folds the options (`parseOpts`).
-/
namespace RQ.Args
open RQ RQ.Push

inductive Tok
  | threads (n : String)
  | backup (x : String)
  | backupCount (x : String)
  | fuzz (n : String)
  | patchDir (d : String)
  | dryRun
  | all
  | quiet
  | verbose
  | mmap
  | stats
  | color (x : String)
  | analyze (x : String)
  | free (s : String)
  | unknown (s : String)
deriving Repr, DecidableEq

/-- group option tokens with their values -/
def tokenize : List String → List Tok
  | [] => []
  | [x] =>
    if x == "--dry-run" then [.dryRun] else if x == "-a" then [.all] else if x == "-q" then [.quiet]
    else if x == "-v" then [.verbose] else if x == "--mmap" then [.mmap] else if x == "--stats" then [.stats]
    else if x.startsWith "-" then [.unknown x] else [.free x]
  | x :: y :: r =>
    if x == "--threads" then .threads y :: tokenize r
    else if x == "--backup" || x == "-b" then .backup y :: tokenize r
    else if x == "--backup-count" then .backupCount y :: tokenize r
    else if x == "-F" || x == "--fuzz" then .fuzz y :: tokenize r
    else if x == "-p" || x == "--patch-directory" then .patchDir y :: tokenize r
    else if x == "--color" then .color y :: tokenize r
    else if x == "-A" then .analyze y :: tokenize r
    else if x == "--dry-run" then .dryRun :: tokenize (y :: r)
    else if x == "-a" then .all :: tokenize (y :: r)
    else if x == "-q" then .quiet :: tokenize (y :: r)
    else if x == "-v" then .verbose :: tokenize (y :: r)
    else if x == "--mmap" then .mmap :: tokenize (y :: r)
    else if x == "--stats" then .stats :: tokenize (y :: r)
    else if x.startsWith "-" then .unknown x :: tokenize (y :: r)
    else .free x :: tokenize (y :: r)

/-- the values `--color` accepts (`cmd::run`) -/
def validColor (x : String) : Bool := x == "always" || x == "never" || x == "auto"

/-- the analyses `-A` accepts (`cmd_push`: compared ignoring ASCII case) -/
def validAnalysis (x : String) : Bool := x == "multiapply" || x.toLower == "multiapply"

/-- options that only affect what is printed or how files are loaded (with a value the tool accepts) -/
def Tok.isPresentation : Tok → Bool
  | .quiet | .verbose | .mmap | .stats => true
  | .color x => validColor x
  | .analyze x => validAnalysis x
  | _ => false

/-- the options `getopts` accepts only once (`optflag`: `-a`, `--dry-run`, `--stats`, `-q`, `--mmap`; `optopt`:
`-b`/`--backup`, `--backup-count`, `-F`/`--fuzz`, `--color`, `--threads`, `-p`/`--patch-directory`), each with a key of its own (the value
given does not matter: `-F 1 -F 2` repeats `-F`); `none`: may repeat (`-v` is `optflagmulti`, `-A` is `optmulti`)
or is not an option -/
def Tok.singleKey : Tok → Option Nat
  | .threads _ => some 0
  | .backup _ => some 1
  | .backupCount _ => some 2
  | .fuzz _ => some 3
  | .dryRun => some 4
  | .all => some 5
  | .patchDir _ => some 10
  | .quiet => some 6
  | .mmap => some 7
  | .stats => some 8
  | .color _ => some 9
  | .verbose | .analyze _ | .free _ | .unknown _ => none

/-- no option that `getopts` accepts only once is given more than once -/
def SingleOnce (toks : List Tok) : Prop := (toks.filterMap Tok.singleKey).Nodup

instance (toks : List Tok) : Decidable (SingleOnce toks) :=
  inferInstanceAs (Decidable (toks.filterMap Tok.singleKey).Nodup)

/-- some option that `getopts` accepts only once is given more than once -/
def dupSingle (toks : List Tok) : Bool := !decide (SingleOnce toks)

structure Inv where
  cfg : Cfg := {}
  threads : Nat := 1
  /-- an option or option value that is refused before anything is read (unknown option, an option other than
  `-v`/`-A` given more than once, bad value of `--backup`, `--backup-count`, `--color`) -/
  bad : Bool := false
  /-- a value that is only looked at when there is something to apply (`-A <unknown analysis>`, a
  `--threads` value that is not a number): refused then, not noticed when all patches are applied -/
  badLate : Bool := false
  /-- the goal was given as an argument (`push 3`, `push x.patch`): the FIRST free argument decides, whatever else
  is on the command line — `-a` before or after it, further arguments -/
  goalFromArg : Bool := false
deriving Repr

/-- `str::parse::<usize>()` on an option value or argument: an optional `+`, at least one ASCII digit, nothing else,
value below 2^64 (so `+2` is 2, while `2x`, `1_0`, `-1`, the empty string and `18446744073709551616` are not numbers) -/
def usizeOf (s : String) : Option Nat := Series.parseUsize s.toUTF8.toList

def natOf (s : String) : Nat := (usizeOf s).getD 0

/-- the options folded into the configuration, left to right (repetitions are dealt with by `parse`) -/
def parseOpts : List Tok → Inv → Inv
  | [], i => i
  | .threads n :: r, i =>
    match usizeOf n with
    | some k => parseOpts r { i with threads := k }
    | none => parseOpts r { i with badLate := true }
  | .backup x :: r, i =>
    if x == "always" then parseOpts r { i with cfg := { i.cfg with backup := .always } }
    else if x == "never" then parseOpts r { i with cfg := { i.cfg with backup := .never } }
    else if x == "onfail" then parseOpts r { i with cfg := { i.cfg with backup := .onfail } }
    else { i with bad := true }
  | .backupCount x :: r, i =>
    if x == "all" then parseOpts r { i with cfg := { i.cfg with backupCount := none } }
    else match usizeOf x with
      | some n => parseOpts r { i with cfg := { i.cfg with backupCount := some n } }
      | none => { i with bad := true }
  | .fuzz n :: r, i => parseOpts r { i with cfg := { i.cfg with fuzz := natOf n } }
  | .dryRun :: r, i => parseOpts r { i with cfg := { i.cfg with dryRun := true } }
  | .patchDir d :: r, i => parseOpts r { i with cfg := { i.cfg with patchesDir := d.toUTF8.toList } }
  | .all :: r, i => if i.goalFromArg then parseOpts r i else parseOpts r { i with cfg := { i.cfg with goal := .all } }
  | .quiet :: r, i | .verbose :: r, i | .mmap :: r, i | .stats :: r, i => parseOpts r i
  | .color x :: r, i => if validColor x then parseOpts r i else { i with bad := true }
  | .analyze x :: r, i => if validAnalysis x then parseOpts r i else parseOpts r { i with badLate := true }
  | .free x :: r, i =>
    if i.goalFromArg then parseOpts r i
    else match usizeOf x with
      | some n => parseOpts r { i with cfg := { i.cfg with goal := .count n }, goalFromArg := true }
      | none => parseOpts r { i with cfg := { i.cfg with goal := .upTo x.toUTF8.toList }, goalFromArg := true }
  | .unknown _ :: _, i => { i with bad := true }

/-- `getopts` + `cmd::run`: an invocation that repeats an option declared `optflag`/`optopt` is refused by
`getopts`, before `run` looks at any value (an unknown option is refused by `getopts` as well: which of the two it
reports does not matter here, both are `bad`); otherwise the options are folded into the configuration -/
def parse (toks : List Tok) (i : Inv) : Inv :=
  if dupSingle toks then { i with bad := true } else parseOpts toks i

/-- `cmd::run` + `cmd_push` for a parsed invocation: option values are validated in two places, before
the quilt state is read and after it is known that there is something to apply -/
def pushInv (i : Inv) (w : World) : Outcome × World :=
  if i.bad then (.error, w)
  else match plan i.cfg w.fs with
    | .refuse => (.error, w)
    | .nothingToDo => (.allApplied, w)
    | .apply range => if i.badLate then (.error, w) else pushRange i.cfg w range

/-- the whole invocation (single-threaded driver) from option tokens -/
def pushToks (toks : List Tok) (w : World) : Outcome × World := pushInv (parse toks {}) w

/-- the whole invocation from the argument strings -/
def pushArgs (args : List String) (w : World) : Outcome × World := pushToks (tokenize args) w

end RQ.Args
