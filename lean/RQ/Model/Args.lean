import RQ.Model.Push
/-!
# Model of the option handling of `rapidquilt push` (`cmd::run`, `cmd_push`)

The tokens after `push` as the harness passes them (options never abbreviated, values as separate
tokens) are first grouped into options (`tokenize`), then folded into the configuration (`parse`).
Options that only affect what is printed or how files are loaded — `-q`, `-v`, `--mmap`, `--stats`,
`--color X`, `-A X` — are recognised and have *no field* in the result: the model of the driver
(`RQ.Push.push`) cannot depend on them.  `getopts` itself is modelled, not verified.
-/
namespace RQ.Args
open RQ RQ.Push

inductive Tok
  | threads (n : String)
  | backup (x : String)
  | backupCount (x : String)
  | fuzz (n : String)
  | dryRun
  | all
  | quiet
  | verbose
  | mmap
  | stats
  | color (x : String)
  | analyze (x : String)
  | free (s : String)
  | unknown (s : String)
deriving Repr, DecidableEq

/-- group option tokens with their values -/
def tokenize : List String → List Tok
  | [] => []
  | [x] =>
    if x == "--dry-run" then [.dryRun] else if x == "-a" then [.all] else if x == "-q" then [.quiet]
    else if x == "-v" then [.verbose] else if x == "--mmap" then [.mmap] else if x == "--stats" then [.stats]
    else if x.startsWith "-" then [.unknown x] else [.free x]
  | x :: y :: r =>
    if x == "--threads" then .threads y :: tokenize r
    else if x == "--backup" || x == "-b" then .backup y :: tokenize r
    else if x == "--backup-count" then .backupCount y :: tokenize r
    else if x == "-F" || x == "--fuzz" then .fuzz y :: tokenize r
    else if x == "--color" then .color y :: tokenize r
    else if x == "-A" then .analyze y :: tokenize r
    else if x == "--dry-run" then .dryRun :: tokenize (y :: r)
    else if x == "-a" then .all :: tokenize (y :: r)
    else if x == "-q" then .quiet :: tokenize (y :: r)
    else if x == "-v" then .verbose :: tokenize (y :: r)
    else if x == "--mmap" then .mmap :: tokenize (y :: r)
    else if x == "--stats" then .stats :: tokenize (y :: r)
    else if x.startsWith "-" then .unknown x :: tokenize (y :: r)
    else .free x :: tokenize (y :: r)

/-- the values `--color` accepts (`cmd::run`) -/
def validColor (x : String) : Bool := x == "always" || x == "never" || x == "auto"

/-- the analyses `-A` accepts (`cmd_push`: compared ignoring ASCII case) -/
def validAnalysis (x : String) : Bool := x == "multiapply" || x.toLower == "multiapply"

/-- options that only affect what is printed or how files are loaded (with a value the tool accepts) -/
def Tok.isPresentation : Tok → Bool
  | .quiet | .verbose | .mmap | .stats => true
  | .color x => validColor x
  | .analyze x => validAnalysis x
  | _ => false

structure Inv where
  cfg : Cfg := {}
  threads : Nat := 1
  /-- an option or option value that is refused before anything is read (unknown option, bad value of
  `--backup`, `--backup-count`, `--color`) -/
  bad : Bool := false
  /-- a value that is only looked at when there is something to apply (`-A <unknown analysis>`, a
  `--threads` value that is not a number): refused then, not noticed when all patches are applied -/
  badLate : Bool := false
deriving Repr

def natOf (s : String) : Nat := s.toNat?.getD 0

def parse : List Tok → Inv → Inv
  | [], i => i
  | .threads n :: r, i =>
    match n.toNat? with
    | some k => parse r { i with threads := k }
    | none => parse r { i with badLate := true }
  | .backup x :: r, i =>
    if x == "always" then parse r { i with cfg := { i.cfg with backup := .always } }
    else if x == "never" then parse r { i with cfg := { i.cfg with backup := .never } }
    else if x == "onfail" then parse r { i with cfg := { i.cfg with backup := .onfail } }
    else { i with bad := true }
  | .backupCount x :: r, i =>
    if x == "all" then parse r { i with cfg := { i.cfg with backupCount := none } }
    else match x.toNat? with
      | some n => parse r { i with cfg := { i.cfg with backupCount := some n } }
      | none => { i with bad := true }
  | .fuzz n :: r, i => parse r { i with cfg := { i.cfg with fuzz := natOf n } }
  | .dryRun :: r, i => parse r { i with cfg := { i.cfg with dryRun := true } }
  | .all :: r, i => parse r { i with cfg := { i.cfg with goal := .all } }
  | .quiet :: r, i | .verbose :: r, i | .mmap :: r, i | .stats :: r, i => parse r i
  | .color x :: r, i => if validColor x then parse r i else { i with bad := true }
  | .analyze x :: r, i => if validAnalysis x then parse r i else parse r { i with badLate := true }
  | .free x :: r, i =>
    match x.toNat? with
    | some n => parse r { i with cfg := { i.cfg with goal := .count n } }
    | none => parse r { i with cfg := { i.cfg with goal := .upTo x.toUTF8.toList } }
  | .unknown _ :: _, i => { i with bad := true }

/-- `cmd::run` + `cmd_push` for a parsed invocation: option values are validated in two places, before
the quilt state is read and after it is known that there is something to apply -/
def pushInv (i : Inv) (w : World) : Outcome × World :=
  if i.bad then (.error, w)
  else match plan i.cfg w.fs with
    | .refuse => (.error, w)
    | .nothingToDo => (.allApplied, w)
    | .apply range => if i.badLate then (.error, w) else pushRange i.cfg w range

/-- the whole invocation (single-threaded driver) from option tokens -/
def pushToks (toks : List Tok) (w : World) : Outcome × World := pushInv (parse toks {}) w

/-- the whole invocation from the argument strings -/
def pushArgs (args : List String) (w : World) : Outcome × World := pushToks (tokenize args) w

end RQ.Args
