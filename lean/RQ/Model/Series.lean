import RQ.Model.Apply
import RQ.Extracted
/-!
# Model of `read_series_file` (`src/rapidquilt/cmd.rs`) and of the subset of `getopts` it uses

`BufRead::lines` (split at `\n`, a trailing `\r` removed, invalid UTF-8 ⇒ error), comment / blank
lines, `split_whitespace`, then `getopts` with `optopt("p", "strip")` and `optflag("R", "reverse")`.
`getopts` and `str::split_whitespace` are *modelled, not verified*; the `series` engine compares the model with
the real function on generated lines.

`split_whitespace` splits at every Unicode `White_Space` character (`char::is_whitespace`): U+0009–U+000D, U+0020,
U+0085, U+00A0, U+1680, U+2000–U+200A, U+2028, U+2029, U+202F, U+205F, U+3000.  The model works on the UTF-8 bytes
(`wsLen`: the length of the white-space character at the head of the byte string).  `lines()` has already rejected
invalid UTF-8 (`validUtf8`, checked in `collect` before the line is parsed), and on valid UTF-8 matching the byte
patterns is exact: every pattern starts with an ASCII byte or a lead byte (C2, E1, E2, E3), never with a continuation
byte (80..BF), so a pattern can only match at a character boundary, and there the lead byte with its continuation
bytes *is* that character.
-/
namespace RQ.Series
open RQ

structure Entry where
  name : Bytes
  strip : Nat
  reverse : Bool
deriving Repr, DecidableEq

inductive Err | io | badOptions
deriving Repr, DecidableEq

/-- ASCII white space: U+0009–U+000D, U+0020 -/
def isWs (c : UInt8) : Bool := c == 32 || (c ≥ 9 && c ≤ 13)

/-- two-byte white space: U+0085 (C2 85), U+00A0 (C2 A0) -/
def isWs2 (b c : UInt8) : Bool := b == 0xC2 && (c == 0x85 || c == 0xA0)

/-- three-byte white space: U+1680 (E1 9A 80), U+2000–U+200A (E2 80 80 … E2 80 8A), U+2028 (E2 80 A8),
U+2029 (E2 80 A9), U+202F (E2 80 AF), U+205F (E2 81 9F), U+3000 (E3 80 80) -/
def isWs3 (b c d : UInt8) : Bool :=
  (b == 0xE1 && c == 0x9A && d == 0x80) ||
  (b == 0xE2 && c == 0x80 && ((d ≥ 0x80 && d ≤ 0x8A) || d == 0xA8 || d == 0xA9 || d == 0xAF)) ||
  (b == 0xE2 && c == 0x81 && d == 0x9F) ||
  (b == 0xE3 && c == 0x80 && d == 0x80)

/-- the length in bytes of the Unicode `White_Space` character (UTF-8) at the head of the byte string; 0 if there is
none -/
def wsLen : Bytes → Nat
  | [] => 0
  | [b] => if isWs b then 1 else 0
  | [b, c] => if isWs b then 1 else if isWs2 b c then 2 else 0
  | b :: c :: d :: _ => if isWs b then 1 else if isWs2 b c then 2 else if isWs3 b c d then 3 else 0

/-- `splitWs` with the number of bytes still to skip (the continuation bytes of the white-space character whose lead
byte was just seen; `cur` is empty while skipping) -/
def splitWsSkip : Nat → Bytes → Bytes → List Bytes
  | _, [], [] => []
  | _, [], cur => [cur]
  | k+1, _ :: bs, cur => splitWsSkip k bs cur
  | 0, b :: bs, cur =>
    match wsLen (b :: bs) with
    | 0 => splitWsSkip 0 bs (cur ++ [b])
    | n+1 => if cur.isEmpty then splitWsSkip n bs [] else cur :: splitWsSkip n bs []

/-- `str::split_whitespace` (Unicode `White_Space`, on UTF-8 bytes) -/
def splitWs (bs cur : Bytes) : List Bytes := splitWsSkip 0 bs cur

/-- `BufRead::lines`: split at `\n`; the final piece only if non-empty; strip one trailing `\r` -/
def splitLines : Bytes → Bytes → List Bytes
  | [], [] => []
  | [], cur => [cur]
  | b :: bs, cur => if b == 10 then cur :: splitLines bs [] else splitLines bs (cur ++ [b])

def stripCr (l : Bytes) : Bytes := if l.getLast? == some 13 then l.dropLast else l

/-- is the byte string valid UTF-8?  (`lines()` fails with InvalidData otherwise) -/
def validUtf8 : Bytes → Bool
  | [] => true
  | b :: rest =>
    if b < 0x80 then validUtf8 rest
    else if b ≥ 0xC2 && b ≤ 0xDF then
      match rest with
      | c :: r => c ≥ 0x80 && c ≤ 0xBF && validUtf8 r
      | _ => false
    else if b ≥ 0xE0 && b ≤ 0xEF then
      match rest with
      | c :: d :: r =>
        let lo : UInt8 := if b == 0xE0 then 0xA0 else 0x80
        let hi : UInt8 := if b == 0xED then 0x9F else 0xBF
        c ≥ lo && c ≤ hi && d ≥ 0x80 && d ≤ 0xBF && validUtf8 r
      | _ => false
    else if b ≥ 0xF0 && b ≤ 0xF4 then
      match rest with
      | c :: d :: e :: r =>
        let lo : UInt8 := if b == 0xF0 then 0x90 else 0x80
        let hi : UInt8 := if b == 0xF4 then 0x8F else 0xBF
        c ≥ lo && c ≤ hi && d ≥ 0x80 && d ≤ 0xBF && e ≥ 0x80 && e ≤ 0xBF && validUtf8 r
      | _ => false
    else false

structure Opts where
  strip : Option Bytes := none
  reverse : Bool := false

def isDigit (c : UInt8) : Bool := c ≥ 48 && c ≤ 57

/-- `str::parse::<usize>()`: optional leading `+`, then at least one digit, value below 2^64 -/
def parseUsize (s : Bytes) : Option Nat :=
  let ds := match s with
    | 43 :: r => r
    | _ => s
  if ds.isEmpty || !ds.all isDigit then none
  else
    let v := ds.foldl (fun a d => a * 10 + (d.toNat - 48)) 0
    if v < 2^64 then some v else none

/-- the characters of a short-option cluster after the leading `-` -/
def shortCluster : Nat → Bytes → List Bytes → Opts → Except Err (List Bytes × Opts)
  | 0, _, rest, o => .ok (rest, o)
  | fuel+1, cs, rest, o =>
    match cs with
    | [] => .ok (rest, o)
    | c :: cs' =>
      if c == 82 then      -- 'R'
        if o.reverse then .error .badOptions else shortCluster fuel cs' rest { o with reverse := true }
      else if c == 112 then  -- 'p': the argument is the rest of the cluster, or the next token
        if o.strip.isSome then .error .badOptions
        else if !cs'.isEmpty then .ok (rest, { o with strip := some cs' })
        else match rest with
          | a :: rest' => .ok (rest', { o with strip := some a })
          | [] => .error .badOptions
      else .error .badOptions

def sStrip : Bytes := [115, 116, 114, 105, 112]
def sReverse : Bytes := [114, 101, 118, 101, 114, 115, 101]

/-- `getopts::Options::parse` for `optopt("p","strip")`, `optflag("R","reverse")` -/
def getopts : Nat → List Bytes → Opts → Except Err Opts
  | 0, _, o => .ok o
  | fuel+1, toks, o =>
    match toks with
    | [] => .ok o
    | t :: rest =>
      match t with
      | [45, 45] => .ok o                                   -- "--": everything after is free
      | 45 :: 45 :: long =>
        let name := long.takeWhile (· != 61)
        let hasEq := name.length < long.length
        let val := long.drop (name.length + 1)
        if name == sStrip then
          if o.strip.isSome then .error .badOptions
          else if hasEq then getopts fuel rest { o with strip := some val }
          else match rest with
            | a :: rest' => getopts fuel rest' { o with strip := some a }
            | [] => .error .badOptions
        else if name == sReverse then
          if hasEq then .error .badOptions
          else if o.reverse then .error .badOptions
          else getopts fuel rest { o with reverse := true }
        else .error .badOptions
      | 45 :: c :: cs =>
        match shortCluster (cs.length + 2) (c :: cs) rest o with
        | .error e => .error e
        | .ok (rest', o') => getopts fuel rest' o'
      | _ => getopts fuel rest o                             -- free argument (also a lone "-")

/-- one line of the series file -/
def parseLine (line : Bytes) : Except Err (Option Entry) :=
  if line.isEmpty || line.head? == some 35 then .ok none
  else
    match splitWs line [] with
    | [] => .ok none
    | name :: [] => .ok (some { name, strip := Extracted.defaultPatchStrip, reverse := false })
    | name :: toks =>
      match getopts (toks.length + 1) toks {} with
      | .error e => .error e
      | .ok o =>
        let strip := (o.strip.bind parseUsize).getD Extracted.defaultPatchStrip
        .ok (some { name, strip, reverse := o.reverse })

def collect : List Bytes → Except Err (List Entry)
  | [] => .ok []
  | l :: ls =>
    if !validUtf8 l then .error .io
    else match parseLine (stripCr l) with
      | .error e => .error e
      | .ok none => collect ls
      | .ok (some e) =>
        match collect ls with
        | .error er => .error er
        | .ok es => .ok (e :: es)

/-- `read_series_file` on the bytes of the file -/
def readSeries (bytes : Bytes) : Except Err (List Entry) := collect (splitLines bytes [])

/-- one line of `.pc/applied-patches` (`read_series_file(.., with_comments = false)`): the same format, but
a line that starts with `#` is a patch name like any other, not a comment -/
def parseLineA (line : Bytes) : Except Err (Option Entry) :=
  if line.isEmpty then .ok none
  else
    match splitWs line [] with
    | [] => .ok none
    | name :: [] => .ok (some { name, strip := Extracted.defaultPatchStrip, reverse := false })
    | name :: toks =>
      match getopts (toks.length + 1) toks {} with
      | .error e => .error e
      | .ok o =>
        let strip := (o.strip.bind parseUsize).getD Extracted.defaultPatchStrip
        .ok (some { name, strip, reverse := o.reverse })

def collectA : List Bytes → Except Err (List Entry)
  | [] => .ok []
  | l :: ls =>
    if !validUtf8 l then .error .io
    else match parseLineA (stripCr l) with
      | .error e => .error e
      | .ok none => collectA ls
      | .ok (some e) =>
        match collectA ls with
        | .error er => .error er
        | .ok es => .ok (e :: es)

/-- `.pc/applied-patches` on the bytes of the file -/
def readApplied (bytes : Bytes) : Except Err (List Entry) := collectA (splitLines bytes [])

end RQ.Series
