import RQ.Model.FS
import RQ.Model.Lines
import RQ.Model.Write
import RQ.Model.Series
/-!
# Model of the sequential driver

`src/rapidquilt/apply/common.rs` (`ModifiedFiles`, `choose_filename_to_patch`, `apply_one_file_patch`,
`rollback`, `rollback_and_save_rej_files`, `save_modified_file`, `clean_empty_directories`,
`save_backup_file`, `rollback_and_save_backup_files`), `apply/sequential.rs` (`apply_patches`) and
`cmd.rs` (`cmd_push`, `save_applied_patches`).

Every operation that changes the file system goes through `World.op`, which numbers it (the fault-injection
hook of C18 fails the k-th one) and records it in a trace (C10, C15).
-/
namespace RQ.Push
open RQ RQ.Parse RQ.Write

/-- mutating file-system operations, in the granularity of the hooks in the code -/
inductive Op
  | removeFile (k : Key)
  | createDirAll (k : Key)
  | createFile (k : Key)
  | setMode (k : Key) (mode : Nat)
  | write (k : Key) (bytes : Bytes)
  | removeDir (k : Key)
  | appendOpen (k : Key)
deriving Repr, DecidableEq

inductive Fail | err | panic
deriving Repr, DecidableEq

structure World where
  fs : FS
  trace : List Op := []
  /-- fail the operation with this number (0-based), if any -/
  faultAt : Option Nat := none
deriving Repr

/-- result of one file-system operation -/
inductive OpRes
  | ok (w : World)
  | notFound (w : World)     -- the operation reported `NotFound` (the world still logs it)
  | failed (w : World)       -- any other error, or the injected fault

def World.op (w : World) (o : Op) : OpRes :=
  let w' := { w with trace := w.trace ++ [o] }
  if w.faultAt == some w.trace.length then .failed w'
  else
    let r : Except IOErr FS := match o with
      | .removeFile k => w.fs.removeFile k
      | .createDirAll k => w.fs.createDirAll k
      | .createFile k => w.fs.createFile k
      | .setMode k m => .ok (w.fs.setMode k m)
      | .write k b => .ok (w.fs.appendBytes k b)
      | .removeDir k => w.fs.removeDir k
      | .appendOpen k => w.fs.appendFile k []
    match r with
    | .ok fs => .ok { w' with fs := fs }
    | .error .notFound => .notFound w'
    | .error .other => .failed w'

inductive Backup | always | onfail | never
deriving Repr, DecidableEq

inductive Goal
  | all
  | count (n : Nat)
  | upTo (name : Bytes)
deriving Repr, DecidableEq

structure Cfg where
  fuzz : Nat := 0
  dryRun : Bool := false
  backup : Backup := .onfail
  /-- `none` = all -/
  backupCount : Option Nat := some Extracted.defaultBackupCount
  goal : Goal := .count 1
  patchesDir : Bytes := [112, 97, 116, 99, 104, 101, 115]   -- "patches"
deriving Repr

/-- `PatchStatus` -/
structure Status where
  index : Nat
  fp : PFilePatch
  target : Bytes
  final : Bytes
  report : Report
  patchName : Bytes
  beforeRename : Option (Bool × Bool × Option Nat)
deriving Repr

/-- `ModifiedFiles`: keyed by the components of the name (that is how `Path` compares and hashes);
insertion order stands for the unspecified `HashMap` order -/
abbrev Mem := List (List Comp × Bytes × FileSt Bytes)

def Mem.get (m : Mem) (name : Bytes) : Option (FileSt Bytes) :=
  (m.find? (fun e => e.1 == components name)).map (·.2.2)

def Mem.put (m : Mem) (name : Bytes) (f : FileSt Bytes) : Mem :=
  if m.any (fun e => e.1 == components name) then
    m.map (fun e => if e.1 == components name then (e.1, e.2.1, f) else e)
  else m ++ [(components name, name, f)]

structure St where
  applied : List Status := []      -- newest first
  mem : Mem := []
deriving Repr

/-- `ModifiedFile::new_non_existent` -/
def nonExistent : FileSt Bytes := { content := [], existed := false, deleted := true, perms := none }

/-- `ModifiedFiles::get_or_load` -/
def getOrLoad (m : Mem) (fs : FS) (name : Bytes) : Except Fail (Mem × FileSt Bytes) :=
  match m.get name with
  | some f => .ok (m, f)
  | none =>
    match safeKey name with
    | none => .error .err
    | some k =>
      match fs.readFile k with
      | .ok (c, mode) =>
        let f : FileSt Bytes := { content := linesOf c, existed := true, deleted := false, perms := some mode }
        .ok (m.put name f, f)
      | .error .notFound => .ok (m.put name nonExistent, nonExistent)
      | .error .other => .error .err

/-- `choose_filename_to_patch` -/
def choose (m : Mem) (fs : FS) (old new : Option Bytes) : Option Bytes :=
  match old, new with
  | some o, none => some o
  | none, some n => some n
  | some o, some n =>
    if components o == components n then some o
    else match m.get o with
      | none => if (match safeKey o with | some k => fs.exists_ k | none => false) then some o else some n
      | some f => if f.deleted then some n else some o
  | none, none => none

/-- `ModifiedFile::move_out` -/
def moveOut (f : FileSt Bytes) : FileSt Bytes × FileSt Bytes :=
  ({ f with content := [], deleted := true, perms := none },
   { content := f.content, existed := false, deleted := false, perms := f.perms })

/-- `ModifiedFile::move_in`: `none` if refused -/
def moveIn (self other : FileSt Bytes) : Option (FileSt Bytes) :=
  if !self.content.isEmpty && !self.deleted then none
  else some { self with content := other.content, deleted := false, perms := other.perms }

/-- is the name acceptable (the check at the top of `apply_one_file_patch`) -/
def namesSafe (fp : PFilePatch) : Bool :=
  (match fp.old with | some n => (safeKey n).isSome | none => true) &&
  (match fp.new with | some n => (safeKey n).isSome | none => true)

/-- `apply_one_file_patch` -/
def applyOne (st : St) (fs : FS) (cfg : Cfg) (index : Nat) (entry : Series.Entry) (fp : PFilePatch) :
    Except Fail (St × Bool) :=
  if !namesSafe fp then .error .err else
  -- a renaming patch loads its new file first: an error must leave the files as they were
  let pre : Except Fail Mem :=
    if fp.rename then
      match fp.new with
      | none => .error .panic
      | some newName => (match getOrLoad st.mem fs newName with | .ok (m, _) => .ok m | .error e => .error e)
    else .ok st.mem
  match pre with
  | .error e => .error e
  | .ok mem0 =>
  match choose mem0 fs fp.old fp.new with
  | none => .error .panic
  | some target =>
    match getOrLoad mem0 fs target with
    | .error e => .error e
    | .ok (mem, file) =>
      let dir : Dir := if entry.reverse then .rev else .fwd
      if fp.rename then
        match fp.new with
        | none => .error .panic
        | some newName =>
          let oldWasDeleted := file.deleted
          let (emptied, tmp) := moveOut file
          let mem := mem.put target emptied
          match getOrLoad mem fs newName with
          | .error e => .error e
          | .ok (mem, newFile) =>
            let before := (oldWasDeleted, newFile.deleted, newFile.perms)
            match moveIn newFile tmp with
            | none =>
              -- put the content back; nothing is recorded
              match mem.get target with
              | none => .error .panic
              | some tf =>
                match moveIn tf tmp with
                | some tf' => .ok ({ st with mem := mem.put target { tf' with deleted := oldWasDeleted } }, false)
                | none => .ok ({ st with mem := mem.put target { tf with deleted := oldWasDeleted } }, false)
            | some moved =>
              match fp.apply dir cfg.fuzz moved with
              | none => .error .panic
              | some (f', rep) =>
                .ok ({ applied := { index, fp, target, final := newName, report := rep, patchName := entry.name,
                                    beforeRename := some before } :: st.applied,
                       mem := mem.put newName f' }, rep.ok)
      else
        match fp.apply dir cfg.fuzz file with
        | none => .error .panic
        | some (f', rep) =>
          .ok ({ applied := { index, fp, target, final := target, report := rep, patchName := entry.name,
                              beforeRename := none } :: st.applied,
                 mem := mem.put target f' }, rep.ok)

/-- `ModifiedFiles::rollback`: the memory after undoing `s`, and the file the backup is taken of -/
def rollbackOne (m : Mem) (s : Status) : Except Fail (Mem × FileSt Bytes) :=
  match m.get s.final with
  | none => .error .panic
  | some file =>
    match s.fp.rollback s.report.dir s.report file with
    | none => .error .panic
    | some file =>
      match s.beforeRename with
      | some (oldWasDeleted, newWasDeleted, newPerms) =>
        let (emptied, tmp) := moveOut file
        let m := m.put s.final { emptied with deleted := newWasDeleted, perms := newPerms }
        match m.get s.target with
        | none => .error .panic
        | some oldFile =>
          match moveIn oldFile tmp with
          | none => .error .panic
          | some restored =>
            let restored := { restored with deleted := oldWasDeleted }
            .ok (m.put s.target restored, restored)
      | none => .ok (m.put s.final file, file)

/-- results of functions that change the world: on failure the world at the point of failure -/
abbrev WR (α : Type) := Except (Fail × World) α

/-- write a whole file that has just been created: permissions first, then the content -/
def writeNew (w : World) (k : Key) (perms : Option Nat) (content : Bytes) : WR World :=
  let w1 : WR World := match perms with
    | some p => (match w.op (.setMode k p) with | .ok w => .ok w | .notFound w | .failed w => .error (.err, w))
    | none => .ok w
  match w1 with
  | .error e => .error e
  | .ok w => match w.op (.write k content) with | .ok w => .ok w | .notFound w | .failed w => .error (.err, w)

/-- `rollback_and_render_rej_files`: undo the file patches of patch `idx` (newest first) and render a
reject file (name, content) for each one that failed -/
def rollbackAndRenderRej : Nat → St → Nat → List (Bytes × Bytes) → Except Fail (St × List (Bytes × Bytes))
  | 0, st, _, rejs => .ok (st, rejs)
  | fuel+1, st, idx, rejs =>
    match st.applied with
    | [] => .ok (st, rejs)
    | s :: rest =>
      if s.index > idx then .error .panic
      else if s.index < idx then .ok (st, rejs)
      else
        match rollbackOne st.mem s with
        | .error e => .error e
        | .ok (mem, _) =>
          let st' : St := { applied := rest, mem }
          if s.report.failed then
            rollbackAndRenderRej fuel st' idx (rejs ++ [(makeRejName s.target, writeRej s.fp s.report)])
          else rollbackAndRenderRej fuel st' idx rejs

/-- the operation on the path `k`, issued on the world `w`, fails with the natural `ENOTDIR`: something on
the way to `k` is a regular file, and the failure is not the injected fault (which `World.op` raises on `w`
exactly when `w.faultAt == some w.trace.length`) -/
def World.notDir (w : World) (k : Key) : Bool :=
  w.fs.fileOnPath k && !(w.faultAt == some w.trace.length)

/-- `World.op` as `save_rej_files` reads the results of its `remove_file` and `File::create` on the path `k`:
`ENOTDIR` is treated like `NotFound`.  The operation is issued all the same (same trace, same count); any
other failure, and the injected fault, stay failures. -/
def World.opRej (w : World) (o : Op) (k : Key) : OpRes :=
  match w.op o with
  | .failed w' => if w.notDir k then .notFound w' else .failed w'
  | .ok w' => .ok w'
  | .notFound w' => .notFound w'

/-- `save_rej_files`: unlink an old reject file (it may be a hard link), create the new one — skipped
if its directory does not exist, or if something on the way to it is a regular file (`ENOTDIR`, for example
another reject file written a moment ago: `opRej`) — and write it -/
def saveRejFiles (w : World) : List (Bytes × Bytes) → WR World
  | [] => .ok w
  | (name, content) :: rest =>
    match safeKey name with
    | none => .error (.err, w)
    | some k =>
      match w.opRej (.removeFile k) k with
      | .failed w0 => .error (.err, w0)
      | .ok w0 | .notFound w0 =>
        match w0.opRej (.createFile k) k with
        | .notFound w' => saveRejFiles w' rest
        | .failed w' => .error (.err, w')
        | .ok w' =>
          match w'.op (.write k content) with
          | .ok w'' => saveRejFiles w'' rest
          | .notFound w'' | .failed w'' => .error (.err, w'')

/-- `save_modified_file`; returns the directory to check for cleaning, if any -/
def saveModifiedFile (w : World) (name : Bytes) (f : FileSt Bytes) : WR (World × Option Key) :=
  match safeKey name with
  | none => .error (.err, w)
  | some k =>
    let w1 : WR World :=
      if f.existed then
        match w.op (.removeFile k) with
        | .ok w => .ok w
        | .notFound w => .ok w
        | .failed w => .error (.err, w)
      else .ok w
    match w1 with
    | .error e => .error e
    | .ok w =>
      if f.deleted then .ok (w, if f.existed then some k.dropLast else none)
      else
        let w2 : WR World :=
          if !f.existed then
            match w.op (.createDirAll k.dropLast) with
            | .ok w => .ok w
            | .notFound w | .failed w => .error (.err, w)
          else .ok w
        match w2 with
        | .error e => .error e
        | .ok w =>
          match w.op (.createFile k) with
          | .ok w =>
            match writeNew w k f.perms (bytesOf f.content) with
            | .ok w => .ok (w, none)
            | .error e => .error e
          | .notFound w | .failed w => .error (.err, w)

/-- `ModifiedFiles::save` -/
def saveAll (w : World) : Mem → List Key → WR (World × List Key)
  | [], dirs => .ok (w, dirs)
  | (_, name, f) :: rest, dirs =>
    match saveModifiedFile w name f with
    | .error e => .error e
    | .ok (w', d) => saveAll w' rest (match d with | some k => dirs ++ [k] | none => dirs)

/-- the climbing loop of `clean_empty_directories` for one directory -/
def cleanUp (w : World) : Nat → Key → WR World
  | 0, _ => .ok w
  | fuel+1, k =>
    match w.fs.dirEmpty k with
    | .error .notFound => .ok w
    | .error .other => .error (.err, w)
    | .ok false => .ok w
    | .ok true =>
      match w.op (.removeDir k) with
      | .failed w' => .error (.err, w')
      | .ok w' | .notFound w' => if k.isEmpty then .ok w' else cleanUp w' fuel k.dropLast

/-- `clean_empty_directories` -/
def cleanAll (w : World) : List Key → WR World
  | [] => .ok w
  | k :: ks => match cleanUp w (k.length + 1) k with
    | .error e => .error e
    | .ok w' => cleanAll w' ks

def pcKey (patchName name : Bytes) : Option Key :=
  match safeKey patchName, safeKey name with
  | some p, some n => some ([[46, 112, 99]] ++ p ++ n)
  | _, _ => none

/-- `save_backup_file` -/
def saveBackup (w : World) (patchName name : Bytes) (f : FileSt Bytes) : WR World :=
  match pcKey patchName name with
  | none => .error (.err, w)
  | some k =>
    match w.op (.createDirAll k.dropLast) with
    | .ok w =>
      -- an old backup file is unlinked first
      match w.op (.removeFile k) with
      | .failed w => .error (.err, w)
      | .ok w | .notFound w =>
        match w.op (.createFile k) with
        | .ok w => writeNew w k f.perms (bytesOf f.content)
        | .notFound w | .failed w => .error (.err, w)
    | .notFound w | .failed w => .error (.err, w)

/-- `rollback_and_save_backup_files` -/
def rollbackAndSaveBackups (w : World) (mem : Mem) : List Status → Nat → WR (World × Mem)
  | [], _ => .ok (w, mem)
  | s :: rest, downTo =>
    if s.index < downTo then .ok (w, mem)
    else
      match rollbackOne mem s with
      | .error e => .error (e, w)
      | .ok (mem, file) =>
        match saveBackup w s.patchName s.target file with
        | .error e => .error e
        | .ok w =>
          if s.fp.rename then
            match s.fp.new with
            | none => .error (.panic, w)
            | some newName =>
              match mem.get newName with
              | none => .error (.panic, w)
              | some nf =>
                match saveBackup w s.patchName newName nf with
                | .error e => .error e
                | .ok w => rollbackAndSaveBackups w mem rest downTo
          else rollbackAndSaveBackups w mem rest downTo

/-- apply all file patches of one patch -/
def applyFilePatches (st : St) (fs : FS) (cfg : Cfg) (index : Nat) (entry : Series.Entry) :
    List PFilePatch → Bool → Except Fail (St × Bool)
  | [], anyFailed => .ok (st, anyFailed)
  | fp :: fps, anyFailed =>
    match applyOne st fs cfg index entry fp with
    | .error e => .error e
    | .ok (st', ok) => applyFilePatches st' fs cfg index entry fps (anyFailed || !ok)

def patchKey (cfg : Cfg) (name : Bytes) : Option Key :=
  match safeKey cfg.patchesDir, safeKey name with
  | some d, some n => some (d ++ n)
  | _, _ => none

/-- the loop of `sequential::apply_patches`: returns the state, the number of completely applied
patches and the rendered reject files of the failing patch -/
def applyLoop (fs : FS) (cfg : Cfg) : List Series.Entry → Nat → St → Except Fail (St × Nat × List (Bytes × Bytes))
  | [], index, st => .ok (st, index, [])
  | entry :: rest, index, st =>
    match patchKey cfg entry.name with
    | none => .error .err
    | some pk =>
      match fs.readFile pk with
      | .error _ => .error .err
      | .ok (bytes, _) =>
        match parsePatch bytes entry.strip false with
        | .error _ => .error .err
        | .ok patch =>
          match applyFilePatches st fs cfg index entry patch.fps false with
          | .error e => .error e
          | .ok (st', anyFailed) =>
            if anyFailed then
              if cfg.dryRun then .ok (st', index, [])
              else match rollbackAndRenderRej (st'.applied.length + 1) st' index [] with
                | .error e => .error e
                | .ok (st'', rejs) => .ok (st'', index, rejs)
            else applyLoop fs cfg rest (index + 1) st'

/-- `sequential::apply_patches` -/
def applyPatches (w : World) (cfg : Cfg) (range : List Series.Entry) : WR (World × Nat) :=
  match applyLoop w.fs cfg range 0 {} with
  | .error e => .error (e, w)
  | .ok (st, final, rejs) =>
    if cfg.dryRun then .ok (w, final)
    else
      match saveAll w st.mem [] with
      | .error e => .error e
      | .ok (w, dirs) =>
        match cleanAll w dirs with
        | .error e => .error e
        | .ok w =>
          match saveRejFiles w rejs with
          | .error e => .error e
          | .ok w =>
            if cfg.backup == .always || (cfg.backup == .onfail && final != range.length) then
              let downTo := match cfg.backupCount with
                | none => 0
                | some n => if final > n then final - n else 0
              match rollbackAndSaveBackups w st.mem st.applied downTo with
              | .error e => .error e
              | .ok (w, _) => .ok (w, final)
            else .ok (w, final)

def pcDir : Key := [[46, 112, 99]]
def appliedKey : Key := [[46, 112, 99], [97, 112, 112, 108, 105, 101, 100, 45, 112, 97, 116, 99, 104, 101, 115]]
def seriesKey : Key := [[115, 101, 114, 105, 101, 115]]

/-- `save_applied_patches` -/
def saveApplied (w : World) (names : List Bytes) : WR World :=
  match w.op (.createDirAll pcDir) with
  | .ok w =>
    match w.op (.appendOpen appliedKey) with
    | .ok w =>
      if names.isEmpty then .ok w
      else match w.op (.write appliedKey (names.map (· ++ [10])).flatten) with
        | .ok w => .ok w
        | .notFound w | .failed w => .error (.err, w)
    | .notFound w | .failed w => .error (.err, w)
  | .notFound w | .failed w => .error (.err, w)

inductive Outcome | allApplied | notAll | error | panic
deriving Repr, DecidableEq

def Outcome.exit : Outcome → Nat
  | .allApplied => 0
  | .notAll => 1
  | .error => 1
  | .panic => 101

/-- is `a` a prefix of `b`, comparing names the way `PathBuf ==` does -/
def namesMismatch : List Series.Entry → List Series.Entry → Bool
  | s :: ss, a :: as => components s.name != components a.name || namesMismatch ss as
  | _, _ => false

/-- what `cmd_push` decides before anything is applied -/
inductive Plan
  | refuse                                  -- exit 1 with a message, nothing touched
  | nothingToDo                             -- "All patches applied."
  | apply (range : List Series.Entry)
deriving Repr

/-- the first part of `cmd_push`: read `series` and `.pc/applied-patches`, check that the applied
patches are a prefix of the series, resolve the goal -/
def plan (cfg : Cfg) (fs : FS) : Plan :=
  match fs.readFile seriesKey with
  | .error _ => .refuse
  | .ok (sbytes, _) =>
    match Series.readSeries sbytes with
    | .error _ => .refuse
    | .ok series =>
      let applied : List Series.Entry := match fs.readFile appliedKey with
        | .error _ => []
        | .ok (abytes, _) => (match Series.readApplied abytes with | .ok a => a | .error _ => [])
      if namesMismatch series applied then .refuse
      else if applied.length > series.length then .refuse
      else
        let first := applied.length
        let last? : Option Nat := match cfg.goal with
          | .all => some series.length
          | .count n => some (min (first + n) series.length)
          | .upTo name =>
            match series.findIdx? (fun e => components e.name == components name) with
            | some i => if i < first then none else some (i + 1)
            | none => none
        match last? with
        | none => .refuse
        | some last =>
          if first == series.length then .nothingToDo
          else .apply ((series.drop first).take (last - first))

/-- the second part of `cmd_push`: apply the range, then record the applied patches -/
def pushRange (cfg : Cfg) (w : World) (range : List Series.Entry) : Outcome × World :=
  match applyPatches w cfg range with
  | .error (.err, w') => (.error, w')
  | .error (.panic, w') => (.panic, w')
  | .ok (w', final) =>
    if cfg.dryRun then (if final == range.length then .allApplied else .notAll, w')
    else match saveApplied w' ((range.take final).map (·.name)) with
      | .error (_, w'') => (.error, w'')
      | .ok w'' => (if final == range.length then .allApplied else .notAll, w'')

/-- `cmd_push` with the single-threaded driver -/
def push (cfg : Cfg) (w : World) : Outcome × World :=
  match plan cfg w.fs with
  | .refuse => (.error, w)
  | .nothingToDo => (.allApplied, w)
  | .apply range => pushRange cfg w range

end RQ.Push
