import RQ.Model.Push
import RQ.Model.Dist
/-!
# Model of the parallel driver's distribution of file patches (`parallel::apply_patches`, step 2)

Every file patch of the range is queued for the worker its file names were assigned to by the
`FilenameDistributor` (`RQ.Dist`); the queues keep series order.  The apply phase itself is the
transition system of `RQ/Lemmas/ParSched.lean`, instantiated here with the driver's
`apply_one_file_patch`.
-/
namespace RQ.Par
open RQ RQ.Push RQ.Parse

/-- what `apply_patches` feeds to `FilenameDistributor::add` for one file patch -/
def distPair (fp : PFilePatch) : Option (List Comp × Option (List Comp)) :=
  match fp.old, fp.new with
  | some o, none => some (components o, none)
  | none, some n => some (components n, none)
  | some o, some n => if components o == components n then some (components o, none) else some (components o, some (components n))
  | none, none => none

/-- a queue entry: patch index, series entry, file patch -/
structure QEntry where
  idx : Nat
  entry : Series.Entry
  fp : PFilePatch

/-- all file patches of the range in series order -/
def allEntries : List (Series.Entry × List PFilePatch) → Nat → List QEntry
  | [], _ => []
  | (e, fps) :: rest, i => fps.map (fun fp => { idx := i, entry := e, fp }) ++ allEntries rest (i + 1)

/-- the filename → thread map -/
def assignment (threads : Nat) (es : List QEntry) : Dist (List Comp) :=
  (Dist.new threads).addAll (es.filterMap (fun q => distPair q.fp))

/-- the worker of an entry: by its old name, else its new name -/
def workerOf (d : Dist (List Comp)) (q : QEntry) : Option Nat :=
  match q.fp.old.orElse (fun _ => q.fp.new) with
  | some n => d.worker (components n)
  | none => none

/-- the queue of worker `w`: its entries in series order -/
def queueOf (threads : Nat) (es : List QEntry) (w : Nat) : List QEntry :=
  es.filter (fun q => workerOf (assignment threads es) q == some w)

/-- the state of a worker (`apply_worker` returns `(state, Some((index, err)))`): the driver state, and the
error the worker terminated with, if any, together with the index of the patch it happened in -/
structure WSt where
  st : St
  err : Option (Nat × Fail) := none

/-- one `apply_one_file_patch` of a worker; an error is absorbing (the worker has terminated); the patch
it happened in is published like a failure to apply (nobody needs to go past it; whether the error
counts is decided from the final index when all workers are done, `errorCounts`).  The driver state
survives the error: it is the state before the erroring file patch (files that the erroring
`apply_one_file_patch` loaded but had not changed before the error are in the real `ModifiedFiles` and not
here; they hold what is on disk, so they are not visible through `look`, and saving them rewrites the
file with its own content) -/
def apW (fs : FS) (cfg : Cfg) (s : WSt) (q : QEntry) : WSt × Bool :=
  match s.err with
  | some _ => (s, false)
  | none =>
    match applyOne s.st fs cfg q.idx q.entry q.fp with
    | .error e => ({ s with err := some (q.idx, e) }, true)
    | .ok (st', ok) => ({ st := st', err := none }, !ok)

/-- does the error of a worker count, `final` being the index the push stops at (the final value of
`earliest_broken_patch_index`)?  parallel.rs: "If there was an error in the patch we stopped at, return it
before anything is saved. An error in a later patch is one a thread ran into while it was ahead of the
others: the push stops before that patch, so it does not count (which threads get how far ahead must not
change the result)." — `.find(|(index, _)| *index <= final_patch)` -/
def errorCounts (final : Nat) (s : WSt) : Bool :=
  match s.err with
  | some (i, _) => i ≤ final
  | none => false

/-- the names a file patch can touch -/
def fpNames (fp : PFilePatch) : List (List Comp) :=
  (match fp.old with | some o => [components o] | none => []) ++ (match fp.new with | some n => [components n] | none => [])

end RQ.Par
