import RQ.Model.Apply
/-!
# Model of the parts of `std::path` (unix) that rapidquilt relies on

`Path::components`, `Components::next`, `Components::as_path` (used by `FilePatch::strip`),
`Path == Path` (component-wise), `Path::join`, `Path::parent`, `Path::file_name`, `extension`,
`with_extension` (used by `make_rej_filename`).  std::path itself is *modelled, not verified*; the
`path` engine of the correspondence check compares this model with the real library on generated names.
-/
namespace RQ

inductive Comp
  | root
  | cur
  | parent
  | normal (name : Bytes)
deriving DecidableEq, Repr

def SEP : UInt8 := 47
def DOT : UInt8 := 46

/-- split off the first piece (up to the next separator): `(piece, rest after the separator, had separator)` -/
def takePiece : Bytes → Bytes × Bytes × Bool
  | [] => ([], [], false)
  | b :: bs =>
    if b = SEP then ([], bs, true)
    else
      let (p, r, s) := takePiece bs
      (b :: p, r, s)

def compOfPiece (p : Bytes) : Option Comp :=
  if p = [] then none
  else if p = [DOT] then none
  else if p = [DOT, DOT] then some .parent
  else some (.normal p)

/-- components of the body (after root / leading `.` have been handled) -/
def bodyComps : Nat → Bytes → List Comp
  | 0, _ => []
  | fuel+1, bs =>
    if bs = [] then [] else
    let (p, r, _) := takePiece bs
    match compOfPiece p with
    | some c => c :: bodyComps fuel r
    | none => bodyComps fuel r

/-- does the path start with a `.` component that `components()` keeps (`include_cur_dir`) -/
def includeCurDir : Bytes → Bool
  | [b] => b = DOT
  | b :: c :: _ => b = DOT ∧ c = SEP
  | _ => false

/-- `Path::components().collect()` -/
def components (raw : Bytes) : List Comp :=
  match raw with
  | [] => []
  | b :: bs =>
    if b = SEP then .root :: bodyComps (bs.length + 1) bs
    else if includeCurDir raw then .cur :: bodyComps (bs.length + 1) bs
    else bodyComps (raw.length + 1) raw

/-- skip empty and `.` pieces at the front (`Components::trim_left`) -/
def trimLeft : Nat → Bytes → Bytes
  | 0, bs => bs
  | fuel+1, bs =>
    if bs = [] then [] else
    let (p, r, _) := takePiece bs
    match compOfPiece p with
    | some _ => bs
    | none => trimLeft fuel r

/-- drop trailing separators and `.` pieces, never going below `keep` bytes (`Components::trim_right`) -/
def trimRight (keep : Nat) : Nat → Bytes → Bytes
  | 0, bs => bs
  | fuel+1, bs =>
    if bs.length ≤ keep then bs
    else
      -- last piece of bs[keep..]
      let body := bs.drop keep
      let lastPiece := (body.reverse.takeWhile (· ≠ SEP)).reverse
      let hasSep := lastPiece.length < body.length
      match compOfPiece lastPiece with
      | some _ => bs
      | none => trimRight keep fuel (bs.take (bs.length - (lastPiece.length + (if hasSep then 1 else 0))))

/-- skip pieces until one is a component and consume it (`Components::next` in the body state) -/
def eatComp : Nat → Bytes → Bytes
  | 0, x => x
  | f+1, x =>
    if x = [] then [] else
    let (p, r, _) := takePiece x
    match compOfPiece p with
    | some _ => r
    | none => eatComp f r

/-- `next()` × `n` once the iterator is in the body state -/
def dropBody : Nat → Bytes → Bytes
  | 0, bs => bs
  | n+1, bs => if bs = [] then [] else dropBody n (eatComp (bs.length + 1) bs)

/-- consume `n` components from the front: `for _ in 0..n { components.next(); }`, returning the
remaining raw bytes and whether the iterator has left its start state (`front == State::Body`) -/
def dropComps (n : Nat) (bs : Bytes) : Bytes × Bool :=
  match n with
  | 0 => (bs, false)
  | n+1 =>
    match bs with
    | [] => ([], true)
    | b :: rest =>
      if b = SEP then (dropBody n rest, true)
      else if includeCurDir bs then (dropBody n rest, true)
      else (dropBody (n+1) bs, true)

/-- `strip_path`: `components.next()` × `n`, `skip_cur_dir`, then `components.as_path()` -/
def stripPath (n : Nat) (raw : Bytes) : Bytes :=
  let (rest, inBody) := dropComps n raw
  -- `skip_cur_dir`: a leading `.` component that is still there is consumed as well
  let (rest, inBody) := if !inBody && includeCurDir rest then (rest.tail, true) else (rest, inBody)
  let rest := if inBody then trimLeft (rest.length + 1) rest else rest
  let keep := if inBody then 0 else
    match rest with
    | b :: _ => if b = SEP then 1 else if includeCurDir rest then 1 else 0
    | [] => 0
  trimRight keep (rest.length + 1) rest

/-- `Path::file_name` -/
def fileName (raw : Bytes) : Option Bytes :=
  match (components raw).getLast? with
  | some (.normal n) => some n
  | _ => none

/-- `make_rej_filename`: the name with `.rej` appended -/
def makeRejName (raw : Bytes) : Bytes := raw ++ [46, 114, 101, 106]

end RQ
