import RQ.Model.Apply
/-!
# Model of `src/libpatch/util/search.rs` and `src/libpatch/analysis/multiapply.rs`

The `-A multiapply` analysis and the line searcher it uses (a Horspool-like search over slices of
lines).  Generic over the line type (only equality of lines is used; the `HashSet` filter of the
searcher is membership in the needle).

Rust                                             | here
-------------------------------------------------|-----------------------------
`usize` subtraction (panics / wraps on underflow) | `csub`
`&haystack[a..b]` (panics when out of range)      | `slice?`
`for pos in position..min(..)` of `next`          | `scanC`
`loop { .. }` of `SearcherIterator::next`, iterated by `collect()` | `loopC`
`Searcher::new(needle).search_in(hay).collect()`  | `searchAllC` (checked), `searchAll`
`MultiApplyNote`                                  | `Note`
the `.filter(|range| ..)` closure                 | `noOverlap`
the `places` expression                           | `placesOf`
`for (i, (hunk, hunk_report)) in ..enumerate()`   | `multiApplyLoop`
`MultiApplyAnalysis::before_modifications`        | `multiApply`
`apply_modify` with the analysis call in place    | `applyModifyA`

In the checked functions `none` stands for a Rust panic (index or slice out of range, `usize`
underflow — in a release build the wrapped value is then used as an index and is out of range as
well).  `RQ/Props/C14Analysis.lean` shows that `none` never occurs (`C14_search_total`).

Not modelled: `isize`/`usize` are unbounded here (`as isize` casts are the identity); the text
written by `MultiApplyNote::write` (it prints `line + 1`, the offset unless 0, and `start + 1` of each
place).  The slices `remove_content()` taken by the analysis are exactly the ones `try_apply_hunk`
took when it produced the `Applied` report, `trim` of `RQ/Model/Apply.lean`.
-/
namespace RQ.Analysis
open RQ

section
variable {α : Type} [DecidableEq α]

/-- `a - b` on `usize`: `none` on underflow -/
def csub (a b : Nat) : Option Nat := if b ≤ a then some (a - b) else none

/-- `&l[a..b]`: `none` (panic) unless `a ≤ b ≤ l.len()` -/
def slice? (l : List α) (a b : Nat) : Option (List α) :=
  if a ≤ b ∧ b ≤ l.length then some ((l.drop a).take (b - a)) else none

/-- search.rs:69-75, the inner scan `for pos in position..hi` with `k = hi - position` positions left
(an empty range when `hi ≤ position`).  `none`: panic; `some none`: the `for` loop ran to its end;
`some (some pos)`: hit at `pos`. -/
def scanC (needle hay : List α) : Nat → Nat → Option (Option Nat)
  | 0, _ => some none
  | k+1, pos =>
    -- :70 `&self.haystack[pos..(pos + self.searcher.needle.len())]`
    match slice? hay pos (pos + needle.length) with
    | none => none
    | some w =>
      -- :70 `== self.searcher.needle`
      if w = needle then some (some pos)      -- :72-73 found one
      else scanC needle hay k (pos + 1)

/-- search.rs:59-81, the `loop` of `SearcherIterator::next` (without the empty-needle test in front
of it, which is in `searchAllC`), iterated as `collect()` does: after a hit `pos` the next call of
`next` enters the loop again with `self.position = pos + 1`.  `fuel` bounds the number of passes
through the loop; running out of fuel is `none` as well, `hay.length + 1` passes are always enough
(`C14_search_total`). -/
def loopC (needle hay : List α) : Nat → Nat → Option (List Nat)
  | 0, _ => none
  | fuel+1, position =>
    -- :61 `if self.position + self.searcher.needle.len() > self.haystack.len() { return None; }`
    if position + needle.length > hay.length then some []
    else
      -- :66 `self.position + self.searcher.needle.len() - 1`
      match csub (position + needle.length) 1 with
      | none => none
      | some li =>
        -- :66 `&self.haystack[..]`
        match hay[li]? with
        | none => none
        | some lastItem =>
          -- :67 `if self.searcher.filter.contains(last_item)`
          if needle.contains lastItem then
            -- :69 `self.haystack.len() + 1 - self.searcher.needle.len()`
            match csub (hay.length + 1) needle.length with
            | none => none
            | some lim =>
              -- :69 `for pos in self.position..min(self.position + needle.len(), lim)`
              match scanC needle hay (min (position + needle.length) lim - position) position with
              | none => none
              -- :72-73 `self.position = pos + 1; return Some(self.position - 1);`
              | some (some pos) => (loopC needle hay fuel (pos + 1)).map (pos :: ·)
              -- :79 `self.position += self.searcher.needle.len();`
              | some none => loopC needle hay fuel (position + needle.length)
          else
            -- :79 `self.position += self.searcher.needle.len();`
            loopC needle hay fuel (position + needle.length)

/-- `Searcher::new(needle).search_in(hay).collect::<Vec<usize>>()`, `none` = panic -/
def searchAllC (needle hay : List α) : Option (List Nat) :=
  -- :55 `if self.searcher.needle.is_empty() { return None; }`
  if needle.isEmpty then some []
  else loopC needle hay (hay.length + 1) 0

/-- `Searcher::new(needle).search_in(hay).collect::<Vec<usize>>()` (the checked model never gives
`none`: `C14_search_total`) -/
def searchAll (needle hay : List α) : List Nat := (searchAllC needle hay).getD []

end

/-- `MultiApplyNote`; `places` are the ranges `start..end` -/
structure Note where
  hunk : Nat
  line : Int
  offset : Int
  places : List (Int × Int)
deriving Repr, DecidableEq

section
variable {α : Type} [DecidableEq α]

/-- multiapply.rs:84-99, the closure of `.filter(..)`: `true` iff `range` overlaps the place of no
applied hunk (all hunks of the file patch, the hunk under examination included) -/
def noOverlap (hunks : List (Hunk α)) (dir : Dir) (reps : List Rep) (range : Int × Int) : Bool :=
  -- :85 `for (other_hunk, other_hunk_report) in file_patch.hunks().iter().zip(report.hunk_reports())`
  (hunks.zip reps).all fun (otherHunk, otherRep) =>
    match otherRep with
    -- :86 `if let HunkApplyReport::Applied { line, fuzz, .. } = other_hunk_report`
    | .applied line _ _ _ fuzz =>
      -- :87-88
      let otherRemove := (view otherHunk dir fuzz).rem
      -- :89 `(*line as isize)..(*line + other_remove_content.len() as isize)`
      let otherRange : Int × Int := (line, line + (otherRemove.length : Int))
      -- :91-94 `if range.end > other_range.start && other_range.end > range.start { return false; }`
      !(decide (range.2 > otherRange.1) && decide (otherRange.2 > range.1))
    | _ => true

/-- multiapply.rs:81-100, the value of `places` -/
def placesOf (hunks : List (Hunk α)) (dir : Dir) (reps : List Rep) (content removeContent : List α) :
    List (Int × Int) :=
  -- :81-82 `Searcher::new(&remove_content).search_in(&modified_file.content)`
  ((searchAll removeContent content)
    -- :83 `.map(|line| (line as isize)..((line + remove_content.len()) as isize))`
    |>.map fun (line : Nat) => ((line : Int), ((line + removeContent.length : Nat) : Int)))
    -- :84 `.filter(..)`
    |>.filter (noOverlap hunks dir reps)

/-- multiapply.rs:64-110, the `for` loop over `hunks.zip(reports).enumerate()`; `i` is the index of
the head of the list.  Both `return`s end the whole loop (not only the examination of this hunk). -/
def multiApplyLoop (hunks : List (Hunk α)) (dir : Dir) (reps : List Rep) (content : List α) :
    Nat → List (Hunk α × Rep) → List Note
  | _, [] => []
  | i, (hunk, rep) :: rest =>
    match rep with
    -- :66-67
    | .applied line _ offset _ fuzz =>
      -- :71-72
      let hunkView := view hunk dir fuzz
      let removeContent := hunkView.rem
      -- :75-77 `if hunk_view.position() != HunkPosition::Middle { return; }`
      if hunkView.position ≠ .middle then []
      else
        let places := placesOf hunks dir reps content removeContent
        -- :102 `if !places.is_empty()`
        if places.isEmpty then multiApplyLoop hunks dir reps content (i + 1) rest
        else
          { hunk := i, line := line, offset := offset, places := places } ::
            multiApplyLoop hunks dir reps content (i + 1) rest
    -- :68 `_ => return`
    | _ => []

/-- `MultiApplyAnalysis::before_modifications(modified_file, file_patch, direction, report, f)`:
the notes handed to `f`, in order.  `reps` are the hunk reports of the first loop of `apply_modify`
(`phase1`), `content` is the content of the file before the modifications. -/
def multiApply (hunks : List (Hunk α)) (dir : Dir) (reps : List Rep) (content : List α) : List Note :=
  multiApplyLoop hunks dir reps content 0 (hunks.zip reps)

/-- `apply_modify` in `ApplyMode::Normal` with `-A multiapply` (mod.rs:903: the analysis runs between
the two loops; `rollback` passes an empty `AnalysisSet`): the result and the notes -/
def applyModifyA (hs : List (Hunk α)) (d : Dir) (F : Nat) (f : FileSt α) :
    Option (FileSt α × Report) × List Note :=
  (applyModify hs d F .normal f, multiApply hs d (phase1 d F f.content f.deleted hs 0 (-1)) f.content)

end
end RQ.Analysis
