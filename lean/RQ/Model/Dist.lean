/-!
# Model of `FilenameDistributor` (`src/rapidquilt/apply/parallel.rs`)

`filename_to_index : HashMap<T, usize>` is modelled by the list of names in insertion order (the index of
a name is its position); `connected_components : Vec<usize>` by `parent`.
-/
namespace RQ

structure Dist (ν : Type) where
  threads : Nat
  names : List ν
  parent : List Nat
deriving Repr

variable {ν : Type} [DecidableEq ν]

/-- `FilenameDistributor::new` -/
def Dist.new (threads : Nat) : Dist ν := { threads, names := [], parent := [] }

/-- `*filename_to_index.entry(name).or_insert(next_index)` followed by the conditional `push` -/
def Dist.intern (d : Dist ν) (n : ν) : Dist ν × Nat :=
  match d.names.idxOf? n with
  | some i => (d, i)
  | none => ({ d with names := d.names ++ [n], parent := d.parent ++ [d.parent.length] }, d.parent.length)

/-- `find_root`: follow `connected_components` until a fixed point (`fuel` bounds the loop) -/
def findRoot (parent : List Nat) : Nat → Nat → Nat
  | 0, i => i
  | fuel+1, i =>
    let p := parent.getD i i
    if p = i then i else findRoot parent fuel p

/-- `FilenameDistributor::add` -/
def Dist.add (d : Dist ν) (a : ν) (b : Option ν) : Dist ν :=
  let (d, ia) := d.intern a
  match b with
  | none => d
  | some b =>
    let (d, ib) := d.intern b
    let ra := findRoot d.parent d.parent.length ia
    let rb := findRoot d.parent d.parent.length ib
    if ra < rb then { d with parent := d.parent.set rb ra }
    else { d with parent := d.parent.set ra rb }

/-- the compression pass of `build`: for `i` ascending, `cc[i] = cc[cc[i]]` if `cc[i] != i` -/
def compress (parent : List Nat) : Nat → List Nat
  | 0 => parent
  | k+1 =>
    let p := compress parent k
    let pk := p.getD k k
    if pk ≠ k then p.set k (p.getD pk pk) else p

/-- `FilenameDistributor::build`: name ↦ thread index -/
def Dist.build (d : Dist ν) : List (ν × Nat) :=
  let cc := compress d.parent d.parent.length
  d.names.zipIdx.map (fun (n, i) => (n, cc.getD i i % d.threads))

/-- the thread a name is assigned to -/
def Dist.worker (d : Dist ν) (n : ν) : Option Nat := (d.build.find? (fun p => p.1 = n)).map (·.2)

/-- feed a whole list of `(name, optional related name)` pairs -/
def Dist.addAll (d : Dist ν) (pairs : List (ν × Option ν)) : Dist ν :=
  pairs.foldl (fun d p => d.add p.1 p.2) d

end RQ
