import RQ.Model.Par
import RQ.Model.Cmd
import RQ.Lemmas.ParSched
import RQ.Lemmas.ParSave
/-!
# Model of the parallel driver, assembled (`parallel::apply_patches`)

`parApplyPatches` follows `apply_patches` of `src/rapidquilt/apply/parallel.rs` step by step:

1. all patch files of the range are read and parsed up front (`parseRange`); a patch that cannot be read
   or parsed makes the parallel driver return that error before anything is applied;
2. the file patches are queued for the worker threads (`allEntries`, `assignment`, `queueOf` of
   `RQ/Model/Par.lean`);
3. apply phase: the transition system of `RQ/Lemmas/ParSched.lean` (`run`, one micro-step of one worker
   per element of the schedule `schedA`), every worker applying its queue with `apply_one_file_patch`
   (`apW`) until it is past the shared `earliest_broken_patch_index`;
4. `final_patch` := the shared index; an error of a worker counts only if it happened in a patch
   `≤ final_patch` (`errorCounts`) — then it is returned and nothing has been written;
5. every worker rolls back what it applied of patches behind `final_patch` (`rollbackAhead`, the first
   loop of `save_files_worker`), in a real run undoes the file patches of the patch `final_patch` and
   renders their reject files (`rollbackAndRenderRej`), and saves its files (and quilt backups): the
   save code of the workers (`workerSaveC`) runs in the operation-level scheduling model of
   `RQ/Lemmas/FSInterleave.lean` under the schedule `schedS`;
6. the main thread cleans the directories the workers emptied and writes all reject files.

The result is `none` when a schedule is too short (not every worker has finished its phase under it);
the theorems quantify over all schedules that are long enough.

Where the Rust order of independent things is unspecified — the order in which the threads push their
results to the `Mutex<Vec<_>>`s, hence which error is "the first", and the order of the reports in the
final loops — the model takes worker order 0, 1, 2, ….  The in-memory steps of 5 (rollbacks, rendering
of reject files) touch only the worker's own state and are modelled before the save phase for all
workers together; that they cannot fail for parsed patches is `RQ.Par.parMemory_clean`
(`RQ/Lemmas/ParPush.lean`), so this order is not observable.  `analyze_patch_failure` only prints.
The scheduling model of the save phase has no fault injection: a `World.faultAt` is not consumed by the
workers' operations (the theorems assume `faultAt = none`).
-/
namespace RQ.Par
open RQ RQ.Push RQ.Parse RQ.ParSave

/-! ## The apply phase in the scheduler model -/

/-- the table of queues as the scheduler model wants it -/
def toEntries (q : List QEntry) : List Entry := q.zipIdx.map (fun (e, i) => { idx := e.idx, tag := i })

/-- the worker's application function on scheduler entries: the state carries the worker's id, the entry's
tag is its position in that worker's queue -/
def apSched (fs : FS) (cfg : Cfg) (queues : Nat → List QEntry) (s : Nat × WSt) (e : Entry) : (Nat × WSt) × Bool :=
  match (queues s.1)[e.tag]? with
  | some qe => let r := apW fs cfg s.2 qe; ((s.1, r.1), r.2)
  | none => (s, false)

/-- `done` of the scheduler model, decided -/
def doneB {σ : Type} (q : Nat → List Entry) (x : W σ) (w : Nat) : Bool :=
  x.phase == .stopped || (x.phase == .idle && decide ((q w).length ≤ x.pos))

/-- step 1: all patch files of the range are read and parsed up front; `none` if any cannot be read or
parsed — then the parallel driver refuses (the sequential one only notices when it gets there) -/
def parseRange (fs : FS) (cfg : Cfg) : List Series.Entry → Option (List (Series.Entry × List PFilePatch))
  | [] => some []
  | entry :: rest =>
    match patchKey cfg entry.name with
    | none => none
    | some pk =>
      match fs.readFile pk with
      | .error _ => none
      | .ok (bytes, _) =>
        match parsePatch bytes entry.strip false with
        | .error _ => none
        | .ok patch =>
          match parseRange fs cfg rest with
          | none => none
          | some ps => some ((entry, patch.fps) :: ps)

/-- what the apply phase leaves: the final value of `earliest_broken_patch_index` and the workers' states -/
structure ApplyOut where
  final : Nat
  ws : Nat → WSt

/-- the queues of the workers -/
def queuesOf (patches : List (Series.Entry × List PFilePatch)) (threads : Nat) : Nat → List QEntry :=
  fun i => queueOf threads (allEntries patches 0) i

/-- the state of the scheduler model after the schedule `schedA` -/
def applyRun (fs : FS) (cfg : Cfg) (patches : List (Series.Entry × List PFilePatch)) (threads : Nat)
    (schedA : List Nat) : S (Nat × WSt) :=
  run (apSched fs cfg (queuesOf patches threads)) (fun i => toEntries (queuesOf patches threads i)) schedA
    (initS (fun i => (i, { st := {} })) patches.length)

/-- step 3 (`apply_worker` on every thread, interleaved by `schedA`); `none`: some worker is not done -/
def applyPhase (fs : FS) (cfg : Cfg) (patches : List (Series.Entry × List PFilePatch)) (threads : Nat)
    (schedA : List Nat) : Option ApplyOut :=
  let s := applyRun fs cfg patches threads schedA
  if (List.range threads).all (fun i => doneB (fun i => toEntries (queuesOf patches threads i)) (s.ws i) i) then
    some { final := s.earliest, ws := fun i => (s.ws i).st.2 }
  else none

/-! ## After the apply phase, in memory -/

/-- the first worker (in worker order) whose result is an error -/
def firstFail {α : Type} (n : Nat) (f : Nat → Except Fail α) : Option Fail :=
  (List.range n).findSome? (fun i => match f i with | .error e => some e | .ok _ => none)

/-- step 4: `apply_errors.drain(..).find(|(index, _)| *index <= final_patch)` -/
def countingError (threads final : Nat) (ws : Nat → WSt) : Option Fail :=
  (List.range threads).findSome? (fun i =>
    if errorCounts final (ws i) then (ws i).err.map (·.2) else none)

/-- the first loop of `save_files_worker`: pop and undo every applied file patch of a patch behind `final` -/
def rollbackAheadL (final : Nat) : List Status → Mem → Except Fail St
  | [], mem => .ok { applied := [], mem }
  | s :: rest, mem =>
    if s.index ≤ final then .ok { applied := s :: rest, mem }
    else
      match rollbackOne mem s with
      | .error e => .error e
      | .ok (mem', _) => rollbackAheadL final rest mem'

def rollbackAhead (final : Nat) (st : St) : Except Fail St := rollbackAheadL final st.applied st.mem

/-- the in-memory part of `save_files_worker` for one worker: roll back to `final`; in a real run undo
the patch `final` itself and render its reject files -/
def finishWorker (cfg : Cfg) (final : Nat) (ws : WSt) : Except Fail (St × List (Bytes × Bytes)) :=
  match rollbackAhead final ws.st with
  | .error e => .error e
  | .ok st =>
    if cfg.dryRun then .ok (st, [])
    else rollbackAndRenderRej (st.applied.length + 1) st final []

/-- what the push has computed in memory: where it stops, and per worker the state to save and the
reject files -/
structure ParResult where
  final : Nat
  sts : Nat → St
  rejs : Nat → List (Bytes × Bytes)

/-- steps 2–5 without the file system: `none` = `schedA` too short -/
def parMemory (fs : FS) (cfg : Cfg) (patches : List (Series.Entry × List PFilePatch)) (threads : Nat)
    (schedA : List Nat) : Option (Except Fail ParResult) :=
  match applyPhase fs cfg patches threads schedA with
  | none => none
  | some a =>
    match countingError threads a.final a.ws with
    | some e => some (.error e)
    | none =>
      let fin := fun i => finishWorker cfg a.final (a.ws i)
      match firstFail threads fin with
      | some e => some (.error e)
      | none =>
        some (.ok { final := a.final,
                    sts := fun i => match fin i with | .ok r => r.1 | .error _ => {},
                    rejs := fun i => match fin i with | .ok r => r.2 | .error _ => [] })

/-! ## The save phase and the main thread's last steps -/

/-- the operations issued under a schedule, in the order they happen (for the trace of the world) -/
def opTrace (progs : Nat → Prog) : List Nat → PState → List Op
  | [], _ => []
  | i :: rest, s =>
    match progs i (s.hist i) with
    | none => opTrace progs rest s
    | some o => o :: opTrace progs rest (ParSave.step progs s i)

/-- how worker `i`'s save code ended, given the results its operations had -/
def saveResult (cfg : Cfg) (final rangeLen : Nat) (mem : Mem) (applied : List Status) (hist : List Res) :
    Except Fail (List Key) :=
  match (workerSaveC cfg final rangeLen mem applied).resultAt hist with
  | some r => r
  | none => .error .panic     -- not reached: the histories of the scheduling model are runs of the command

/-- step 5, file-system part: the workers' save code interleaved by `schedS`.  `none`: some worker has
not finished.  Result: the world after the last operation and the directories every worker found emptied. -/
def savePhase (w : World) (cfg : Cfg) (final rangeLen threads : Nat) (mems : Nat → Mem)
    (applieds : Nat → List Status) (schedS : List Nat) : Option (WR (World × (Nat → List Key))) :=
  let progs := saveProgs cfg final rangeLen mems applieds threads
  let s := ParSave.run progs schedS (ParSave.init w.fs)
  if (List.range threads).all (fun i => (progs i (s.hist i)).isNone) then
    let w1 : World := { fs := s.fs, trace := w.trace ++ opTrace progs schedS (ParSave.init w.fs), faultAt := w.faultAt }
    let res := fun i => saveResult cfg final rangeLen (mems i) (applieds i) (s.hist i)
    match firstFail threads res with
    | some e => some (.error (e, w1))
    | none => some (.ok (w1, fun i => match res i with | .ok d => d | .error _ => []))
  else none

/-- `for thread_report in &thread_reports { clean_empty_directories(..) }`, workers `0 .. n-1` -/
def cleanWorkers (w : World) (dirs : Nat → List Key) : Nat → WR World
  | 0 => .ok w
  | n + 1 =>
    match cleanWorkers w dirs n with
    | .error e => .error e
    | .ok w' => cleanAll w' (dirs n)

/-- `for thread_report in &thread_reports { save_rej_files(..) }`, workers `0 .. n-1` -/
def rejWorkers (w : World) (rejs : Nat → List (Bytes × Bytes)) : Nat → WR World
  | 0 => .ok w
  | n + 1 =>
    match rejWorkers w rejs n with
    | .error e => .error e
    | .ok w' => saveRejFiles w' (rejs n)

/-- step 6 -/
def mainFinish (w : World) (dirs : Nat → List Key) (rejs : Nat → List (Bytes × Bytes)) (threads final : Nat) :
    WR (World × Nat) :=
  match cleanWorkers w dirs threads with
  | .error e => .error e
  | .ok w2 =>
    match rejWorkers w2 rejs threads with
    | .error e => .error e
    | .ok w3 => .ok (w3, final)

/-- **`parallel::apply_patches`** with `threads` worker threads, the apply phase interleaved by `schedA`
and the save phase by `schedS`.  `none`: a schedule was too short. -/
def parApplyPatches (w : World) (cfg : Cfg) (range : List Series.Entry) (threads : Nat)
    (schedA schedS : List Nat) : Option (WR (World × Nat)) :=
  -- rayon always has at least one thread (`% thread_count` would panic)
  if threads = 0 then some (.error (.panic, w)) else
  match parseRange w.fs cfg range with
  | none => some (.error (.err, w))                   -- `ApplyError::PatchLoad`
  | some patches =>
    -- `(None, None) => unreachable!()`: a file patch without any name (the parser makes none, `C11_wf`)
    if (allEntries patches 0).any (fun q => (distPair q.fp).isNone) then some (.error (.panic, w)) else
    match parMemory w.fs cfg patches threads schedA with
    | none => none
    | some (.error e) => some (.error (e, w))
    | some (.ok r) =>
      if cfg.dryRun then some (.ok (w, r.final))
      else
        match savePhase w cfg r.final patches.length threads (fun i => (r.sts i).mem)
            (fun i => (r.sts i).applied) schedS with
        | none => none
        | some (.error e) => some (.error e)
        | some (.ok (w1, dirs)) => some (mainFinish w1 dirs r.rejs threads r.final)

end RQ.Par
