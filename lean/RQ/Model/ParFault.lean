import RQ.Model.ParPush
/-!
# Fault injection in the save phase of the parallel driver

`RQ/Model/ParPush.lean` models `parallel::apply_patches`; its save phase (`savePhase`) runs the workers'
save code in the operation-level scheduling model of `RQ/Lemmas/FSInterleave.lean` (`step`, `run`), which
has no fault injection.  This file adds it.

The numbering of the operations is the one of `World.op` and of the fault-injection hook in the code: the
number of an operation is its position in the trace of the world, i.e. the number of file-system
operations executed before it, whoever executed them.  In the save phase that is the position in
*schedule order*, counting the operations of all workers (the hook's counter is shared by the threads).

* `stepF fault` / `runF fault`: like `ParSave.step` / `ParSave.run`, with a counter `cnt` of the operations
  executed so far; the operation executed when `fault = some cnt` fails: its result class is `failed` (an
  error other than `NotFound`) and the file system is unchanged — what `World.op` does.
* `savePhaseF`: `savePhase` with `runF`, the fault being the `faultAt` of the world; the counter starts at
  the length of the world's trace.  The world it returns has the workers' operations appended to the trace
  and the same `faultAt`, so that the main thread's last steps (`mainFinish`, through `World.op`) go on
  counting where the workers stopped.
* `parApplyPatchesF fault` := `parApplyPatches` on the world with `faultAt := fault`, with `savePhaseF`.
* `parPushRangeF`, `parPushF`: the whole command (`plan`, `parApplyPatchesF`, `saveApplied`), as
  `Push.pushRange` / `Push.push` and `PushEngine.parPushInv`.

With `fault = none` this is `parApplyPatches` (`parApplyPatchesF_none`, `RQ/Lemmas/ParFaultLemmas.lean`).
-/
namespace RQ.ParSave
open RQ RQ.Push

/-- the state of the scheduling model, with the number of file-system operations executed so far (by
anybody: the position of the next operation in the trace of the world) -/
structure FState where
  ps : PState
  cnt : Nat

/-- the save phase starts from the file system of the world; the operations executed before it are the
ones in the world's trace -/
def initF (w : World) : FState := ⟨init w.fs, w.trace.length⟩

/-- worker `i` performs its next operation (no-op if it is finished); the operation with number `fault`
fails and leaves the file system as it is -/
def stepF (fault : Option Nat) (progs : Nat → Prog) (s : FState) (i : Nat) : FState :=
  match progs i (s.ps.hist i) with
  | none => s
  | some o =>
    let r : Res × FS := if fault == some s.cnt then (.failed, s.ps.fs) else exec s.ps.fs o
    { ps := { fs := r.2, hist := fun j => if j = i then s.ps.hist i ++ [r.1] else s.ps.hist j },
      cnt := s.cnt + 1 }

def runF (fault : Option Nat) (progs : Nat → Prog) (sched : List Nat) (s : FState) : FState :=
  sched.foldl (stepF fault progs) s

/-- the operations issued under a schedule, in the order they happen -/
def opTraceF (fault : Option Nat) (progs : Nat → Prog) : List Nat → FState → List Op
  | [], _ => []
  | i :: rest, s =>
    match progs i (s.ps.hist i) with
    | none => opTraceF fault progs rest s
    | some o => o :: opTraceF fault progs rest (stepF fault progs s i)

end RQ.ParSave

namespace RQ.Par
open RQ RQ.Push RQ.Parse RQ.ParSave

/-- step 5 of `parallel::apply_patches`, file-system part, with fault injection: the workers' save code
interleaved by `schedS`; the operation whose number (position in the trace) is `w.faultAt` fails.
`none`: some worker has not finished. -/
def savePhaseF (w : World) (cfg : Cfg) (final rangeLen threads : Nat) (mems : Nat → Mem)
    (applieds : Nat → List Status) (schedS : List Nat) : Option (WR (World × (Nat → List Key))) :=
  let progs := saveProgs cfg final rangeLen mems applieds threads
  let s := runF w.faultAt progs schedS (initF w)
  if (List.range threads).all (fun i => (progs i (s.ps.hist i)).isNone) then
    let w1 : World := { fs := s.ps.fs, trace := w.trace ++ opTraceF w.faultAt progs schedS (initF w),
                        faultAt := w.faultAt }
    let res := fun i => saveResult cfg final rangeLen (mems i) (applieds i) (s.ps.hist i)
    match firstFail threads res with
    | some e => some (.error (e, w1))
    | none => some (.ok (w1, fun i => match res i with | .ok d => d | .error _ => []))
  else none

/-- **`parallel::apply_patches` with fault injection**: the file-system operation number `fault`
(position in the trace of the world; in the save phase: in schedule order, all workers counted) fails.
The main thread's last steps (`mainFinish`) continue the count through `World.op`. -/
def parApplyPatchesF (fault : Option Nat) (w : World) (cfg : Cfg) (range : List Series.Entry) (threads : Nat)
    (schedA schedS : List Nat) : Option (WR (World × Nat)) :=
  let w : World := { w with faultAt := fault }
  if threads = 0 then some (.error (.panic, w)) else
  match parseRange w.fs cfg range with
  | none => some (.error (.err, w))
  | some patches =>
    if (allEntries patches 0).any (fun q => (distPair q.fp).isNone) then some (.error (.panic, w)) else
    match parMemory w.fs cfg patches threads schedA with
    | none => none
    | some (.error e) => some (.error (e, w))
    | some (.ok r) =>
      if cfg.dryRun then some (.ok (w, r.final))
      else
        match savePhaseF w cfg r.final patches.length threads (fun i => (r.sts i).mem)
            (fun i => (r.sts i).applied) schedS with
        | none => none
        | some (.error e) => some (.error e)
        | some (.ok (w1, dirs)) => some (mainFinish w1 dirs r.rejs threads r.final)

/-- the second part of `cmd_push` with the parallel driver: apply the range, then record the applied
patches (`Push.pushRange` with `parApplyPatchesF`) -/
def parPushRangeF (fault : Option Nat) (cfg : Cfg) (w : World) (range : List Series.Entry) (threads : Nat)
    (schedA schedS : List Nat) : Option (Outcome × World) :=
  match parApplyPatchesF fault w cfg range threads schedA schedS with
  | none => none
  | some (.error (.err, w')) => some (.error, w')
  | some (.error (.panic, w')) => some (.panic, w')
  | some (.ok (w', final)) =>
    if cfg.dryRun then some (if final == range.length then .allApplied else .notAll, w')
    else match saveApplied w' ((range.take final).map (·.name)) with
      | .error (_, w'') => some (.error, w'')
      | .ok w'' => some (if final == range.length then .allApplied else .notAll, w'')

/-- **`cmd_push` with the parallel driver and fault injection** (`Push.push`, `PushEngine.parPushInv`) -/
def parPushF (fault : Option Nat) (cfg : Cfg) (w : World) (threads : Nat) (schedA schedS : List Nat) :
    Option (Outcome × World) :=
  match plan cfg w.fs with
  | .refuse => some (.error, { w with faultAt := fault })
  | .nothingToDo => some (.allApplied, { w with faultAt := fault })
  | .apply range => parPushRangeF fault cfg w range threads schedA schedS

end RQ.Par
