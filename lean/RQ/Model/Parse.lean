import RQ.Model.Path
import RQ.Extracted
/-!
# Model of `src/libpatch/patch/unified/parser.rs`

Every sub-parser mirrored one to one (`take_line_*`, `parse_c_string`, `parse_filename`, `parse_mode`,
`parse_metadata_line`, `parse_git_metadata_line`, `parse_patch_line`, `parse_number_usize`,
`parse_hunk_line_and_count`, `parse_hunk_header`, `parse_hunk_line`, `parse_hunk`, `parse_hunks`,
`recognize_kind`, `build_filepatch`, `parse_filepatch`, `parse_patch`).  Inputs are byte lists, a parser
returns `Except EB (rest × value)`.  Loops of the Rust code take a fuel argument; `RQ.Props.C11` shows the
fuel given by `parsePatch` is never exhausted.  File names are raw bytes (after stripping).
-/
namespace RQ.Parse
open RQ

def sDiffGit : Bytes := [100, 105, 102, 102, 32, 45, 45, 103, 105, 116, 32]  -- 'diff --git '
def sMinus : Bytes := [45, 45, 45, 32]  -- '--- '
def sPlus : Bytes := [43, 43, 43, 32]  -- '+++ '
def sIndex : Bytes := [105, 110, 100, 101, 120, 32]  -- 'index '
def sDotDot : Bytes := [46, 46]  -- '..'
def sRenameFrom : Bytes := [114, 101, 110, 97, 109, 101, 32, 102, 114, 111, 109, 32]  -- 'rename from '
def sRenameTo : Bytes := [114, 101, 110, 97, 109, 101, 32, 116, 111, 32]  -- 'rename to '
def sCopyFrom : Bytes := [99, 111, 112, 121, 32, 102, 114, 111, 109, 32]  -- 'copy from '
def sCopyTo : Bytes := [99, 111, 112, 121, 32, 116, 111, 32]  -- 'copy to '
def sGitBinary : Bytes := [71, 73, 84, 32, 98, 105, 110, 97, 114, 121, 32, 112, 97, 116, 99, 104]  -- 'GIT binary patch'
def sOldMode : Bytes := [111, 108, 100, 32, 109, 111, 100, 101, 32]  -- 'old mode '
def sNewMode : Bytes := [110, 101, 119, 32, 109, 111, 100, 101, 32]  -- 'new mode '
def sNewFileMode : Bytes := [110, 101, 119, 32, 102, 105, 108, 101, 32, 109, 111, 100, 101, 32]  -- 'new file mode '
def sDeletedFileMode : Bytes := [100, 101, 108, 101, 116, 101, 100, 32, 102, 105, 108, 101, 32, 109, 111, 100, 101, 32]  -- 'deleted file mode '
def sHunkStart : Bytes := [64, 64, 32, 45]  -- '@@ -'
def sSpacePlus : Bytes := [32, 43]  -- ' +'
def sSpaceAt : Bytes := [32, 64]  -- ' @'
def sAtSpace : Bytes := [64, 32]  -- '@ '


inductive EB
  | noMatch | unsupportedMetadata | missingFilenameForHunk | unexpectedEndOfLine | unexpectedEndOfFile
  | badHunkHeader | badLineInHunk | numberTooBig | badNumber | badMode | badSequence | badHash
  | outOfFuel
deriving DecidableEq, Repr

abbrev R := Except EB

def NL : UInt8 := 10

def isSpace (c : UInt8) : Bool := c == 32 || c == 9
def isWhitespace (c : UInt8) : Bool := c == 32 || c == 12 || c == 10 || c == 13 || c == 9 || c == 11
def isDigit (c : UInt8) : Bool := c ≥ 48 && c ≤ 57
def isOct (c : UInt8) : Bool := c ≥ 48 && c ≤ 55
def isHex (c : UInt8) : Bool := (c ≥ 48 && c ≤ 57) || (c ≥ 97 && c ≤ 102) || (c ≥ 65 && c ≤ 70)

def stripPrefix : Bytes → Bytes → Option Bytes
  | [], inp => some inp
  | _ :: _, [] => none
  | p :: ps, b :: bs => if p == b then stripPrefix ps bs else none

def newline (inp : Bytes) : R (Bytes × Bytes) :=
  match inp with
  | [] => .error .unexpectedEndOfFile
  | c :: r => if c == NL then .ok (r, [c]) else .error .noMatch

/-- (rest, line without newline) -/
def takeLineSkip : Bytes → R (Bytes × Bytes)
  | [] => .error .unexpectedEndOfFile
  | b :: bs => if b == NL then .ok (bs, []) else
      match takeLineSkip bs with
      | .error e => .error e
      | .ok (rest, line) => .ok (rest, b :: line)

def takeLineIncl : Bytes → R (Bytes × Bytes)
  | [] => .error .unexpectedEndOfFile
  | b :: bs => if b == NL then .ok (bs, [b]) else
      match takeLineIncl bs with
      | .error e => .error e
      | .ok (rest, line) => .ok (rest, b :: line)

/-- split_at_cond: (prefix where pred is false, rest starting at first true) -/
def splitAtCond (pred : UInt8 → Bool) : Bytes → Bytes × Bytes
  | [] => ([], [])
  | b :: bs => if pred b then ([], b :: bs) else
      let (a, r) := splitAtCond pred bs
      (b :: a, r)

def parseFilenameDirect (inp : Bytes) : R (Bytes × Bytes) :=
  let (name, rest) := splitAtCond isWhitespace inp
  if name.isEmpty then .error .noMatch else .ok (rest, name)

def parseOct3 (inp : Bytes) : Option UInt8 :=
  match inp with
  | a :: b :: c :: _ =>
    if a ≥ 48 && a ≤ 51 && isOct b && isOct c then
      some (((a - 48) <<< 6) ||| ((b - 48) <<< 3) ||| (c - 48))
    else none
  | _ => none

/-- parse_c_string body after the opening quote; `fuel` = remaining length -/
def cStringLoop : Nat → Bytes → Bytes → Except EB (Bytes × Bytes)
  | 0, _, _ => .error .unexpectedEndOfFile
  | fuel+1, inp, acc =>
    match inp with
    | [] => .error .unexpectedEndOfFile
    | c :: r =>
      if c == 92 then
        match r with
        | 97 :: r' => cStringLoop fuel r' (acc ++ [7])
        | 98 :: r' => cStringLoop fuel r' (acc ++ [8])
        | 102 :: r' => cStringLoop fuel r' (acc ++ [12])
        | 110 :: r' => cStringLoop fuel r' (acc ++ [10])
        | 114 :: r' => cStringLoop fuel r' (acc ++ [13])
        | 116 :: r' => cStringLoop fuel r' (acc ++ [9])
        | 118 :: r' => cStringLoop fuel r' (acc ++ [11])
        | 92 :: r' => cStringLoop fuel r' (acc ++ [92])
        | 34 :: r' => cStringLoop fuel r' (acc ++ [34])
        | _ =>
          match parseOct3 r with
          | some v => cStringLoop fuel (r.drop 3) (acc ++ [v])
          | none => .error .badSequence
      else if c == 34 then .ok (r, acc)
      else if c == NL then .error .unexpectedEndOfLine
      else cStringLoop fuel r (acc ++ [c])

def parseCString (inp : Bytes) : R (Bytes × Bytes) :=
  match inp with
  | 34 :: r => cStringLoop (r.length + 1) r []
  | _ => .error .noMatch

inductive Filename
  | real (b : Bytes)
  | devNull
deriving DecidableEq, Repr

def nullFilename : Bytes := Extracted.nullFilename

def parseFilename (inp : Bytes) : R (Bytes × Filename) :=
  let (_, inp) := splitAtCond (fun c => !isSpace c) inp
  match parseCString inp with
  | .ok (rest, v) => if v == nullFilename then .ok (rest, .devNull) else .ok (rest, .real v)
  | .error _ =>
    match parseFilenameDirect inp with
    | .error e => .error e
    | .ok (rest, name) => if name == nullFilename then .ok (rest, .devNull) else .ok (rest, .real name)

def octVal (ds : Bytes) : Nat := ds.foldl (fun a d => a * 8 + (d.toNat - 48)) 0
def decVal (ds : Bytes) : Nat := ds.foldl (fun a d => a * 10 + (d.toNat - 48)) 0

def parseMode (inp : Bytes) : R (Bytes × Nat) :=
  let (_, inp) := splitAtCond (fun c => !isSpace c) inp
  let (digits, rest) := splitAtCond (fun c => !isOct c) inp
  if digits.isEmpty then .error .noMatch
  else if digits.length != 6 then .error .badMode
  else .ok (rest, octVal digits)

inductive MetaLine
  | gitDiff (o n : Filename)
  | minus (f : Filename)
  | plus (f : Filename)
deriving Repr


def parseMetadataLine (inp : Bytes) : R (Bytes × MetaLine) :=
  match inp with
  | [] => .error .noMatch
  | c :: _ =>
    if c == 100 then
      match stripPrefix sDiffGit inp with
      | none => .error .noMatch
      | some r => do
        let (r, o) ← parseFilename r
        let (r, n) ← parseFilename r
        let (r, _) ← takeLineIncl r
        pure (r, .gitDiff o n)
    else if c == 45 then
      match stripPrefix sMinus inp with
      | none => .error .noMatch
      | some r => do
        let (r, f) ← parseFilename r
        let (r, _) ← takeLineIncl r
        pure (r, .minus f)
    else if c == 43 then
      match stripPrefix sPlus inp with
      | none => .error .noMatch
      | some r => do
        let (r, f) ← parseFilename r
        let (r, _) ← takeLineIncl r
        pure (r, .plus f)
    else .error .noMatch

def parseGitHash (inp : Bytes) : R (Bytes × Bytes) :=
  let (h, rest) := splitAtCond (fun c => !isHex c) inp
  if h.isEmpty then .error .badHash else .ok (rest, h)

inductive GitLine
  | index (o n : Bytes) (mode : Option Nat)
  | oldMode (m : Nat) | newMode (m : Nat) | deletedFileMode (m : Nat) | newFileMode (m : Nat)
  | renameFrom | renameTo | copyFrom | copyTo | binary
deriving Repr


def parseGitMetadataLine (inp : Bytes) : R (Bytes × GitLine) :=
  match inp with
  | [] => .error .noMatch
  | c :: _ =>
    if c == 105 then
      match stripPrefix (sIndex) inp with
      | none => .error .noMatch
      | some r => do
        let (r, o) ← parseGitHash r
        match stripPrefix (sDotDot) r with
        | none => .error .noMatch
        | some r =>
          let (r, n) ← parseGitHash r
          let (r, m) := match parseMode r with
            | .ok (r', m) => (r', some m)
            | .error _ => (r, none)
          let (r, _) ← newline r
          pure (r, .index o n m)
    else if c == 114 then
      match stripPrefix (sRenameFrom) inp with
      | some r => do let (r, _) ← takeLineSkip r; pure (r, .renameFrom)
      | none =>
        match stripPrefix (sRenameTo) inp with
        | some r => do let (r, _) ← takeLineSkip r; pure (r, .renameTo)
        | none => .error .noMatch
    else if c == 99 then
      match stripPrefix (sCopyFrom) inp with
      | some r => do let (r, _) ← takeLineSkip r; pure (r, .copyFrom)
      | none =>
        match stripPrefix (sCopyTo) inp with
        | some r => do let (r, _) ← takeLineSkip r; pure (r, .copyTo)
        | none => .error .noMatch
    else if c == 71 then
      match stripPrefix (sGitBinary) inp with
      | some r => do let (r, _) ← takeLineSkip r; pure (r, .binary)
      | none => .error .noMatch
    else if c == 111 then
      match stripPrefix (sOldMode) inp with
      | some r => do let (r, m) ← parseMode r; let (r, _) ← newline r; pure (r, .oldMode m)
      | none => .error .noMatch
    else if c == 110 then
      match stripPrefix (sNewMode) inp with
      | some r => do let (r, m) ← parseMode r; let (r, _) ← newline r; pure (r, .newMode m)
      | none =>
        match stripPrefix (sNewFileMode) inp with
        | some r => do let (r, m) ← parseMode r; let (r, _) ← newline r; pure (r, .newFileMode m)
        | none => .error .noMatch
    else if c == 100 then
      match stripPrefix (sDeletedFileMode) inp with
      | some r => do let (r, m) ← parseMode r; let (r, _) ← newline r; pure (r, .deletedFileMode m)
      | none => .error .noMatch
    else .error .noMatch

inductive PatchLine
  | garbage
  | mline (m : MetaLine)
  | git (g : GitLine)
  | endOfPatch
deriving Repr

def parsePatchLine (git : Bool) (inp : Bytes) : R (Bytes × PatchLine) :=
  match parseMetadataLine inp with
  | .ok (r, m) => .ok (r, .mline m)
  | .error _ =>
    let g : Option (Bytes × GitLine) := if git then (match parseGitMetadataLine inp with | .ok x => some x | .error _ => none) else none
    match g with
    | some (r, gl) => .ok (r, .git gl)
    | none =>
      match takeLineIncl inp with
      | .ok (r, _) => .ok (r, .garbage)
      | .error _ => if inp.isEmpty then .ok (inp, .endOfPatch) else .error .unexpectedEndOfFile

def parseNumber (inp : Bytes) : R (Bytes × Nat) :=
  let (digits, rest) := splitAtCond (fun c => !isDigit c) inp
  if digits.isEmpty then .error .badNumber
  else
    let v := decVal digits
    if v ≥ 2^64 then .error .numberTooBig else .ok (rest, v)

def parseLineAndCount (inp : Bytes) : R (Bytes × (Nat × Nat)) := do
  let (r, line) ← parseNumber inp
  if line > 2^63 - 1 then .error .numberTooBig else
  match r with
  | 44 :: r' => do
    let (r'', count) ← parseNumber r'
    pure (r'', (line, count))
  | _ => pure (r, (line, 1))

structure HunkHeader where
  addLine : Nat
  addCount : Nat
  remLine : Nat
  remCount : Nat
  func : Bytes
deriving Repr

def parseHunkHeader (inp : Bytes) : R (Bytes × HunkHeader) :=
  match stripPrefix (sHunkStart) inp with
  | none => .error .noMatch
  | some r =>
    match parseLineAndCount r with
    | .error _ => .error .badHunkHeader
    | .ok (r, (rl, rc)) =>
      match stripPrefix (sSpacePlus) r with
      | none => .error .badHunkHeader
      | some r =>
        match parseLineAndCount r with
        | .error _ => .error .badHunkHeader
        | .ok (r, (al, ac)) =>
          match stripPrefix (sSpaceAt) r with
          | none => .error .badHunkHeader
          | some r =>
            match stripPrefix (sAtSpace) r with
            | some r' =>
              match takeLineSkip r' with
              | .error e => .error e
              | .ok (r'', f) => .ok (r'', { addLine := al, addCount := ac, remLine := rl, remCount := rc, func := f })
            | none =>
              match takeLineIncl r with
              | .error e => .error e
              | .ok (r'', _) => .ok (r'', { addLine := al, addCount := ac, remLine := rl, remCount := rc, func := [] })

inductive Tag | add | rem | ctx deriving DecidableEq, Repr

def parseHunkLine (inp : Bytes) : R (Bytes × (Tag × Bytes)) :=
  let first : Except EB (Tag × R (Bytes × Bytes)) :=
    match inp with
    | [] => .error .unexpectedEndOfFile
    | b :: r =>
      if b == 43 then .ok (.add, takeLineIncl r)
      else if b == 45 then .ok (.rem, takeLineIncl r)
      else if b == 32 then .ok (.ctx, takeLineIncl r)
      else if b == 9 then .ok (.ctx, takeLineIncl inp)
      else if b == 10 then .ok (.ctx, .ok (r, [b]))
      else .error .badLineInHunk
  match first with
  | .error e => .error e
  | .ok (_, .error e) => .error e
  | .ok (t, .ok (rest, line)) =>
    match rest with
    | 92 :: _ =>
      match takeLineIncl rest with
      | .error e => .error e
      | .ok (rest', _) => .ok (rest', (t, line.dropLast))
    | _ => .ok (rest, (t, line))

abbrev PHunk := RQ.Hunk Bytes

/-- the local `target_line` of `parse_hunk`: header numbers count from 1, ours from 0; the number of a
side without lines is the line it follows, i.e. already the index of the line behind it.
(`line as isize` is exact: `parseLineAndCount` rejects numbers above `isize::MAX`.) -/
def startLine (line count : Nat) : Int :=
  if count = 0 then (line : Int) else max ((line : Int) - 1) 0

def hunkLoop : Nat → Bytes → Nat → Nat → PHunk → Bool → R (Bytes × PHunk)
  | 0, _, _, _, _, _ => .error .outOfFuel
  | fuel+1, inp, ac, rc, h, nonctx =>
    if ac == 0 && rc == 0 then .ok (inp, h) else
    match parseHunkLine inp with
    | .error e => .error e
    | .ok (inp', (t, line)) =>
      match t with
      | .add => if ac == 0 then .error .badLineInHunk else
          hunkLoop fuel inp' (ac-1) rc { h with add := h.add ++ [line], suf := 0 } true
      | .rem => if rc == 0 then .error .badLineInHunk else
          hunkLoop fuel inp' ac (rc-1) { h with rem := h.rem ++ [line], suf := 0 } true
      | .ctx => if rc == 0 || ac == 0 then .error .badLineInHunk else
          let h' := { h with add := h.add ++ [line], rem := h.rem ++ [line] }
          let h'' := if !nonctx then { h' with pre := h'.pre + 1 } else { h' with suf := h'.suf + 1 }
          hunkLoop fuel inp' (ac-1) (rc-1) h'' nonctx

def parseHunk (inp : Bytes) : R (Bytes × PHunk) :=
  match parseHunkHeader inp with
  | .error .noMatch => .error .noMatch
  | .error _ => .error .badHunkHeader
  | .ok (r, hd) =>
    hunkLoop (r.length + 2) r hd.addCount hd.remCount
      { rem := [], add := [], remLine := startLine hd.remLine hd.remCount, addLine := startLine hd.addLine hd.addCount,
        pre := 0, suf := 0, func := hd.func } false

def hunksLoop : Nat → Bytes → List PHunk → R (Bytes × (List PHunk))
  | 0, _, _ => .error .outOfFuel
  | fuel+1, inp, acc =>
    match parseHunk inp with
    | .ok (r, h) => hunksLoop fuel r (acc ++ [h])
    | .error .noMatch => .ok (inp, acc)
    | .error e => .error e


structure Meta where
  old : Option Filename := none
  new : Option Filename := none
  renFrom : Bool := false
  renTo : Bool := false
  oldPerm : Option Nat := none
  newPerm : Option Nat := none
  oldHash : Option Bytes := none
  newHash : Option Bytes := none
deriving Repr

abbrev PFilePatch := RQ.FilePatch Bytes

/-- `FilePatchMetadata::recognize_kind` -/
def recognizeKind (hs : List PHunk) : Kind :=
  match hs with
  | [h] =>
    if h.suf = 0 ∧ h.pre = 0 then
      if h.add.isEmpty ∧ h.addLine = 0 ∧ !h.rem.isEmpty then .delete
      else if !h.add.isEmpty ∧ h.rem.isEmpty ∧ h.remLine = 0 then .create
      else .modify
    else .modify
  | _ => .modify

def realName : Option Filename → Option Bytes
  | some (.real b) => some b
  | _ => none

def buildFilePatch (m : Meta) (hs : List PHunk) : Option PFilePatch :=
  let hasOld := (realName m.old).isSome
  let hasNew := (realName m.new).isSome
  let isRen := m.renFrom && m.renTo
  if isRen && (!hasOld || !hasNew) then none
  else if !isRen && !hasOld && !hasNew then none
  else some { kind := recognizeKind hs, old := realName m.old, new := realName m.new, rename := isRen,
              oldPerm := m.oldPerm, newPerm := m.newPerm, oldHash := m.oldHash, newHash := m.newHash, hunks := hs }

def haveFilename (m : Meta) : Bool := m.old.isSome || m.new.isSome

/-- parse_filepatch. `consumed` = number of bytes of `bytes` before `inp`. Returns (rest, headerLen, fp). -/
def filePatchLoop (total : Nat) : Nat → Bytes → Bool → Nat → Bool → Bool → Meta → Except EB (Bytes × Nat × PFilePatch)
  | 0, _, _, _, _, _, _ => .error .outOfFuel
  | fuel+1, inp, wantHeader, header, git, ext, m =>
    let hdrNoMatch := match parseHunkHeader inp with | .error .noMatch => true | _ => false
    if !haveFilename m || hdrNoMatch then
      match parsePatchLine git inp with
      | .error e => .error e
      | .ok (inp', pl) =>
        let ext := match pl with | .git _ => true | _ => ext
        match pl with
        | .garbage =>
          let header := if wantHeader then total - inp'.length else header
          filePatchLoop total fuel inp' wantHeader header git ext m
        | .endOfPatch =>
          if ext then
            match buildFilePatch m [] with
            | some fp => .ok (inp, header, fp)
            | none => .error .missingFilenameForHunk
          else .error .noMatch
        | .mline (.gitDiff o n) =>
          let done : Option PFilePatch := if ext then buildFilePatch m [] else none
          match done with
          | some fp => .ok (inp, header, fp)
          | none =>
            filePatchLoop total fuel inp' false (total - inp.length) true ext { old := some o, new := some n }
        | .mline (.plus f) => filePatchLoop total fuel inp' wantHeader header git ext { m with new := some f }
        | .mline (.minus f) => filePatchLoop total fuel inp' wantHeader header git ext { m with old := some f }
        | .git (.index o n _) => filePatchLoop total fuel inp' wantHeader header git ext { m with oldHash := some o, newHash := some n }
        | .git .renameFrom => filePatchLoop total fuel inp' wantHeader header git ext { m with renFrom := true }
        | .git .renameTo => filePatchLoop total fuel inp' wantHeader header git ext { m with renTo := true }
        | .git (.oldMode x) => filePatchLoop total fuel inp' wantHeader header git ext { m with oldPerm := some x }
        | .git (.deletedFileMode x) => filePatchLoop total fuel inp' wantHeader header git ext { m with oldPerm := some x }
        | .git (.newMode x) => filePatchLoop total fuel inp' wantHeader header git ext { m with newPerm := some x }
        | .git (.newFileMode x) => filePatchLoop total fuel inp' wantHeader header git ext { m with newPerm := some x }
        | .git .binary => .error .unsupportedMetadata
        | .git _ => filePatchLoop total fuel inp' wantHeader header git ext m
    else
      match hunksLoop (inp.length + 2) inp [] with
      | .error e => .error e
      | .ok (inp', hs) =>
        match buildFilePatch m hs with
        | none => .error .missingFilenameForHunk
        | some fp => .ok (inp', header, fp)

def parseFilePatch (bytes : Bytes) (wantHeader : Bool) : Except EB (Bytes × Nat × PFilePatch) :=
  filePatchLoop bytes.length (bytes.length + 2) bytes wantHeader 0 false false {}

structure Patch where
  header : Bytes
  fps : List PFilePatch
deriving Repr

/-- `FilePatch::strip` -/
def stripFP (n : Nat) (fp : PFilePatch) : PFilePatch :=
  { fp with old := fp.old.map (stripPath n), new := fp.new.map (stripPath n) }

def patchLoop (strip : Nat) : Nat → Bytes → Bool → Bytes → List PFilePatch → Except EB Patch
  | 0, _, _, _, _ => .error .outOfFuel
  | fuel+1, inp, wants, header, acc =>
    match parseFilePatch inp wants with
    | .error .noMatch => .ok { header := header, fps := acc }
    | .error e => .error e
    | .ok (inp', hlen, fp) =>
      let header := if wants then inp.take hlen else header
      patchLoop strip fuel inp' false header (acc ++ [stripFP strip fp])

/-- `parse_patch` -/
def parsePatch (bytes : Bytes) (strip : Nat) (wantsHeader : Bool) : Except EB Patch :=
  patchLoop strip (bytes.length + 2) bytes wantsHeader [] []

end RQ.Parse
