import RQ.Model.Parse
/-!
# Model of `src/libpatch/patch/unified/writer.rs`

`write_header_to`, `find_closest_match`, the hunk body walk, `write_filename`,
`write_file_patch_header_to`, the file-patch / patch / reject writers.
-/
namespace RQ.Write
open RQ RQ.Parse

def decDigits : Nat → Nat → List UInt8
  | 0, _ => []
  | fuel+1, n => if n < 10 then [UInt8.ofNat (48 + n)] else decDigits fuel (n / 10) ++ [UInt8.ofNat (48 + n % 10)]
/-- `{}` of an unsigned number -/
def natDec (n : Nat) : Bytes := decDigits (n + 1) n
/-- `{}` of an `isize` -/
def intDec (i : Int) : Bytes := if i < 0 then 45 :: natDec i.natAbs else natDec i.toNat

def octDigits : Nat → Nat → List UInt8
  | 0, _ => []
  | fuel+1, n => if n < 8 then [UInt8.ofNat (48 + n)] else octDigits fuel (n / 8) ++ [UInt8.ofNat (48 + n % 8)]
/-- `{:06o}` -/
def oct6 (n : Nat) : Bytes :=
  let d := octDigits (n + 1) n
  List.replicate (6 - d.length) 48 ++ d
/-- `{:03o}` -/
def oct3 (n : Nat) : Bytes :=
  let d := octDigits (n + 1) n
  List.replicate (3 - d.length) 48 ++ d

/-- `write_header_to` -/
def writeHunkHeader (h : PHunk) : Bytes :=
  let ac := h.add.length
  let rc := h.rem.length
  let al : Int := if ac = 0 then h.addLine else h.addLine + 1
  let rl : Int := if rc = 0 then h.remLine else h.remLine + 1
  sHunkStart ++ intDec rl ++ [44] ++ natDec rc ++ sSpacePlus ++ intDec al ++ [44] ++ natDec ac ++ [32, 64, 64] ++
    (if h.func.isEmpty then [] else 32 :: h.func)

/-- inner loop of `find_closest_match(a, b)` for a fixed `i` -/
def fcmInner (a b : List Bytes) (i : Nat) : Nat → Nat → Option (Nat × Nat)
  | 0, _ => none
  | fuel+1, j =>
    if j ≥ min (i + 1) a.length then none
    else if i - j < b.length && a[j]? == b[i - j]? then some (j, i - j)
    else fcmInner a b i fuel (j + 1)

def fcmOuter (a b : List Bytes) : Nat → Nat → (Nat × Nat)
  | 0, _ => (a.length, b.length)
  | fuel+1, i =>
    if i ≥ a.length + b.length then (a.length, b.length)
    else match fcmInner a b i (a.length + 1) 0 with
      | some r => r
      | none => fcmOuter a b fuel (i + 1)

/-- `find_closest_match` -/
def findClosestMatch (a b : List Bytes) : Nat × Nat := fcmOuter a b (a.length + b.length + 1) 0

/-- the `write_line` closure: tag, line, and the "No newline" marker if the line lacks its newline -/
def writeLine (c : UInt8) (line : Bytes) : Bytes :=
  c :: line ++ (if line.getLast? == some 10 then [] else 10 :: Extracted.noNewLineTag)

/-- the `while add_i < add.len() || remove_i < remove.len()` loop of the hunk writer -/
def writeBody : Nat → List Bytes → List Bytes → Bytes
  | 0, _, _ => []
  | fuel+1, add, rem =>
    if add.isEmpty && rem.isEmpty then [] else
    let (ac, rc) := findClosestMatch add rem
    let minus := ((rem.take rc).map (writeLine 45)).flatten
    let plus := ((add.take ac).map (writeLine 43)).flatten
    let add' := add.drop ac
    let rem' := rem.drop rc
    match add', rem' with
    | _ :: at_, r :: rt => minus ++ plus ++ writeLine 32 r ++ writeBody fuel at_ rt
    | _, _ => minus ++ plus ++ writeBody fuel add' rem'

/-- `UnifiedPatchHunkWriter::write_to` -/
def writeHunk (h : PHunk) : Bytes :=
  writeHunkHeader h ++ [10] ++ writeBody (h.add.length + h.rem.length + 1) h.add h.rem

/-- `write_filename` -/
def writeName (n : Bytes) : Bytes :=
  if !n.isEmpty && n.head? != some 34 && !n.any isWhitespace then n
  else
    [34] ++ (n.map (fun c =>
      if c == 34 || c == 92 then [92, c]
      else if isWhitespace c then 92 :: oct3 c.toNat
      else [c])).flatten ++ [34]

/-- `write_file_patch_header_to` -/
def writeFileHeader (f : PFilePatch) : Bytes :=
  let old := (f.old.orElse (fun _ => f.new)).getD []
  let new := (f.new.orElse (fun _ => f.old)).getD []
  sDiffGit ++ writeName old ++ [32] ++ writeName new ++ [10] ++
  (if f.rename then sRenameFrom ++ writeName old ++ [10] ++ sRenameTo ++ writeName new ++ [10] else []) ++
  (match f.oldPerm with
   | some m => (if f.kind == .delete then sDeletedFileMode else sOldMode) ++ oct6 m ++ [10]
   | none => []) ++
  (match f.newPerm with
   | some m => (if f.kind == .create then sNewFileMode else sNewMode) ++ oct6 m ++ [10]
   | none => []) ++
  (match f.oldHash, f.newHash with
   | some a, some b => sIndex ++ a ++ sDotDot ++ b ++ [10]
   | _, _ => []) ++
  sMinus ++ (match f.old with | some n => writeName n | none => Extracted.nullFilename) ++ [10] ++
  sPlus ++ (match f.new with | some n => writeName n | none => Extracted.nullFilename) ++ [10]

/-- `UnifiedPatchWriter for FilePatch` -/
def writeFilePatch (f : PFilePatch) : Bytes := writeFileHeader f ++ (f.hunks.map writeHunk).flatten

/-- `UnifiedPatchWriter for Patch` -/
def writePatch (p : Patch) : Bytes := p.header ++ (p.fps.map writeFilePatch).flatten

/-- failed hunks of a report, in order -/
def failedHunks : List PHunk → List Rep → List PHunk
  | h :: hs, (.failed _) :: rs => h :: failedHunks hs rs
  | _ :: hs, _ :: rs => failedHunks hs rs
  | _, _ => []

/-- `write_rej_to` -/
def writeRej (f : PFilePatch) (rep : Report) : Bytes :=
  if rep.ok then [] else writeFileHeader f ++ ((failedHunks f.hunks rep.reps).map writeHunk).flatten

end RQ.Write
