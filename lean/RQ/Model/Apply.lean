/-!
# Model of `src/libpatch/patch/mod.rs` and `src/libpatch/modified_file.rs`

Function by function mirror of the hunk application code of libpatch, generic over the line type
(libpatch only ever compares lines for equality).  Where the Rust code can panic (slice ranges,
`assert!`, `unreachable!`) the model returns `none`.

Rust                                  | here
--------------------------------------|---------------------------
`Hunk`, `HunkPart`                    | `Hunk`
`HunkView::new`, `remove_content` …   | `view`
`HunkView::position`                  | `View.position`
`try_apply_hunk` (`ApplyMode::Normal`)| `tryApply`
`try_apply_hunk` (`ApplyMode::Rollback`)| `tryRollback`
fuzz loop of `apply_modify`           | `levelLoop`
first loop of `apply_modify`          | `phase1` / `rbPhase1`
second loop of `apply_modify`         | `phase2`
`apply_create`, `apply_delete`        | `applyCreate`, `applyDelete`
`apply_internal`                      | `applyInternal`
`apply`, `rollback`                   | `FilePatch.apply`, `FilePatch.rollback`
`ModifiedFile`                        | `FileSt`
-/
namespace RQ

abbrev Bytes := List UInt8

inductive Dir | fwd | rev
deriving DecidableEq, Repr

def Dir.opp : Dir → Dir
  | .fwd => .rev
  | .rev => .fwd

/-- `Hunk<Line>`: two sides (every context line is in both), 0-based target lines, number of
leading / trailing context lines. -/
structure Hunk (α : Type) where
  rem : List α
  add : List α
  remLine : Int
  addLine : Int
  pre : Nat
  suf : Nat
  func : Bytes := []
deriving Repr, DecidableEq

/-- `Hunk::max_useable_fuzz` -/
def Hunk.maxFuzz {α : Type} (h : Hunk α) : Nat := max h.pre h.suf

/-- `HunkView`: the sides after trimming fuzz, in the direction of application. -/
structure View (α : Type) where
  rem : List α
  add : List α
  remLine : Int
  addLine : Int
  pre : Nat
  suf : Nat
  fuzz : Nat
deriving Repr

/-- `prefix_fuzz` of `HunkView::new` -/
def Hunk.preFuzz {α : Type} (h : Hunk α) (f : Nat) : Nat := h.pre - (max h.pre h.suf - f)
/-- `suffix_fuzz` of `HunkView::new` -/
def Hunk.sufFuzz {α : Type} (h : Hunk α) (f : Nat) : Nat := h.suf - (max h.pre h.suf - f)

/-- `content[prefix_fuzz..len - suffix_fuzz]` -/
def trim {α : Type} (l : List α) (pf sf : Nat) : List α := (l.take (l.length - sf)).drop pf

/-- `HunkView::new` with the accessors `remove_content`, `add_content`, `prefix_context`, … -/
def view {α : Type} (h : Hunk α) (d : Dir) (f : Nat) : View α :=
  let pf := h.preFuzz f
  let sf := h.sufFuzz f
  match d with
  | .fwd => { rem := trim h.rem pf sf, add := trim h.add pf sf, remLine := h.remLine, addLine := h.addLine,
              pre := h.pre - pf, suf := h.suf - sf, fuzz := f }
  | .rev => { rem := trim h.add pf sf, add := trim h.rem pf sf, remLine := h.addLine, addLine := h.remLine,
              pre := h.pre - pf, suf := h.suf - sf, fuzz := f }

inductive Pos | start | end_ | middle
deriving DecidableEq, Repr

/-- `HunkView::position` -/
def View.position {α : Type} (v : View α) : Pos :=
  if v.pre < v.suf ∧ v.addLine = 0 then .start
  else if v.pre > v.suf then .end_
  else .middle

inductive Reason | noMatch | noFile | createExists | deleteMismatch | misordered
deriving DecidableEq, Repr

/-- `HunkApplyReport` -/
inductive Rep
  | applied (line rb off diff : Int) (fuzz : Nat)
  | failed (r : Reason)
  | skipped
deriving DecidableEq, Repr

def Rep.isFailed : Rep → Bool
  | .failed _ => true
  | _ => false

def Rep.isApplied : Rep → Bool
  | .applied .. => true
  | _ => false

section
variable {α : Type} [DecidableEq α]

/-- the local helper `matches` of `try_apply_hunk` -/
def matchesAt (needle hay : List α) (at_ : Int) : Bool :=
  if at_ < 0 then false
  else if needle.length + at_.toNat > hay.length then false
  else decide ((hay.drop at_.toNat).take needle.length = needle)

/-- `itertools::interleave` -/
def interleave {β : Type} : List β → List β → List β
  | [], ys => ys
  | x :: xs, [] => x :: xs
  | x :: xs, y :: ys => x :: y :: interleave xs ys

/-- ascending `n` integers starting at `a` -/
def up (a : Int) : Nat → List Int
  | 0 => []
  | n+1 => a :: up (a+1) n

/-- descending `n` integers starting at `a` -/
def down (a : Int) : Nat → List Int
  | 0 => []
  | n+1 => a :: down (a-1) n

/-- `forward_indexes.interleave(backward_indexes)`: `max(t0+1, 0)..=max_target_line` and
`(0..min(t0, max_target_line + 1)).rev()` with `max_target_line = len - n` (lines behind it and
negative lines cannot match; when the backward range is clamped the forward range is empty, when the
forward range is clamped the backward range is empty).  `saturating_add` of the Rust code is the
identity here: line numbers are unbounded integers in the model. -/
def cands (t0 : Int) (len n : Nat) : List Int :=
  let maxT : Int := (len : Int) - n
  interleave (up (max (t0 + 1) 0) (maxT - max t0 (-1)).toNat) (down (min (t0 - 1) maxT) (min t0 (maxT + 1)).toNat)

/-- the first guess of `try_apply_hunk` in normal mode -/
def firstGuess (v : View α) (len : Nat) (lastOff : Int) : Int :=
  match v.position with
  | .start => v.remLine
  | .middle => v.remLine + lastOff
  | .end_ => (len : Int) - v.rem.length

/-- where `try_apply_hunk` (normal mode) finds the old side, if anywhere -/
def findPlace (v : View α) (content : List α) (lastOff : Int) : Option Int :=
  let t0 := firstGuess v content.length lastOff
  if matchesAt v.rem content t0 then some t0
  else if v.position ≠ .middle then none
  else (cands t0 content.length v.rem.length).find? (matchesAt v.rem content)

/-- `try_apply_hunk` with `ApplyMode::Normal` -/
def tryApply (v : View α) (content : List α) (deleted : Bool) (lastOff lastFrozen : Int) : Rep :=
  if deleted then .failed .noFile
  else if v.rem.length > content.length then .failed .noMatch
  else
    match findPlace v content lastOff with
    | none => .failed .noMatch
    | some t =>
      if t + v.pre ≤ lastFrozen then .failed .misordered
      else .applied t t (t - v.remLine) ((v.add.length : Int) - v.rem.length) v.fuzz

/-- the lines of a side between prefix and suffix context -/
def core (l : List α) (pre suf : Nat) : List α := (l.drop pre).take (l.length - pre - suf)

/-- `try_apply_hunk` with `ApplyMode::Rollback`: `rb` is the recorded `rollback_line` -/
def tryRollback (v : View α) (content : List α) (deleted : Bool) (rb : Int) : Rep :=
  if deleted then .failed .noFile
  else if !matchesAt (core v.rem v.pre v.suf) content (rb + v.pre) then .failed .noMatch
  else .applied rb rb (rb - v.remLine) ((v.add.length : Int) - v.rem.length) v.fuzz

/-- `Vec::splice(at..at+r, ins)` -/
def splice (l : List α) (at_ r : Nat) (ins : List α) : List α :=
  l.take at_ ++ ins ++ l.drop (at_ + r)

/-- The fuzz loop of `apply_modify` for one hunk: `k` levels left, current level `f`, `last` is the
report of the previous level.  Returns the report and, if applied, the new
`(last_hunk_offset, last_frozen_line)`. -/
def levelLoop (h : Hunk α) (d : Dir) (content : List α) (deleted : Bool) (lastOff lastFrozen : Int) :
    Nat → Nat → Rep → Rep × Option (Int × Int)
  | 0, _, last => (last, none)
  | k+1, f, _ =>
    let v := view h d f
    match tryApply v content deleted lastOff lastFrozen with
    | .applied line rb off diff fz =>
        (.applied line rb off diff fz, some (off, line + v.rem.length - v.suf))
    | r => levelLoop h d content deleted lastOff lastFrozen k (f+1) r

/-- first loop of `apply_modify` in normal mode -/
def phase1 (d : Dir) (F : Nat) (content : List α) (deleted : Bool) :
    List (Hunk α) → Int → Int → List Rep
  | [], _, _ => []
  | h :: hs, lo, lf =>
    match levelLoop h d content deleted lo lf (min F h.maxFuzz + 1) 0 .skipped with
    | (r, some (lo', lf')) => r :: phase1 d F content deleted hs lo' lf'
    | (r, none) => r :: phase1 d F content deleted hs lo lf

/-- first loop of `apply_modify` in rollback mode (`d` is already the opposite direction) -/
def rbPhase1 (d : Dir) (content : List α) (deleted : Bool) : List (Hunk α) → List Rep → List Rep
  | h :: hs, (.applied _ rb _ _ fz) :: rs =>
    tryRollback (view h d fz) content deleted rb :: rbPhase1 d content deleted hs rs
  | _ :: hs, _ :: rs => .skipped :: rbPhase1 d content deleted hs rs
  | _, _ => []

/-- second loop of `apply_modify`: replace the changed lines of every applied hunk, left to right,
with a running `modification_offset`.  `none` where Rust would panic (range out of bounds). -/
def phase2 (d : Dir) : List (Hunk α) → List Rep → List α → Int → Option (List α × List Rep)
  | h :: hs, (.applied line _ off diff fz) :: rs, content, mo =>
    let v := view h d fz
    let t := line + mo
    let start := t + v.pre
    let n := v.rem.length - v.pre - v.suf
    if start < 0 then none
    else if v.rem.length < v.pre + v.suf ∨ v.add.length < v.pre + v.suf then none
    else if start.toNat + n > content.length then none
    else
      match phase2 d hs rs (splice content start.toNat n (core v.add v.pre v.suf)) (mo + diff) with
      | none => none
      | some (c, rs') => some (c, .applied line t off diff fz :: rs')
  | _ :: hs, r :: rs, content, mo =>
    match phase2 d hs rs content mo with
    | none => none
    | some (c, rs') => some (c, r :: rs')
  | _, _, content, _ => some (content, [])

end

/-- `FilePatchKind` -/
inductive Kind | modify | create | delete
deriving DecidableEq, Repr

/-- `FilePatch<Line>` (file names are kept as raw bytes after stripping) -/
structure FilePatch (α : Type) where
  kind : Kind
  old : Option Bytes := none
  new : Option Bytes := none
  rename : Bool := false
  oldPerm : Option Nat := none
  newPerm : Option Nat := none
  oldHash : Option Bytes := none
  newHash : Option Bytes := none
  hunks : List (Hunk α) := []
deriving Repr

/-- `ModifiedFile` -/
structure FileSt (α : Type) where
  content : List α
  existed : Bool
  deleted : Bool
  perms : Option Nat
deriving Repr, DecidableEq

/-- `FilePatchApplyReport` -/
structure Report where
  reps : List Rep
  dir : Dir
  fuzz : Nat
  prevPerms : Option Nat := none
  prevDeleted : Bool := false
deriving Repr, DecidableEq

def Report.failed (r : Report) : Bool := r.reps.any Rep.isFailed
def Report.ok (r : Report) : Bool := !r.failed

/-- `ApplyMode` -/
inductive Mode
  | normal
  | rollback (prev : Report)

section
variable {α : Type} [DecidableEq α]

/-- `apply_modify` -/
def applyModify (hs : List (Hunk α)) (d : Dir) (F : Nat) (mode : Mode) (f : FileSt α) :
    Option (FileSt α × Report) :=
  let reps := match mode with
    | .normal => phase1 d F f.content f.deleted hs 0 (-1)
    | .rollback prev => rbPhase1 d f.content f.deleted hs prev.reps
  match phase2 d hs reps f.content 0 with
  | none => none
  | some (c, reps') => some ({ f with content := c }, { reps := reps', dir := d, fuzz := F })

def prevFailed : Mode → Bool
  | .rollback prev => match prev.reps with
    | r :: _ => r.isFailed
    | [] => false
  | .normal => false

/-- `apply_create` (for the single hunk `h`) -/
def applyCreate (h : Hunk α) (d : Dir) (F : Nat) (mode : Mode) (f : FileSt α) : FileSt α × Report :=
  if prevFailed mode then (f, { reps := [.skipped], dir := d, fuzz := F })
  else if !f.content.isEmpty then (f, { reps := [.failed .createExists], dir := d, fuzz := F })
  else
    let nc := match d with | .fwd => h.add | .rev => h.rem
    ({ f with content := nc, deleted := false },
     { reps := [.applied 0 0 0 nc.length F], dir := d, fuzz := F })

/-- `apply_delete` (for the single hunk `h`) -/
def applyDelete (fp : FilePatch α) (h : Hunk α) (d : Dir) (F : Nat) (mode : Mode) (f : FileSt α) :
    FileSt α × Report :=
  if prevFailed mode then (f, { reps := [.skipped], dir := d, fuzz := F })
  else
    let expected := match d with | .fwd => h.rem | .rev => h.add
    if expected ≠ f.content then (f, { reps := [.failed .deleteMismatch], dir := d, fuzz := F })
    else
      let target := match d with | .fwd => fp.new | .rev => fp.old
      ({ f with content := [], deleted := if target.isNone then true else f.deleted,
                perms := if target.isNone then none else f.perms },
       { reps := [.applied 0 0 0 (-(expected.length : Int)) F], dir := d, fuzz := F })

/-- the dispatch at the top of `apply_internal`; `none` = `assert!(self.hunks.len() == 1)` fails
or a slice range panics -/
def applyKind (fp : FilePatch α) (d : Dir) (F : Nat) (mode : Mode) (f : FileSt α) :
    Option (FileSt α × Report) :=
  match fp.kind, d, fp.hunks with
  | .modify, _, hs => applyModify hs d F mode f
  | .create, .fwd, [h] => some (applyCreate h d F mode f)
  | .delete, .rev, [h] => some (applyCreate h d F mode f)
  | .delete, .fwd, [h] => some (applyDelete fp h d F mode f)
  | .create, .rev, [h] => some (applyDelete fp h d F mode f)
  | _, _, _ => none

/-- `apply_internal`: dispatch, then `previous_deleted` and permissions bookkeeping -/
def applyInternal (fp : FilePatch α) (d : Dir) (F : Nat) (mode : Mode) (f : FileSt α) :
    Option (FileSt α × Report) :=
  match applyKind fp d F mode f with
  | none => none
  | some (f', rep) =>
    match mode with
    | .rollback prev =>
      some ({ f' with deleted := prev.prevDeleted, perms := prev.prevPerms },
            { rep with prevDeleted := prev.prevDeleted, prevPerms := prev.prevPerms })
    | .normal =>
      let changeTo := match d with | .fwd => fp.newPerm | .rev => fp.oldPerm
      match changeTo with
      | some p => some ({ f' with perms := if f'.deleted then f'.perms else some p },
                        { rep with prevDeleted := f.deleted, prevPerms := f.perms })
      | none => some (f', { rep with prevDeleted := f.deleted, prevPerms := f.perms })

/-- `TextFilePatch::apply` -/
def FilePatch.apply (fp : FilePatch α) (d : Dir) (F : Nat) (f : FileSt α) : Option (FileSt α × Report) :=
  applyInternal fp d F .normal f

/-- `TextFilePatch::rollback`: `none` = panic (hunk count assert, range panic, or "This is a bug") -/
def FilePatch.rollback (fp : FilePatch α) (d : Dir) (rep : Report) (f : FileSt α) : Option (FileSt α) :=
  if fp.hunks.length ≠ rep.reps.length then none
  else
    match applyInternal fp d.opp 0 (.rollback rep) f with
    | none => none
    | some (f', r) => if r.failed then none else some f'

/-- `FilePatch::max_useable_fuzz` -/
def FilePatch.maxFuzz (fp : FilePatch α) : Nat := (fp.hunks.map Hunk.maxFuzz).foldl max 0

end
end RQ
