import RQ.Model.Push
/-!
# The save functions of the driver in resumable form

`parallel::save_files_worker`: every worker thread saves its own files with `ModifiedFiles::save` and then
writes its quilt backups with `rollback_and_save_backup_files`.  The threads interleave at the granularity
of single file-system operations, so the worker's code is needed as a *resumable* computation: a command
`Cmd` either has a result, has failed, or wants one file-system operation done and continues with the
class of its result.  `writeNewC`, `saveModifiedFileC`, `saveAllC`, `saveBackupC`,
`rollbackAndSaveBackupsC` mirror the functions of `RQ/Model/Push.lean` line by line; `interp` runs a
command on a `World` with `World.op`, and `RQ/Lemmas/ParSave.lean` proves that interpreting them gives
back exactly those functions.  `progOf` turns a command into a worker of the scheduling model of
`RQ/Lemmas/FSInterleave.lean`.
-/
namespace RQ.ParSave

/-- the class of the result of one file-system operation -/
inductive Res | ok | notFound | failed
deriving DecidableEq, Repr

end RQ.ParSave

namespace RQ.Push
open RQ RQ.Parse RQ.Write RQ.ParSave

/-- a resumable computation over the file system -/
inductive Cmd (α : Type)
  | ret (a : α)
  | fail (e : Fail)
  | op (o : Op) (k : Res → Cmd α)

namespace Cmd

def bind {α β : Type} : Cmd α → (α → Cmd β) → Cmd β
  | .ret a, f => f a
  | .fail e, _ => .fail e
  | .op o k, f => .op o (fun r => (k r).bind f)

end Cmd

/-- run a command: every operation goes through `World.op` (numbered, traced, possibly failed by the
fault-injection hook); on failure the world at the point of failure -/
def interp {α : Type} (w : World) : Cmd α → WR (World × α)
  | .ret a => .ok (w, a)
  | .fail e => .error (e, w)
  | .op o k =>
    match w.op o with
    | .ok w' => interp w' (k .ok)
    | .notFound w' => interp w' (k .notFound)
    | .failed w' => interp w' (k .failed)

/-- a command as a worker of the scheduling model: the next operation after the results `h` of the earlier
ones; `none` when the command has returned or failed (or `h` is longer than the command runs) -/
def progOf {α : Type} : Cmd α → List Res → Option Op
  | .ret _, _ => none
  | .fail _, _ => none
  | .op o _, [] => some o
  | .op _ k, r :: rs => progOf (k r) rs

/-- `writeNew` -/
def writeNewC (k : Key) (perms : Option Nat) (content : Bytes) : Cmd Unit :=
  let c1 : Cmd Unit := match perms with
    | some p => .op (.setMode k p) fun | .ok => .ret () | .notFound | .failed => .fail .err
    | none => .ret ()
  c1.bind fun _ =>
    .op (.write k content) fun | .ok => .ret () | .notFound | .failed => .fail .err

/-- `saveModifiedFile` (`save_modified_file`) -/
def saveModifiedFileC (name : Bytes) (f : FileSt Bytes) : Cmd (Option Key) :=
  match safeKey name with
  | none => .fail .err
  | some k =>
    let c1 : Cmd Unit :=
      if f.existed then
        .op (.removeFile k) fun
          | .ok => .ret ()
          | .notFound => .ret ()
          | .failed => .fail .err
      else .ret ()
    c1.bind fun _ =>
      if f.deleted then .ret (if f.existed then some k.dropLast else none)
      else
        let c2 : Cmd Unit :=
          if !f.existed then
            .op (.createDirAll k.dropLast) fun
              | .ok => .ret ()
              | .notFound | .failed => .fail .err
          else .ret ()
        c2.bind fun _ =>
          .op (.createFile k) fun
            | .ok => (writeNewC k f.perms (bytesOf f.content)).bind fun _ => .ret none
            | .notFound | .failed => .fail .err

/-- `saveAll` (`ModifiedFiles::save`) -/
def saveAllC : Mem → List Key → Cmd (List Key)
  | [], dirs => .ret dirs
  | (_, name, f) :: rest, dirs =>
    (saveModifiedFileC name f).bind fun d =>
      saveAllC rest (match d with | some k => dirs ++ [k] | none => dirs)

/-- `saveBackup` (`save_backup_file`) -/
def saveBackupC (patchName name : Bytes) (f : FileSt Bytes) : Cmd Unit :=
  match pcKey patchName name with
  | none => .fail .err
  | some k =>
    .op (.createDirAll k.dropLast) fun
      | .ok =>
        .op (.removeFile k) fun
          | .failed => .fail .err
          | .ok | .notFound =>
            .op (.createFile k) fun
              | .ok => writeNewC k f.perms (bytesOf f.content)
              | .notFound | .failed => .fail .err
      | .notFound | .failed => .fail .err

/-- `rollbackAndSaveBackups` (`rollback_and_save_backup_files`) -/
def rollbackAndSaveBackupsC (mem : Mem) : List Status → Nat → Cmd Mem
  | [], _ => .ret mem
  | s :: rest, downTo =>
    if s.index < downTo then .ret mem
    else
      match rollbackOne mem s with
      | .error e => .fail e
      | .ok (mem, file) =>
        (saveBackupC s.patchName s.target file).bind fun _ =>
          if s.fp.rename then
            match s.fp.new with
            | none => .fail .panic
            | some newName =>
              match mem.get newName with
              | none => .fail .panic
              | some nf =>
                (saveBackupC s.patchName newName nf).bind fun _ =>
                  rollbackAndSaveBackupsC mem rest downTo
          else rollbackAndSaveBackupsC mem rest downTo

/-- are quilt backups written (`do_backups`), when `final` of `rangeLen` patches have been applied -/
def wantBackups (cfg : Cfg) (final rangeLen : Nat) : Bool :=
  cfg.backup == .always || (cfg.backup == .onfail && final != rangeLen)

/-- the patch index down to which backups are written (`backup_count`) -/
def downTo (cfg : Cfg) (final : Nat) : Nat :=
  match cfg.backupCount with
  | none => 0
  | some n => if final > n then final - n else 0

/-- the part of `save_files_worker` that touches the file system: on the worker's own cache `mem` and its
own list `applied` of applied file patches (already rolled back to `final`).  Result: the directories to
check for cleaning (the main thread does that when all workers are done). -/
def workerSaveC (cfg : Cfg) (final rangeLen : Nat) (mem : Mem) (applied : List Status) : Cmd (List Key) :=
  if cfg.dryRun then .ret []
  else
    (saveAllC mem []).bind fun dirs =>
      if wantBackups cfg final rangeLen then
        (rollbackAndSaveBackupsC mem applied (downTo cfg final)).bind fun _ => .ret dirs
      else .ret dirs

/-- the same with the functions of the sequential driver's model -/
def workerSave (cfg : Cfg) (final rangeLen : Nat) (w : World) (mem : Mem) (applied : List Status) :
    WR (World × List Key) :=
  if cfg.dryRun then .ok (w, [])
  else
    match saveAll w mem [] with
    | .error e => .error e
    | .ok (w, dirs) =>
      if wantBackups cfg final rangeLen then
        match rollbackAndSaveBackups w mem applied (downTo cfg final) with
        | .error e => .error e
        | .ok (w, _) => .ok (w, dirs)
      else .ok (w, dirs)

/-- the workers `0 .. n-1` one after another -/
def seqSave (cfg : Cfg) (final rangeLen : Nat) (mems : Nat → Mem) (applieds : Nat → List Status) :
    Nat → World → WR World
  | 0, w => .ok w
  | n + 1, w =>
    match seqSave cfg final rangeLen mems applieds n w with
    | .error e => .error e
    | .ok w =>
      match workerSave cfg final rangeLen w (mems n) (applieds n) with
      | .error e => .error e
      | .ok (w, _) => .ok w

end RQ.Push
