import RQ.Model.Apply
/-! Model of `split_lines_with_endings` (`src/libpatch/util/lines_with_endings.rs`) and of
`ModifiedFile::new` / `write_to` as far as bytes ↔ lines are concerned. -/
namespace RQ

/-- split after every `\n`, keeping it; a final piece without newline is kept if non-empty -/
def splitLinesKeep : Bytes → Bytes → List Bytes
  | [], [] => []
  | [], cur => [cur]
  | b :: bs, cur => if b = 10 then (cur ++ [b]) :: splitLinesKeep bs [] else splitLinesKeep bs (cur ++ [b])

/-- `ModifiedFile::new(bytes, …).content` -/
def linesOf (bytes : Bytes) : List Bytes := splitLinesKeep bytes []

/-- `ModifiedFile::write_to`: all lines one after another -/
def bytesOf (ls : List Bytes) : Bytes := ls.flatten

end RQ
