import RQ.Lemmas.RoundTrip
/-!
# C12 — write-then-parse preserves a parsed patch; writing is a fixed point

`C12_full` is the property as stated.  It is **false** for two documented classes (known findings
`hunkless-noop-vanishes`, witness below, and `dev-null-named-file`: a real name that becomes `/dev/null`
only after stripping), so the proved theorem is `C12_partial`, with those classes as explicit decidable
hypotheses.
-/
namespace RQ.Write
open RQ RQ.Parse

/-- the property at full strength -/
def C12_full : Prop :=
  ∀ (bs : Bytes) (strip : Nat) (wh : Bool) (p : Patch), parsePatch bs strip wh = .ok p →
    ∃ p', parsePatch (writePatch p) 0 true = .ok p' ∧ SamePatch p p' ∧ writePatch p' = writePatch p

/-- **C12 (partial)**: for every accepted patch none of whose file patches is a hunk-less no-op or has
a real name equal to `/dev/null`, the written form is accepted and describes the same patch. -/
theorem C12_partial (bs : Bytes) (strip : Nat) (wh : Bool) (p : Patch) (h : parsePatch bs strip wh = .ok p)
    (hk : ∀ fp ∈ p.fps, noopHunkless fp = false) (hn : ∀ fp ∈ p.fps, nullNamed fp = false) :
    ∃ p', parsePatch (writePatch p) 0 true = .ok p' ∧ SamePatch p p' :=
  roundtrip bs strip wh p h hk hn

/-- writing depends only on what `SamePatch` compares, so writing the re-parsed patch reproduces the
written form byte for byte -/
theorem C12_fixpoint (p p' : Patch) (h : SamePatch p p') : writePatch p' = writePatch p :=
  writePatch_same p p' h

/-- the excluded class is real: `diff --git a b` / `copy from a` / `copy to b` parses to one hunk-less
file patch; its written form parses to none. -/
def witnessNoop : Bytes :=
  [100,105,102,102,32,45,45,103,105,116,32,97,32,98,10, 99,111,112,121,32,102,114,111,109,32,97,10, 99,111,112,121,32,116,111,32,98,10]

theorem C12_full_false : ¬ C12_full := by
  intro hfull
  have w1 : parsePatch witnessNoop 0 true =
      .ok { header := [], fps := [{ kind := .modify, old := some [97], new := some [98] }] } := by rfl
  obtain ⟨p', hp', hs, _⟩ := hfull witnessNoop 0 true _ w1
  have w2 : parsePatch (writePatch { header := [], fps := [{ kind := .modify, old := some [97], new := some [98] }] }) 0 true
      = .ok { header := [], fps := [] } := by rfl
  rw [w2] at hp'
  cases hp'
  exact hs.2

#print axioms C12_partial
#print axioms C12_fixpoint
#print axioms C12_full_false

end RQ.Write
