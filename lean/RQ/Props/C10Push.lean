import RQ.Props.C10
import RQ.Props.C09Fail
import RQ.Lemmas.TightSave
/-!
# C10 for the whole command — "the exit status and the patch reported as failing are the same as those of
# a real run on the same input"

`RQ/Props/C10.lean` has the two halves on the level of the application loop (`C10_no_write`,
`applyLoop_dry_same_final`, `applyLoop_dry_real`).  Here: the statement for `Push.push` (the model of
`cmd_push`) and for the specification `Spec.pushSpec`.

* `plan_dryRun`: the first half of `cmd_push` does not look at `--dry-run`.
* `applyLoop_dry_ok_iff`, `applyLoop_dry_error_iff`: the application loop of the dry run and of the real run stop at
  the same patch, or fail with the same error.
* `C10_push_predicts`: a real run that ends without an I/O error / abort has the outcome of the dry run.
  `C10_push_error_iff`, `C10_push_panic_iff`, `C10_push_error_real`, `C10_push_panic_real`: the errors a dry run
  reports are exactly those of `plan` and of the application loop of the real run, and the real run reports them too.
  `C10_push_predicts_or_output_failure`: the only way the two can differ is an output failure of the real run (a
  run that writes nothing cannot predict that writing fails).
* `failingPatch`, `C10_failingPatch`: the patch reported as failing is the same; `C10_notAll_iff_failing`: it exists
  exactly when the outcome is "not all applied".
* `C10_spec_no_write`, `C10_spec_exit`, `C10_spec_failing`: the same for `pushSpec`.
* `DryPushExample`: the failing workspace of `RQ/Props/C09Fail.lean` (second patch fails), decided.
-/
namespace RQ.Push
open RQ

/-! ## `plan` and the application loop -/

/-- the first half of `cmd_push` (series, applied patches, goal) does not look at `--dry-run` -/
theorem plan_dryRun (cfg : Cfg) (b : Bool) (fs : FS) : plan { cfg with dryRun := b } fs = plan cfg fs := rfl

theorem dry_real_dry (cfg : Cfg) (hd : cfg.dryRun = true) :
    ({ ({ cfg with dryRun := false } : Cfg) with dryRun := true } : Cfg) = cfg := by
  cases cfg; simp only at hd; subst hd; rfl

/-- the application loops of a dry run and of the real run stop (without error) at the same patch `k` -/
theorem applyLoop_dry_ok_iff (fs : FS) (cfg : Cfg) (range : List Series.Entry) (k : Nat) (hd : cfg.dryRun = true) :
    (∃ st rejs, applyLoop fs cfg range 0 {} = .ok (st, k, rejs)) ↔
    (∃ st rejs, applyLoop fs { cfg with dryRun := false } range 0 {} = .ok (st, k, rejs)) := by
  constructor
  · rintro ⟨st, rejs, h⟩
    exact applyLoop_dry_real fs cfg range st k rejs hd h
  · rintro ⟨st, rejs, h⟩
    have hsame := applyLoop_dry_same_final fs { cfg with dryRun := false } range 0 {}
    rw [dry_real_dry cfg hd, h] at hsame
    cases hdry : applyLoop fs cfg range 0 {} with
    | error e => rw [hdry] at hsame; exact hsame.elim
    | ok r =>
      obtain ⟨st', k', rejs'⟩ := r
      rw [hdry] at hsame
      simp only at hsame
      subst hsame
      exact ⟨st', rejs', rfl⟩

/-- … and they fail with the same error (unknown or unreadable or unparseable patch, unsafe name, …) -/
theorem applyLoop_dry_error_iff (fs : FS) (cfg : Cfg) (range : List Series.Entry) (e : Fail) (hd : cfg.dryRun = true) :
    applyLoop fs cfg range 0 {} = .error e ↔ applyLoop fs { cfg with dryRun := false } range 0 {} = .error e := by
  have hsame := applyLoop_dry_same_final fs { cfg with dryRun := false } range 0 {}
  rw [dry_real_dry cfg hd] at hsame
  constructor
  · intro h
    rw [h] at hsame
    cases hreal : applyLoop fs { cfg with dryRun := false } range 0 {} with
    | ok r => rw [hreal] at hsame; exact hsame.elim
    | error e' => rw [hreal] at hsame; simp only at hsame; rw [hsame]
  · intro h
    cases hdry : applyLoop fs cfg range 0 {} with
    | ok r =>
      obtain ⟨st, k, rejs⟩ := r
      obtain ⟨st', rejs', h'⟩ := applyLoop_dry_real fs cfg range st k rejs hd hdry
      rw [h] at h'; cases h'
    | error e' =>
      rw [h, hdry] at hsame
      simp only at hsame
      rw [hsame]

/-! ## the second half of `cmd_push` -/

/-- the outcome the application loop alone determines -/
def loopOutcome (range : List Series.Entry) : Except Fail (St × Nat × List (Bytes × Bytes)) → Outcome
  | .error .err => .error
  | .error .panic => .panic
  | .ok (_, k, _) => if k == range.length then .allApplied else .notAll

/-- a dry run reports what its application loop finds -/
theorem pushRange_dry (cfg : Cfg) (w : World) (range : List Series.Entry) (hd : cfg.dryRun = true) :
    (pushRange cfg w range).1 = loopOutcome range (applyLoop w.fs cfg range 0 {}) := by
  unfold pushRange applyPatches loopOutcome
  cases applyLoop w.fs cfg range 0 {} with
  | error e => cases e <;> rfl
  | ok r =>
    obtain ⟨st, k, rejs⟩ := r
    simp only [hd, if_true]

/-- if `applyPatches` succeeds, the number it returns is the one of the loop -/
theorem applyPatches_final (cfg : Cfg) (w w' : World) (range : List Series.Entry) (st : St) (k final : Nat)
    (rejs : List (Bytes × Bytes)) (hl : applyLoop w.fs cfg range 0 {} = .ok (st, k, rejs))
    (h : applyPatches w cfg range = .ok (w', final)) : final = k := by
  unfold applyPatches at h
  rw [hl] at h
  simp only at h
  split at h
  · cases h; rfl
  · split at h
    · cases h
    · split at h
      · cases h
      · split at h
        · cases h
        · split at h
          · split at h
            · cases h
            · cases h; rfl
          · cases h; rfl

/-- a real run whose application loop stops at patch `k` reports that, or an output failure -/
theorem pushRange_real (cfg : Cfg) (w : World) (range : List Series.Entry) (st : St) (k : Nat)
    (rejs : List (Bytes × Bytes)) (hl : applyLoop w.fs cfg range 0 {} = .ok (st, k, rejs)) :
    (pushRange cfg w range).1 = (if k == range.length then .allApplied else .notAll) ∨
    (pushRange cfg w range).1 = .error ∨ (pushRange cfg w range).1 = .panic := by
  unfold pushRange
  cases ha : applyPatches w cfg range with
  | error ew =>
    obtain ⟨e, w'⟩ := ew
    cases e
    · exact .inr (.inl rfl)
    · exact .inr (.inr rfl)
  | ok r =>
    obtain ⟨w', final⟩ := r
    have hf := applyPatches_final cfg w w' range st k final rejs hl ha
    subst hf
    simp only
    split
    · exact .inl rfl
    · split
      · exact .inr (.inl rfl)
      · exact .inl rfl

/-- a real run whose application loop fails reports that failure -/
theorem pushRange_loop_error (cfg : Cfg) (w : World) (range : List Series.Entry) (e : Fail)
    (hl : applyLoop w.fs cfg range 0 {} = .error e) :
    (pushRange cfg w range).1 = loopOutcome range (.error e) := by
  unfold pushRange applyPatches loopOutcome
  rw [hl]
  cases e <;> rfl

/-! ## (1) the whole command -/

/-- the only way the outcome of the real run differs from that of the dry run: the dry run predicts "all applied" or
"not all applied" and the real run ends with an output failure (`error`: a file, reject file, backup or
`.pc/applied-patches` could not be written; `panic`: only `rollback_and_save_backup_files`, excluded by C04) -/
theorem C10_push_predicts_or_output_failure (cfg : Cfg) (w : World) (hd : cfg.dryRun = true) :
    (push cfg w).1 = (push { cfg with dryRun := false } w).1 ∨
    (((push cfg w).1 = .allApplied ∨ (push cfg w).1 = .notAll) ∧
     ((push { cfg with dryRun := false } w).1 = .error ∨ (push { cfg with dryRun := false } w).1 = .panic)) := by
  unfold push
  rw [plan_dryRun cfg false]
  cases plan cfg w.fs with
  | refuse => exact .inl rfl
  | nothingToDo => exact .inl rfl
  | apply range =>
    simp only
    rw [pushRange_dry cfg w range hd]
    cases hdry : applyLoop w.fs cfg range 0 {} with
    | error e =>
      rw [pushRange_loop_error _ w range e ((applyLoop_dry_error_iff w.fs cfg range e hd).mp hdry)]
      exact .inl rfl
    | ok r =>
      obtain ⟨st, k, rejs⟩ := r
      obtain ⟨st', rejs', hreal⟩ := applyLoop_dry_real w.fs cfg range st k rejs hd hdry
      have hdo : loopOutcome range (.ok (st, k, rejs)) = (if k == range.length then .allApplied else .notAll) := rfl
      rw [hdo]
      rcases pushRange_real _ w range st' k rejs' hreal with h | h
      · exact .inl h.symm
      · refine .inr ⟨?_, h⟩
        split
        · exact .inl rfl
        · exact .inr rfl

/-- **C10 (the dry run predicts the real run)**: if the real run on the same input ends without an I/O error (an
output failure cannot be predicted by a run that writes nothing), the dry run reports the same outcome — hence the
same exit status (`Outcome.exit`) -/
theorem C10_push_predicts (cfg : Cfg) (w : World) (hd : cfg.dryRun = true) :
    let real := push { cfg with dryRun := false } w
    (real.1 = .allApplied ∨ real.1 = .notAll) → (push cfg w).1 = real.1 := by
  intro real hreal
  change ((push { cfg with dryRun := false } w).1 = .allApplied ∨ (push { cfg with dryRun := false } w).1 = .notAll) at hreal
  change (push cfg w).1 = (push { cfg with dryRun := false } w).1
  rcases C10_push_predicts_or_output_failure cfg w hd with h | ⟨_, h⟩
  · exact h
  · exfalso
    rcases hreal with a | a <;> rcases h with b | b <;> rw [a] at b <;> cases b

theorem C10_push_exit (cfg : Cfg) (w : World) (hd : cfg.dryRun = true) :
    let real := push { cfg with dryRun := false } w
    (real.1 = .allApplied ∨ real.1 = .notAll) → (push cfg w).1.exit = real.1.exit := by
  intro real hreal
  rw [C10_push_predicts cfg w hd hreal]

theorem loopOutcome_error_iff (range : List Series.Entry) (x : Except Fail (St × Nat × List (Bytes × Bytes))) :
    loopOutcome range x = .error ↔ x = .error .err := by
  cases x with
  | error e => cases e <;> simp [loopOutcome]
  | ok r =>
    obtain ⟨st, k, rejs⟩ := r
    simp only [loopOutcome]
    constructor
    · intro h; split at h <;> cases h
    · intro h; cases h

theorem loopOutcome_panic_iff (range : List Series.Entry) (x : Except Fail (St × Nat × List (Bytes × Bytes))) :
    loopOutcome range x = .panic ↔ x = .error .panic := by
  cases x with
  | error e => cases e <;> simp [loopOutcome]
  | ok r =>
    obtain ⟨st, k, rejs⟩ := r
    simp only [loopOutcome]
    constructor
    · intro h; split at h <;> cases h
    · intro h; cases h

/-- a dry run reports an error exactly when `plan` refuses or the application loop *of the real run* fails -/
theorem C10_push_error_iff (cfg : Cfg) (w : World) (hd : cfg.dryRun = true) :
    (push cfg w).1 = .error ↔
      (plan { cfg with dryRun := false } w.fs = .refuse ∨
       ∃ range, plan { cfg with dryRun := false } w.fs = .apply range ∧
         applyLoop w.fs { cfg with dryRun := false } range 0 {} = .error .err) := by
  rw [plan_dryRun cfg false]
  unfold push
  cases hp : plan cfg w.fs with
  | refuse => simp
  | nothingToDo => simp
  | apply range =>
    simp only
    rw [pushRange_dry cfg w range hd, loopOutcome_error_iff]
    constructor
    · intro h
      exact .inr ⟨range, rfl, (applyLoop_dry_error_iff w.fs cfg range .err hd).mp h⟩
    · rintro (h | ⟨r, hr, hl⟩)
      · cases h
      · cases hr
        exact (applyLoop_dry_error_iff w.fs cfg range .err hd).mpr hl

/-- the same for an abort -/
theorem C10_push_panic_iff (cfg : Cfg) (w : World) (hd : cfg.dryRun = true) :
    (push cfg w).1 = .panic ↔
      ∃ range, plan { cfg with dryRun := false } w.fs = .apply range ∧
         applyLoop w.fs { cfg with dryRun := false } range 0 {} = .error .panic := by
  rw [plan_dryRun cfg false]
  unfold push
  cases hp : plan cfg w.fs with
  | refuse => simp
  | nothingToDo => simp
  | apply range =>
    simp only
    rw [pushRange_dry cfg w range hd, loopOutcome_panic_iff]
    constructor
    · intro h
      exact ⟨range, rfl, (applyLoop_dry_error_iff w.fs cfg range .panic hd).mp h⟩
    · rintro ⟨r, hr, hl⟩
      cases hr
      exact (applyLoop_dry_error_iff w.fs cfg range .panic hd).mpr hl

/-- an error of `plan` or of the application loop — unknown goal, unreadable or unparseable patch, unsafe name — is
reported by both runs -/
theorem C10_push_error_real (cfg : Cfg) (w : World) (hd : cfg.dryRun = true) :
    (push cfg w).1 = .error → (push { cfg with dryRun := false } w).1 = .error := by
  intro h
  rcases (C10_push_error_iff cfg w hd).mp h with hp | ⟨range, hp, hl⟩
  · unfold push; rw [hp]
  · unfold push; rw [hp]
    exact pushRange_loop_error _ w range .err hl

theorem C10_push_panic_real (cfg : Cfg) (w : World) (hd : cfg.dryRun = true) :
    (push cfg w).1 = .panic → (push { cfg with dryRun := false } w).1 = .panic := by
  intro h
  obtain ⟨range, hp, hl⟩ := (C10_push_panic_iff cfg w hd).mp h
  unfold push; rw [hp]
  exact pushRange_loop_error _ w range .panic hl

/-! ## (2) the patch reported as failing -/

/-- the patch reported as failing: the range `plan` chooses, indexed at the number of patches the application loop
applies before it stops (`none`: `plan` refuses or has nothing to do, the loop errors, or the whole range applies) -/
def failingPatch (cfg : Cfg) (w : World) : Option Series.Entry :=
  match plan cfg w.fs with
  | .apply range =>
    (match applyLoop w.fs cfg range 0 {} with
     | .ok (_, k, _) => range[k]?
     | .error _ => none)
  | _ => none

/-- **C10 (same failing patch)**: the dry run and the real run report the same patch as failing -/
theorem C10_failingPatch (cfg : Cfg) (w : World) (hd : cfg.dryRun = true) :
    failingPatch cfg w = failingPatch { cfg with dryRun := false } w := by
  unfold failingPatch
  rw [plan_dryRun cfg false]
  cases plan cfg w.fs with
  | refuse => rfl
  | nothingToDo => rfl
  | apply range =>
    simp only
    cases hdry : applyLoop w.fs cfg range 0 {} with
    | error e => rw [(applyLoop_dry_error_iff w.fs cfg range e hd).mp hdry]
    | ok r =>
      obtain ⟨st, k, rejs⟩ := r
      obtain ⟨st', rejs', hreal⟩ := applyLoop_dry_real w.fs cfg range st k rejs hd hdry
      rw [hreal]

/-- a dry run reports "not all applied" exactly when there is a failing patch -/
theorem C10_notAll_iff_failing (cfg : Cfg) (w : World) (hd : cfg.dryRun = true) :
    (push cfg w).1 = .notAll ↔ (failingPatch cfg w).isSome = true := by
  unfold push failingPatch
  cases plan cfg w.fs with
  | refuse => simp
  | nothingToDo => simp
  | apply range =>
    simp only
    rw [pushRange_dry cfg w range hd]
    cases hl : applyLoop w.fs cfg range 0 {} with
    | error e => cases e <;> simp [loopOutcome]
    | ok r =>
      obtain ⟨st, k, rejs⟩ := r
      have hb := Tight.applyLoop_final w.fs cfg range 0 {} st k rejs hl
      simp only [loopOutcome]
      by_cases hk : k = range.length
      · subst hk; simp
      · have hlt : k < range.length := by omega
        simp [hk, hlt]

/-- … and so does the real run, unless it ends with an output failure -/
theorem C10_real_notAll_failing (cfg : Cfg) (w : World) (hd : cfg.dryRun = true)
    (h : (push { cfg with dryRun := false } w).1 = .notAll) :
    (failingPatch { cfg with dryRun := false } w).isSome = true := by
  rw [← C10_failingPatch cfg w hd, ← C10_notAll_iff_failing cfg w hd, C10_push_predicts cfg w hd (.inr h)]
  exact h

end RQ.Push

/-! ## (3) the specification -/
namespace RQ.Spec
open RQ RQ.Parse RQ.Push

theorem applyPatchTree_dryRun (cfg : Cfg) (b : Bool) (entry : Series.Entry) :
    ∀ (fps : List PFilePatch) (acc : PatchResult),
      applyPatchTree { cfg with dryRun := b } entry fps acc = applyPatchTree cfg entry fps acc := by
  intro fps
  induction fps with
  | nil => intro acc; rfl
  | cons fp fps ih =>
    intro acc
    unfold applyPatchTree
    have : applyFPTree acc.fs { cfg with dryRun := b } entry fp = applyFPTree acc.fs cfg entry fp := rfl
    rw [this]
    cases applyFPTree acc.fs cfg entry fp with
    | error e => rfl
    | ok r => simp only; exact ih _

/-- the specification of the application phase does not look at `--dry-run` at all -/
theorem applyRangeTree_dryRun (cfg : Cfg) (b : Bool) (orig : FS) : ∀ (range : List Series.Entry) (p : Progress),
    applyRangeTree { cfg with dryRun := b } orig range p = applyRangeTree cfg orig range p := by
  intro range
  induction range with
  | nil => intro p; rfl
  | cons entry rest ih =>
    intro p
    simp only [applyRangeTree]
    have hk : patchKey { cfg with dryRun := b } entry.name = patchKey cfg entry.name := rfl
    rw [hk]
    cases patchKey cfg entry.name with
    | none => rfl
    | some pk =>
      simp only
      cases orig.readFile pk with
      | error _ => rfl
      | ok bm =>
        obtain ⟨bytes, m⟩ := bm
        simp only
        cases parsePatch bytes entry.strip false with
        | error _ => rfl
        | ok patch =>
          simp only
          rw [applyPatchTree_dryRun]
          cases applyPatchTree cfg entry patch.fps { fs := p.fs, ok := true, rejs := [], touched := [] } with
          | error e => rfl
          | ok r =>
            simp only
            rw [ih]

/-- **C10 (specification, no write)**: with `--dry-run` the specified result tree is the tree given, whatever the
input, whether the series applies or fails -/
theorem C10_spec_no_write (cfg : Cfg) (fs : FS) (hd : cfg.dryRun = true) : (pushSpec cfg fs).fs = fs := by
  unfold pushSpec
  split
  · rfl
  · rfl
  · split
    · rfl
    · unfold finishSpec
      simp only [hd, if_true]

/-- a real specification run without output failure has the exit status the number of applied patches determines -/
theorem finishSpec_exit (cfg : Cfg) (fs : FS) (range : List Series.Entry) (p : Progress)
    (hio : (finishSpec cfg fs range p).ioError = false) :
    (finishSpec cfg fs range p).exit = (if p.k == range.length then 0 else 1) := by
  cases hdr : cfg.dryRun with
  | true => simp only [finishSpec, hdr, if_true]
  | false =>
    simp only [finishSpec, hdr, Bool.false_eq_true, if_false] at hio ⊢
    split at hio
    · cases hio
    · split at hio
      · cases hio
      · split at hio
        · cases hio
        · split at hio
          · cases hio
          · rfl

/-- **C10 (specification, same exit status)**: the dry run has the exit status of the real run on the same input,
if the real run meets no output failure -/
theorem C10_spec_exit (cfg : Cfg) (fs : FS) (hd : cfg.dryRun = true)
    (hio : (pushSpec { cfg with dryRun := false } fs).ioError = false) :
    (pushSpec cfg fs).exit = (pushSpec { cfg with dryRun := false } fs).exit := by
  unfold pushSpec at hio ⊢
  rw [plan_dryRun cfg false] at hio ⊢
  cases hp : plan cfg fs with
  | refuse => rfl
  | nothingToDo => rfl
  | apply range =>
    rw [hp] at hio
    simp only at hio ⊢
    rw [applyRangeTree_dryRun cfg false] at hio ⊢
    cases hr : applyRangeTree cfg fs range { fs, k := 0, rejs := [], failed := false, backups := [] } with
    | error e => rfl
    | ok p =>
      rw [hr] at hio
      simp only at hio ⊢
      rw [finishSpec_exit _ fs range p hio]
      unfold finishSpec
      simp only [hd, if_true]

/-- the patch the specification reports as failing -/
def specFailingPatch (cfg : Cfg) (fs : FS) : Option Series.Entry :=
  match plan cfg fs with
  | .apply range =>
    (match applyRangeTree cfg fs range { fs, k := 0, rejs := [], failed := false, backups := [] } with
     | .ok p => if p.failed then range[p.k]? else none
     | .error _ => none)
  | _ => none

/-- **C10 (specification, same failing patch)** -/
theorem C10_spec_failing (cfg : Cfg) (fs : FS) (b : Bool) :
    specFailingPatch { cfg with dryRun := b } fs = specFailingPatch cfg fs := by
  unfold specFailingPatch
  rw [plan_dryRun cfg b]
  cases plan cfg fs with
  | refuse => rfl
  | nothingToDo => rfl
  | apply range => simp only; rw [applyRangeTree_dryRun cfg b]

end RQ.Spec

/-! ## non-vacuity: the failing workspace of `RQ/Props/C09Fail.lean` (`p0` applies to `g`, `p1` fails on `f`) -/
namespace RQ.Push.DryPushExample
open RQ RQ.Push RQ.Spec RQ.Compose.FailExample

def cfgDry : Cfg := { goal := .all, dryRun := true }
def w0 : World := { fs := Good.fs0 }

theorem real_is : ({ cfgDry with dryRun := false } : Cfg) = cfgA := rfl

/-- dry run and real run report "not all applied" (exit status 1) and `p1` as the failing patch; the dry run
performs no operation and returns the files it was given, the real run does write -/
theorem computed :
    (decide ((push cfgDry w0).1 = .notAll) && decide ((push cfgA w0).1 = .notAll) &&
     decide (failingPatch cfgDry w0 = some e1) && decide (failingPatch cfgA w0 = some e1) &&
     decide ((push cfgDry w0).2.trace = []) && decide ((push cfgDry w0).2.fs.nodes = Good.fs0.nodes) &&
     decide ((push cfgA w0).2.trace ≠ []) &&
     decide ((pushSpec cfgDry Good.fs0).exit = 1) && decide ((pushSpec cfgA Good.fs0).exit = 1) &&
     !(pushSpec cfgA Good.fs0).ioError &&
     decide ((pushSpec cfgDry Good.fs0).fs.nodes = Good.fs0.nodes) &&
     decide (specFailingPatch cfgDry Good.fs0 = some e1)) = true := by decide

/-- the theorems apply, and their hypotheses hold: the real run ends with `notAll` -/
example : (push cfgDry w0).1 = .notAll ∧ (push cfgDry w0).1 = (push cfgA w0).1 ∧ (push cfgDry w0).2 = w0 ∧
    failingPatch cfgDry w0 = some e1 ∧ failingPatch cfgA w0 = some e1 := by
  have hc := computed
  simp only [Bool.and_eq_true, decide_eq_true_eq] at hc
  obtain ⟨⟨⟨⟨⟨⟨⟨⟨⟨⟨⟨h1, h2⟩, h3⟩, h4⟩, _⟩, _⟩, _⟩, _⟩, _⟩, _⟩, _⟩, _⟩ := hc
  have hp := C10_push_predicts cfgDry w0 rfl (.inr h2)
  have hf := C10_failingPatch cfgDry w0 rfl
  exact ⟨h1, hp, C10_no_write cfgDry w0 rfl, h3, hf ▸ h3⟩

end RQ.Push.DryPushExample

namespace RQ.Push
#print axioms plan_dryRun
#print axioms applyLoop_dry_ok_iff
#print axioms applyLoop_dry_error_iff
#print axioms C10_push_predicts_or_output_failure
#print axioms C10_push_predicts
#print axioms C10_push_exit
#print axioms C10_push_error_iff
#print axioms C10_push_panic_iff
#print axioms C10_push_error_real
#print axioms C10_push_panic_real
#print axioms C10_failingPatch
#print axioms C10_notAll_iff_failing
#print axioms C10_real_notAll_failing
#print axioms RQ.Spec.applyRangeTree_dryRun
#print axioms RQ.Spec.C10_spec_no_write
#print axioms RQ.Spec.C10_spec_exit
#print axioms RQ.Spec.C10_spec_failing
#print axioms DryPushExample.computed
end RQ.Push
