import RQ.Lemmas.ComposeFail
/-!
# C09, last sentence — "A push when everything requested is already applied changes nothing, and a push after a
# failed push stops at the same patch with the same result."

For the executable specification `Spec.pushSpec` (the model of the driver is tied to it by `RQ/Props/C05.lean`); the
first two sentences of C09 (pushes compose) are in `RQ/Props/C09.lean`.

* `C09_nothing_to_do`, `C09_nothing_to_do_driver`, `C09_nothing_to_do_iff`: nothing to do = nothing done.
* `C09_failed_push_repeats` (range level): a real push of `r` stopped at patch number `p.k` without an output
  failure; the rest `r.drop p.k` pushed from the tree it left applies 0 patches, stops at the same patch with the same
  reject files, exit status 1 both times, leaves the same files and directories outside `.pc`, and appends nothing to
  `.pc/applied-patches`.  Hypotheses: `Clean` (quilt's own files are not patched, as in the rest of C09) and
  `FailApart` (decidable): for the patch that failed, (1) no name in it has the path of one of its reject files or a
  path below or above one, (2) no reject file is written at or above its patch file, (3) writing the reject files
  creates no directory (true in every well-formed tree; the model also has trees with a directory whose parent is
  missing).  `FailExample.Bad` shows that (1) is needed: a patch that patches `f` (fails) *and* `f.rej`.
* `C09_failed_push_repeats_goal` (goal level): what `plan` chooses after the failed push — the same goal "all" / "up
  to `name`" chooses exactly the rest; "`n` more patches" chooses the `n` patches behind the recorded ones; and whatever
  goal: a non-empty range starts with the patch that failed, and the push *is* the push of the rest.
-/
namespace RQ.Compose
open RQ RQ.Push RQ.Spec RQ.Flush RQ.Series

/-! ## nothing to do -/

/-- **C09 (nothing to do)**: when `plan` finds everything requested applied, the push changes nothing, exit status 0 -/
theorem C09_nothing_to_do (cfg : Cfg) (fs : FS) (h : plan cfg fs = .nothingToDo) :
    pushSpec cfg fs = { exit := 0, fs := fs } := by
  unfold pushSpec; rw [h]

/-- the same for the model of the driver: no file-system operation at all -/
theorem C09_nothing_to_do_driver (cfg : Cfg) (w : World) (h : plan cfg w.fs = .nothingToDo) :
    Push.push cfg w = (.allApplied, w) := by
  unfold Push.push; rw [h]

/-- a refused push (inconsistent `.pc/applied-patches`, unknown patch name, or the goal "up to `name`" with `name`
applied already) changes nothing either; its exit status is 1 -/
theorem C09_refused_changes_nothing (cfg : Cfg) (fs : FS) (h : plan cfg fs = .refuse) :
    pushSpec cfg fs = { exit := 1, fs := fs } := by
  unfold pushSpec; rw [h]

/-- when `plan` says so: the series can be read, `.pc/applied-patches` lists the whole series (as many names as the
series has, none of them different from the series), and the goal is "all" or "`n` patches" (with the goal "up to
`name`" the push is refused: that patch is applied already) -/
theorem C09_nothing_to_do_iff (cfg : Cfg) (fs : FS) :
    plan cfg fs = .nothingToDo ↔
      ∃ sbytes mode series, fs.readFile seriesKey = .ok (sbytes, mode) ∧ readSeries sbytes = .ok series ∧
        namesMismatch series (appliedOf fs) = false ∧ (appliedOf fs).length = series.length ∧
        ∀ name, cfg.goal ≠ .upTo name :=
  plan_nothingToDo_iff cfg fs

/-! ## a push after a failed push -/

/-- **C09 (a push after a failed push), range level.**  `specRun cfg fs r` is a real push that stopped at patch number
`p.k < |r|` and had no output failure.  Push the rest `r.drop p.k` from the tree it left.  Then the second push

* is not refused, applies 0 patches — it stops at the same patch — and renders the same reject files;
* both pushes have exit status 1;
* the two trees hold the same regular files (content, permission bits; reject files included) and the same
  directories at every path outside `.pc` (`OutsidePc`, spelled out in `C09_failed_push_repeats_files`);
* unless the second push has an output failure, `.pc/applied-patches` is what the first push left.

Backups below `.pc` are not compared. -/
theorem C09_failed_push_repeats (cfg : Cfg) (hdry : cfg.dryRun = false) (fs : FS) (r : List Entry) (p : Progress)
    (hclean : Clean cfg fs r) (hp : Spec.applyRangeTree cfg fs r (start fs) = .ok p) (hk : p.k < r.length)
    (hio : (specRun cfg fs r).ioError = false) (hapart : FailApart cfg fs r) :
    (∃ p2, Spec.applyRangeTree cfg (specRun cfg fs r).fs (r.drop p.k) (start (specRun cfg fs r).fs) = .ok p2 ∧
      p2.k = 0 ∧ p2.failed = true ∧ p2.rejs = p.rejs) ∧
    (specRun cfg fs r).exit = 1 ∧
    (specRun cfg (specRun cfg fs r).fs (r.drop p.k)).exit = 1 ∧
    OutsidePc (specRun cfg (specRun cfg fs r).fs (r.drop p.k)).fs (specRun cfg fs r).fs ∧
    ((specRun cfg (specRun cfg fs r).fs (r.drop p.k)).ioError = false →
      fileAt (specRun cfg (specRun cfg fs r).fs (r.drop p.k)).fs appliedKey =
        fileAt (specRun cfg fs r).fs appliedKey) :=
  failed_push_repeats hdry hclean hp hk hio (hapart.apart hp)

/-- the third conclusion spelled out: same regular file and same directory at every path outside `.pc` -/
theorem C09_failed_push_repeats_files (cfg : Cfg) (hdry : cfg.dryRun = false) (fs : FS) (r : List Entry) (p : Progress)
    (hclean : Clean cfg fs r) (hp : Spec.applyRangeTree cfg fs r (start fs) = .ok p) (hk : p.k < r.length)
    (hio : (specRun cfg fs r).ioError = false) (hapart : FailApart cfg fs r) :
    ∀ k, ¬ isPcKey k →
      fileAt (specRun cfg (specRun cfg fs r).fs (r.drop p.k)).fs k = fileAt (specRun cfg fs r).fs k ∧
      (specRun cfg (specRun cfg fs r).fs (r.drop p.k)).fs.isDir k = (specRun cfg fs r).fs.isDir k := by
  obtain ⟨_, _, _, hout, _⟩ := C09_failed_push_repeats cfg hdry fs r p hclean hp hk hio hapart
  exact fun k hk => ⟨hout.fileAt_eq hk, hout.isDir_eq hk⟩

/-- **C09 (a push after a failed push), goal level.**  `pushSpec cfg` chose the range `r`, stopped at patch number
`p.k < |r|` and had no output failure (so it recorded the first `p.k` names of `r`).  The old `.pc/applied-patches` is
absent or well-formed (`AppliedOK`, as in `C09_plan_composes`).  Then, for the
next invocation from the tree it left:

* with the same goal, if that is "all" or "up to `name`": `plan` chooses exactly the rest `r.drop p.k`;
* with the goal "`n` patches" (`n` *more* patches): `plan` chooses the `n` patches of the series behind the
  `|applied| + p.k` recorded ones — the rest `r.drop p.k` is the first `|r| - p.k` of these;
* with any goal `g2`: if `plan` chooses a non-empty range at all, the push is, as a whole, the push of the rest
  `r.drop p.k` from that tree — which `C09_failed_push_repeats` describes (stops at the same patch, same reject
  files, same tree outside `.pc`, `.pc/applied-patches` unchanged). -/
theorem C09_failed_push_repeats_goal (cfg : Cfg) (hdry : cfg.dryRun = false) (fs : FS) (r : List Entry) (p : Progress)
    (hclean : Clean cfg fs r) (happ : AppliedOK fs) (hplan : plan cfg fs = .apply r)
    (hp : Spec.applyRangeTree cfg fs r (start fs) = .ok p) (hk : p.k < r.length)
    (hio : (pushSpec cfg fs).ioError = false) (hapart : FailApart cfg fs r) :
    ((cfg.goal = .all ∨ ∃ name, cfg.goal = .upTo name) → plan cfg (pushSpec cfg fs).fs = .apply (r.drop p.k)) ∧
    (∃ series : List Entry, r.drop p.k = (series.drop ((appliedOf fs).length + p.k)).take (r.length - p.k) ∧
      ∀ n, plan { cfg with goal := .count n } (pushSpec cfg fs).fs =
        .apply ((series.drop ((appliedOf fs).length + p.k)).take n)) ∧
    (∀ g2 r2, plan { cfg with goal := g2 } (pushSpec cfg fs).fs = .apply r2 → r2 ≠ [] →
      pushSpec { cfg with goal := g2 } (pushSpec cfg fs).fs = specRun cfg (pushSpec cfg fs).fs (r.drop p.k)) := by
  rw [pushSpec_eq_specRun hplan] at hio ⊢
  obtain ⟨series, hpl1, hpl2⟩ := plan_after_failed hdry hclean happ hplan hp hio
  obtain ⟨⟨p2, hrun2, hk2, _, _⟩, _⟩ := failed_push_repeats hdry hclean hp hk hio (hapart.apart hp)
  have hlen : (appliedOf fs ++ (r.take p.k).map plainEntry).length = (appliedOf fs).length + p.k := by
    simp only [List.length_append, List.length_map, List.length_take]; omega
  obtain ⟨_, hlt, last, hlast, hr⟩ := planOf_apply_last hpl1
  have hll := lastOf_le hlast
  have hrl : r.length = last - (appliedOf fs).length := by
    rw [hr, List.length_take, List.length_drop]; omega
  refine ⟨?_, ?_, ?_⟩
  · intro hg
    rw [hpl2 cfg]
    exact planOf_after_failed hg hpl1 hk
  · refine ⟨series, ?_, fun n => ?_⟩
    · rw [hrl]
      conv => lhs; rw [hr]
      rw [drop_of_take_drop]
    · rw [hpl2 { cfg with goal := .count n }]
      have := planOf_count_after (series := series) n (planOf_recorded_take hpl1 p.k) (by rw [hlen]; omega)
      rw [hlen] at this
      exact this
  · intro g2 r2 hp2 hne
    have hp2' := hp2
    rw [hpl2 { cfg with goal := g2 }] at hp2'
    obtain ⟨_, _, hhead⟩ := planOf_after_failed_any hpl1 hk hp2'
    obtain ⟨e, rest, rest2, hd, hr2⟩ := hhead hne
    rw [pushSpec_eq_specRun hp2, specRun_goal cfg g2, hr2, hd]
    rw [hd] at hrun2
    exact specRun_same_head hrun2 hk2 rest2

/-! ## Concrete instances

`FailExample.Good`: `g` = `a\n`, `f` = `x\n`, `series` = `p0\np1\n`; `p0` turns `g` into `b\n`, `p1` wants to turn `y` into
`z` in `f` and fails.  `push -a` applies `p0`, writes `f.rej`, records `p0`, exit status 1.  The hypotheses of
`C09_failed_push_repeats` hold (both are decidable), and a second `push -a` chooses `[p1]`, fails again, and leaves
everything as it is.

`FailExample.Bad`: the hypothesis `FailApart` is needed.  `f` = `x\n`, `f.rej` = `a\n`, and the only patch `p1` patches
`f` (fails) and `f.rej` (`a` → `b`, applies).  The first push writes its reject file over `f.rej`; in the second push
the second file patch finds the reject file instead of `a\n`, fails too, and a new reject file `f.rej.rej` appears:
the second push does *not* leave the tree as it was.  `Clean` holds, `FailApart` does not. -/
namespace FailExample

/-- `--- a/f\n+++ b/f\n@@ -1 +1 @@\n-y\n+z\n` -/
def patchF : Bytes :=
  [45, 45, 45, 32, 97, 47, 102, 10, 43, 43, 43, 32, 98, 47, 102, 10, 64, 64, 32, 45, 49, 32, 43, 49, 32, 64, 64, 10,
   45, 121, 10, 43, 122, 10]
/-- `--- a/g\n+++ b/g\n@@ -1 +1 @@\n-a\n+b\n` -/
def patchG : Bytes :=
  [45, 45, 45, 32, 97, 47, 103, 10, 43, 43, 43, 32, 98, 47, 103, 10, 64, 64, 32, 45, 49, 32, 43, 49, 32, 64, 64, 10,
   45, 97, 10, 43, 98, 10]
/-- `patchF` followed by `--- a/f.rej\n+++ b/f.rej\n@@ -1 +1 @@\n-a\n+b\n` -/
def patchFR : Bytes :=
  patchF ++ [45, 45, 45, 32, 97, 47, 102, 46, 114, 101, 106, 10, 43, 43, 43, 32, 98, 47, 102, 46, 114, 101, 106, 10,
    64, 64, 32, 45, 49, 32, 43, 49, 32, 64, 64, 10, 45, 97, 10, 43, 98, 10]

def kF : Key := [[102]]
def kG : Key := [[103]]
def kFrej : Key := [[102, 46, 114, 101, 106]]
def kFrejrej : Key := [[102, 46, 114, 101, 106, 46, 114, 101, 106]]
def kPatches : Key := [[112, 97, 116, 99, 104, 101, 115]]

def e0 : Entry := { name := [112, 48], strip := Extracted.defaultPatchStrip, reverse := false }
def e1 : Entry := { name := [112, 49], strip := Extracted.defaultPatchStrip, reverse := false }
/-- `push -a` -/
def cfgA : Cfg := { goal := .all }

def isApply (p : Plan) (r : List Entry) : Bool :=
  match p with
  | .apply x => x == r
  | _ => false

namespace Good

def fs0 : FS :=
  { nodes := [(kG, .file [97, 10] 0o644 1), (kF, .file [120, 10] 0o644 2),
      ([[115, 101, 114, 105, 101, 115]], .file [112, 48, 10, 112, 49, 10] 0o644 3),
      (kPatches, .dir),
      (kPatches ++ [[112, 48]], .file patchG 0o644 4),
      (kPatches ++ [[112, 49]], .file patchF 0o644 5)], nextIno := 6 }

theorem plan1 : isApply (plan cfgA fs0) [e0, e1] = true := by decide
theorem clean0 : Clean cfgA fs0 [e0, e1] := by decide
theorem apart0 : FailApart cfgA fs0 [e0, e1] := by decide
theorem applied0 : AppliedOK fs0 := .inl (by decide)

/-- the first push: stops at patch number 1 (`p1`), one reject file -/
theorem stops :
    (match Spec.applyRangeTree cfgA fs0 [e0, e1] (start fs0) with
     | .ok p => p.k == 1 && p.failed && p.rejs.length == 1
     | .error _ => false) = true := by decide

/-- the two pushes, computed: exit status 1 twice, `g` patched, `f` not, the same reject file, `p0` recorded once,
and the second `plan` chooses `[p1]` -/
theorem pushes :
    (let o := pushSpec cfgA fs0
     let o2 := pushSpec cfgA o.fs
     o.exit == 1 && o2.exit == 1 && !o.ioError && !o2.ioError &&
     isApply (plan cfgA o.fs) [e1] &&
     fileAt o.fs kG == some ([98, 10], 0o644) && fileAt o2.fs kG == some ([98, 10], 0o644) &&
     fileAt o.fs kF == some ([120, 10], 0o644) && fileAt o2.fs kF == some ([120, 10], 0o644) &&
     (fileAt o.fs kFrej).isSome && fileAt o2.fs kFrej == fileAt o.fs kFrej &&
     fileAt o.fs appliedKey == some ([112, 48, 10], 0o644) &&
     fileAt o2.fs appliedKey == some ([112, 48, 10], 0o644)) = true := by decide

/-- the theorem applies: whatever `p` the first push ends with (it is the one of `stops`) -/
example (p : Progress) (hp : Spec.applyRangeTree cfgA fs0 [e0, e1] (start fs0) = .ok p) (hk : p.k < 2) :
    OutsidePc (specRun cfgA (specRun cfgA fs0 [e0, e1]).fs ([e0, e1].drop p.k)).fs (specRun cfgA fs0 [e0, e1]).fs :=
  (C09_failed_push_repeats cfgA rfl fs0 [e0, e1] p clean0 hp hk (by decide) apart0).2.2.2.1

end Good

namespace Bad

def fs0 : FS :=
  { nodes := [(kF, .file [120, 10] 0o644 1), (kFrej, .file [97, 10] 0o644 2),
      ([[115, 101, 114, 105, 101, 115]], .file [112, 49, 10] 0o644 3),
      (kPatches, .dir),
      (kPatches ++ [[112, 49]], .file patchFR 0o644 4)], nextIno := 5 }

theorem clean0 : Clean cfgA fs0 [e1] := by decide

/-- the hypothesis fails: the patch names the path of its own reject file -/
theorem not_apart : ¬ FailApart cfgA fs0 [e1] := by decide

/-- and the conclusion fails: the first push stops at `p1` (no output failure); the second push stops at `p1` too, but
with *two* reject files, and leaves a file `f.rej.rej` that was not there -/
theorem differs :
    (let o := specRun cfgA fs0 [e1]
     let o2 := specRun cfgA o.fs [e1]
     o.exit == 1 && !o.ioError && o2.exit == 1 && !o2.ioError &&
     (match Spec.applyRangeTree cfgA fs0 [e1] (start fs0), Spec.applyRangeTree cfgA o.fs [e1] (start o.fs) with
      | .ok p, .ok p2 => p.k == 0 && p2.k == 0 && p.rejs.length == 1 && p2.rejs.length == 2
      | _, _ => false) &&
     (fileAt o.fs kFrejrej).isNone && (fileAt o2.fs kFrejrej).isSome) = true := by decide

end Bad

/-! `Bad2`: a name *above* a reject file.  `d/f` = `a\n`; the patch `p1` patches `d/g` (not there: fails, reject file
`d/g.rej`), deletes `d/f` (the directory `d` goes with it) and creates a *file* `d`.  In the first push all of that
happens on the scratch tree and is discarded; `d/g.rej` is written.  In the second push `d` is not pruned (the reject
file is in it), the third file patch finds a directory where it wants to create a file, and the push is *refused*
instead of stopping at `p1` with the same reject file. -/
namespace Bad2

/-- `d/g`: `y` → `z`; `d/f`: deleted; `d`: created -/
def patchD : Bytes :=
  [45, 45, 45, 32, 97, 47, 100, 47, 103, 10, 43, 43, 43, 32, 98, 47, 100, 47, 103, 10, 64, 64, 32, 45, 49, 32,
   43, 49, 32, 64, 64, 10, 45, 121, 10, 43, 122, 10, 45, 45, 45, 32, 97, 47, 100, 47, 102, 10, 43, 43, 43, 32,
   47, 100, 101, 118, 47, 110, 117, 108, 108, 10, 64, 64, 32, 45, 49, 32, 43, 48, 44, 48, 32, 64, 64, 10, 45, 97,
   10, 45, 45, 45, 32, 47, 100, 101, 118, 47, 110, 117, 108, 108, 10, 43, 43, 43, 32, 98, 47, 100, 10, 64, 64,
   32, 45, 48, 44, 48, 32, 43, 49, 32, 64, 64, 10, 43, 113, 10]

def fs0 : FS :=
  { nodes := [([[100]], .dir), ([[100], [102]], .file [97, 10] 0o644 1),
      ([[115, 101, 114, 105, 101, 115]], .file [112, 49, 10] 0o644 3),
      (kPatches, .dir),
      (kPatches ++ [[112, 49]], .file patchD 0o644 4)], nextIno := 5 }

theorem clean0 : Clean cfgA fs0 [e1] := by decide
theorem not_apart : ¬ FailApart cfgA fs0 [e1] := by decide

theorem refused :
    (let o := specRun cfgA fs0 [e1]
     o.exit == 1 && !o.ioError &&
     (match Spec.applyRangeTree cfgA fs0 [e1] (start fs0), Spec.applyRangeTree cfgA o.fs [e1] (start o.fs) with
      | .ok p, .error _ => p.k == 0 && p.failed && p.rejs.length == 1
      | _, _ => false)) = true := by decide

end Bad2

/-! `Bad3`: clause `dirs` of `FailApart`, in a tree no real file system has: the directory `a/b/c` exists, `a` and `a/b`
do not.  `p1` patches `a/b/c/y` and `a/x` (neither is there: both fail).  First push: `a/x.rej` is skipped (no
directory `a`), then `a/b/c/y.rej` is written — `mkdir -p` creates `a` and `a/b`.  Second push: now `a` is there, and
`a/x.rej` is written. -/
namespace Bad3

def patchI : Bytes :=
  [45, 45, 45, 32, 97, 47, 97, 47, 98, 47, 99, 47, 121, 10, 43, 43, 43, 32, 98, 47, 97, 47, 98, 47, 99, 47, 121,
   10, 64, 64, 32, 45, 49, 32, 43, 49, 32, 64, 64, 10, 45, 121, 10, 43, 122, 10, 45, 45, 45, 32, 97, 47, 97, 47,
   120, 10, 43, 43, 43, 32, 98, 47, 97, 47, 120, 10, 64, 64, 32, 45, 49, 32, 43, 49, 32, 64, 64, 10, 45, 121, 10,
   43, 122, 10]

def fs0 : FS :=
  { nodes := [([[97], [98], [99]], .dir),
      ([[115, 101, 114, 105, 101, 115]], .file [112, 49, 10] 0o644 3),
      (kPatches, .dir),
      (kPatches ++ [[112, 49]], .file patchI 0o644 4)], nextIno := 5 }

theorem clean0 : Clean cfgA fs0 [e1] := by decide
theorem not_apart : ¬ FailApart cfgA fs0 [e1] := by decide

theorem differs :
    (let o := specRun cfgA fs0 [e1]
     let o2 := specRun cfgA o.fs [e1]
     o.exit == 1 && !o.ioError && o2.exit == 1 && !o2.ioError &&
     (fileAt o.fs [[97], [120, 46, 114, 101, 106]]).isNone &&
     (fileAt o2.fs [[97], [120, 46, 114, 101, 106]]).isSome) = true := by decide

end Bad3
end FailExample

#print axioms C09_nothing_to_do
#print axioms C09_nothing_to_do_driver
#print axioms C09_refused_changes_nothing
#print axioms C09_nothing_to_do_iff
#print axioms C09_failed_push_repeats
#print axioms C09_failed_push_repeats_files
#print axioms C09_failed_push_repeats_goal
#print axioms applyPatchTree_sim
#print axioms putRejects_again
#print axioms FailExample.Good.pushes
#print axioms FailExample.Good.apart0
#print axioms FailExample.Bad.not_apart
#print axioms FailExample.Bad.differs
#print axioms FailExample.Bad2.refused
#print axioms FailExample.Bad3.differs

end RQ.Compose
