import RQ.Lemmas.ParSucceeds
import RQ.Props.C06Refine
import RQ.Props.C05Complete
/-!
# C06 (completed) — the parallel driver does not fail spuriously: the refinement theorem without hypotheses on the run

`C06_par_refines_pushSpec` (`RQ/Props/C06Refine.lean`) says: the model of the parallel driver `Par.parApplyPatches`, under
every pair of schedules, ends with the specification's exit status and the specification's tree outside `.pc` —
*provided* three things about the parallel run itself: `hsolo` (every worker's save succeeds when run alone from the
starting tree), `hdisj` (`KeysDisjoint`: the file keys of different workers are prefix-free) and `hpar` (the run returned
`.ok`).  `C05_driver_succeeds` (`RQ/Props/C05Complete.lean`) did the analogous job for the sequential driver.  This file
discharges `hsolo`, `hdisj` and `hpar` from the STATIC hypotheses of `C05_driver_succeeds` and one more:

* `C06_workers_disjoint` (`hdisj`), `C06_worker_saves_alone` (`hsolo`): for every apply-phase schedule.
* `C06_par_succeeds` (`hpar`): no fault injected, tight starting tree, `Clean`, `PrefixFree`, terminated lines, the
  specification neither refuses (`¬ Refused`) nor meets an output failure (`ioError = false`), `RejPrefixFree`, at least
  one thread: under EVERY pair of schedules under which all workers finish (`parApplyPatches … = some res`) the parallel
  driver returns `.ok`.
* `C06_par_is_pushSpec`: then its exit status (`k = |range|` or not) and its tree outside `.pc` are the specification's,
  and the tree is tight.  `C06_par_exit_zero_iff`: all applied exactly when the specification's exit status is 0.
* `C06_par_equals_seq_static`: parallel disk = sequential disk outside `.pc`, same number of applied patches, assuming
  neither run succeeded (both do, by `C05_driver_succeeds` and `C06_par_succeeds`).

The one hypothesis beyond those of `C05_driver_succeeds`, which came from a FINDING (`rej-dir-order`, repaired since):

* `RejPrefixFree w.fs cfg range` (`RQ/Lemmas/ParSucceeds.lean`, decidable, static): no path `<name>.rej`, `<name>` a name a
  patch of the range mentions, is a strict prefix of another such path.  It WAS NEEDED before the repair of
  `rej-dir-order`: `f` = `x\n`, one patch with the file patches `f` (hunk fails) and `f.rej/y` (the file does not exist,
  hunk fails), in this order.  The specification and the sequential driver write the reject files in series order —
  `f.rej/y.rej` first (skipped: the directory `f.rej` does not exist), then `f.rej`.  The main thread of the parallel
  driver writes them worker by worker: `f.rej` (worker 0) first, then `f.rej/y.rej` (worker 1), whose unlink then fails
  with "not a directory" (`ENOTDIR`).  `save_rej_files` used to tolerate "not found" only, so the parallel driver ended
  with an error where the sequential one did not, all hypotheses of `C05_driver_succeeds` being true; with the two file
  patches in the other order it was the reverse (the sequential driver and the specification failed, the parallel driver
  succeeded).  Since the repair `save_rej_files` treats `ENOTDIR` like "not found" — the unlink's error is tolerated and
  the reject is bypassed like one whose directory does not exist (`Push.World.opRej`, `Spec.putRejects`) — and on both
  workspaces the specification, the sequential driver and the parallel driver all end "not all applied" (exit status 1)
  with `f.rej` written and `f.rej/y.rej` bypassed: `Fixed.rejOrder`, `Fixed.rejOrder_converse` (decided).
  The hypothesis is KEPT in the statements below although the repaired driver no longer needs it for these workspaces:
  the proof of `C06_par_succeeds` (`ParSucceeds.rejWorkers_succeeds`: "each reject could be written first, and writing
  one does not put a regular file on the way to another") uses it to reorder the reject files; removing it would need a
  different argument (every order succeeds because a reject that finds a regular file on its way is bypassed).

NOT needed:

* `PatchPathsDistinct range` — although two workers must never write the same backup file: `.pc/<p>/<n>` and
  `.pc/<p'>/<n'>` of different workers are different and not inside one another because readable patch files
  `patches/<p>`, `patches/<p'>` are not inside one another (so `<p>` = `<p'>` once one path is a prefix of the other),
  and then `<n>`, `<n'>` are names of different workers: different (C07) and not inside one another (`PrefixFree`);
* any well-formedness of the tree below `.pc` (as for the sequential driver: every backup call of a worker writes where
  the specification writes too, `ParSucceeds.stX_statuses` against `BackupRefine.BInv`);
* `parseRange w.fs cfg range = some patches` as a hypothesis: it follows from `Clean` (`ParSucceeds.parseRange_of_clean`).
-/
namespace RQ.Par
open RQ RQ.Push RQ.Spec RQ.Flush RQ.Agree RQ.Compose RQ.Tight RQ.Parse RQ.ParSucceeds

/-- **C06 (`hdisj` discharged)**: whatever the schedule of the apply phase, the file keys the workers may touch in the
save phase — the paths of the names in their caches, the paths `.pc/<patch>/<name>` of their backup files — are
prefix-free between different workers (`KeysDisjoint`, the hypothesis of `C06_save_phase`) -/
theorem C06_workers_disjoint (cfg : Cfg) (w : World) (range : List Series.Entry) (threads : Nat) (schedA : List Nat)
    (hdry : cfg.dryRun = false) (hclean : Compose.Clean cfg w.fs range) (hpf : PrefixFree w.fs cfg range)
    (ht : 0 < threads) {patches : List (Series.Entry × List PFilePatch)}
    (hparse : parseRange w.fs cfg range = some patches) :
    ∀ pr, parMemory w.fs cfg patches threads schedA = some (.ok pr) →
      KeysDisjoint (saveKeys cfg pr.final patches.length (fun i => (pr.sts i).mem) (fun i => (pr.sts i).applied))
        threads :=
  hdisj_static cfg w range threads schedA hdry hclean hpf ht hparse

/-- **C06 (`hsolo` discharged)**: whatever the schedule of the apply phase, every worker's save code — write its cache,
then its backup files when they are due — succeeds when it runs alone from the starting tree -/
theorem C06_worker_saves_alone (cfg : Cfg) (w : World) (range : List Series.Entry) (threads : Nat) (schedA : List Nat)
    (hf : w.faultAt = none) (hdry : cfg.dryRun = false) (hplan : plan cfg w.fs = .apply range) (hT : Tight w.fs)
    (hclean : Compose.Clean cfg w.fs range) (hpf : PrefixFree w.fs cfg range)
    (hterm : ∀ t' ∈ reached w.fs cfg range [], TreeTerminated t') (hnr : ¬ Refused cfg w.fs range)
    (hio : (Spec.pushSpec cfg w.fs).ioError = false) (ht : 0 < threads)
    {patches : List (Series.Entry × List PFilePatch)} (hparse : parseRange w.fs cfg range = some patches) :
    ∀ pr, parMemory w.fs cfg patches threads schedA = some (.ok pr) → ∀ i, i < threads →
      ∃ r, workerSave cfg pr.final patches.length ⟨w.fs, [], none⟩ (pr.sts i).mem (pr.sts i).applied = .ok r := by
  rw [pushSpec_eq_specRun hplan] at hio
  exact hsolo_static cfg w range threads schedA hf hdry hT hclean hpf hterm (Succeeds.series_of_plan hplan) hnr hio ht
    hparse

/-- **C06: the parallel driver does not fail spuriously.**  With no fault injected, if the specification neither refuses
the range nor meets an output failure, and no reject path is a directory of another (`RejPrefixFree`): for every number
of threads and EVERY pair of schedules under which all workers finish, `parallel::apply_patches` returns `Ok` -/
theorem C06_par_succeeds (cfg : Cfg) (w : World) (range : List Series.Entry) (threads : Nat)
    (schedA schedS : List Nat) (hf : w.faultAt = none) (hdry : cfg.dryRun = false)
    (hplan : plan cfg w.fs = .apply range) (hT : Tight w.fs) (hclean : Compose.Clean cfg w.fs range)
    (hpf : PrefixFree w.fs cfg range) (hterm : ∀ t' ∈ reached w.fs cfg range [], TreeTerminated t')
    (hnr : ¬ Refused cfg w.fs range) (hio : (Spec.pushSpec cfg w.fs).ioError = false)
    (hrpf : RejPrefixFree w.fs cfg range) (ht : 0 < threads) {res : WR (World × Nat)}
    (hres : parApplyPatches w cfg range threads schedA schedS = some res) :
    ∃ wPar kPar, res = .ok (wPar, kPar) := by
  obtain ⟨patches, hparse⟩ := parseRange_of_clean hclean
  rw [pushSpec_eq_specRun hplan] at hio
  exact par_succeeds_range cfg w range threads schedA schedS hf hdry hT hclean hpf hterm
    (Succeeds.series_of_plan hplan) hnr hio hrpf ht hparse hres

/-- **C06 (capstone) without hypotheses on the parallel run**: under the static hypotheses alone, for every number of
threads and every pair of schedules that lets all workers finish, the parallel driver succeeds, the specification's
exit status is the one `cmd_push` derives from the number `kPar` of applied patches it reports, the disk holds the
specification's node at EVERY path outside `.pc`, and is tight -/
theorem C06_par_is_pushSpec (cfg : Cfg) (w : World) (range : List Series.Entry) (threads : Nat)
    (schedA schedS : List Nat) (hf : w.faultAt = none) (hdry : cfg.dryRun = false)
    (hplan : plan cfg w.fs = .apply range) (hT : Tight w.fs) (hclean : Compose.Clean cfg w.fs range)
    (hpf : PrefixFree w.fs cfg range) (hterm : ∀ t' ∈ reached w.fs cfg range [], TreeTerminated t')
    (hnr : ¬ Refused cfg w.fs range) (hio : (Spec.pushSpec cfg w.fs).ioError = false)
    (hrpf : RejPrefixFree w.fs cfg range) (ht : 0 < threads) {res : WR (World × Nat)}
    (hres : parApplyPatches w cfg range threads schedA schedS = some res) :
    ∃ wPar kPar, res = .ok (wPar, kPar) ∧
      (Spec.pushSpec cfg w.fs).exit = (if kPar == range.length then 0 else 1) ∧
      OutsidePc (Spec.pushSpec cfg w.fs).fs wPar.fs ∧ Tight wPar.fs := by
  obtain ⟨wPar, kPar, hr⟩ :=
    C06_par_succeeds cfg w range threads schedA schedS hf hdry hplan hT hclean hpf hterm hnr hio hrpf ht hres
  subst hr
  obtain ⟨patches, hparse⟩ := parseRange_of_clean hclean
  exact ⟨wPar, kPar, rfl,
    C06_par_refines_pushSpec cfg w wPar range threads schedA schedS kPar ht hdry hplan hT hclean hpf hterm hparse
      (C06_worker_saves_alone cfg w range threads schedA hf hdry hplan hT hclean hpf hterm hnr hio ht hparse)
      (C06_workers_disjoint cfg w range threads schedA hdry hclean hpf ht hparse) hres hio⟩

/-- **C06: all patches applied exactly when the specification's exit status is 0**, for the parallel driver under every
pair of schedules -/
theorem C06_par_exit_zero_iff (cfg : Cfg) (w : World) (range : List Series.Entry) (threads : Nat)
    (schedA schedS : List Nat) (hf : w.faultAt = none) (hdry : cfg.dryRun = false)
    (hplan : plan cfg w.fs = .apply range) (hT : Tight w.fs) (hclean : Compose.Clean cfg w.fs range)
    (hpf : PrefixFree w.fs cfg range) (hterm : ∀ t' ∈ reached w.fs cfg range [], TreeTerminated t')
    (hnr : ¬ Refused cfg w.fs range) (hio : (Spec.pushSpec cfg w.fs).ioError = false)
    (hrpf : RejPrefixFree w.fs cfg range) (ht : 0 < threads) {wPar : World} {kPar : Nat}
    (hres : parApplyPatches w cfg range threads schedA schedS = some (.ok (wPar, kPar))) :
    kPar = range.length ↔ (Spec.pushSpec cfg w.fs).exit = 0 := by
  obtain ⟨wPar', kPar', hr, hexit, _, _⟩ :=
    C06_par_is_pushSpec cfg w range threads schedA schedS hf hdry hplan hT hclean hpf hterm hnr hio hrpf ht hres
  cases hr
  rw [hexit]
  by_cases h : kPar = range.length
  · simp [h]
  · simp [h]

/-- **C06 (parallel = sequential, statically)**: under the static hypotheses alone — nothing assumed about either run —
the sequential driver succeeds, the parallel driver succeeds under every pair of schedules that lets all workers
finish, they report the same number of applied patches and leave the same node at EVERY path outside `.pc`; both
disks are tight -/
theorem C06_par_equals_seq_static (cfg : Cfg) (w : World) (range : List Series.Entry) (threads : Nat)
    (schedA schedS : List Nat) (hf : w.faultAt = none) (hdry : cfg.dryRun = false)
    (hplan : plan cfg w.fs = .apply range) (hT : Tight w.fs) (hclean : Compose.Clean cfg w.fs range)
    (hpf : PrefixFree w.fs cfg range) (hterm : ∀ t' ∈ reached w.fs cfg range [], TreeTerminated t')
    (hnr : ¬ Refused cfg w.fs range) (hio : (Spec.pushSpec cfg w.fs).ioError = false)
    (hrpf : RejPrefixFree w.fs cfg range) (ht : 0 < threads) {res : WR (World × Nat)}
    (hres : parApplyPatches w cfg range threads schedA schedS = some res) :
    ∃ wSeq kSeq wPar kPar, applyPatches w cfg range = .ok (wSeq, kSeq) ∧ res = .ok (wPar, kPar) ∧ kPar = kSeq ∧
      OutsidePc wSeq.fs wPar.fs ∧ Tight wSeq.fs ∧ Tight wPar.fs := by
  obtain ⟨wPar, kPar, hr⟩ :=
    C06_par_succeeds cfg w range threads schedA schedS hf hdry hplan hT hclean hpf hterm hnr hio hrpf ht hres
  subst hr
  obtain ⟨patches, hparse⟩ := parseRange_of_clean hclean
  have hio' := hio
  rw [pushSpec_eq_specRun hplan] at hio'
  have hrun := Succeeds.pushRange_succeeds cfg w range hf hdry hT hclean hpf hterm (Succeeds.series_of_plan hplan) hnr
    hio'
  obtain ⟨wSeq, kSeq, _, hseq, _, _⟩ := Refine2.pushRange_ok hdry hrun
  obtain ⟨hk, hO, t1, t2⟩ := C06_parallel_outsidePc w wSeq wPar cfg range threads schedA schedS kSeq kPar ht hdry hT
    hparse (C06_worker_saves_alone cfg w range threads schedA hf hdry hplan hT hclean hpf hterm hnr hio ht hparse)
    (C06_workers_disjoint cfg w range threads schedA hdry hclean hpf ht hparse) hseq hres
  exact ⟨wSeq, kSeq, wPar, kPar, hseq, rfl, hk, hO, t1, t2⟩

/-! ## A decided instance: the working directory `Good` (`RQ/Props/C09Fail.lean`, `RQ/Props/C06Refine.lean`: `SpecEx`)

`g` = `a\n`, `f` = `x\n`, `series` = `p0\np1\n`; `p0` turns `g` into `b\n`, `p1` wants to turn `y` into `z` in `f` and
fails; `push -a`, two threads, `--backup onfail` (backups are due: the workers write them).  Every hypothesis is decided
by the kernel; NOTHING is assumed or decided about the workers (`C06Refine.SpecEx.refines` had to decide `hsolo` and
`hdisj` for one apply-phase schedule).  Whatever the two schedules: if all workers finish, the parallel push succeeds,
the exit status is 1, the disk holds the specification's node at every path outside `.pc`. -/
namespace SpecEx
open RQ.Compose.FailExample RQ.Refine2.Example.Good

theorem rpf0 : RejPrefixFree w0.fs cfgA range0 := by decide

theorem succeeds (sA sS : List Nat) (res : WR (World × Nat))
    (h : parApplyPatches w0 cfgA range0 2 sA sS = some res) :
    ∃ w' k', res = .ok (w', k') ∧ (Spec.pushSpec cfgA w0.fs).exit = (if k' == 2 then 0 else 1) ∧
      OutsidePc (Spec.pushSpec cfgA w0.fs).fs w'.fs ∧ Tight w'.fs :=
  C06_par_is_pushSpec cfgA w0 range0 2 sA sS rfl rfl plan0 tight0 Good.clean0 pf0 term0
    (Refine2.notRefused_of_ranOk (by decide)) io0 rpf0 (by decide) h

/-- … and against the sequential driver -/
theorem equals_seq (sA sS : List Nat) (res : WR (World × Nat))
    (h : parApplyPatches w0 cfgA range0 2 sA sS = some res) :
    ∃ wSeq kSeq wPar kPar, applyPatches w0 cfgA range0 = .ok (wSeq, kSeq) ∧ res = .ok (wPar, kPar) ∧ kPar = kSeq ∧
      OutsidePc wSeq.fs wPar.fs ∧ Tight wSeq.fs ∧ Tight wPar.fs :=
  C06_par_equals_seq_static cfgA w0 range0 2 sA sS rfl rfl plan0 tight0 Good.clean0 pf0 term0
    (Refine2.notRefused_of_ranOk (by decide)) io0 rpf0 (by decide) h

/-- not vacuous: under `SpecEx.schedA`, `SpecEx.schedS` all workers finish (`SpecEx.runs`); the theorem gives `ok`, the
kernel computes the number of applied patches: 1 -/
theorem value : ∃ w', parApplyPatches w0 cfgA range0 2 schedA schedS = some (.ok (w', 1)) := by
  have hr := runs
  cases h : parApplyPatches w0 cfgA range0 2 schedA schedS with
  | none => rw [h] at hr; cases hr
  | some res =>
    obtain ⟨w', k', e, _⟩ := succeeds schedA schedS res h
    subst e
    rw [h] at hr
    simp only [beq_iff_eq] at hr
    subst hr
    exact ⟨w', rfl⟩

end SpecEx

/-! ## The finding `rej-dir-order`, repaired (why `RejPrefixFree` was needed)

The working directory: `f` = `x\n`, `series` = `p1\n`, `patches/p1` = two file patches: `f` (`-y +z`: the hunk fails) and
`f.rej/y` (`-y +z`: the file does not exist, the hunk fails).  All hypotheses of `C05_driver_succeeds` are decided; before
the repair (`save_rej_files` did not tolerate `ENOTDIR`) the parallel driver failed on `fsR` and the sequential driver
and the specification failed on `fsR'`. -/
namespace Fixed
open RQ.Compose.FailExample

/-- `--- a/f.rej/y\n+++ b/f.rej/y\n@@ -1 +1 @@\n-y\n+z\n` -/
def patchFY : Bytes :=
  [45, 45, 45, 32, 97, 47, 102, 46, 114, 101, 106, 47, 121, 10, 43, 43, 43, 32, 98, 47, 102, 46, 114, 101, 106, 47, 121,
   10, 64, 64, 32, 45, 49, 32, 43, 49, 32, 64, 64, 10, 45, 121, 10, 43, 122, 10]

def fsOf (p : Bytes) : FS :=
  { nodes := [(kF, .file [120, 10] 0o644 2),
      ([[115, 101, 114, 105, 101, 115]], .file [112, 49, 10] 0o644 3),
      (kPatches, .dir),
      (kPatches ++ [[112, 49]], .file p 0o644 5)], nextIno := 6 }

/-- `f` first, then `f.rej/y`: the sequential driver writes `f.rej/y.rej` (skipped), then `f.rej` -/
def fsR : FS := fsOf (patchF ++ patchFY)
/-- the other order -/
def fsR' : FS := fsOf (patchFY ++ patchF)

def sA : List Nat := [0, 1, 0, 1]
def sS : List Nat := [0, 0, 0, 0, 0, 0, 1, 1]
/-- for the other order (the workers have swapped roles) -/
def sS' : List Nat := [1, 1, 1, 1, 1, 1, 0, 0]

/-- `f.rej/y.rej` -/
def kFrejY : Key := [[102, 46, 114, 101, 106], [121, 46, 114, 101, 106]]

/-- `f.rej` is a regular file and nothing is at `f.rej/y.rej` -/
def rejsAsRepaired (fs : FS) : Bool := (fileAt fs kFrej).isSome && (fs.lookup kFrejY).isNone

/-- **the repaired behaviour on the witness of `rej-dir-order`**: every hypothesis of `C05_driver_succeeds` holds and
`RejPrefixFree` does not; the specification reports no output failure and exit status 1, the sequential driver ends "not
all applied", and so does the parallel driver (two threads) under the schedule under which it used to fail: the main
thread writes worker 0's `f.rej` before worker 1's `f.rej/y.rej`, whose unlink and creation meet `ENOTDIR` and are
bypassed.  All three leave `f.rej` written and no `f.rej/y.rej`. -/
theorem rejOrder :
    let w : World := { fs := fsR }
    w.faultAt = none ∧ plan cfgA w.fs = .apply [e1] ∧ Tight w.fs ∧ Compose.Clean cfgA w.fs [e1] ∧
    PrefixFree w.fs cfgA [e1] ∧ (∀ t' ∈ reached w.fs cfgA [e1] [], TreeTerminated t') ∧ ¬ Refused cfgA w.fs [e1] ∧
    ¬ RejPrefixFree w.fs cfgA [e1] ∧
    (Spec.pushSpec cfgA w.fs).ioError = false ∧ (Spec.pushSpec cfgA w.fs).exit = 1 ∧
    rejsAsRepaired (Spec.pushSpec cfgA w.fs).fs = true ∧
    (Push.push cfgA w).1 = .notAll ∧ rejsAsRepaired (Push.push cfgA w).2.fs = true ∧
    (match parApplyPatches w cfgA [e1] 2 sA sS with
      | some (.ok (w', k)) => k == 0 && rejsAsRepaired w'.fs
      | _ => false) = true :=
  ⟨rfl, Refine2.Example.plan_of_isApply (by decide), tightB_sound (by decide), by decide, by decide, by decide,
    Refine2.notRefused_of_ranOk (by decide), by decide, by decide, by decide, by decide, by decide, by decide,
    by decide⟩

/-- the other order of the two file patches (where the specification and the sequential driver used to fail: `f.rej` is
written first, `f.rej/y.rej` then finds a regular file on its way): the same repaired behaviour on all three sides -/
theorem rejOrder_converse :
    let w : World := { fs := fsR' }
    (Spec.pushSpec cfgA w.fs).ioError = false ∧ (Spec.pushSpec cfgA w.fs).exit = 1 ∧
    rejsAsRepaired (Spec.pushSpec cfgA w.fs).fs = true ∧
    (Push.push cfgA w).1 = .notAll ∧ rejsAsRepaired (Push.push cfgA w).2.fs = true ∧
    (match parApplyPatches w cfgA [e1] 2 sA sS' with
      | some (.ok (w', k)) => k == 0 && rejsAsRepaired w'.fs
      | _ => false) = true :=
  ⟨by decide, by decide, by decide, by decide, by decide, by decide⟩

end Fixed

#print axioms C06_workers_disjoint
#print axioms C06_worker_saves_alone
#print axioms C06_par_succeeds
#print axioms C06_par_is_pushSpec
#print axioms C06_par_exit_zero_iff
#print axioms C06_par_equals_seq_static
#print axioms SpecEx.succeeds
#print axioms SpecEx.equals_seq
#print axioms SpecEx.value
#print axioms Fixed.rejOrder
#print axioms Fixed.rejOrder_converse

end RQ.Par
