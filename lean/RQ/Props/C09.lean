import RQ.Spec.Abs
import RQ.Props.C20
/-!
# C09 — pushes compose: any split into several invocations equals one push

Specification level: applying a range `r₁ ++ r₂` is applying `r₁` and then — if all of `r₁` applied —
`r₂` on the resulting tree; a failing `r₁` ends the push where it is.  Iterating gives every way of
cutting a series into consecutive pushes.  (The model of the driver is tied to this specification by
`RQ.Abs.C05_apply_refines`; that the tree between two invocations is the flushed overlay is part of the
correspondence run, which executes every generated workspace as 1–4 consecutive invocations.)
Also here: the series-level form of C20.
-/
namespace RQ.Abs
open RQ RQ.Push RQ.Parse

/-! ### helper: one patch of the range as a single step -/

/-- reading, parsing and applying one patch of the range (everything `applyRange` does for the head
of the range before it decides whether to go on) -/
def stepR (fs : FS) (cfg : Cfg) (entry : Series.Entry) (t : ATree) :
    Except Fail (ATree × Bool × List (Bytes × Bytes)) :=
  match patchKey cfg entry.name with
  | none => .error .err
  | some pk =>
    match fs.readFile pk with
    | .error _ => .error .err
    | .ok (bytes, _) =>
      match parsePatch bytes entry.strip false with
      | .error _ => .error .err
      | .ok patch => applyFPs fs cfg entry patch.fps t true []

theorem applyRange_cons (fs : FS) (cfg : Cfg) (entry : Series.Entry) (rest : List Series.Entry) (k : Nat) (t : ATree) :
    applyRange fs cfg (entry :: rest) k t =
      (match stepR fs cfg entry t with
       | .error e => .error e
       | .ok (t', ok, rejs) =>
         if ok then applyRange fs cfg rest (k + 1) t' else .ok (t, k, if cfg.dryRun then [] else rejs)) := by
  simp only [applyRange, stepR]
  cases patchKey cfg entry.name with
  | none => rfl
  | some pk =>
    simp only []
    cases fs.readFile pk with
    | error _ => rfl
    | ok res =>
      obtain ⟨bytes, n⟩ := res
      simp only []
      cases parsePatch bytes entry.strip false with
      | error _ => rfl
      | ok patch => rfl

/-- the number of adopted patches stays within the range -/
theorem applyRange_bound (fs : FS) (cfg : Cfg) :
    ∀ (range : List Series.Entry) (k : Nat) (t t' : ATree) (k' : Nat) (rejs : List (Bytes × Bytes)),
      applyRange fs cfg range k t = .ok (t', k', rejs) → k ≤ k' ∧ k' ≤ k + range.length := by
  intro range
  induction range with
  | nil =>
    intro k t t' k' rejs h
    simp only [applyRange, Except.ok.injEq, Prod.mk.injEq] at h
    obtain ⟨_, rfl, _⟩ := h
    simp
  | cons entry rest ih =>
    intro k t t' k' rejs h
    rw [applyRange_cons] at h
    cases hs : stepR fs cfg entry t with
    | error e => simp [hs] at h
    | ok res =>
      obtain ⟨t1, ok, rj⟩ := res
      simp only [hs] at h
      cases ok with
      | true =>
        simp only [if_true] at h
        have := ih _ _ _ _ _ h
        simp only [List.length_cons]
        omega
      | false =>
        simp only [Bool.false_eq_true, if_false, Except.ok.injEq, Prod.mk.injEq] at h
        obtain ⟨_, rfl, _⟩ := h
        simp

/-- **C09 (composition of ranges)** -/
theorem C09_applyRange_append (fs : FS) (cfg : Cfg) (r1 r2 : List Series.Entry) (k : Nat) (t : ATree) :
    applyRange fs cfg (r1 ++ r2) k t =
      (match applyRange fs cfg r1 k t with
       | .error e => .error e
       | .ok (t', k', rejs) => if k' = k + r1.length then applyRange fs cfg r2 k' t' else .ok (t', k', rejs)) := by
  induction r1 generalizing k t with
  | nil => simp [applyRange]
  | cons entry rest ih =>
    rw [List.cons_append, applyRange_cons, applyRange_cons]
    cases hs : stepR fs cfg entry t with
    | error e => rfl
    | ok res =>
      obtain ⟨t1, ok, rj⟩ := res
      cases ok with
      | true =>
        simp only [if_true]
        rw [ih]
        have hl : k + (entry :: rest).length = k + 1 + rest.length := by simp only [List.length_cons]; omega
        rw [hl]
      | false =>
        simp only [Bool.false_eq_true, if_false]
        have hl : ¬ (k = k + (entry :: rest).length) := by simp only [List.length_cons]; omega
        simp only [hl, if_false]

/-- a push after a failed push stops at the same patch with the same result: the abstract tree after a
failing range is the tree after its applied prefix -/
theorem C09_failed_is_prefix (fs : FS) (cfg : Cfg) :
    ∀ (range : List Series.Entry) (k : Nat) (t t' : ATree) (k' : Nat) (rejs : List (Bytes × Bytes)),
      applyRange fs cfg range k t = .ok (t', k', rejs) → k ≤ k' ∧ k' ≤ k + range.length ∧
      applyRange fs cfg (range.take (k' - k)) k t = .ok (t', k', []) := by
  intro range
  induction range with
  | nil =>
    intro k t t' k' rejs h
    simp only [applyRange, Except.ok.injEq, Prod.mk.injEq] at h
    obtain ⟨rfl, rfl, _⟩ := h
    simp [applyRange]
  | cons entry rest ih =>
    intro k t t' k' rejs h
    have hb := applyRange_bound fs cfg _ _ _ _ _ _ h
    refine ⟨hb.1, hb.2, ?_⟩
    rw [applyRange_cons] at h
    cases hs : stepR fs cfg entry t with
    | error e => simp [hs] at h
    | ok res =>
      obtain ⟨t1, ok, rj⟩ := res
      simp only [hs] at h
      cases ok with
      | true =>
        simp only [if_true] at h
        obtain ⟨h1, _, h3⟩ := ih _ _ _ _ _ h
        have hk : k' - k = (k' - (k + 1)) + 1 := by omega
        rw [hk, List.take_succ_cons, applyRange_cons, hs]
        simp only [if_true]
        exact h3
      | false =>
        simp only [Bool.false_eq_true, if_false, Except.ok.injEq, Prod.mk.injEq] at h
        obtain ⟨rfl, rfl, _⟩ := h
        simp [applyRange]

/-- a range that applies completely renders no reject file -/
theorem applyRange_success_no_rej (fs : FS) (cfg : Cfg) :
    ∀ (range : List Series.Entry) (k : Nat) (t t' : ATree) (k' : Nat) (rejs : List (Bytes × Bytes)),
      applyRange fs cfg range k t = .ok (t', k', rejs) → k' = k + range.length → rejs = [] := by
  intro range
  induction range with
  | nil =>
    intro k t t' k' rejs h _
    simp only [applyRange, Except.ok.injEq, Prod.mk.injEq] at h
    exact h.2.2.symm
  | cons entry rest ih =>
    intro k t t' k' rejs h hk
    rw [applyRange_cons] at h
    cases hs : stepR fs cfg entry t with
    | error e => simp [hs] at h
    | ok res =>
      obtain ⟨t1, ok, rj⟩ := res
      simp only [hs] at h
      cases ok with
      | true =>
        simp only [if_true] at h
        exact ih _ _ _ _ _ h (by simp only [List.length_cons] at hk; omega)
      | false =>
        simp only [Bool.false_eq_true, if_false, Except.ok.injEq, Prod.mk.injEq] at h
        obtain ⟨_, rfl, _⟩ := h
        simp only [List.length_cons] at hk
        omega

/-! ### C20 at the series level -/

/-- a file patch that applied completely applies identically with a larger fuzz limit -/
theorem applyFP_fuzz_mono (t : ATree) (fs : FS) (cfg : Cfg) (F' : Nat) (hF : cfg.fuzz ≤ F')
    (entry : Series.Entry) (fp : PFilePatch) (r : FPOut)
    (h : applyFP t fs cfg entry fp = .ok r) (hok : r.ok = true) :
    applyFP t fs { cfg with fuzz := F' } entry fp = .ok r := by
  unfold applyFP at h ⊢
  split at h
  · cases h
  · rename_i hn
    rw [if_neg hn]
    split at h
    · cases h
    · rename_i target htg
      simp only []
      split at h
      · cases h
      · rename_i file hlook
        simp only [] at h ⊢
        split at h
        · rename_i hren
          rw [if_pos hren]
          split at h
          · cases h
          · rename_i newName hnew
            split at h
            · cases h
            · rename_i newFile hlook2
              split at h
              · simp only [Except.ok.injEq] at h
                subst h
                cases hok
              · rename_i hcond
                rw [if_neg hcond]
                split at h
                · cases h
                · rename_i f' rep happ
                  simp only [Except.ok.injEq] at h
                  subst h
                  simp only [] at hok
                  obtain ⟨rep', happ', hok', _⟩ := C20_file fp _ cfg.fuzz F' _ f' rep hF happ hok
                  simp only [happ', hok, hok', if_true]
        · rename_i hren
          rw [if_neg hren]
          split at h
          · cases h
          · rename_i f' rep happ
            simp only [Except.ok.injEq] at h
            subst h
            simp only [] at hok
            obtain ⟨rep', happ', hok', _⟩ := C20_file fp _ cfg.fuzz F' _ f' rep hF happ hok
            simp only [happ', hok, hok', if_true]

theorem applyFPs_ok_true (fs : FS) (cfg : Cfg) (entry : Series.Entry) :
    ∀ (fps : List PFilePatch) (t : ATree) (ok : Bool) (rejs : List (Bytes × Bytes)) (t' : ATree)
      (rejs' : List (Bytes × Bytes)),
      applyFPs fs cfg entry fps t ok rejs = .ok (t', true, rejs') → ok = true := by
  intro fps
  induction fps with
  | nil =>
    intro t ok rejs t' rejs' h
    simp only [applyFPs, Except.ok.injEq, Prod.mk.injEq] at h
    exact h.2.1
  | cons fp fps ih =>
    intro t ok rejs t' rejs' h
    simp only [applyFPs] at h
    split at h
    · cases h
    · have := ih _ _ _ _ _ h
      simp only [Bool.and_eq_true] at this
      exact this.1

theorem applyFPs_fuzz_mono (fs : FS) (cfg : Cfg) (F' : Nat) (hF : cfg.fuzz ≤ F') (entry : Series.Entry) :
    ∀ (fps : List PFilePatch) (t : ATree) (ok : Bool) (rejs : List (Bytes × Bytes)) (t' : ATree)
      (rejs' : List (Bytes × Bytes)),
      applyFPs fs cfg entry fps t ok rejs = .ok (t', true, rejs') →
      applyFPs fs { cfg with fuzz := F' } entry fps t ok rejs = .ok (t', true, rejs') := by
  intro fps
  induction fps with
  | nil => intro t ok rejs t' rejs' h; exact h
  | cons fp fps ih =>
    intro t ok rejs t' rejs' h
    simp only [applyFPs] at h ⊢
    split at h
    · cases h
    · rename_i r hr
      have hand := applyFPs_ok_true fs cfg entry _ _ _ _ _ _ h
      simp only [Bool.and_eq_true] at hand
      rw [applyFP_fuzz_mono t fs cfg F' hF entry fp r hr hand.2]
      exact ih _ _ _ _ _ h

theorem stepR_fuzz_mono (fs : FS) (cfg : Cfg) (F' : Nat) (hF : cfg.fuzz ≤ F') (entry : Series.Entry)
    (t t' : ATree) (rejs : List (Bytes × Bytes))
    (h : stepR fs cfg entry t = .ok (t', true, rejs)) :
    stepR fs { cfg with fuzz := F' } entry t = .ok (t', true, rejs) := by
  unfold stepR at h ⊢
  have hpk : patchKey { cfg with fuzz := F' } entry.name = patchKey cfg entry.name := rfl
  rw [hpk]
  cases hk : patchKey cfg entry.name with
  | none => simp [hk] at h
  | some pk =>
    simp only [hk] at h ⊢
    cases hr : fs.readFile pk with
    | error _ => simp [hr] at h
    | ok res =>
      obtain ⟨bytes, n⟩ := res
      simp only [hr] at h ⊢
      cases hp : parsePatch bytes entry.strip false with
      | error _ => simp [hp] at h
      | ok patch =>
        simp only [hp] at h ⊢
        exact applyFPs_fuzz_mono fs cfg F' hF entry _ _ _ _ _ _ h

/-- **C20 (series level)**: if the whole range applies with fuzz limit `F`, it applies with every
`F' ≥ F` and gives the identical tree -/
theorem C20_series (fs : FS) (cfg : Cfg) (F' : Nat) (hF : cfg.fuzz ≤ F') :
    ∀ (range : List Series.Entry) (k : Nat) (t t' : ATree) (rejs : List (Bytes × Bytes)),
      applyRange fs cfg range k t = .ok (t', k + range.length, rejs) →
      applyRange fs { cfg with fuzz := F' } range k t = .ok (t', k + range.length, rejs) := by
  intro range
  induction range with
  | nil => intro k t t' rejs h; exact h
  | cons entry rest ih =>
    intro k t t' rejs h
    rw [applyRange_cons] at h ⊢
    cases hs : stepR fs cfg entry t with
    | error e => simp [hs] at h
    | ok res =>
      obtain ⟨t1, ok, rj⟩ := res
      simp only [hs] at h
      cases ok with
      | true =>
        simp only [if_true] at h
        rw [stepR_fuzz_mono fs cfg F' hF entry t t1 rj hs]
        simp only [if_true]
        have hl : k + (entry :: rest).length = k + 1 + rest.length := by simp only [List.length_cons]; omega
        rw [hl] at h ⊢
        exact ih _ _ _ _ h
      | false =>
        simp only [Bool.false_eq_true, if_false, Except.ok.injEq, Prod.mk.injEq] at h
        obtain ⟨_, hk, _⟩ := h
        simp only [List.length_cons] at hk
        omega

#print axioms C09_applyRange_append
#print axioms C09_failed_is_prefix
#print axioms applyRange_success_no_rej
#print axioms C20_series

end RQ.Abs
