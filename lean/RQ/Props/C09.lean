import RQ.Spec.Abs
import RQ.Props.C20
import RQ.Lemmas.Compose5
import RQ.Props.C05
/-!
# C09 — pushes compose: any split into several invocations equals one push

Specification level: applying a range `r₁ ++ r₂` is applying `r₁` and then — if all of `r₁` applied —
`r₂` on the resulting tree; a failing `r₁` ends the push where it is.  Iterating gives every way of
cutting a series into consecutive pushes.  (The model of the driver is tied to this specification by
`RQ.Abs.C05_apply_refines`; that the tree between two invocations is the flushed overlay is part of the
correspondence run, which executes every generated workspace as 1–4 consecutive invocations.)
Also here: the series-level form of C20.

Second half of the file (`namespace RQ.Compose`): the same property for the *executable* specification
`Spec.pushSpec` on the tree itself — reject files, directories, `.pc/applied-patches`, exit status and the choice of
the range (`plan`) included: `C09_oracle_composes`, `C09_exit_composes`, `C09_plan_composes`, `C09_pushSpec_composes`.
-/
namespace RQ.Abs
open RQ RQ.Push RQ.Parse

/-! ### helper: one patch of the range as a single step -/

/-- reading, parsing and applying one patch of the range (everything `applyRange` does for the head
of the range before it decides whether to go on) -/
def stepR (fs : FS) (cfg : Cfg) (entry : Series.Entry) (t : ATree) :
    Except Fail (ATree × Bool × List (Bytes × Bytes)) :=
  match patchKey cfg entry.name with
  | none => .error .err
  | some pk =>
    match fs.readFile pk with
    | .error _ => .error .err
    | .ok (bytes, _) =>
      match parsePatch bytes entry.strip false with
      | .error _ => .error .err
      | .ok patch => applyFPs fs cfg entry patch.fps t true []

theorem applyRange_cons (fs : FS) (cfg : Cfg) (entry : Series.Entry) (rest : List Series.Entry) (k : Nat) (t : ATree) :
    applyRange fs cfg (entry :: rest) k t =
      (match stepR fs cfg entry t with
       | .error e => .error e
       | .ok (t', ok, rejs) =>
         if ok then applyRange fs cfg rest (k + 1) t' else .ok (t, k, if cfg.dryRun then [] else rejs)) := by
  simp only [applyRange, stepR]
  cases patchKey cfg entry.name with
  | none => rfl
  | some pk =>
    simp only []
    cases fs.readFile pk with
    | error _ => rfl
    | ok res =>
      obtain ⟨bytes, n⟩ := res
      simp only []
      cases parsePatch bytes entry.strip false with
      | error _ => rfl
      | ok patch => rfl

/-- the number of adopted patches stays within the range -/
theorem applyRange_bound (fs : FS) (cfg : Cfg) :
    ∀ (range : List Series.Entry) (k : Nat) (t t' : ATree) (k' : Nat) (rejs : List (Bytes × Bytes)),
      applyRange fs cfg range k t = .ok (t', k', rejs) → k ≤ k' ∧ k' ≤ k + range.length := by
  intro range
  induction range with
  | nil =>
    intro k t t' k' rejs h
    simp only [applyRange, Except.ok.injEq, Prod.mk.injEq] at h
    obtain ⟨_, rfl, _⟩ := h
    simp
  | cons entry rest ih =>
    intro k t t' k' rejs h
    rw [applyRange_cons] at h
    cases hs : stepR fs cfg entry t with
    | error e => simp [hs] at h
    | ok res =>
      obtain ⟨t1, ok, rj⟩ := res
      simp only [hs] at h
      cases ok with
      | true =>
        simp only [if_true] at h
        have := ih _ _ _ _ _ h
        simp only [List.length_cons]
        omega
      | false =>
        simp only [Bool.false_eq_true, if_false, Except.ok.injEq, Prod.mk.injEq] at h
        obtain ⟨_, rfl, _⟩ := h
        simp

/-- **C09 (composition of ranges)** -/
theorem C09_applyRange_append (fs : FS) (cfg : Cfg) (r1 r2 : List Series.Entry) (k : Nat) (t : ATree) :
    applyRange fs cfg (r1 ++ r2) k t =
      (match applyRange fs cfg r1 k t with
       | .error e => .error e
       | .ok (t', k', rejs) => if k' = k + r1.length then applyRange fs cfg r2 k' t' else .ok (t', k', rejs)) := by
  induction r1 generalizing k t with
  | nil => simp [applyRange]
  | cons entry rest ih =>
    rw [List.cons_append, applyRange_cons, applyRange_cons]
    cases hs : stepR fs cfg entry t with
    | error e => rfl
    | ok res =>
      obtain ⟨t1, ok, rj⟩ := res
      cases ok with
      | true =>
        simp only [if_true]
        rw [ih]
        have hl : k + (entry :: rest).length = k + 1 + rest.length := by simp only [List.length_cons]; omega
        rw [hl]
      | false =>
        simp only [Bool.false_eq_true, if_false]
        have hl : ¬ (k = k + (entry :: rest).length) := by simp only [List.length_cons]; omega
        simp only [hl, if_false]

/-- a push after a failed push stops at the same patch with the same result: the abstract tree after a
failing range is the tree after its applied prefix -/
theorem C09_failed_is_prefix (fs : FS) (cfg : Cfg) :
    ∀ (range : List Series.Entry) (k : Nat) (t t' : ATree) (k' : Nat) (rejs : List (Bytes × Bytes)),
      applyRange fs cfg range k t = .ok (t', k', rejs) → k ≤ k' ∧ k' ≤ k + range.length ∧
      applyRange fs cfg (range.take (k' - k)) k t = .ok (t', k', []) := by
  intro range
  induction range with
  | nil =>
    intro k t t' k' rejs h
    simp only [applyRange, Except.ok.injEq, Prod.mk.injEq] at h
    obtain ⟨rfl, rfl, _⟩ := h
    simp [applyRange]
  | cons entry rest ih =>
    intro k t t' k' rejs h
    have hb := applyRange_bound fs cfg _ _ _ _ _ _ h
    refine ⟨hb.1, hb.2, ?_⟩
    rw [applyRange_cons] at h
    cases hs : stepR fs cfg entry t with
    | error e => simp [hs] at h
    | ok res =>
      obtain ⟨t1, ok, rj⟩ := res
      simp only [hs] at h
      cases ok with
      | true =>
        simp only [if_true] at h
        obtain ⟨h1, _, h3⟩ := ih _ _ _ _ _ h
        have hk : k' - k = (k' - (k + 1)) + 1 := by omega
        rw [hk, List.take_succ_cons, applyRange_cons, hs]
        simp only [if_true]
        exact h3
      | false =>
        simp only [Bool.false_eq_true, if_false, Except.ok.injEq, Prod.mk.injEq] at h
        obtain ⟨rfl, rfl, _⟩ := h
        simp [applyRange]

/-- a range that applies completely renders no reject file -/
theorem applyRange_success_no_rej (fs : FS) (cfg : Cfg) :
    ∀ (range : List Series.Entry) (k : Nat) (t t' : ATree) (k' : Nat) (rejs : List (Bytes × Bytes)),
      applyRange fs cfg range k t = .ok (t', k', rejs) → k' = k + range.length → rejs = [] := by
  intro range
  induction range with
  | nil =>
    intro k t t' k' rejs h _
    simp only [applyRange, Except.ok.injEq, Prod.mk.injEq] at h
    exact h.2.2.symm
  | cons entry rest ih =>
    intro k t t' k' rejs h hk
    rw [applyRange_cons] at h
    cases hs : stepR fs cfg entry t with
    | error e => simp [hs] at h
    | ok res =>
      obtain ⟨t1, ok, rj⟩ := res
      simp only [hs] at h
      cases ok with
      | true =>
        simp only [if_true] at h
        exact ih _ _ _ _ _ h (by simp only [List.length_cons] at hk; omega)
      | false =>
        simp only [Bool.false_eq_true, if_false, Except.ok.injEq, Prod.mk.injEq] at h
        obtain ⟨_, rfl, _⟩ := h
        simp only [List.length_cons] at hk
        omega

/-! ### C20 at the series level -/

/-- a file patch that applied completely applies identically with a larger fuzz limit -/
theorem applyFP_fuzz_mono (t : ATree) (fs : FS) (cfg : Cfg) (F' : Nat) (hF : cfg.fuzz ≤ F')
    (entry : Series.Entry) (fp : PFilePatch) (r : FPOut)
    (h : applyFP t fs cfg entry fp = .ok r) (hok : r.ok = true) :
    applyFP t fs { cfg with fuzz := F' } entry fp = .ok r := by
  unfold applyFP at h ⊢
  split at h
  · cases h
  · rename_i hn
    rw [if_neg hn]
    split at h
    · cases h
    · rename_i target htg
      simp only []
      split at h
      · cases h
      · rename_i file hlook
        simp only [] at h ⊢
        split at h
        · rename_i hren
          rw [if_pos hren]
          split at h
          · cases h
          · rename_i newName hnew
            split at h
            · cases h
            · rename_i newFile hlook2
              split at h
              · simp only [Except.ok.injEq] at h
                subst h
                cases hok
              · rename_i hcond
                rw [if_neg hcond]
                split at h
                · cases h
                · rename_i f' rep happ
                  simp only [Except.ok.injEq] at h
                  subst h
                  simp only [] at hok
                  obtain ⟨rep', happ', hok', _⟩ := C20_file fp _ cfg.fuzz F' _ f' rep hF happ hok
                  simp only [happ', hok, hok', if_true]
        · rename_i hren
          rw [if_neg hren]
          split at h
          · cases h
          · rename_i f' rep happ
            simp only [Except.ok.injEq] at h
            subst h
            simp only [] at hok
            obtain ⟨rep', happ', hok', _⟩ := C20_file fp _ cfg.fuzz F' _ f' rep hF happ hok
            simp only [happ', hok, hok', if_true]

theorem applyFPs_ok_true (fs : FS) (cfg : Cfg) (entry : Series.Entry) :
    ∀ (fps : List PFilePatch) (t : ATree) (ok : Bool) (rejs : List (Bytes × Bytes)) (t' : ATree)
      (rejs' : List (Bytes × Bytes)),
      applyFPs fs cfg entry fps t ok rejs = .ok (t', true, rejs') → ok = true := by
  intro fps
  induction fps with
  | nil =>
    intro t ok rejs t' rejs' h
    simp only [applyFPs, Except.ok.injEq, Prod.mk.injEq] at h
    exact h.2.1
  | cons fp fps ih =>
    intro t ok rejs t' rejs' h
    simp only [applyFPs] at h
    split at h
    · cases h
    · have := ih _ _ _ _ _ h
      simp only [Bool.and_eq_true] at this
      exact this.1

theorem applyFPs_fuzz_mono (fs : FS) (cfg : Cfg) (F' : Nat) (hF : cfg.fuzz ≤ F') (entry : Series.Entry) :
    ∀ (fps : List PFilePatch) (t : ATree) (ok : Bool) (rejs : List (Bytes × Bytes)) (t' : ATree)
      (rejs' : List (Bytes × Bytes)),
      applyFPs fs cfg entry fps t ok rejs = .ok (t', true, rejs') →
      applyFPs fs { cfg with fuzz := F' } entry fps t ok rejs = .ok (t', true, rejs') := by
  intro fps
  induction fps with
  | nil => intro t ok rejs t' rejs' h; exact h
  | cons fp fps ih =>
    intro t ok rejs t' rejs' h
    simp only [applyFPs] at h ⊢
    split at h
    · cases h
    · rename_i r hr
      have hand := applyFPs_ok_true fs cfg entry _ _ _ _ _ _ h
      simp only [Bool.and_eq_true] at hand
      rw [applyFP_fuzz_mono t fs cfg F' hF entry fp r hr hand.2]
      exact ih _ _ _ _ _ h

theorem stepR_fuzz_mono (fs : FS) (cfg : Cfg) (F' : Nat) (hF : cfg.fuzz ≤ F') (entry : Series.Entry)
    (t t' : ATree) (rejs : List (Bytes × Bytes))
    (h : stepR fs cfg entry t = .ok (t', true, rejs)) :
    stepR fs { cfg with fuzz := F' } entry t = .ok (t', true, rejs) := by
  unfold stepR at h ⊢
  have hpk : patchKey { cfg with fuzz := F' } entry.name = patchKey cfg entry.name := rfl
  rw [hpk]
  cases hk : patchKey cfg entry.name with
  | none => simp [hk] at h
  | some pk =>
    simp only [hk] at h ⊢
    cases hr : fs.readFile pk with
    | error _ => simp [hr] at h
    | ok res =>
      obtain ⟨bytes, n⟩ := res
      simp only [hr] at h ⊢
      cases hp : parsePatch bytes entry.strip false with
      | error _ => simp [hp] at h
      | ok patch =>
        simp only [hp] at h ⊢
        exact applyFPs_fuzz_mono fs cfg F' hF entry _ _ _ _ _ _ h

/-- **C20 (series level)**: if the whole range applies with fuzz limit `F`, it applies with every
`F' ≥ F` and gives the identical tree -/
theorem C20_series (fs : FS) (cfg : Cfg) (F' : Nat) (hF : cfg.fuzz ≤ F') :
    ∀ (range : List Series.Entry) (k : Nat) (t t' : ATree) (rejs : List (Bytes × Bytes)),
      applyRange fs cfg range k t = .ok (t', k + range.length, rejs) →
      applyRange fs { cfg with fuzz := F' } range k t = .ok (t', k + range.length, rejs) := by
  intro range
  induction range with
  | nil => intro k t t' rejs h; exact h
  | cons entry rest ih =>
    intro k t t' rejs h
    rw [applyRange_cons] at h ⊢
    cases hs : stepR fs cfg entry t with
    | error e => simp [hs] at h
    | ok res =>
      obtain ⟨t1, ok, rj⟩ := res
      simp only [hs] at h
      cases ok with
      | true =>
        simp only [if_true] at h
        rw [stepR_fuzz_mono fs cfg F' hF entry t t1 rj hs]
        simp only [if_true]
        have hl : k + (entry :: rest).length = k + 1 + rest.length := by simp only [List.length_cons]; omega
        rw [hl] at h ⊢
        exact ih _ _ _ _ h
      | false =>
        simp only [Bool.false_eq_true, if_false, Except.ok.injEq, Prod.mk.injEq] at h
        obtain ⟨_, hk, _⟩ := h
        simp only [List.length_cons] at hk
        omega

#print axioms C09_applyRange_append
#print axioms C09_failed_is_prefix
#print axioms applyRange_success_no_rej
#print axioms C20_series

end RQ.Abs

/-! # C09 for the executable specification `Spec.pushSpec`

`specRun cfg fs range` is what `pushSpec` does once `plan` has chosen `range` (`pushSpec_eq_specRun`).  All theorems
are for real runs (`dryRun = false`) and assume `Clean cfg fs (r₁ ++ r₂)` (`RQ/Lemmas/Compose3.lean`, decidable): the
patch files of the range can be read and parsed and are not below `.pc`, no file name in any of the patches has a path
that is quilt's own (below `.pc`, the working directory itself, `series`, the patches directory or anything inside or
above it), and no patch is called `.` or lives in a directory `applied-patches`.

What is proved (lemmas in `RQ/Lemmas/Compose*.lean`):

* (1) congruence `applyRangeTree_congr`, (2) split `applyRangeTree_append`, (3) `specRun_compose`;
* `OutsidePc a b` = at every path outside `.pc` the two trees hold the same regular file (content, permission bits) or
  both a directory or both nothing — inode numbers ignored;
* the reject file of a name outside `.pc` is outside `.pc` (`safeKey_rej_not_pc`), so reject files are compared too.

What is **not** claimed, and why:

* *Refused pushes.*  If the single push is refused while applying `r₂` (unsafe name, a directory where a file is
  expected, …) its tree is the original one — nothing applied — while the first of the two pushes stays applied.  This
  is the all-or-nothing behaviour of the driver (nothing is saved on an error), not a defect; composition is stated
  for pushes that are not refused, and `C09_oracle_composes` shows they are refused together.
* *Output failures with backups.*  The two ways write different sets of backups below `.pc` (different window), so
  "the last phase runs into an output failure" is compared only when no push writes backups (`C09_exit_composes`:
  `backup = never`, or `backup = onfail` and everything applies); otherwise exit status and `.pc/applied-patches` are
  compared under the hypothesis that neither way had an output failure.  Backups are deliberately not compared.
* *`C09_disk_composes` (two consecutive runs of the driver model).*  Not proved.  `C05_disk_is_pushSpec` relates the
  disk `w'.fs` of one driver run to `(pushSpec cfg w.fs).fs` only through `fileAt` at paths of names the abstract tree
  can look up; the second driver run starts from `w'.fs`, and to transfer `C09_oracle_composes` with
  `specRun_congr` one needs **`OutsidePc w'.fs (pushSpec cfg w.fs).fs`** — agreement at *every* path outside `.pc`,
  directories included — together with `fileAt w'.fs appliedKey = fileAt (pushSpec cfg w.fs).fs appliedKey` (for
  `plan`).  The missing lemma is the directory half of `C05_tree_on_disk`: `saveAll` + `cleanAll` (`createDirAll` for
  new files, `cleanUp` climbing from the parents of removed files) create and remove exactly the directories that the
  sequence of `storeTree`s (`createDirAll` / `pruneUp`) of `applyRangeTree` creates and removes, and
  `saveRejFiles` = `putRejects`, `saveApplied` = the last step of `finishSpec` on `lookup` level.  (The correspondence
  run executes every generated workspace as 1–4 consecutive invocations and compares the trees.) -/
namespace RQ.Compose
open RQ RQ.Push RQ.Spec RQ.Flush

/-- `pushSpec` is `specRun` on the range `plan` chooses -/
theorem C09_pushSpec_is_specRun (cfg : Cfg) (fs : FS) (range : List Series.Entry) (h : plan cfg fs = .apply range) :
    pushSpec cfg fs = specRun cfg fs range := pushSpec_eq_specRun h

/-- **C09 (oracle, range level).**  Push `r₁` — exit status 0: all of it applied, no output failure — then push `r₂`
from the resulting tree; compare with pushing `r₁ ++ r₂` from the original tree (not refused).  Then the second push is
not refused either, and the two ways leave

* the same regular file (content and permission bits) at every path outside `.pc` — tracked files and reject files;
* the same directories outside `.pc`;
* and, unless one of them ran into an output failure below `.pc`, the same exit status and the same
  `.pc/applied-patches` (the first push appends the names of `r₁`, the second those of the applied part of `r₂`, the
  single push all of them). -/
theorem C09_oracle_composes (cfg : Cfg) (hdry : cfg.dryRun = false) (fs : FS) (r1 r2 : List Series.Entry)
    (hclean : Clean cfg fs (r1 ++ r2)) (h1 : (specRun cfg fs r1).exit = 0)
    (hnr : ¬ Refused cfg fs (r1 ++ r2)) :
    (specRun cfg fs r1).ioError = false ∧
    ¬ Refused cfg (specRun cfg fs r1).fs r2 ∧
    (∀ k, ¬ isPcKey k →
      fileAt (specRun cfg (specRun cfg fs r1).fs r2).fs k = fileAt (specRun cfg fs (r1 ++ r2)).fs k ∧
      (specRun cfg (specRun cfg fs r1).fs r2).fs.isDir k = (specRun cfg fs (r1 ++ r2)).fs.isDir k) ∧
    ((specRun cfg (specRun cfg fs r1).fs r2).ioError = false → (specRun cfg fs (r1 ++ r2)).ioError = false →
      (specRun cfg (specRun cfg fs r1).fs r2).exit = (specRun cfg fs (r1 ++ r2)).exit ∧
      fileAt (specRun cfg (specRun cfg fs r1).fs r2).fs appliedKey =
        fileAt (specRun cfg fs (r1 ++ r2)).fs appliedKey) := by
  obtain ⟨href, hrest⟩ := specRun_compose cfg hdry fs r1 r2 hclean h1
  obtain ⟨hout, hexit⟩ := hrest hnr
  obtain ⟨_, _, _, _, _, _, hio1⟩ := specRun_exit0 hdry h1
  exact ⟨hio1, fun h => hnr (href.mp h), fun k hk => ⟨hout.fileAt_eq hk, hout.isDir_eq hk⟩, hexit⟩

/-- the two ways are refused together -/
theorem C09_refused_together (cfg : Cfg) (hdry : cfg.dryRun = false) (fs : FS) (r1 r2 : List Series.Entry)
    (hclean : Clean cfg fs (r1 ++ r2)) (h1 : (specRun cfg fs r1).exit = 0) :
    Refused cfg (specRun cfg fs r1).fs r2 ↔ Refused cfg fs (r1 ++ r2) :=
  (specRun_compose cfg hdry fs r1 r2 hclean h1).1

/-- **C09 (exit status).**  If no push writes backups — `backup = never`, or the default `backup = onfail` and one of
the two ways applies everything — the second push and the single push have the same exit status and the same
output-failure flag.  In particular, with `backup ≠ always`: the two pushes succeed exactly when the single push
succeeds (`C09_success_iff`). -/
theorem C09_exit_composes (cfg : Cfg) (hdry : cfg.dryRun = false) (fs : FS) (r1 r2 : List Series.Entry)
    (hclean : Clean cfg fs (r1 ++ r2)) (h1 : (specRun cfg fs r1).exit = 0) (hnr : ¬ Refused cfg fs (r1 ++ r2))
    (hnb : cfg.backup = .never ∨ (cfg.backup = .onfail ∧
      ((specRun cfg (specRun cfg fs r1).fs r2).exit = 0 ∨ (specRun cfg fs (r1 ++ r2)).exit = 0))) :
    (specRun cfg (specRun cfg fs r1).fs r2).ioError = (specRun cfg fs (r1 ++ r2)).ioError ∧
    (specRun cfg (specRun cfg fs r1).fs r2).exit = (specRun cfg fs (r1 ++ r2)).exit :=
  specRun_compose_exit cfg hdry fs r1 r2 hclean h1 hnr hnb

theorem C09_success_iff (cfg : Cfg) (hdry : cfg.dryRun = false) (fs : FS) (r1 r2 : List Series.Entry)
    (hclean : Clean cfg fs (r1 ++ r2)) (h1 : (specRun cfg fs r1).exit = 0) (hnr : ¬ Refused cfg fs (r1 ++ r2))
    (hb : cfg.backup ≠ .always) :
    (specRun cfg (specRun cfg fs r1).fs r2).exit = 0 ↔ (specRun cfg fs (r1 ++ r2)).exit = 0 := by
  have hcases : cfg.backup = .never ∨ cfg.backup = .onfail := by
    cases h : cfg.backup with
    | always => exact absurd h hb
    | onfail => exact .inr rfl
    | never => exact .inl rfl
  constructor
  · intro h
    have := (C09_exit_composes cfg hdry fs r1 r2 hclean h1 hnr
      (hcases.elim .inl (fun hc => .inr ⟨hc, .inl h⟩))).2
    rw [← this]; exact h
  · intro h
    have := (C09_exit_composes cfg hdry fs r1 r2 hclean h1 hnr
      (hcases.elim .inl (fun hc => .inr ⟨hc, .inr h⟩))).2
    rw [this]; exact h

/-- **C09 (a failing first push)**: if not all of `r₁` applies, pushing `r₁ ++ r₂` *is* pushing `r₁` -/
theorem C09_failing_first_push (cfg : Cfg) (fs : FS) (r1 r2 : List Series.Entry)
    (h : ∀ p, Spec.applyRangeTree cfg fs r1 (start fs) = .ok p → p.k ≠ r1.length) :
    specRun cfg fs (r1 ++ r2) = specRun cfg fs r1 :=
  specRun_append_of_not_all cfg fs r1 r2 h

/-- **C09 (goal level): `plan` composes.**  The first push chose `r₁`, applied all of it and recorded it.  Whatever
range `r₂` a second invocation (any goal) then chooses, a single invocation from the original tree with the goal
"`|r₁| + |r₂|` patches" chooses `r₁ ++ r₂`.  Needs: the old `.pc/applied-patches` is absent, or parses and ends with a
newline (`AppliedOK`).  That the names of `r₁` survive being recorded in `.pc/applied-patches` and read back is no
longer a hypothesis: every name `readSeries` returns is `Series.PlainName` (non-empty, no Unicode white-space
character, valid UTF-8 — `Series.readSeries_names_plain`), and a plain name reads back as itself with `readApplied`
(`Series.plainName_iff`).  Before the repair of `hash-named-patch` this failed for a name like `#x` (a series line
` #x` with leading whitespace): recorded as `#x`, read back as a comment (`C09_hash_name_roundtrip`). -/
theorem C09_plan_composes (cfg cfg2 : Cfg) (fs : FS) (r1 r2 : List Series.Entry) (hdry : cfg.dryRun = false)
    (hclean : Clean cfg fs r1) (happ : AppliedOK fs)
    (hp1 : plan cfg fs = .apply r1) (hx : (pushSpec cfg fs).exit = 0)
    (hp2 : plan cfg2 (pushSpec cfg fs).fs = .apply r2) :
    plan { cfg with goal := .count (r1.length + r2.length) } fs = .apply (r1 ++ r2) := by
  rw [pushSpec_eq_specRun hp1] at hx hp2
  exact plan_compose hdry hclean happ hp1 hx hp2

/-- **C09 (`pushSpec`, end to end).**  `pushSpec cfg` applies the range `r₁` it chose completely (exit status 0); a
second `pushSpec` with the goal `g2` chooses `r₂`.  Then a single `pushSpec` with the goal "`|r₁| + |r₂|` patches"
chooses `r₁ ++ r₂`, and — unless it is refused — leaves the same files and directories outside `.pc` as the two
invocations, and (no output failure) the same exit status and `.pc/applied-patches`. -/
theorem C09_pushSpec_composes (cfg : Cfg) (g2 : Goal) (fs : FS) (r1 r2 : List Series.Entry)
    (hdry : cfg.dryRun = false) (hclean : Clean cfg fs (r1 ++ r2))
    (happ : AppliedOK fs) (hp1 : plan cfg fs = .apply r1) (hx : (pushSpec cfg fs).exit = 0)
    (hp2 : plan { cfg with goal := g2 } (pushSpec cfg fs).fs = .apply r2) :
    plan { cfg with goal := .count (r1.length + r2.length) } fs = .apply (r1 ++ r2) ∧
    (¬ Refused cfg fs (r1 ++ r2) →
      (∀ k, ¬ isPcKey k →
        fileAt (pushSpec { cfg with goal := g2 } (pushSpec cfg fs).fs).fs k =
          fileAt (pushSpec { cfg with goal := .count (r1.length + r2.length) } fs).fs k ∧
        (pushSpec { cfg with goal := g2 } (pushSpec cfg fs).fs).fs.isDir k =
          (pushSpec { cfg with goal := .count (r1.length + r2.length) } fs).fs.isDir k) ∧
      ((pushSpec { cfg with goal := g2 } (pushSpec cfg fs).fs).ioError = false →
        (pushSpec { cfg with goal := .count (r1.length + r2.length) } fs).ioError = false →
        (pushSpec { cfg with goal := g2 } (pushSpec cfg fs).fs).exit =
          (pushSpec { cfg with goal := .count (r1.length + r2.length) } fs).exit ∧
        fileAt (pushSpec { cfg with goal := g2 } (pushSpec cfg fs).fs).fs appliedKey =
          fileAt (pushSpec { cfg with goal := .count (r1.length + r2.length) } fs).fs appliedKey)) := by
  have hall := C09_plan_composes cfg { cfg with goal := g2 } fs r1 r2 hdry hclean.left happ hp1 hx hp2
  refine ⟨hall, ?_⟩
  intro hnr
  rw [pushSpec_eq_specRun hall, pushSpec_eq_specRun hp2, specRun_goal cfg g2, specRun_goal cfg (.count _)]
  rw [pushSpec_eq_specRun hp1] at hx ⊢
  obtain ⟨_, _, h3, h4⟩ := C09_oracle_composes cfg hdry fs r1 r2 hclean hx hnr
  exact ⟨h3, h4⟩

/-! ## The repaired defect `hash-named-patch`: a patch whose name starts with `#`

A series line ` #x` (leading whitespace) names the patch `#x`.  `save_applied_patches` records it as the line `#x`;
`.pc/applied-patches` used to be read with the comment rule of the series file, so the name was lost and the second of
two pushes failed where a single push succeeds.  Now it is read with `readApplied` (no comment rule). -/

/-- the name `#x`, recorded in `.pc/applied-patches`, reads back as itself -/
theorem C09_hash_name_roundtrip :
    Series.readApplied ([35, 120] ++ [10]) =
      .ok [{ name := [35, 120], strip := Extracted.defaultPatchStrip, reverse := false }] :=
  Series.plainName_readApplied (by decide)

/-- a name starting with `#` is plain -/
example : Series.PlainName [35, 120] := by decide

/-- the series file does yield that name (indented line) -/
example : Series.readSeries [32, 35, 120, 10] =
    .ok [{ name := [35, 120], strip := Extracted.defaultPatchStrip, reverse := false }] := by
  unfold Series.readSeries; rfl

/-- the old behaviour (and still that of the series file): the recorded line is a comment -/
example : Series.readSeries ([35, 120] ++ [10]) = .ok [] := by
  unfold Series.readSeries; rfl

/-! ## Towards `C09_disk_composes`: what follows once the bridge lemma is there

*Conditional on the missing lemma* (hypothesis `hbridge`: the disk `w1.fs` the first run of the driver model leaves
agrees with the oracle's tree after the first push at every path outside `.pc`, directories included — see the header
of this section), the disk after the *second* run of the driver model (`applyPatches` on `r₂` from `w1`) holds, under
every readable non-reject non-`.pc` name, the file the oracle's *single* push of `r₁ ++ r₂` leaves there, with the same
number of applied patches and the same reject files.  Chain: `C05_disk_is_oracle` (second driver run = oracle run from
`w1.fs`), `applyRangeTree_congr` (oracle from `w1.fs` = oracle from the oracle's tree), `specRun_compose` (= second
half of the single push), `finishSpec_fileAt`. -/
theorem patchOf_outside {a b : FS} {cfg : Cfg} {e : Series.Entry} (h : OutsidePc a b)
    (hout : ∀ pk, patchKey cfg e.name = some pk → ¬ isPcKey pk) : Agree.patchOf a cfg e = Agree.patchOf b cfg e := by
  unfold Agree.patchOf
  cases hk : patchKey cfg e.name with
  | none => rfl
  | some pk => simp only; rw [h.readFile_eq (hout pk hk)]

theorem C09_disk_composes_of_bridge (cfg : Cfg) (hdry : cfg.dryRun = false) (fs : FS) (r1 r2 : List Series.Entry)
    (hclean : Clean cfg fs (r1 ++ r2)) (h1 : (specRun cfg fs r1).exit = 0) (hnr : ¬ Refused cfg fs (r1 ++ r2))
    (w1 w2 : World) (k2 : Nat) (hf : w1.faultAt = none)
    (hbridge : OutsidePc (specRun cfg fs r1).fs w1.fs)
    (hpf : Agree.PrefixFree w1.fs cfg r2) (hterm : ∀ t' ∈ Agree.reached w1.fs cfg r2 [], Agree.TreeTerminated t')
    (h2 : applyPatches w1 cfg r2 = .ok (w2, k2)) :
    ∃ t rejs pA, Abs.applyRange w1.fs cfg r2 0 [] = .ok (t, k2, rejs) ∧
      Spec.applyRangeTree cfg fs (r1 ++ r2) (start fs) = .ok pA ∧ pA.k = k2 + r1.length ∧ pA.rejs = rejs.reverse ∧
      ∀ name key a, Comp.cur ∉ components name → safeKey name = some key → ¬ isRejKey rejs key → ¬ isPcKey key →
        Abs.look t w1.fs name = .ok a → fileAt w2.fs key = fileAt (specRun cfg fs (r1 ++ r2)).fs key := by
  obtain ⟨p1, pA, pB, hp1, hk1, ho1, hio1, hA, hB, ⟨hfsAB, hkAB, hrejAB, _, _⟩, hclean2⟩ :=
    compose_setup cfg hdry fs r1 r2 hclean h1 hnr
  obtain ⟨pW, t, rejs, hspec, hW, hkW, _, hrW, hfileW⟩ :=
    Abs.C05_disk_is_oracle w1 w2 cfg r2 k2 hf hdry hpf hterm h2
  have hcong := applyRangeTree_congr cfg (specRun cfg fs r1).fs w1.fs 0 [] r2
    (fun e he => patchOf_outside hbridge (hclean2 e he).keyOut) hclean2.namesOut
    (start (specRun cfg fs r1).fs) (start w1.fs) ⟨hbridge, rfl, rfl, rfl, rfl⟩
  obtain ⟨pW', hW', hfsBW, hkBW, hrejBW, _, _⟩ := hcong.ok_left hB
  have : pW' = pW := by
    have e : Spec.applyRangeTree cfg w1.fs r2 (start w1.fs) = .ok pW := hW
    rw [e] at hW'; cases hW'; rfl
  subst this
  have hkB : pB.k = pW'.k := by simpa using hkBW
  refine ⟨t, rejs, pA, hspec, hA, by rw [hkAB, hkB, hkW], by rw [hrejAB, hrejBW, hrW], ?_⟩
  intro name key a hc hk hnr' hnp hl
  rw [hfileW name key a hc hk hnr' hnp hl, ← hfsBW.fileAt_eq hnp, ← hfsAB.fileAt_eq hnp]
  have hsr : specRun cfg fs (r1 ++ r2) = Spec.finishSpec cfg fs (r1 ++ r2) pA := by
    unfold specRun; rw [hA]
  rw [hsr, Agree.finishSpec_fileAt cfg fs (r1 ++ r2) pA key hdry ?_ hnp]
  rw [hrejAB, hrejBW, hrW]
  exact fun ⟨r, hm, e⟩ => hnr' ⟨r, List.mem_reverse.mp hm, e⟩

/-! ## A concrete instance: two patches on one file, pushed 1 + 1 and 2 at once

Working directory: `a` = `x\n`, `series` = `p1\np2\n`, `patches/p1` turns `x` into `y`, `patches/p2` turns `y` into
`z`.  The hypotheses of the theorems hold (`Clean` is decidable), and both ways end with `a` = `z\n`,
`.pc/applied-patches` = `p1\np2\n`, exit status 0. -/
namespace Example

/-- `--- a/a\n+++ b/a\n@@ -1 +1 @@\n-x\n+y\n` (applied with the default `-p1`) -/
def patch1 : Bytes :=
  [45, 45, 45, 32, 97, 47, 97, 10, 43, 43, 43, 32, 98, 47, 97, 10, 64, 64, 32, 45, 49, 32, 43, 49, 32, 64, 64, 10, 45, 120, 10, 43, 121, 10]
/-- `--- a/a\n+++ b/a\n@@ -1 +1 @@\n-y\n+z\n` -/
def patch2 : Bytes :=
  [45, 45, 45, 32, 97, 47, 97, 10, 43, 43, 43, 32, 98, 47, 97, 10, 64, 64, 32, 45, 49, 32, 43, 49, 32, 64, 64, 10, 45, 121, 10, 43, 122, 10]

def fs0 : FS :=
  { nodes := [([[97]], .file [120, 10] 0o644 1),
      ([[115, 101, 114, 105, 101, 115]], .file [112, 49, 10, 112, 50, 10] 0o644 2),
      ([[112, 97, 116, 99, 104, 101, 115]], .dir),
      ([[112, 97, 116, 99, 104, 101, 115], [112, 49]], .file patch1 0o644 3),
      ([[112, 97, 116, 99, 104, 101, 115], [112, 50]], .file patch2 0o644 4)], nextIno := 5 }

def e1 : Series.Entry := { name := [112, 49], strip := Extracted.defaultPatchStrip, reverse := false }
def e2 : Series.Entry := { name := [112, 50], strip := Extracted.defaultPatchStrip, reverse := false }
/-- `push` (one patch), `push -a`, `push 2` -/
def cfg1 : Cfg := { goal := .count 1 }
def cfgA : Cfg := { cfg1 with goal := .all }
def cfg2 : Cfg := { cfg1 with goal := .count 2 }

theorem clean0 : Clean cfg1 fs0 ([e1] ++ [e2]) := by decide
theorem applied0 : AppliedOK fs0 := .inl (by decide)

/-- one patch, then the rest; against both at once -/
theorem pushes :
    (let o1 := pushSpec cfg1 fs0
     let o2 := pushSpec cfgA o1.fs
     let oAll := pushSpec cfg2 fs0
     o1.exit == 0 && o2.exit == 0 && oAll.exit == 0 && !o2.ioError && !oAll.ioError &&
     fileAt o1.fs [[97]] == some ([121, 10], 0o644) &&
     fileAt o1.fs appliedKey == some ([112, 49, 10], 0o644) &&
     fileAt o2.fs [[97]] == some ([122, 10], 0o644) &&
     fileAt oAll.fs [[97]] == some ([122, 10], 0o644) &&
     fileAt o2.fs appliedKey == some ([112, 49, 10, 112, 50, 10], 0o644) &&
     fileAt oAll.fs appliedKey == some ([112, 49, 10, 112, 50, 10], 0o644)) = true := by decide

def isApply (p : Plan) (r : List Series.Entry) : Bool :=
  match p with
  | .apply x => x == r
  | _ => false

theorem isApply_eq {p : Plan} {r : List Series.Entry} (h : isApply p r = true) : p = .apply r := by
  cases p with
  | apply x => simp only [isApply, beq_iff_eq] at h; rw [h]
  | refuse => cases h
  | nothingToDo => cases h

theorem plan1 : isApply (plan cfg1 fs0) [e1] = true := by decide
theorem plan2 : isApply (plan cfgA (pushSpec cfg1 fs0).fs) [e2] = true := by decide
theorem planAll : isApply (plan cfg2 fs0) [e1, e2] = true := by decide

/-- the hypotheses of `C09_pushSpec_composes` hold here, so its conclusions do (the first one is `planAll`) -/
example : plan { cfg1 with goal := .count 2 } fs0 = .apply ([e1] ++ [e2]) :=
  (C09_pushSpec_composes cfg1 .all fs0 [e1] [e2] rfl clean0 applied0 (isApply_eq plan1) (by decide)
    (isApply_eq plan2)).1

end Example

#print axioms C09_oracle_composes
#print axioms C09_refused_together
#print axioms C09_exit_composes
#print axioms C09_success_iff
#print axioms C09_failing_first_push
#print axioms C09_plan_composes
#print axioms C09_pushSpec_composes
#print axioms applyRangeTree_congr
#print axioms applyRangeTree_append
#print axioms specRun_congr
#print axioms Example.pushes
#print axioms C09_hash_name_roundtrip
#print axioms C09_disk_composes_of_bridge

end RQ.Compose
