import RQ.Props.C18Par
import RQ.Lemmas.SaveNoPanic
/-!
# C18 for the parallel driver, without the hypothesis "no panic leaf"

`RQ/Props/C18Par.lean` proves: if the faulty operation was executed the outcome of the push with the
parallel driver is an error — and it is `error` (exit status 1), not `panic`, under the hypothesis
`SaveNoPanic` (no worker's save code has a `fail .panic` leaf).  `RQ/Lemmas/SaveNoPanic.lean` derives that
hypothesis for the states the apply phase really produces (`Par.saveNoPanic_of_parsed`, `Par.saveNoPanic`):
after the apply phase, `rollbackAhead` and `rollbackAndRenderRej`, every worker's `Status`es form a `Chain`
from the empty cache and its cache extends the end of that chain, so the in-memory rollbacks of
`rollback_and_save_backup_files` cannot fail and the new file of a rename is in the cache — for every
`--backup` mode, with renames, for every thread count and every schedule.

Hence, for every configuration, workspace, thread count, pair of schedules under which the run finishes and
fault position:

* `C18_par_fault_is_error_clean`: if the faulty operation was executed, the outcome of the command is
  `error`;
* `C18_par_driver_fault_is_error_clean`: … `parallel::apply_patches` returns `.error (.err, _)`;
* `C18_par_outcome_clean`: whatever happens, an outcome `panic` means the faulty operation was never
  attempted (such a panic is one of the start of the driver — no threads, a file patch without names —, an
  in-memory error of a worker that counts, not a swallowed output failure).

(The example `PanicEx` of `RQ/Props/C18Par.lean` — the save phase alone reporting `panic` after the fault —
starts from worker states that no apply phase produces.)
-/
namespace RQ.Par
open RQ RQ.Push RQ.Parse RQ.ParSave

/-- **C18, parallel driver (`parallel::apply_patches`), no hypothesis about the workers' code**: for every
thread count and every pair of schedules under which the run finishes, if the faulty operation was executed
the driver returns an ordinary error (no `ok`, no panic). -/
theorem C18_par_driver_fault_is_error_clean (w : World) (cfg : Cfg) (range : List Series.Entry) (threads : Nat)
    (schedA schedS : List Nat) (k : Nat) (h0 : w.trace.length ≤ k) (res : WR (World × Nat))
    (hrun : parApplyPatchesF (some k) w cfg range threads schedA schedS = some res)
    (hreach : k < (worldOf res).trace.length) :
    ∃ w', res = .error (.err, w') := by
  obtain ⟨e, w', hres, he⟩ :=
    C18_par_driver_fault_is_error w cfg range threads schedA schedS k h0 res hrun hreach
  refine ⟨w', ?_⟩
  rw [hres, he (saveNoPanic cfg w.fs range threads schedA)]

/-- **C18, parallel driver, the whole command, no hypothesis about the workers' code**: for every
configuration, workspace, thread count, pair of schedules under which the run finishes, and fault position:
if the faulty operation was executed, the outcome of the push is `error` — exit status 1, no success
reported, no crash. -/
theorem C18_par_fault_is_error_clean (cfg : Cfg) (w : World) (threads : Nat) (schedA schedS : List Nat) (k : Nat)
    (h0 : w.trace.length ≤ k) (out : Outcome) (w' : World)
    (hrun : parPushF (some k) cfg w threads schedA schedS = some (out, w'))
    (hreach : k < w'.trace.length) : out = .error :=
  (C18_par_fault_is_error cfg w threads schedA schedS k h0 out w' hrun hreach).2
    (fun range _ => saveNoPanic cfg w.fs range threads schedA)

/-- the outcome of a run with a fault, in one statement: either the faulty operation was not reached, or
the outcome is `error`.  In particular `allApplied`, `notAll` and `panic` all mean: not reached. -/
theorem C18_par_outcome_clean (cfg : Cfg) (w : World) (threads : Nat) (schedA schedS : List Nat) (k : Nat)
    (h0 : w.trace.length ≤ k) (out : Outcome) (w' : World)
    (hrun : parPushF (some k) cfg w threads schedA schedS = some (out, w')) :
    w'.trace.length ≤ k ∨ out = .error := by
  rcases Nat.lt_or_ge k w'.trace.length with h | h
  · exact .inr (C18_par_fault_is_error_clean cfg w threads schedA schedS k h0 out w' hrun h)
  · exact .inl h

/-- the example of `RQ/Props/C18Par.lean` (`push -a --backup always`, two threads), now for EVERY schedule
of the apply phase, every schedule of the save phase and every fault position, nothing decided: if the
faulty operation is reached the outcome is `error` -/
example (threads : Nat) (sA sS : List Nat) (k : Nat) (out : Outcome) (w' : World)
    (h : parPushF (some k) FaultEx.cfg0 FaultEx.w0 threads sA sS = some (out, w')) (hk : k < w'.trace.length) :
    out = .error :=
  C18_par_fault_is_error_clean FaultEx.cfg0 FaultEx.w0 threads sA sS k (Nat.zero_le _) out w' h hk

#print axioms C18_par_driver_fault_is_error_clean
#print axioms C18_par_fault_is_error_clean
#print axioms C18_par_outcome_clean

#print axioms saveNoPanic

end RQ.Par
