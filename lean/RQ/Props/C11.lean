import RQ.Lemmas.ParseTotal
import RQ.Lemmas.Place
import RQ.Lemmas.StripBound
/-!
# C11 — the patch parser is total: any bytes give a patch or an error, never a crash

The model of `parser.rs` (`RQ/Model/Parse.lean`) is a total Lean function, so termination is Lean's own
acceptance of the definitions *provided the fuel it passes to its loops is never exhausted* — that is
`C11_fuel`.  The remaining ways the Rust parser could crash are (i) converting the internal `NoMatch`
into a `ParseError` (`unreachable!`) — `C11_noMatch`; (ii) violating what later stages `assert!`/`unwrap`:
a Create/Delete patch with a hunk count other than 1, a file patch without any name, a hunk whose context
counts exceed its sides (slice ranges of `HunkView`) — `C11_wf`; (iii) allocating out of proportion:
`reserve` is capped by the remaining input in the code, and a successfully parsed hunk has consumed at
least one byte per stored line — `C11_alloc`.  (The overflow sites fixed in the code — `reserve`,
`as isize - 1`, `target + offset` — are covered by the correspondence run on boundary numbers.)
(iv) "terminates" must also mean "in proportion to the input": the only loop of the tool whose bounds
come from numbers *written in the patch* is the offset search of `try_apply_hunk`; `C11_scan_bounded`
shows that it tries at most `len + 1` positions whatever those numbers are (before two repairs it tried
up to 2^63 positions behind the end, respectively before the start, of the file).
(v) the other loop whose bound is a number the user writes is the strip loop of `strip_path`
(`for _ in 0..strip`, the count comes from `-pN` in the series file): `C11_strip_bounded` shows that a count
beyond the length of the name gives what the count `length + 1` gives — each `next()` consumes a byte, so
the loop (which now leaves at the first `None`; before that repair `-p18446744073709551615` spun 2^64
times) needs at most `length + 1` iterations — and `C11_strip_huge_refused` that a count reaching the
number of components leaves the empty name, which the driver refuses (`safeKey = none`).
-/
namespace RQ.Parse
open RQ

/-- the fuel `parsePatch` hands to its loops is never exhausted: the parser terminates by itself -/
theorem C11_fuel (bs : Bytes) (strip : Nat) (wh : Bool) : parsePatch bs strip wh ≠ .error .outOfFuel := by
  unfold parsePatch
  exact (patchLoop_spec strip _ _ _ _ _ (by omega) (by simp)).1

/-- `NoMatch` never escapes `parse_patch` (its conversion to `ParseError` is `unreachable!`) -/
theorem C11_noMatch (bs : Bytes) (strip : Nat) (wh : Bool) : parsePatch bs strip wh ≠ .error .noMatch := by
  unfold parsePatch
  exact patchLoop_noMatch strip _ _ _ _ _

/-- what every later stage relies on (no `assert!`, `unwrap` or slice range can fail on a parsed patch) -/
theorem C11_wf (bs : Bytes) (strip : Nat) (wh : Bool) (p : Patch) (h : parsePatch bs strip wh = .ok p) :
    ∀ fp ∈ p.fps,
      (fp.old.isSome ∨ fp.new.isSome) ∧
      (fp.kind ≠ .modify → fp.hunks.length = 1) ∧
      (fp.rename = true → fp.old.isSome ∧ fp.new.isSome) ∧
      ∀ hk ∈ fp.hunks, hk.WF ∧ 0 ≤ hk.remLine ∧ 0 ≤ hk.addLine ∧ hk.remLine < 2^63 ∧ hk.addLine < 2^63 := by
  unfold parsePatch at h
  exact (patchLoop_spec strip _ _ _ _ _ (by omega) (by simp)).2 p h

/-- a parsed hunk has consumed at least one input byte per stored line on either side, so the memory
for hunk lines is proportional to the input -/
theorem C11_alloc (inp rest : Bytes) (hk : PHunk) (h : parseHunk inp = .ok (rest, hk)) :
    rest.length ≤ inp.length ∧ hk.add.length ≤ inp.length - rest.length ∧ hk.rem.length ≤ inp.length - rest.length := by
  obtain ⟨h1, h2, h3, _⟩ := parseHunk_ok inp rest hk h
  exact ⟨by omega, h2, h3⟩

/-- the offset search of `try_apply_hunk` looks at no more than one position per line of the file, for
every stated line number and every offset inherited from the previous hunk (both come from the patch) -/
theorem C11_scan_bounded (t : Int) (len n : Nat) : (RQ.cands t len n).length ≤ len + 1 :=
  RQ.cands_length_le t len n

/-- the strip loop is bounded by the name, not by the count: every count beyond the length of the name
gives the result of the count `raw.length + 1` -/
theorem C11_strip_bounded (n : Nat) (raw : Bytes) (h : raw.length < n) :
    stripPath n raw = stripPath (raw.length + 1) raw :=
  RQ.stripPath_bound n raw h

/-- a strip count that reaches the number of components of the name (in particular any count from the
length of the name on) leaves no component, and the resulting empty name is refused by the driver -/
theorem C11_strip_huge_refused (n : Nat) (raw : Bytes) (h : (components raw).length ≤ n) :
    components (stripPath n raw) = [] ∧ safeKey (stripPath n raw) = none :=
  RQ.stripPath_huge n raw h

/-! ### non-vacuity -/
-- "a/b" with -p18446744073709551615: the empty name, as with -p4; "a/b" has 2 components
example : stripPath 18446744073709551615 [97, 47, 98] = stripPath 4 [97, 47, 98] :=
  C11_strip_bounded _ _ (by decide)
example : stripPath 4 [97, 47, 98] = [] ∧ stripPath 1 [97, 47, 98] = [98] := by decide
example : (components [97, 47, 98]).length = 2 := by decide
example : RQ.cands (-(2^63) + 4) 1 1 = [0] := by decide
example : RQ.cands (2^63 - 1) 3 1 = [2, 1, 0] := by decide
example : (match parsePatch [45,45,45,32,97,10, 43,43,43,32,98,10, 64,64,32,45,49,32,43,49,32,64,64,10, 45,120,10, 43,121,10] 0 true with
    | .ok p => p.fps.map (fun f => (f.old, f.new, f.hunks.map (fun h => (h.rem, h.add))))
                == [(some [97], some [98], [([[120, 10]], [[121, 10]])])]
    | .error _ => false) = true := by decide

#print axioms C11_fuel
#print axioms C11_noMatch
#print axioms C11_wf
#print axioms C11_alloc
#print axioms C11_scan_bounded
#print axioms C11_strip_bounded
#print axioms C11_strip_huge_refused

end RQ.Parse
