import RQ.Lemmas.RoundTripPlain
/-!
# C01 (text level) — the plain `---` / `+++` dialect, with or without timestamps

C12 covers the dialect the tool itself writes (`diff --git` …).  Here: for any file patch the parser
ever produced (so its hunks are arbitrary parser-acceptable hunks), writing it as a plain unified diff —
`--- <old>`, `+++ <new>` (a missing side as `/dev/null`, names quoted when necessary), each optionally
followed by a tab and a timestamp, then the hunks — is read back as one file patch with the same names
and hunk by hunk the same sides and start lines.
-/
namespace RQ.Write
open RQ RQ.Parse

/-- `--- <old>[<ts>]\n+++ <new>[<ts>]\n`; `ts` is what follows the name up to the end of the line
(e.g. a tab and a date), empty for none -/
def plainHeader (old new : Option Bytes) (ts : Bytes) : Bytes :=
  sMinus ++ (match old with | some n => writeName n | none => Extracted.nullFilename) ++ ts ++ [10] ++
  sPlus ++ (match new with | some n => writeName n | none => Extracted.nullFilename) ++ ts ++ [10]

/-- a timestamp suffix: empty, or a tab followed by anything without a newline -/
def TsOK (ts : Bytes) : Prop := ts = [] ∨ (ts.head? = some 9 ∧ (10 : UInt8) ∉ ts)

theorem C01_parse_plain (bs : Bytes) (strip : Nat) (wh : Bool) (p : Patch) (hp : parsePatch bs strip wh = .ok p)
    (f : PFilePatch) (hf : f ∈ p.fps) (hn : nullNamed f = false) (hh : f.hunks ≠ []) (ts : Bytes) (hts : TsOK ts) :
    ∃ p' f', parsePatch (plainHeader f.old f.new ts ++ (f.hunks.map writeHunk).flatten) 0 false = .ok p' ∧
      p'.fps = [f'] ∧ f'.old = f.old ∧ f'.new = f.new ∧ f'.rename = false ∧ sameHunks f.hunks f'.hunks := by
  have e : plainHeader f.old f.new ts ++ (f.hunks.map writeHunk).flatten =
      plainR f.old f.new ts ((f.hunks.map writeHunk).flatten) := by
    simp only [plainHeader, plainR, nameBytes, List.append_assoc, List.cons_append, List.nil_append]
    rfl
  rw [e]
  exact plain_roundtrip f (parsePatch_inv bs strip wh p hp f hf) hn hh ts hts

#print axioms C01_parse_plain

end RQ.Write
