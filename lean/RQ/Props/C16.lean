import RQ.Lemmas.PathLemmas
import RQ.Lemmas.PathAlias
import RQ.Lemmas.ComposeSeries
import RQ.Spec.Push
/-!
# C16 — per-patch series options and file-name resolution are honoured consistently

Series lines: `RQ.Series` models `read_series_file`; the lemmas below state its contract in the
property's words (comments and blank lines ignored, default strip level, `-pN` and `-R` honoured).
Stripping: `stripPath n` removes exactly `n` leading path components, and a leading `./` that is left
(`dropCur`), so that no stripped name has a `.` component and two spellings of one file (`./x`, `x`) cannot
be two different names (`C16_no_cur`, `C16_no_alias`).  File-name resolution:
`choose` (model, over memory + disk) picks the old name iff that file currently exists, else the new
name, never `/dev/null`; it agrees with `chooseTree` (specification, over the tree) when the memory
is flushed — that is the part of the refinement used by C05/C09.
-/
namespace RQ
open RQ.Series

/-- **stripping removes exactly `n` leading components, and a leading `./` that is left** (the remaining
name has the remaining components, without a leading `.` component) -/
theorem C16_strip_components (n : Nat) (raw : Bytes) :
    components (stripPath n raw) = dropCur ((components raw).drop n) :=
  components_stripPath n raw

/-- a stripped name has no `.` component -/
theorem C16_no_cur (n : Nat) (raw : Bytes) : Comp.cur ∉ components (stripPath n raw) :=
  cur_not_mem_stripPath n raw

/-- **no aliases**: two stripped names that denote the same file (same safe key) are the same path
(`Path == Path` compares components), so one file cannot be two entries of the file cache -/
theorem C16_no_alias (n m : Nat) (a b : Bytes) (k : Key)
    (ha : safeKey (stripPath n a) = some k) (hb : safeKey (stripPath m b) = some k) :
    components (stripPath n a) = components (stripPath m b) :=
  safeKey_stripPath_inj n m a b k ha hb

/-- comment lines and empty lines of the series file are ignored -/
theorem C16_comment_ignored (line : Bytes) (h : line = [] ∨ line.head? = some 35) : parseLine line = .ok none := by
  unfold parseLine
  rcases h with h | h
  · subst h; simp
  · simp [h]

/-- a non-empty line without white space (Unicode `White_Space`, `Series.WsFree`) is one token -/
theorem splitWs_noWs (bs cur : Bytes) (hw : WsFree bs) (hne : cur ++ bs ≠ []) : splitWs bs cur = [cur ++ bs] :=
  splitWs_plain bs cur hw hne

/-- a line with just a patch name uses the default strip level 1 and is not reversed.  (`WsFree name`: no Unicode
white-space character.  "No ASCII white-space byte" is not enough: the line `p<U+00A0>q` is the name `p` with a free
argument `q`, see the examples below.) -/
theorem C16_default_strip (name : Bytes) (hn : name ≠ []) (hw : WsFree name) (hc : name.head? ≠ some 35) :
    parseLine name = .ok (some { name, strip := 1, reverse := false }) := by
  unfold parseLine
  have h1 : name.isEmpty = false := by cases name <;> simp_all
  have h2 : (name.head? == some 35) = false := by simpa using hc
  have h3 := splitWs_noWs name [] hw (by simpa using hn)
  simp only [List.nil_append] at h3
  simp only [h1, h2, h3]
  rfl

/-! ### Unicode white space separates the tokens of a series line (`str::split_whitespace`) -/

/-- the series line `p.patch<U+00A0>-p0` (no-break space, C2 A0): the entry `p.patch` with strip level 0 -/
example : readSeries [112, 46, 112, 97, 116, 99, 104, 0xC2, 0xA0, 45, 112, 48, 10] =
    .ok [{ name := [112, 46, 112, 97, 116, 99, 104], strip := 0, reverse := false }] := by
  unfold readSeries; rfl

/-- the same with U+3000 (ideographic space, E3 80 80) -/
example : readSeries [112, 46, 112, 97, 116, 99, 104, 0xE3, 0x80, 0x80, 45, 112, 48, 10] =
    .ok [{ name := [112, 46, 112, 97, 116, 99, 104], strip := 0, reverse := false }] := by
  unfold readSeries; rfl

/-- `p<U+200B>q` (zero-width space, E2 80 8B — not `White_Space`) stays one name -/
example : readSeries [112, 0xE2, 0x80, 0x8B, 113, 10] =
    .ok [{ name := [112, 0xE2, 0x80, 0x8B, 113], strip := 1, reverse := false }] := by
  unfold readSeries; rfl

example : splitWs [112, 0xE2, 0x80, 0x8B, 113] [] = [[112, 0xE2, 0x80, 0x8B, 113]] := by decide

/-- `p<U+00A0>q` has no ASCII white-space byte, but it is not a line with just a patch name: the name is `p` -/
example : (∀ b ∈ ([112, 0xC2, 0xA0, 113] : Bytes), isWs b = false) ∧
    parseLine [112, 0xC2, 0xA0, 113] = .ok (some { name := [112], strip := 1, reverse := false }) :=
  ⟨by decide, rfl⟩

/-- the file to patch is never `/dev/null` (a missing name) and is one of the two names -/
theorem C16_choose_is_name (m : Push.Mem) (fs : FS) (old new : Option Bytes) (t : Bytes)
    (h : Push.choose m fs old new = some t) : old = some t ∨ new = some t := by
  unfold Push.choose at h
  repeat' split at h
  all_goals simp_all

/-- with both names given and different: the old name iff that file currently exists — in memory if it
was loaded (not deleted), on disk otherwise — else the new name -/
theorem C16_choose_old_iff (m : Push.Mem) (fs : FS) (o n : Bytes) (hne : components o ≠ components n) :
    Push.choose m fs (some o) (some n) =
      some (if (match m.get o with
                | some f => !f.deleted
                | none => (match safeKey o with | some k => fs.exists_ k | none => false)) then o else n) := by
  unfold Push.choose
  have : (components o == components n) = false := by simpa using hne
  simp only [this]
  cases m.get o with
  | none =>
    cases safeKey o with
    | none => simp
    | some k => cases he : fs.exists_ k <;> simp [he]
  | some f => cases hd : f.deleted <;> simp [hd]

#print axioms C16_strip_components
#print axioms C16_no_cur
#print axioms C16_no_alias
#print axioms C16_comment_ignored
#print axioms C16_default_strip
#print axioms C16_choose_is_name
#print axioms C16_choose_old_iff

end RQ
