import RQ.Lemmas.ParFaultLemmas
/-!
# C18 for the parallel driver — an output failure is never reported as success nor recorded as applied

`RQ/Props/C18.lean` proves C18 for the model of the sequential driver.  Here: the parallel driver
(`parallel::apply_patches`), whose worker threads save their files concurrently.  The model with fault
injection is `RQ/Model/ParFault.lean`: `parPushF fault` is `cmd_push` with the parallel driver
(`plan`, `parApplyPatchesF`, `saveApplied`) in which the file-system operation number `fault` fails.  The
number of an operation is its position in the trace of the world — the number of operations executed
before it by anybody; in the save phase: in schedule order, counting the operations of all workers, like the
shared counter of the fault-injection hook.  (From a world with an empty trace, `k` is "the `k`-th
operation of the run", and `k < w'.trace.length` is "`k` < the number of operations the run executed".)

All theorems hold for every thread count and every pair of schedules (apply phase, save phase) under which
the run finishes (`= some _`).

* `C18_par_fault_is_error`: if the faulty operation was executed, the command does not report success
  (`allApplied`, `notAll`); its outcome is `error` (exit status 1) — provided no worker's save code has a
  `panic` leaf (`SaveNoPanic`: the in-memory rollbacks of `rollback_and_save_backup_files` cannot fail; it
  is decidable — `saveNoPanicB` —, holds without quilt backups — `saveNoPanic_of_never` —, and does not
  depend on the fault or the save schedule).  Without that hypothesis the outcome is `error` or `panic`: in
  the model all workers run to their end and the error reported is the one of the first worker in worker
  order, which may be a worker that reached such a leaf while another worker's operation failed.
  `C18_par_driver_fault_is_error`, `C18_par_save_fault_is_error`: the same for `parApplyPatchesF` and for
  the save phase alone.
* `C18_par_success_means_no_fault`: an outcome `allApplied` or `notAll` means the faulty operation was never
  reached.
* `C18_par_recorded_last`: if the driver returns an error, `save_applied_patches` is not called: the
  command ends with that error in the world the driver left, in whose trace no `appendOpen` was added
  (only `save_applied_patches` opens `.pc/applied-patches` for appending).
  `C18_par_applied_unchanged`: and `.pc/applied-patches` is the file it was (content and mode; absent if it
  was absent), provided it is not itself one of the files the push saves, backs up or writes rejects to
  (`AppliedApart`, decidable: `appliedApartB`).
-/
namespace RQ.Par
open RQ RQ.Push RQ.Parse RQ.ParSave

/-- the world in which a run of a part of the driver ends -/
def worldOf {α : Type} : WR (World × α) → World
  | .ok a => a.1
  | .error p => p.2

/-- the operation that is to fail has not been attempted yet (`NotYet` of `RQ/Props/C18.lean`) -/
theorem ny_start (w : World) (k : Nat) (h0 : w.trace.length ≤ k) : NY { w with faultAt := some k } := by
  intro k' hk'
  cases hk'
  exact h0

/-- **C18, parallel driver, the save phase alone**: under every schedule under which all workers finish,
if the faulty operation was executed, the save phase returns an error — the error of a worker, found by
`firstFail` —, an ordinary one if no worker's save code has a panic leaf. -/
theorem C18_par_save_fault_is_error (w : World) (cfg : Cfg) (final rangeLen threads : Nat) (mems : Nat → Mem)
    (applieds : Nat → List Status) (schedS : List Nat) (k : Nat) (hf : w.faultAt = some k)
    (h0 : w.trace.length ≤ k) (res : WR (World × (Nat → List Key)))
    (hrun : savePhaseF w cfg final rangeLen threads mems applieds schedS = some res)
    (hreach : k < (worldOf res).trace.length) :
    ∃ e w', res = .error (e, w') ∧
      ((∀ i, i < threads → (workerSaveC cfg final rangeLen (mems i) (applieds i)).noPanic = true) → e = .err) := by
  obtain ⟨hx, h2, h3⟩ := savePhaseF_spec (P := WorkerOp) w cfg final rangeLen threads mems applieds schedS res
    (fun i _ => (workerSaveC_good _ _ _ _ _).all) hrun
  have hny : NY w := fun k' hk' => by rw [hf] at hk'; cases hk'; exact h0
  cases res with
  | ok a =>
    have hfa : a.1.faultAt = some k := hx.1.trans hf
    exact absurd hreach (Nat.not_lt.mpr (h2 hny a rfl k hfa))
  | error p => exact ⟨p.1, p.2, rfl, fun hnp => h3 hnp p rfl⟩

/-- **C18, parallel driver (`parallel::apply_patches`)**: for every thread count and every pair of
schedules under which the run finishes, if the faulty operation was executed the driver returns an error
(`.error`, not `.ok`); an ordinary error (no panic) if no worker's save code has a panic leaf. -/
theorem C18_par_driver_fault_is_error (w : World) (cfg : Cfg) (range : List Series.Entry) (threads : Nat)
    (schedA schedS : List Nat) (k : Nat) (h0 : w.trace.length ≤ k) (res : WR (World × Nat))
    (hrun : parApplyPatchesF (some k) w cfg range threads schedA schedS = some res)
    (hreach : k < (worldOf res).trace.length) :
    ∃ e w', res = .error (e, w') ∧ (SaveNoPanic cfg w.fs range threads schedA → e = .err) := by
  obtain ⟨hx, h2, h3⟩ := parApplyPatchesF_spec (some k) w cfg range threads schedA schedS res
    (fun _ => rfl) (driverOps_notAppend cfg w.fs range threads schedA) hrun
  have hny := ny_start w k h0
  cases res with
  | ok a =>
    have hfa : a.1.faultAt = some k := hx.1
    exact absurd hreach (Nat.not_lt.mpr (h2 hny a rfl k hfa))
  | error p =>
    refine ⟨p.1, p.2, rfl, fun hnp => ?_⟩
    have hfa : p.2.faultAt = some k := hx.1
    rcases h3 hnp hny p rfl with h | h
    · exact absurd hreach (Nat.not_lt.mpr (h k hfa))
    · exact h

/-- **C18, parallel driver, the whole command**: for every configuration, workspace, thread count, pair of
schedules under which the run finishes, and fault position: if the faulty operation was executed, the push
does not report success, and — if no worker's save code has a panic leaf — its outcome is `error`: exit
status 1, no crash. -/
theorem C18_par_fault_is_error (cfg : Cfg) (w : World) (threads : Nat) (schedA schedS : List Nat) (k : Nat)
    (h0 : w.trace.length ≤ k) (out : Outcome) (w' : World)
    (hrun : parPushF (some k) cfg w threads schedA schedS = some (out, w'))
    (hreach : k < w'.trace.length) :
    (out = .error ∨ out = .panic) ∧
    ((∀ range, plan cfg w.fs = .apply range → SaveNoPanic cfg w.fs range threads schedA) → out = .error) := by
  obtain ⟨hx, h2, h3⟩ := parPushF_spec (some k) cfg w threads schedA schedS out w' hrun
  have hny := ny_start w k h0
  have hfa : w'.faultAt = some k := hx.1
  have hnot : ¬ NY w' := fun h => absurd hreach (Nat.not_lt.mpr (h k hfa))
  refine ⟨?_, fun hnp => ?_⟩
  · cases out with
    | allApplied => exact absurd (h2 hny (.inl rfl)) hnot
    | notAll => exact absurd (h2 hny (.inr rfl)) hnot
    | error => exact .inl rfl
    | panic => exact .inr rfl
  · rcases h3 hnp hny with h | h
    · exact absurd h hnot
    · exact h

/-- conversely a push that reports `allApplied` or `notAll` never hit the fault -/
theorem C18_par_success_means_no_fault (cfg : Cfg) (w : World) (threads : Nat) (schedA schedS : List Nat)
    (k : Nat) (h0 : w.trace.length ≤ k) (out : Outcome) (w' : World)
    (hrun : parPushF (some k) cfg w threads schedA schedS = some (out, w'))
    (hs : out = .allApplied ∨ out = .notAll) : w'.trace.length ≤ k := by
  obtain ⟨hx, h2, _⟩ := parPushF_spec (some k) cfg w threads schedA schedS out w' hrun
  exact h2 (ny_start w k h0) hs k hx.1

/-- the same for the driver: result `ok` ⇒ the faulty operation was not reached -/
theorem C18_par_driver_success_means_no_fault (w : World) (cfg : Cfg) (range : List Series.Entry)
    (threads : Nat) (schedA schedS : List Nat) (k : Nat) (h0 : w.trace.length ≤ k) (w' : World) (final : Nat)
    (hrun : parApplyPatchesF (some k) w cfg range threads schedA schedS = some (.ok (w', final))) :
    w'.trace.length ≤ k := by
  obtain ⟨hx, h2, _⟩ := parApplyPatchesF_spec (some k) w cfg range threads schedA schedS _
    (fun _ => rfl) (driverOps_notAppend cfg w.fs range threads schedA) hrun
  exact h2 (ny_start w k h0) _ rfl k hx.1

/-- **C18 (recording), parallel driver**: the applied patches are recorded only after everything else was
written.  If saving files, backups, cleaning directories or writing rejects failed — `parApplyPatchesF`
returns an error, whatever the fault, the thread count and the schedules —, `save_applied_patches` is not
called: the command ends with that error in the world the driver left; and up to there no operation was
an `appendOpen` (the workers and the main thread's last steps never open a file for appending, only
`save_applied_patches` does, on `.pc/applied-patches`). -/
theorem C18_par_recorded_last (fault : Option Nat) (cfg : Cfg) (w : World) (range : List Series.Entry)
    (threads : Nat) (schedA schedS : List Nat) (e : Fail) (w' : World)
    (h : parApplyPatchesF fault w cfg range threads schedA schedS = some (.error (e, w'))) :
    parPushRangeF fault cfg w range threads schedA schedS = some (outcomeOf e, w') ∧
    ∃ ops, w'.trace = w.trace ++ ops ∧ ∀ o ∈ ops, ∀ key, o ≠ .appendOpen key := by
  refine ⟨parPushRangeF_of_error h, ?_⟩
  obtain ⟨hx, _, _⟩ := parApplyPatchesF_spec fault w cfg range threads schedA schedS _
    (fun _ => rfl) (driverOps_notAppend cfg w.fs range threads schedA) h
  obtain ⟨_, ops, ht, hp, _⟩ := hx
  refine ⟨ops, ht, fun o ho key he => ?_⟩
  have := hp o ho
  rw [he] at this
  cases this

/-- **C18 (recording), on disk**: if the driver returns an error, `.pc/applied-patches` is the file it was
before the push (same content and mode, or absent as before) — provided `.pc/applied-patches` is not
itself one of the files the push saves, backs up or writes rejects to. -/
theorem C18_par_applied_unchanged (fault : Option Nat) (cfg : Cfg) (w : World) (range : List Series.Entry)
    (threads : Nat) (schedA schedS : List Nat) (hapart : AppliedApart cfg w.fs range threads schedA)
    (e : Fail) (w' : World)
    (h : parApplyPatchesF fault w cfg range threads schedA schedS = some (.error (e, w'))) :
    parPushRangeF fault cfg w range threads schedA schedS = some (outcomeOf e, w') ∧
    Flush.fileAt w'.fs appliedKey = Flush.fileAt w.fs appliedKey := by
  refine ⟨parPushRangeF_of_error h, ?_⟩
  obtain ⟨hx, _, _⟩ := parApplyPatchesF_spec (P := Untouched appliedKey) fault w cfg range threads schedA schedS _
    (fun _ => trivial) (driverOps_untouched hapart) h
  exact Ext.frame (w := { w with faultAt := fault }) hx

/-- **without a fault the model with fault injection is the model of the parallel driver** -/
theorem C18_par_no_fault (w : World) (hf : w.faultAt = none) (cfg : Cfg) (range : List Series.Entry)
    (threads : Nat) (schedA schedS : List Nat) :
    parApplyPatchesF none w cfg range threads schedA schedS =
      parApplyPatches w cfg range threads schedA schedS :=
  parApplyPatchesF_none w hf cfg range threads schedA schedS

/-! ### A decided example

Working directory: `a` = "x\n", `b` = "y\n", `series` = "p1 -p0\np2 -p0\n"; `patches/p1` changes `y` into
`Y` in `b`, `patches/p2` changes `x` into `X` in `a`; `push -a --backup always` with two threads: `b`
belongs to worker 0 and `a` to worker 1.  Without a fault the run executes 21 operations (18 by the workers,
interleaved, 3 by `save_applied_patches`) and records `p1`, `p2`.  With the fault at operation 1 — the
first operation of worker 1, unlinking `a` — worker 1 gives up, worker 0 saves `b` and its backup (10
operations in all), the outcome is `error` and `.pc/applied-patches` does not exist. -/
namespace FaultEx

def p1Bytes : Bytes :=
  [45, 45, 45, 32, 98, 10, 43, 43, 43, 32, 98, 10, 64, 64, 32, 45, 49, 32, 43, 49, 32, 64, 64, 10, 45, 121, 10, 43, 89, 10]
def p2Bytes : Bytes :=
  [45, 45, 45, 32, 97, 10, 43, 43, 43, 32, 97, 10, 64, 64, 32, 45, 49, 32, 43, 49, 32, 64, 64, 10, 45, 120, 10, 43, 88, 10]
def pdir : Bytes := [112, 97, 116, 99, 104, 101, 115]
def seriesBytes : Bytes := [112, 49, 32, 45, 112, 48, 10, 112, 50, 32, 45, 112, 48, 10]

def fs0 : FS :=
  { nodes := [([[97]], .file [120, 10] 0o644 1), ([[98]], .file [121, 10] 0o644 2), ([pdir], .dir),
      ([pdir, [112, 49]], .file p1Bytes 0o644 3), ([pdir, [112, 50]], .file p2Bytes 0o644 4),
      ([seriesKey.head!], .file seriesBytes 0o644 5)], nextIno := 6 }
def w0 : World := { fs := fs0 }
def cfg0 : Cfg := { goal := .all, backup := .always }
def range0 : List Series.Entry :=
  [{ name := [112, 49], strip := 0, reverse := false }, { name := [112, 50], strip := 0, reverse := false }]

def schedA : List Nat := [1, 0, 1, 0, 1, 0]
def schedS : List Nat := [0, 1, 1, 0, 0, 1, 0, 1, 0, 1, 0, 1, 0, 1, 0, 1, 0, 1, 0, 1, 0, 1]

/-- the plan: both patches -/
theorem plan0 : (match plan cfg0 fs0 with | .apply r => decide (r = range0) | _ => false) = true := by decide

/-- without a fault: all applied, 21 operations, `.pc/applied-patches` = "p1\np2\n", `a` = "X\n" -/
example : (match parPushF none cfg0 w0 2 schedA schedS with
    | some (out, w') => out == .allApplied && w'.trace.length == 21 &&
        Flush.fileAt w'.fs appliedKey == some ([112, 49, 10, 112, 50, 10], 0o644) &&
        Flush.fileAt w'.fs [[97]] == some ([88, 10], 0o644)
    | none => false) = true := by decide

/-- **the fault at operation 1**: outcome `error`, `.pc/applied-patches` absent; worker 0 went on and
saved `b`, worker 1 gave up before touching `a` (10 operations in all) -/
theorem fault1 : (match parPushF (some 1) cfg0 w0 2 schedA schedS with
    | some (out, w') => out == .error && (w'.fs.lookup appliedKey).isNone && w'.trace.length == 10 &&
        w'.trace[1]? == some (.removeFile [[97]]) &&
        Flush.fileAt w'.fs [[97]] == some ([120, 10], 0o644) &&
        Flush.fileAt w'.fs [[98]] == some ([89, 10], 0o644)
    | none => false) = true := by decide

/-- every fault position that is reached gives `error`; from 21 on the fault is not reached -/
example : (List.range 24).map (fun k => match parPushF (some k) cfg0 w0 2 schedA schedS with
    | some (out, _) => out.exit
    | none => 99) = List.replicate 21 1 ++ [0, 0, 0] := by decide

/-- the hypotheses of the theorems hold here: no panic leaf in the workers' save code, and
`.pc/applied-patches` is none of the files the push writes -/
theorem hyps : saveNoPanicB cfg0 fs0 range0 2 schedA = true ∧ appliedApartB cfg0 fs0 range0 2 schedA = true := by
  decide

/-- so the theorems apply, for EVERY save schedule and fault position: if the faulty operation is reached
the outcome is `error` -/
example (sS : List Nat) (k : Nat) (out : Outcome) (w' : World)
    (h : parPushF (some k) cfg0 w0 2 schedA sS = some (out, w')) (hk : k < w'.trace.length) : out = .error := by
  refine (C18_par_fault_is_error cfg0 w0 2 schedA sS k (Nat.zero_le _) out w' h hk).2 (fun range hr => ?_)
  have : range = range0 := by
    have h1 := plan0
    rw [show fs0 = w0.fs from rfl, hr] at h1
    exact of_decide_eq_true h1
  subst this
  exact saveNoPanic_of_B hyps.1

/-- and whatever the save schedule and the fault: if the driver fails, `.pc/applied-patches` stays absent -/
example (sS : List Nat) (fault : Option Nat) (e : Fail) (w' : World)
    (h : parApplyPatchesF fault w0 cfg0 range0 2 schedA sS = some (.error (e, w'))) :
    Flush.fileAt w'.fs appliedKey = none :=
  (C18_par_applied_unchanged fault cfg0 w0 range0 2 schedA sS (appliedApart_of_B hyps.2) e w' h).2.trans
    (by decide)

end FaultEx

/-! ### Why the hypothesis "no panic leaf" is there

For the save phase alone, with worker states that no apply phase produces, "no panic" is false without
it.  Worker 0's list of applied file patches mentions a file that is not in its cache (its
`rollback_and_save_backup_files` panics before any operation); worker 1 has the changed file `a` to save.
The fault at operation 0 fails worker 1's `unlink`; worker 1 returns an ordinary error, but the first
failing worker in worker order is worker 0: the save phase reports `panic`, after the faulty operation was
executed.  (Such states are not reachable from parsed patches: `RQ.Par.parMemory_clean`.) -/
namespace PanicEx

def fs1 : FS := ⟨[([[97]], .file [111, 108, 100, 10] 0o644 7)], 8⟩
def cfg1 : Cfg := { backup := .always }
def fpA : PFilePatch :=
  { kind := .modify, old := some [97], new := some [97],
    hunks := [{ rem := [[111, 108, 100, 10]], add := [[110, 101, 119, 10]], remLine := 0, addLine := 0,
                pre := 0, suf := 0 }] }
def stA : St :=
  match applyOne {} fs1 cfg1 0 ⟨[112, 49], 0, false⟩ fpA with
  | .ok (st, _) => st
  | .error _ => {}
def mems : Nat → Mem
  | 1 => stA.mem
  | _ => []
def applieds : Nat → List Status
  | 0 => stA.applied
  | _ => []

example : (match savePhaseF { fs := fs1, faultAt := some 0 } cfg1 1 1 2 mems applieds [1, 0, 1, 1] with
    | some (.error (e, w')) => e == .panic && w'.trace.length == 1 &&
        (workerSaveC cfg1 1 1 (mems 0) (applieds 0)).noPanic == false
    | _ => false) = true := by decide

end PanicEx

#print axioms C18_par_save_fault_is_error
#print axioms C18_par_driver_fault_is_error
#print axioms C18_par_fault_is_error
#print axioms C18_par_success_means_no_fault
#print axioms C18_par_driver_success_means_no_fault
#print axioms C18_par_recorded_last
#print axioms C18_par_applied_unchanged
#print axioms C18_par_no_fault
#print axioms FaultEx.fault1

end RQ.Par
