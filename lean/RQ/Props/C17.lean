import RQ.Spec.Push
/-!
# C17 — inconsistent quilt state or arguments are refused cleanly, nothing is touched

`plan` is the decision `cmd_push` takes before anything is applied.  The theorems characterise the
refusals in the property's words and show that a refusal — and a missing or unparseable patch file met
before any patch failed to apply — gives exit status 1 with the world (files, inodes, operation trace)
exactly as it was: no write, no crash.
-/
namespace RQ.Push
open RQ

/-- a refusal: exit status 1, nothing touched -/
theorem C17_refuse (cfg : Cfg) (w : World) (h : plan cfg w.fs = .refuse) :
    push cfg w = (.error, w) ∧ (push cfg w).1.exit = 1 := by
  simp [push, h, Outcome.exit]

section
variable (cfg : Cfg) (fs : FS) (sbytes abytes : Bytes) (sm am : Nat) (series applied : List Series.Entry)
  (hs : fs.readFile seriesKey = .ok (sbytes, sm)) (hss : Series.readSeries sbytes = .ok series)
  (ha : fs.readFile appliedKey = .ok (abytes, am)) (haa : Series.readApplied abytes = .ok applied)
include hs hss ha haa

/-- `.pc/applied-patches` differs from the series at some position ⇒ refused -/
theorem plan_refuse_differs (h : namesMismatch series applied = true) : plan cfg fs = .refuse := by
  simp [plan, hs, hss, ha, haa, h]

/-- `.pc/applied-patches` is longer than the series ⇒ refused (no slice panic any more) -/
theorem plan_refuse_longer (h : applied.length > series.length) : plan cfg fs = .refuse := by
  simp only [plan, hs, hss, ha, haa]
  split
  · rfl
  · simp [h]

/-- the goal names a patch that is not in the series ⇒ refused -/
theorem plan_refuse_unknown (name : Bytes) (hg : cfg.goal = .upTo name)
    (hn : series.findIdx? (fun e => components e.name == components name) = none) : plan cfg fs = .refuse := by
  simp only [plan, hs, hss, ha, haa, hg, hn]
  split
  · rfl
  · split <;> rfl

/-- the goal names a patch that is already applied ⇒ refused -/
theorem plan_refuse_already_applied (name : Bytes) (i : Nat) (hg : cfg.goal = .upTo name)
    (hn : series.findIdx? (fun e => components e.name == components name) = some i)
    (hi : i < applied.length) : plan cfg fs = .refuse := by
  simp only [plan, hs, hss, ha, haa, hg, hn, hi, if_true]
  split
  · rfl
  · split <;> rfl
end

/-- an unreadable `series` file ⇒ refused -/
theorem plan_refuse_no_series (cfg : Cfg) (fs : FS) (e : IOErr) (h : fs.readFile seriesKey = .error e) :
    plan cfg fs = .refuse := by
  simp [plan, h]

/-- a patch file that is missing or does not parse, met while every patch before it applied: the
application loop reports an error … -/
theorem applyLoop_bad_patch (fs : FS) (cfg : Cfg) (entry : Series.Entry) (rest : List Series.Entry) (index : Nat) (st : St)
    (h : (match patchKey cfg entry.name with
          | none => True
          | some pk => match fs.readFile pk with
            | .error _ => True
            | .ok (bytes, _) => match Parse.parsePatch bytes entry.strip false with
              | .error _ => True
              | .ok _ => False)) :
    applyLoop fs cfg (entry :: rest) index st = .error .err := by
  simp only [applyLoop]
  cases h1 : patchKey cfg entry.name with
  | none => rfl
  | some pk =>
    simp only [h1] at h ⊢
    cases h2 : fs.readFile pk with
    | error _ => rfl
    | ok bm =>
      obtain ⟨bytes, m⟩ := bm
      simp only [h2] at h ⊢
      cases h3 : Parse.parsePatch bytes entry.strip false with
      | error _ => rfl
      | ok _ => simp [h3] at h

/-- … and an error of the application loop means exit status 1 and an untouched world -/
theorem C17_apply_error (cfg : Cfg) (w : World) (range : List Series.Entry) (e : Fail)
    (h : applyLoop w.fs cfg range 0 {} = .error e) :
    (pushRange cfg w range).2 = w ∧ (e = .err → (pushRange cfg w range).1.exit = 1) := by
  have : applyPatches w cfg range = .error (e, w) := by simp [applyPatches, h]
  cases e <;> simp [pushRange, this, Outcome.exit]

/-! ### non-vacuity: applied = [a, b], series = [a] -/
example : namesMismatch [⟨[97], 1, false⟩] [⟨[97], 1, false⟩, ⟨[98], 1, false⟩] = false ∧
    ([⟨[97], 1, false⟩, ⟨[98], 1, false⟩] : List Series.Entry).length > ([⟨[97], 1, false⟩] : List Series.Entry).length := by decide

#print axioms C17_refuse
#print axioms plan_refuse_differs
#print axioms plan_refuse_longer
#print axioms plan_refuse_unknown
#print axioms plan_refuse_already_applied
#print axioms plan_refuse_no_series
#print axioms applyLoop_bad_patch
#print axioms C17_apply_error

end RQ.Push
