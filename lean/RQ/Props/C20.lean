import RQ.Lemmas.Phase1
/-!
# C20 — raising the fuzz limit never breaks or changes an application that already succeeded

File-patch level: the fuzz loop tries the levels `0 … min F maxFuzz` in increasing order and stops at the
first success, and the set of levels for `F` is a prefix of the set for `F' ≥ F`.  Hence a file patch all
of whose hunks applied with limit `F` produces the same file and the same hunk reports with every
`F' ≥ F`.  (The series-level statement is a corollary of this one in `RQ.Props.C05`-style refinement;
here the file-patch core.)
-/
set_option linter.unusedSectionVars false
set_option linter.unusedVariables false
namespace RQ
variable {α : Type} [DecidableEq α]

/-- more levels do not change a fuzz loop that succeeded -/
theorem levelLoop_mono {h : Hunk α} {d : Dir} {content : List α} {deleted : Bool} {lo lf : Int} :
    ∀ (k k' f : Nat) (last last' r : Rep) (x : Int × Int), k ≤ k' →
      levelLoop h d content deleted lo lf k f last = (r, some x) →
      levelLoop h d content deleted lo lf k' f last' = (r, some x) := by
  intro k
  induction k with
  | zero => intro k' f last last' r x _ hh; simp [levelLoop] at hh
  | succ k ih =>
    intro k' f last last' r x hk hh
    cases k' with
    | zero => omega
    | succ k' =>
      simp only [levelLoop] at hh ⊢
      split
      · rename_i heq
        simp only [heq] at hh
        exact hh
      · rename_i hne
        split at hh
        · rename_i a b c e g heq
          exact absurd heq (hne a b c e g)
        · exact ih k' (f+1) _ _ r x (by omega) hh

theorem tryApply_not_skipped (v : View α) (content : List α) (deleted : Bool) (lo lf : Int) :
    tryApply v content deleted lo lf ≠ .skipped := by
  unfold tryApply
  split
  · simp
  · split
    · simp
    · split
      · simp
      · split <;> simp

/-- a fuzz loop with at least one level that does not end in an application ends in a failure -/
theorem levelLoop_none_failed {h : Hunk α} {d : Dir} {content : List α} {deleted : Bool} {lo lf : Int} :
    ∀ (k f : Nat) (last r : Rep), levelLoop h d content deleted lo lf k f last = (r, none) →
      (k = 0 ∧ r = last) ∨ r.isFailed = true := by
  intro k
  induction k with
  | zero => intro f last r hh; simp [levelLoop] at hh; exact Or.inl ⟨rfl, hh.symm⟩
  | succ k ih =>
    intro f last r hh
    simp only [levelLoop] at hh
    split at hh
    · simp at hh
    · rename_i hne
      rcases ih (f+1) _ r hh with ⟨_, rfl⟩ | hf
      · right
        cases hr : tryApply (view h d f) content deleted lo lf with
        | applied a b c e g => exact absurd hr (hne a b c e g)
        | failed _ => rfl
        | skipped => exact absurd hr (tryApply_not_skipped _ _ _ _ _)
      · exact Or.inr hf

/-- **C20 (first loop)**: if no hunk failed with limit `F`, the reports with any `F' ≥ F` are identical -/
theorem C20_phase1 (d : Dir) (F F' : Nat) (content : List α) (deleted : Bool) (hF : F ≤ F') :
    ∀ (hs : List (Hunk α)) (lo lf : Int),
      (∀ r ∈ phase1 d F content deleted hs lo lf, r.isFailed = false) →
      phase1 d F' content deleted hs lo lf = phase1 d F content deleted hs lo lf := by
  intro hs
  induction hs with
  | nil => intro _ _ _; rfl
  | cons h hs ih =>
    intro lo lf hok
    simp only [phase1] at hok ⊢
    cases hl : levelLoop h d content deleted lo lf (min F h.maxFuzz + 1) 0 .skipped with
    | mk r o =>
      cases o with
      | some x =>
        obtain ⟨lo', lf'⟩ := x
        have hl' := levelLoop_mono (min F h.maxFuzz + 1) (min F' h.maxFuzz + 1) 0 .skipped .skipped r (lo', lf')
          (by omega) hl
        rw [hl']
        simp only [hl] at hok
        simp only
        rw [ih lo' lf' (fun r hr => hok r (by simp [hr]))]
      | none =>
        exfalso
        simp only [hl] at hok
        have := hok r (by simp)
        rcases levelLoop_none_failed _ _ _ _ hl with ⟨h0, _⟩ | hf
        · omega
        · rw [hf] at this; cases this

theorem phase2_failed (d : Dir) : ∀ (hs : List (Hunk α)) (reps : List Rep) (c : List α) (mo : Int) (c' : List α) (reps' : List Rep),
    hs.length = reps.length → phase2 d hs reps c mo = some (c', reps') → reps'.map Rep.isFailed = reps.map Rep.isFailed := by
  intro hs
  induction hs with
  | nil => intro reps c mo c' reps' hl hh
           cases reps with
           | nil => simp [phase2] at hh; simp [hh.2.symm]
           | cons r rs => simp at hl
  | cons h hs ih =>
    intro reps c mo c' reps' hl hh
    cases reps with
    | nil => simp at hl
    | cons r rs =>
      cases r with
      | applied line rb off diff fz =>
        simp only [phase2] at hh
        split at hh
        · simp at hh
        · split at hh
          · simp at hh
          · split at hh
            · simp at hh
            · split at hh
              · simp at hh
              · rename_i c2 rs2 heq
                simp only [Option.some.injEq, Prod.mk.injEq] at hh
                obtain ⟨_, rfl⟩ := hh
                simp only [List.map_cons, Rep.isFailed]
                rw [ih rs _ _ c2 rs2 (by simpa using hl) heq]
      | failed rr =>
        simp only [phase2] at hh
        split at hh
        · simp at hh
        · rename_i c2 rs2 heq
          simp only [Option.some.injEq, Prod.mk.injEq] at hh
          obtain ⟨_, rfl⟩ := hh
          simp only [List.map_cons]
          rw [ih rs _ _ c2 rs2 (by simpa using hl) heq]
      | skipped =>
        simp only [phase2] at hh
        split at hh
        · simp at hh
        · rename_i c2 rs2 heq
          simp only [Option.some.injEq, Prod.mk.injEq] at hh
          obtain ⟨_, rfl⟩ := hh
          simp only [List.map_cons]
          rw [ih rs _ _ c2 rs2 (by simpa using hl) heq]

theorem any_failed_of_map {a b : List Rep} (h : a.map Rep.isFailed = b.map Rep.isFailed) :
    a.any Rep.isFailed = b.any Rep.isFailed := by
  have : ∀ l : List Rep, l.any Rep.isFailed = (l.map Rep.isFailed).any id := by
    intro l; induction l with
    | nil => rfl
    | cons x xs ih => simp only [List.any_cons, List.map_cons, ih, id]
  rw [this a, this b, h]

/-- **C20 (modify)**: a file patch that applied completely with limit `F` gives the same file and the
same hunk reports with every limit `F' ≥ F`. -/
theorem C20_applyModify (hs : List (Hunk α)) (d : Dir) (F F' : Nat) (f f' : FileSt α) (rep : Report) (hF : F ≤ F')
    (h : applyModify hs d F .normal f = some (f', rep)) (hok : rep.ok = true) :
    applyModify hs d F' .normal f = some (f', { rep with fuzz := F' }) := by
  simp only [applyModify] at h ⊢
  split at h
  · simp at h
  · rename_i c reps' heq
    simp only [Option.some.injEq, Prod.mk.injEq] at h
    obtain ⟨rfl, rfl⟩ := h
    have hm := phase2_failed d hs _ _ _ _ _ (phase1_length d F f.content f.deleted hs 0 (-1)).symm heq
    have hok1 : ∀ r ∈ phase1 d F f.content f.deleted hs 0 (-1), r.isFailed = false := by
      intro r hr
      have h2 : (phase1 d F f.content f.deleted hs 0 (-1)).any Rep.isFailed = false := by
        rw [← any_failed_of_map hm]
        simpa [Report.ok, Report.failed] using hok
      rw [List.any_eq_false] at h2
      have := h2 r hr
      cases hb : r.isFailed with
      | true => exact absurd hb this
      | false => rfl
    rw [C20_phase1 d F F' f.content f.deleted hF hs 0 (-1) hok1, heq]

theorem applyCreate_indep (h : Hunk α) (d : Dir) (F F' : Nat) (f : FileSt α) :
    (applyCreate h d F' .normal f).1 = (applyCreate h d F .normal f).1 ∧
    (applyCreate h d F' .normal f).2.reps.any Rep.isFailed = (applyCreate h d F .normal f).2.reps.any Rep.isFailed := by
  simp only [applyCreate, prevFailed]
  split
  · simp
  · split <;> simp [Rep.isFailed]

theorem applyDelete_indep (fp : FilePatch α) (h : Hunk α) (d : Dir) (F F' : Nat) (f : FileSt α) :
    (applyDelete fp h d F' .normal f).1 = (applyDelete fp h d F .normal f).1 ∧
    (applyDelete fp h d F' .normal f).2.reps.any Rep.isFailed = (applyDelete fp h d F .normal f).2.reps.any Rep.isFailed := by
  cases d <;> simp only [applyDelete, prevFailed, Bool.false_eq_true, if_false] <;>
    (split <;> simp [Rep.isFailed])

theorem C20_applyKind (fp : FilePatch α) (d : Dir) (F F' : Nat) (f g : FileSt α) (r : Report) (hF : F ≤ F')
    (hk : applyKind fp d F .normal f = some (g, r)) (hok : r.reps.any Rep.isFailed = false) :
    ∃ r', applyKind fp d F' .normal f = some (g, r') ∧ r'.reps.any Rep.isFailed = false ∧
      (fp.kind = .modify → r'.reps = r.reps) := by
  unfold applyKind at hk ⊢
  cases hkind : fp.kind with
  | modify =>
    simp only [hkind] at hk ⊢
    exact ⟨_, C20_applyModify fp.hunks d F F' f g r hF hk (by simpa [Report.ok, Report.failed] using hok), hok, fun _ => rfl⟩
  | create =>
    cases hh : fp.hunks with
    | nil => cases d <;> simp [hkind, hh] at hk
    | cons h t =>
      cases t with
      | cons _ _ => cases d <;> simp [hkind, hh] at hk
      | nil =>
        cases d with
        | fwd =>
          simp only [hkind, hh, Option.some.injEq] at hk ⊢
          have := applyCreate_indep h .fwd F F' f
          refine ⟨_, by rw [Prod.ext_iff]; exact ⟨by rw [this.1, hk], rfl⟩, by rw [this.2, hk]; exact hok, by intro hm; cases hm⟩
        | rev =>
          simp only [hkind, hh, Option.some.injEq] at hk ⊢
          have := applyDelete_indep fp h .rev F F' f
          refine ⟨_, by rw [Prod.ext_iff]; exact ⟨by rw [this.1, hk], rfl⟩, by rw [this.2, hk]; exact hok, by intro hm; cases hm⟩
  | delete =>
    cases hh : fp.hunks with
    | nil => cases d <;> simp [hkind, hh] at hk
    | cons h t =>
      cases t with
      | cons _ _ => cases d <;> simp [hkind, hh] at hk
      | nil =>
        cases d with
        | fwd =>
          simp only [hkind, hh, Option.some.injEq] at hk ⊢
          have := applyDelete_indep fp h .fwd F F' f
          refine ⟨_, by rw [Prod.ext_iff]; exact ⟨by rw [this.1, hk], rfl⟩, by rw [this.2, hk]; exact hok, by intro hm; cases hm⟩
        | rev =>
          simp only [hkind, hh, Option.some.injEq] at hk ⊢
          have := applyCreate_indep h .rev F F' f
          refine ⟨_, by rw [Prod.ext_iff]; exact ⟨by rw [this.1, hk], rfl⟩, by rw [this.2, hk]; exact hok, by intro hm; cases hm⟩

/-- **C20 (file patch)**: any kind; the resulting file is identical and the application is still
complete; for Modify patches the hunk reports are identical too. -/
theorem C20_file (fp : FilePatch α) (d : Dir) (F F' : Nat) (f f' : FileSt α) (rep : Report) (hF : F ≤ F')
    (h : fp.apply d F f = some (f', rep)) (hok : rep.ok = true) :
    ∃ rep', fp.apply d F' f = some (f', rep') ∧ rep'.ok = true ∧ (fp.kind = .modify → rep'.reps = rep.reps) := by
  unfold FilePatch.apply applyInternal at h ⊢
  cases hk : applyKind fp d F .normal f with
  | none => simp [hk] at h
  | some res =>
    obtain ⟨g, r⟩ := res
    simp only [hk] at h
    have hrok : r.reps.any Rep.isFailed = false := by
      split at h <;> simp only [Option.some.injEq, Prod.mk.injEq] at h <;> obtain ⟨_, rfl⟩ := h <;>
        simpa [Report.ok, Report.failed] using hok
    obtain ⟨r', hk', hany, hm⟩ := C20_applyKind fp d F F' f g r hF hk hrok
    simp only [hk']
    split at h <;> simp only [Option.some.injEq, Prod.mk.injEq] at h <;> obtain ⟨rfl, rfl⟩ := h
    all_goals
      refine ⟨_, rfl, ?_, ?_⟩
      · simp only [Report.ok, Report.failed]
        rw [hany]; rfl
      · exact hm

/-! ### non-vacuity: a patch that needs fuzz 1, applied with limit 1 and with limit 3 -/
def exFuzzHunk : Hunk Nat := { rem := [7, 2, 3], add := [7, 9, 3], remLine := 0, addLine := 0, pre := 1, suf := 1 }
example :
    (applyModify [exFuzzHunk] .fwd 1 .normal { content := [1, 2, 3], existed := true, deleted := false, perms := none }).map
      (fun r => (r.1.content, r.2.reps, r.2.ok)) = some ([1, 9, 3], [.applied 1 1 1 0 1], true) ∧
    (applyModify [exFuzzHunk] .fwd 3 .normal { content := [1, 2, 3], existed := true, deleted := false, perms := none }).map
      (fun r => (r.1.content, r.2.reps, r.2.ok)) = some ([1, 9, 3], [.applied 1 1 1 0 1], true) := by decide

#print axioms C20_phase1
#print axioms C20_applyModify
#print axioms C20_file

end RQ
