import RQ.Lemmas.BackupRefine
import RQ.Props.C05Refine
import RQ.Props.C08Disk
/-!
# C08 / C05 (capstone, completed) — the quilt backups of the driver model are those of the specification

`RQ/Props/C05Refine.lean` compares the model of the whole command (`Push.push`) with the executable specification
(`Spec.pushSpec`) at every path OUTSIDE `.pc`, at `.pc/applied-patches`, and — when no backups are due — at every path.
This file closes the remaining case, **backups are due** (`--backup always`, or the default `onfail` when the push stopped
early):

* `C08_backups_refine`: at every path below `.pc` the two trees hold the same regular file (bytes, permission bits) or
  no regular file, and the same directories — in particular at every `.pc/<patch>/<file>`: neither side has a backup
  file the other lacks, and the backup files have the same content.
* `C05_push_refines_pushSpec_all`: the two trees hold the same node at EVERY path, `.pc` included, up to inode
  numbers (`ParSave.FSEquiv`), whether backups are due or not.

How (lemmas: `RQ/Lemmas/BackupRefine.lean`).  Both sides are compared with the abstract run (`Abs.applyRange`):

* the driver: the `Status`es the application loop leaves for patch `j` name exactly the files the abstract run of patch
  `j` chooses (`Abs.chooseA` at every intermediate tree; `applyLoop_nstack`, an invariant next to `Stack` of
  `RQ/Lemmas/RefineBackup.lean`), the backup loop makes a call for each of them and for nothing else (`SlotsD`), and the
  last call for a slot carries the file of the abstract tree before patch `j` (`C08_backup_is_prestate`);
* the specification: `touched` of patch `j` records exactly those names (`Spec.chooseTree` = `Abs.chooseA` under the
  representation invariant `Agree.Inv`), each with the file of the abstract tree before patch `j` — the first state
  seen for a name in a patch is the one from before the patch (`applyRangeTree_binv`);
* on disk, both phases are lists of writes "unlink, `mkdir -p`, create, chmod, write"; a list of writes none of whose paths
  is a directory of another leaves at every path: the last write there, else a directory if the path is on the way to a
  write, else what was there (`afterW_congr`).  The driver writes newest patch first and within a patch newest file
  patch first (so that the oldest state is written last), the specification oldest patch first and only the first
  state per name: the same last writer everywhere (`lastW_agree`).

Hypotheses beyond those of `C05_push_refines_pushSpec`: `PatchPathsDistinct range` — no two entries of the range name
the same patch file.  It is NEEDED: for the series `p1`, `p1 -R` both entries back `a` up to `.pc/p1/a`; the driver
writes the backup of the older entry last (`x`), the specification the backup of the newer entry (`y`):
`Example.dup_entry_differs` (this is the known finding `dup_entry` of `RQ/Props/C08Disk.lean`, seen from the refinement).
`PatchNamesProper` (no patch is called `.`) follows from `Compose.Clean`.
-/
namespace RQ.Refine2
open RQ RQ.Push RQ.Spec RQ.Flush RQ.Agree RQ.Compose RQ.Tight RQ.BackupDisk RQ.BackupRefine
open RQ.ParSave (noIno noIno_cases)

theorem fileAt_of_nodes {a b : FS} {q : Key} (h : (a.lookup q).map noIno = (b.lookup q).map noIno) :
    fileAt a q = fileAt b q := by
  rcases noIno_cases h with ⟨h1, h2⟩ | ⟨h1, h2⟩ | ⟨c, m, i, i', h1, h2⟩ <;> simp [fileAt, h1, h2]

theorem isDir_of_nodes {a b : FS} {q : Key} (h : (a.lookup q).map noIno = (b.lookup q).map noIno) :
    a.isDir q = b.isDir q := by
  rcases noIno_cases h with ⟨h1, h2⟩ | ⟨h1, h2⟩ | ⟨c, m, i, i', h1, h2⟩
  · simp [FS.isDir, h1, h2]
  · simp [FS.isDir, h1, h2]
  · have e : ∀ j, (some (Node.file c m j) == some Node.dir) = false := fun j => by simp
    unfold FS.isDir
    rw [h1, h2, e, e]

theorem proper_of_clean {cfg : Cfg} {fs : FS} {range : List Series.Entry} (h : Clean cfg fs range) :
    PatchNamesProper range := fun e he h0 => ((h e he).nameOK [] h0).1 rfl

/-- **C08 (refinement), nodes**: at every path below `.pc` the driver model and the specification leave the same node —
regular file with bytes and permission bits, directory, or nothing — inode numbers ignored -/
theorem C08_backups_refine_nodes (cfg : Cfg) (w : World) (range : List Series.Entry)
    (hdry : cfg.dryRun = false) (hplan : plan cfg w.fs = .apply range)
    (hT : Tight w.fs) (hclean : Clean cfg w.fs range) (hpf : PrefixFree w.fs cfg range)
    (hterm : ∀ t' ∈ reached w.fs cfg range [], TreeTerminated t')
    (hrun : (Push.push cfg w).1 = .allApplied ∨ (Push.push cfg w).1 = .notAll)
    (hdist : PatchPathsDistinct range)
    (hio : (Spec.pushSpec cfg w.fs).ioError = false) (key : Key) (hkey : isPcKey key) :
    ((Spec.pushSpec cfg w.fs).fs.lookup key).map noIno = ((Push.push cfg w).2.fs.lookup key).map noIno := by
  have hr : Push.push cfg w = pushRange cfg w range := by
    unfold Push.push
    rw [hplan]
  have hs : Spec.pushSpec cfg w.fs = specRun cfg w.fs range := pushSpec_eq_specRun hplan
  rw [hr] at hrun ⊢
  rw [hs] at hio ⊢
  exact pushRange_pc_nodes cfg w range hdry hT hclean hpf hterm hrun hdist (proper_of_clean hclean) hio key hkey

/-- **C08 (refinement)**: below `.pc` the driver model and the specification leave the same regular files — the same
bytes and permission bits at every `.pc/<patch>/<file>`, and neither side has a backup file the other lacks — and the
same directories.  Holds whether backups are due or not; the new content is the case that they are. -/
theorem C08_backups_refine (cfg : Cfg) (w : World) (range : List Series.Entry)
    (hdry : cfg.dryRun = false) (hplan : plan cfg w.fs = .apply range)
    (hT : Tight w.fs) (hclean : Clean cfg w.fs range) (hpf : PrefixFree w.fs cfg range)
    (hterm : ∀ t' ∈ reached w.fs cfg range [], TreeTerminated t')
    (hrun : (Push.push cfg w).1 = .allApplied ∨ (Push.push cfg w).1 = .notAll)
    (hdist : PatchPathsDistinct range)
    (hio : (Spec.pushSpec cfg w.fs).ioError = false) (key : Key) (hkey : isPcKey key) :
    fileAt (Push.push cfg w).2.fs key = fileAt (Spec.pushSpec cfg w.fs).fs key ∧
    (Push.push cfg w).2.fs.isDir key = (Spec.pushSpec cfg w.fs).fs.isDir key := by
  have h := C08_backups_refine_nodes cfg w range hdry hplan hT hclean hpf hterm hrun hdist hio key hkey
  exact ⟨(fileAt_of_nodes h).symm, (isDir_of_nodes h).symm⟩

/-- … spelled out for the backup file of a patch and a file name -/
theorem C08_backup_files_refine (cfg : Cfg) (w : World) (range : List Series.Entry)
    (hdry : cfg.dryRun = false) (hplan : plan cfg w.fs = .apply range)
    (hT : Tight w.fs) (hclean : Clean cfg w.fs range) (hpf : PrefixFree w.fs cfg range)
    (hterm : ∀ t' ∈ reached w.fs cfg range [], TreeTerminated t')
    (hrun : (Push.push cfg w).1 = .allApplied ∨ (Push.push cfg w).1 = .notAll)
    (hdist : PatchPathsDistinct range)
    (hio : (Spec.pushSpec cfg w.fs).ioError = false) (patchName name : Bytes) (key : Key)
    (hkey : pcKey patchName name = some key) :
    fileAt (Push.push cfg w).2.fs key = fileAt (Spec.pushSpec cfg w.fs).fs key :=
  (C08_backups_refine cfg w range hdry hplan hT hclean hpf hterm hrun hdist hio key (pcKey_isPcKey hkey)).1

/-- **C05 (capstone, completed): the whole tree**, `.pc` included, up to inode numbers — whether backups are due or
not.  Outside `.pc`: `C05_push_refines_pushSpec`; below `.pc`: `C08_backups_refine_nodes`. -/
theorem C05_push_refines_pushSpec_all (cfg : Cfg) (w : World) (range : List Series.Entry)
    (hdry : cfg.dryRun = false) (hplan : plan cfg w.fs = .apply range)
    (hT : Tight w.fs) (hclean : Clean cfg w.fs range) (hpf : PrefixFree w.fs cfg range)
    (hterm : ∀ t' ∈ reached w.fs cfg range [], TreeTerminated t')
    (hrun : (Push.push cfg w).1 = .allApplied ∨ (Push.push cfg w).1 = .notAll)
    (hdist : PatchPathsDistinct range)
    (hio : (Spec.pushSpec cfg w.fs).ioError = false) :
    ParSave.FSEquiv (Spec.pushSpec cfg w.fs).fs (Push.push cfg w).2.fs := by
  intro q
  by_cases hq : isPcKey q
  · exact C08_backups_refine_nodes cfg w range hdry hplan hT hclean hpf hterm hrun hdist hio q hq
  · exact (C05_push_refines_pushSpec cfg w range hdry hplan hT hclean hpf hterm hrun hio).2.1 q hq

/-! ## Decided instances -/
namespace Example
open RQ.Compose.FailExample

/-! `Good` (`RQ/Props/C05Refine.lean`): `p0` turns `g` = `a\n` into `b\n`, `p1` fails on `f`; `push -a`, `--backup onfail`
(the default): the push stops early, so backups ARE due: `.pc/p0/g` = `a\n`. -/
namespace Good

theorem distinct0 : PatchPathsDistinct range0 := by decide
theorem due0 : BackupsDue cfgA range0 1 := by decide

/-- the theorem applies: the whole trees agree up to inode numbers -/
theorem whole_tree : ParSave.FSEquiv (Spec.pushSpec cfgA w0.fs).fs (Push.push cfgA w0).2.fs :=
  C05_push_refines_pushSpec_all cfgA w0 range0 rfl plan0 tight0 Good.clean0 pf0 term0 (.inr run0) distinct0 io0

/-- what it says here: the backup of `g` from before `p0` on both sides; `p1` was rolled back, so it has no backup
directory; `.pc` and `.pc/p0` are directories on both sides -/
theorem backup_values :
    (let d := Push.push cfgA w0
     let s := Spec.pushSpec cfgA w0.fs
     let pc : Bytes := [46, 112, 99]
     fileAt d.2.fs [pc, [112, 48], [103]] == some ([97, 10], 0o644) &&
     fileAt s.fs [pc, [112, 48], [103]] == some ([97, 10], 0o644) &&
     d.2.fs.isDir [pc, [112, 48]] && s.fs.isDir [pc, [112, 48]] &&
     d.2.fs.lookup [pc, [112, 49]] == none && s.fs.lookup [pc, [112, 49]] == none &&
     d.2.fs.isDir [pc] && s.fs.isDir [pc]) = true := by decide

end Good

/-! `Twice`: `a` = `x\n` (mode 600); the single patch `pp` patches `a` twice (`x` → `y`, then `y` → `z`) and creates `n`; `push -a
--backup always`.  The driver model writes `.pc/pp/a` twice — the state before the second file patch (`y`) first, the
state before the first (`x`) last; the specification writes only the first state it saw (`x`).  Every hypothesis of the
theorem is decided by the kernel. -/
namespace Twice

def fs0 : FS :=
  { nodes := [([[97]], .file [120, 10] 0o600 1),
      ([[115, 101, 114, 105, 101, 115]], .file [112, 112, 10] 0o644 2),
      ([[112, 97, 116, 99, 104, 101, 115]], .dir),
      ([[112, 97, 116, 99, 104, 101, 115], [112, 112]],
        .file (Abs.Example8.patch1 ++ Abs.Example8.patch2 ++ Abs.Example8.patch3) 0o644 3)], nextIno := 4 }
def w0 : World := { fs := fs0 }
def epp : Series.Entry := { name := [112, 112], strip := Extracted.defaultPatchStrip, reverse := false }
def range0 : List Series.Entry := [epp]
def cfg0 : Cfg := { backup := .always, goal := .all }

theorem plan0 : plan cfg0 w0.fs = .apply range0 := plan_of_isApply (by decide)
theorem tight0 : Tight w0.fs := tightB_sound (by decide)
theorem clean0 : Clean cfg0 w0.fs range0 := by decide
theorem pf0 : PrefixFree w0.fs cfg0 range0 := by decide
theorem term0 : ∀ t' ∈ reached w0.fs cfg0 range0 [], TreeTerminated t' := by decide
theorem run0 : (Push.push cfg0 w0).1 = .allApplied := by decide
theorem io0 : (Spec.pushSpec cfg0 w0.fs).ioError = false := by decide
theorem distinct0 : PatchPathsDistinct range0 := by decide

theorem whole_tree : ParSave.FSEquiv (Spec.pushSpec cfg0 w0.fs).fs (Push.push cfg0 w0).2.fs :=
  C05_push_refines_pushSpec_all cfg0 w0 range0 rfl plan0 tight0 clean0 pf0 term0 (.inl run0) distinct0 io0

/-- three file patches, three backup calls of the driver model (two of them for `.pc/pp/a`), two recorded files in the
specification; on disk the same: `.pc/pp/a` = `x\n` with the mode of `a`, `.pc/pp/n` zero-length with mode 644 -/
theorem backup_values :
    (let d := Push.push cfg0 w0
     let s := Spec.pushSpec cfg0 w0.fs
     let pc : Bytes := [46, 112, 99]
     (match applyLoop w0.fs cfg0 range0 0 {} with
      | .ok (st, k, _) =>
        (match Abs.backupCalls st.mem st.applied (backupDownTo cfg0 k) with
         | .ok (calls, _) => calls.length == 3 && (writesD calls).length == 3
         | .error _ => false)
      | .error _ => false) &&
     (match Spec.applyRangeTree cfg0 w0.fs range0 (start w0.fs) with
      | .ok p => (writesS p.backups).length == 2
      | .error _ => false) &&
     fileAt d.2.fs [[97]] == some ([122, 10], 0o600) && fileAt s.fs [[97]] == some ([122, 10], 0o600) &&
     fileAt d.2.fs [pc, [112, 112], [97]] == some ([120, 10], 0o600) &&
     fileAt s.fs [pc, [112, 112], [97]] == some ([120, 10], 0o600) &&
     fileAt d.2.fs [pc, [112, 112], [110]] == some ([], 0o644) &&
     fileAt s.fs [pc, [112, 112], [110]] == some ([], 0o644) &&
     fileAt d.2.fs appliedKey == some ([112, 112, 10], 0o644) &&
     fileAt s.fs appliedKey == some ([112, 112, 10], 0o644)) = true := by decide

end Twice

/-! `PatchPathsDistinct` is needed.  The working directory of `RQ/Props/C08Disk.lean` (`a` = `x\n`, `patches/p1` turns `x`
into `y`), range `p1`, `p1 -R` (the same patch file listed twice), `--backup always`: both entries back `a` up to
`.pc/p1/a`.  The driver model writes the backups newest patch first, so the backup of entry 0 (`x\n`) stays; the
specification writes them oldest patch first, so the backup of entry 1 (`y\n`) stays.  Everything else agrees. -/
theorem dup_entry_differs :
    (let d := pushRange Abs.Example8.cfgB Abs.Example8.w0 [Abs.Example8.e1, Abs.Example8.e1R]
     let s := specRun Abs.Example8.cfgB Abs.Example8.w0.fs [Abs.Example8.e1, Abs.Example8.e1R]
     let k : Key := [Abs.Example8.pc, [112, 49], [97]]
     d.1 == .allApplied && s.exit == 0 && !s.ioError &&
     decide (¬ PatchPathsDistinct [Abs.Example8.e1, Abs.Example8.e1R]) &&
     fileAt d.2.fs k == some ([120, 10], 0o600) && fileAt s.fs k == some ([121, 10], 0o600) &&
     fileAt d.2.fs [[97]] == fileAt s.fs [[97]]) = true := by decide

end Example

#print axioms C08_backups_refine_nodes
#print axioms C08_backups_refine
#print axioms C08_backup_files_refine
#print axioms C05_push_refines_pushSpec_all
#print axioms Example.Good.whole_tree
#print axioms Example.Good.backup_values
#print axioms Example.Twice.whole_tree
#print axioms Example.Twice.backup_values
#print axioms Example.dup_entry_differs

end RQ.Refine2
