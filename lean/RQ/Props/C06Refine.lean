import RQ.Lemmas.ParRefine
import RQ.Props.C05Refine
import RQ.Props.C06
/-!
# C06 (lifted) — the parallel driver at EVERY path outside `.pc`; the parallel driver refines the specification

`C06_parallel_eq_sequential_tree` (`RQ/Props/C06.lean`) compares the disk after the parallel push with the disk after the
sequential push at regular files under names that have no `.` component, are no reject file and not below `.pc`.
Here the comparison is lifted to the *node* — regular file with content and permission bits, or directory, or nothing —
at EVERY path outside `.pc` (`Compose.OutsidePc`): tracked files, the reject files of the failing patch, directories
(those created for new files, those removed because their last file was deleted).

* `C06_parallel_tight`: the parallel driver keeps tight trees tight (`RQ/Lemmas/Tight.lean`: outside `.pc` the parents
  of every node are directories, every directory has a regular file below it).  No reference to the sequential driver.
* `C06_parallel_outsidePc`: under every pair of schedules, parallel and sequential push report the same number of
  applied patches and leave the same node at every path outside `.pc`.
* `C06_parallel_files`: spelled out — the same regular file (or none) and the same directory test at every path
  outside `.pc`, in particular at the path of every reject file.
* `C06_par_refines_pushSpec`: the parallel driver refines the executable specification `pushSpec` at every path outside
  `.pc`, with the exit status the number of applied patches gives.  Proven DIRECTLY against the specification
  (`ParRefine.parallel_refines_specRun`): no hypothesis about a run of the sequential driver.
* `C06_par_refines_pushSpec_via_seq`: the same as a corollary of `C05_push_refines_pushSpec` and
  `C06_parallel_outsidePc` (specification ~ sequential driver ~ parallel driver), for when the sequential driver model is
  known to have met no I/O error; it adds that the two commands end with the same `Outcome`.

Hypotheses of `C06_parallel_outsidePc`, and why:

* `0 < threads`, the range parses (`parseRange … = some patches`; otherwise the parallel driver refuses up front, the
  sequential one only when it gets there), `cfg.dryRun = false` (a dry run writes nothing): as in
  `C06_parallel_eq_sequential_tree`.
* `hsolo` (each worker's save succeeds when it runs alone from the starting tree) and `hdisj` (`KeysDisjoint`: no file
  key of a worker is a prefix of a key of another one): the hypotheses of `C06_save_phase`; they make the interleaved
  save phase equal (up to inode numbers) to the workers saving one after another.  Both are decidable once the in-memory
  result `pr` of the apply phase is known.
* `Tight w.fs`: needed for the directories — known finding `empty-dir-kept`: an empty directory in the starting tree
  is removed or kept depending on what happens to be written, and agreement on regular files does not determine the
  directories of a tree that is not tight.  Decided by `Tight.tightB`.
* both runs succeed (`applyPatches … = .ok …`, `parApplyPatches … = some (.ok …)`): the statement compares results;
  which operation of a failing run fails is C18's subject.

NOT needed:

* `w.faultAt = none` (a run whose operations all answered `ok` did what the file system says; the scheduling model of
  the save phase has no fault injection);
* any hypothesis on the reject files.  One might expect to need "no two reject files of the failing patch for the same
  path on DIFFERENT workers" — the sequential driver writes the reject files in series order, the main thread of the
  parallel driver worker by worker, and a later reject file replaces an earlier one at the same path
  (`dup-entry-rej-overwrite`), so the order matters per path.  That hypothesis (`ParRefine.RejApart`) is PROVEN for
  patches that come out of the parser (`ParRefine.rejApart_of_parsed`): a reject file is called `<name>.rej` for one of
  the two names of its file patch; names from the parser have no `.` component (fix a775f93); `<a>.rej` and `<b>.rej`
  are the same path only if `a` and `b` are equal as `Path`s (`ParRefine.rejKey_inj`); and file patches with a common
  `Path` are queued for the same worker (C07).  Each worker's list is a sub-list of the sequential list in the same
  order (`C06_apply_eq_sequential`), so per path the rejects are written in the same order on both sides;
* `Compose.Clean`, `PrefixFree`, terminated lines: the hypotheses of the sequential refinement theorem are not
  needed to compare the two drivers with each other (they are for `C06_par_refines_pushSpec`, which goes through it).

`C06_par_refines_pushSpec` takes, besides the hypotheses about the parallel run, those hypotheses of
`C05_push_refines_pushSpec` that speak about the starting tree and the specification: `plan` chose the range, `Tight`,
`Compose.Clean` (no patch names one of quilt's own files …), `PrefixFree` and terminated lines (known findings
`dir-file-swap`, `unterminated-line-mid-file`), and the specification reports no output failure of its last phase.  It
does NOT assume that the sequential driver ran without I/O error: the specification's tree is compared with the
parallel disk directly — after the workers' saves and the cleaning both hold what the caches show
(`ParRefine.spec_fileAt_eq_flushView`, `ParRefine.cache_views_agree`), and the specification's `putRejects` is mirrored
on the `fileAt` level by the same `rejStep` as the driver's loop (`ParRefine.putRejects_written`).
`C06_par_refines_pushSpec_via_seq` is the corollary through the sequential driver (with `hrun`).
-/
namespace RQ.Par
open RQ RQ.Push RQ.Spec RQ.Flush RQ.Agree RQ.Compose RQ.Tight RQ.Parse

/-- **C06 (the parallel driver keeps tight trees tight)**: for a range that parses, a real run, every pair of
schedules under which the parallel push succeeds — each worker's save succeeding alone and the workers' keys being
prefix-free as in `C06_save_phase` —: if outside `.pc` the starting tree has directories as parents of all nodes and a
regular file below every directory, so has the tree after the push (reject files written, emptied directories
removed by the main thread). -/
theorem C06_parallel_tight (w wPar : World) (cfg : Cfg) (range : List Series.Entry) (threads : Nat)
    (schedA schedS : List Nat) (kPar : Nat) (ht : 0 < threads) (hdry : cfg.dryRun = false) (hT : Tight w.fs)
    {patches : List (Series.Entry × List PFilePatch)} (hparse : parseRange w.fs cfg range = some patches)
    (hsolo : ∀ pr, parMemory w.fs cfg patches threads schedA = some (.ok pr) → ∀ i, i < threads →
      ∃ r, workerSave cfg pr.final patches.length ⟨w.fs, [], none⟩ (pr.sts i).mem (pr.sts i).applied = .ok r)
    (hdisj : ∀ pr, parMemory w.fs cfg patches threads schedA = some (.ok pr) →
      KeysDisjoint (saveKeys cfg pr.final patches.length (fun i => (pr.sts i).mem) (fun i => (pr.sts i).applied)) threads)
    (hpar : parApplyPatches w cfg range threads schedA schedS = some (.ok (wPar, kPar))) :
    Tight wPar.fs :=
  ParRefine.parallel_tight w wPar cfg range threads schedA schedS kPar ht hdry hT hparse hsolo hdisj hpar

/-- **C06 (parallel push = single-threaded push at every path outside `.pc`, every pair of thread schedules).**
`parApplyPatches w cfg range threads schedA schedS` is the model of `parallel::apply_patches` (`schedA` interleaves the
workers' apply phase, `schedS` their save phase at the granularity of single file-system operations), `applyPatches` the
model of the sequential driver.  For a range all of whose patches parse, at least one thread, a real run from a tight
tree, each worker's save succeeding alone and the workers' keys prefix-free (`C06_save_phase`): if both drivers
succeed, they report the same number of applied patches, and the two disks hold the same node — regular file with
content and permission bits, directory, or nothing — at EVERY path outside `.pc`: tracked files, reject files,
directories.  Both disks are tight. -/
theorem C06_parallel_outsidePc (w wSeq wPar : World) (cfg : Cfg) (range : List Series.Entry) (threads : Nat)
    (schedA schedS : List Nat) (kSeq kPar : Nat) (ht : 0 < threads) (hdry : cfg.dryRun = false) (hT : Tight w.fs)
    {patches : List (Series.Entry × List PFilePatch)} (hparse : parseRange w.fs cfg range = some patches)
    (hsolo : ∀ pr, parMemory w.fs cfg patches threads schedA = some (.ok pr) → ∀ i, i < threads →
      ∃ r, workerSave cfg pr.final patches.length ⟨w.fs, [], none⟩ (pr.sts i).mem (pr.sts i).applied = .ok r)
    (hdisj : ∀ pr, parMemory w.fs cfg patches threads schedA = some (.ok pr) →
      KeysDisjoint (saveKeys cfg pr.final patches.length (fun i => (pr.sts i).mem) (fun i => (pr.sts i).applied)) threads)
    (hseq : applyPatches w cfg range = .ok (wSeq, kSeq))
    (hpar : parApplyPatches w cfg range threads schedA schedS = some (.ok (wPar, kPar))) :
    kPar = kSeq ∧ OutsidePc wSeq.fs wPar.fs ∧ Tight wSeq.fs ∧ Tight wPar.fs :=
  ParRefine.parallel_outsidePc w wSeq wPar cfg range threads schedA schedS kSeq kPar ht hdry hT hparse hsolo hdisj
    hseq hpar

/-- the conclusion spelled out: the same regular file (content, permission bits) or no regular file, and the same
answer to "is this a directory", at every path outside `.pc` — in particular at the path of every reject file -/
theorem C06_parallel_files (w wSeq wPar : World) (cfg : Cfg) (range : List Series.Entry) (threads : Nat)
    (schedA schedS : List Nat) (kSeq kPar : Nat) (ht : 0 < threads) (hdry : cfg.dryRun = false) (hT : Tight w.fs)
    {patches : List (Series.Entry × List PFilePatch)} (hparse : parseRange w.fs cfg range = some patches)
    (hsolo : ∀ pr, parMemory w.fs cfg patches threads schedA = some (.ok pr) → ∀ i, i < threads →
      ∃ r, workerSave cfg pr.final patches.length ⟨w.fs, [], none⟩ (pr.sts i).mem (pr.sts i).applied = .ok r)
    (hdisj : ∀ pr, parMemory w.fs cfg patches threads schedA = some (.ok pr) →
      KeysDisjoint (saveKeys cfg pr.final patches.length (fun i => (pr.sts i).mem) (fun i => (pr.sts i).applied)) threads)
    (hseq : applyPatches w cfg range = .ok (wSeq, kSeq))
    (hpar : parApplyPatches w cfg range threads schedA schedS = some (.ok (wPar, kPar)))
    (key : Key) (hk : ¬ isPcKey key) :
    fileAt wPar.fs key = fileAt wSeq.fs key ∧ wPar.fs.isDir key = wSeq.fs.isDir key ∧
      wPar.fs.exists_ key = wSeq.fs.exists_ key := by
  obtain ⟨_, h, _, _⟩ := C06_parallel_outsidePc w wSeq wPar cfg range threads schedA schedS kSeq kPar ht hdry hT
    hparse hsolo hdisj hseq hpar
  exact ⟨(h.fileAt_eq hk).symm, (h.isDir_eq hk).symm, (h.exists_eq hk).symm⟩

/-- **C06 (the parallel driver refines the specification).**  `plan` has chosen `range`; the starting tree is tight; the
range is `Clean` and `PrefixFree`, lines are terminated (the hypotheses of `C05_push_refines_pushSpec` about the input);
the range parses, each worker's save succeeds alone and the workers' keys are prefix-free (`C06_save_phase`); the
specification reports no output failure.  Whenever the parallel driver succeeds under the schedules `schedA`, `schedS`,
reporting `kPar` applied patches: the specification's exit status is the one `cmd_push` derives from `kPar`, the disk
holds the specification's node at EVERY path outside `.pc` — tracked files, reject files of the failing patch,
directories — and is tight.  Nothing is assumed about the sequential driver. -/
theorem C06_par_refines_pushSpec (cfg : Cfg) (w wPar : World) (range : List Series.Entry) (threads : Nat)
    (schedA schedS : List Nat) (kPar : Nat) (ht : 0 < threads) (hdry : cfg.dryRun = false)
    (hplan : plan cfg w.fs = .apply range) (hT : Tight w.fs) (hclean : Compose.Clean cfg w.fs range)
    (hpf : PrefixFree w.fs cfg range) (hterm : ∀ t' ∈ reached w.fs cfg range [], TreeTerminated t')
    {patches : List (Series.Entry × List PFilePatch)} (hparse : parseRange w.fs cfg range = some patches)
    (hsolo : ∀ pr, parMemory w.fs cfg patches threads schedA = some (.ok pr) → ∀ i, i < threads →
      ∃ r, workerSave cfg pr.final patches.length ⟨w.fs, [], none⟩ (pr.sts i).mem (pr.sts i).applied = .ok r)
    (hdisj : ∀ pr, parMemory w.fs cfg patches threads schedA = some (.ok pr) →
      KeysDisjoint (saveKeys cfg pr.final patches.length (fun i => (pr.sts i).mem) (fun i => (pr.sts i).applied)) threads)
    (hpar : parApplyPatches w cfg range threads schedA schedS = some (.ok (wPar, kPar)))
    (hio : (Spec.pushSpec cfg w.fs).ioError = false) :
    (Spec.pushSpec cfg w.fs).exit = (if kPar == range.length then 0 else 1) ∧
    OutsidePc (Spec.pushSpec cfg w.fs).fs wPar.fs ∧ Tight wPar.fs := by
  have hs : Spec.pushSpec cfg w.fs = specRun cfg w.fs range := pushSpec_eq_specRun hplan
  rw [hs] at hio ⊢
  exact ParRefine.parallel_refines_specRun w wPar cfg range threads schedA schedS kPar ht hdry hT hclean hpf hterm
    hparse hsolo hdisj hpar hio

/-- **C06 + C05 (corollary through the sequential driver).**  When in addition the model of the sequential command
`Push.push` is known to have ended without I/O error or panic (`hrun`): `C05_push_refines_pushSpec` and
`C06_parallel_outsidePc` compose — specification ~ sequential driver ~ parallel driver —, and the sequential command's
`Outcome` is the one `cmd_push` derives from the parallel driver's `kPar`. -/
theorem C06_par_refines_pushSpec_via_seq (cfg : Cfg) (w wPar : World) (range : List Series.Entry) (threads : Nat)
    (schedA schedS : List Nat) (kPar : Nat) (ht : 0 < threads) (hdry : cfg.dryRun = false)
    (hplan : plan cfg w.fs = .apply range) (hT : Tight w.fs) (hclean : Compose.Clean cfg w.fs range)
    (hpf : PrefixFree w.fs cfg range) (hterm : ∀ t' ∈ reached w.fs cfg range [], TreeTerminated t')
    (hrun : (Push.push cfg w).1 = .allApplied ∨ (Push.push cfg w).1 = .notAll)
    {patches : List (Series.Entry × List PFilePatch)} (hparse : parseRange w.fs cfg range = some patches)
    (hsolo : ∀ pr, parMemory w.fs cfg patches threads schedA = some (.ok pr) → ∀ i, i < threads →
      ∃ r, workerSave cfg pr.final patches.length ⟨w.fs, [], none⟩ (pr.sts i).mem (pr.sts i).applied = .ok r)
    (hdisj : ∀ pr, parMemory w.fs cfg patches threads schedA = some (.ok pr) →
      KeysDisjoint (saveKeys cfg pr.final patches.length (fun i => (pr.sts i).mem) (fun i => (pr.sts i).applied)) threads)
    (hpar : parApplyPatches w cfg range threads schedA schedS = some (.ok (wPar, kPar)))
    (hio : (Spec.pushSpec cfg w.fs).ioError = false) :
    (if kPar == range.length then Outcome.allApplied else Outcome.notAll).exit = (Spec.pushSpec cfg w.fs).exit ∧
    (Push.push cfg w).1 = (if kPar == range.length then Outcome.allApplied else Outcome.notAll) ∧
    OutsidePc (Spec.pushSpec cfg w.fs).fs wPar.fs := by
  obtain ⟨hexit, hout, _⟩ := Refine2.C05_push_refines_pushSpec cfg w range hdry hplan hT hclean hpf hterm hrun hio
  have hr : Push.push cfg w = pushRange cfg w range := by
    unfold Push.push
    rw [hplan]
  rw [hr] at hrun hexit hout ⊢
  obtain ⟨w4, final, w5, happly, hsa, hpr⟩ := Refine2.pushRange_ok hdry hrun
  obtain ⟨hk, hO, _, _⟩ := C06_parallel_outsidePc w w4 wPar cfg range threads schedA schedS final kPar ht hdry hT
    hparse hsolo hdisj happly hpar
  rw [hpr] at hexit hout ⊢
  subst hk
  refine ⟨hexit, rfl, ?_⟩
  have h45 : OutsidePc w4.fs w5.fs := (Refine2.saveApplied_spec hsa).1.outside
  exact hout.trans (h45.symm.trans hO)

/-! ### The instance of `RQ/Props/C06.lean` (`ParEx`): two workers, the first patch failing, a worker running ahead

`a` = `x\n`, `b` = `y\n`; `p1` wants to change `z` in `b` (fails: `b.rej`), `p2` changes `a`; worker 1 applies `p2`
before worker 0 has published the failure of `p1` and rolls it back.  The starting tree is tight; the hypotheses of
`C06_parallel_outsidePc` are decided.  Whatever the save schedule: the parallel push reports `0` and leaves the node of
the sequential push at EVERY path outside `.pc` — `b.rej` included, which `C06_parallel_eq_sequential_tree` does not
reach. -/
namespace ParEx

theorem tight0 : Tight w0.fs := tightB_sound (by decide)

theorem refine_instance (sS : List Nat) (w' : World) (k' : Nat)
    (h : parApplyPatches w0 cfg0 range0 2 schedA sS = some (.ok (w', k'))) :
    ∃ w'', applyPatches w0 cfg0 range0 = .ok (w'', 0) ∧ k' = 0 ∧ OutsidePc w''.fs w'.fs ∧ Tight w'.fs ∧
      fileAt w'.fs bRej = fileAt w''.fs bRej ∧ (fileAt w'.fs bRej).isSome = true := by
  cases hp : parseRange fs0 cfg0 range0 with
  | none => exact absurd hp (by decide)
  | some ps =>
    have hlen : ps.length = 2 := parseRange_length range0 ps hp
    have hprOf : ∀ pr, parMemory w0.fs cfg0 ps 2 schedA = some (.ok pr) → pr = prOf := by
      intro pr hm
      unfold prOf
      simp only [hp]
      have hm' : parMemory fs0 cfg0 ps 2 schedA = some (.ok pr) := hm
      rw [hm']
    have hs := seq0
    cases hseq : applyPatches w0 cfg0 range0 with
    | error e => rw [hseq] at hs; cases hs
    | ok y =>
      obtain ⟨w'', k''⟩ := y
      rw [hseq] at hs
      simp only [Bool.and_eq_true, beq_iff_eq] at hs
      obtain ⟨⟨⟨hk0, _⟩, _⟩, hrej⟩ := hs
      subst hk0
      obtain ⟨hk, hO, _, hT'⟩ := C06_parallel_outsidePc w0 w'' w' cfg0 range0 2 schedA sS 0 k' (by decide) rfl tight0
        (patches := ps) hp
        (by
          intro pr hm i hi
          rw [hprOf pr hm, hlen]
          apply SaveEx.exists_ok_of_isOk
          match i, hi with
          | 0, _ => decide
          | 1, _ => decide)
        (by
          intro pr hm
          rw [hprOf pr hm, hlen]
          decide)
        hseq h
      have hb : fileAt w'.fs bRej = fileAt w''.fs bRej :=
        (hO.fileAt_eq (by unfold isPcKey; decide)).symm
      exact ⟨w'', rfl, hk, hO, hT', hb, by rw [hb]; exact hrej⟩

end ParEx

/-! ### An instance against the specification: the working directory `Good` of `RQ/Props/C09Fail.lean`

`g` = `a\n`, `f` = `x\n`, `series` = `p0\np1\n`; `p0` turns `g` into `b\n`, `p1` wants to turn `y` into `z` in `f` and
fails; `push -a` with two threads (`g` and `f` live on different workers).  All hypotheses of
`C06_par_refines_pushSpec` about the input are the decided facts of `RQ/Props/C05Refine.lean` (`Example.Good`); the
hypotheses about the workers are decided here.  Whatever the save schedule: exit status 1, and the disk holds the
specification's node at every path outside `.pc` — `g` patched, `f` not, the reject file `f.rej`. -/
namespace SpecEx
open RQ.Compose.FailExample RQ.Refine2.Example.Good

def schedA : List Nat := [1, 0, 1, 0]

/-- the in-memory result of the parallel push under `schedA` -/
def prOf : ParResult :=
  match parseRange w0.fs cfgA range0 with
  | some ps => (match parMemory w0.fs cfgA ps 2 schedA with
    | some (.ok pr) => pr
    | _ => { final := 0, sts := fun _ => {}, rejs := fun _ => [] })
  | none => { final := 0, sts := fun _ => {}, rejs := fun _ => [] }

theorem refines (sS : List Nat) (w' : World) (k' : Nat)
    (h : parApplyPatches w0 cfgA range0 2 schedA sS = some (.ok (w', k'))) :
    (Spec.pushSpec cfgA w0.fs).exit = (if k' == 2 then 0 else 1) ∧ OutsidePc (Spec.pushSpec cfgA w0.fs).fs w'.fs ∧
      Tight w'.fs ∧ fileAt w'.fs kG = some ([98, 10], 0o644) ∧ fileAt w'.fs kF = some ([120, 10], 0o644) ∧
      fileAt w'.fs kFrej = fileAt (Spec.pushSpec cfgA w0.fs).fs kFrej ∧ (fileAt w'.fs kFrej).isSome = true := by
  cases hp : parseRange w0.fs cfgA range0 with
  | none => exact absurd hp (by decide)
  | some ps =>
    have hlen : ps.length = 2 := parseRange_length range0 ps hp
    have hprOf : ∀ pr, parMemory w0.fs cfgA ps 2 schedA = some (.ok pr) → pr = prOf := by
      intro pr hm
      unfold prOf
      simp only [hp]
      rw [hm]
    obtain ⟨hexit, hO, hT'⟩ := C06_par_refines_pushSpec cfgA w0 w' range0 2 schedA sS k' (by decide) rfl plan0 tight0
      Good.clean0 pf0 term0 (patches := ps) hp
      (by
        intro pr hm i hi
        rw [hprOf pr hm, hlen]
        apply SaveEx.exists_ok_of_isOk
        match i, hi with
        | 0, _ => decide
        | 1, _ => decide)
      (by
        intro pr hm
        rw [hprOf pr hm, hlen]
        decide)
      h io0
    have hv := values
    simp only [Bool.and_eq_true, beq_iff_eq] at hv
    obtain ⟨⟨⟨⟨⟨⟨⟨⟨⟨_, _⟩, _⟩, hg⟩, _⟩, hf⟩, hr1⟩, hr2⟩, _⟩, _⟩ := hv
    have eG : fileAt (Spec.pushSpec cfgA w0.fs).fs kG = fileAt w'.fs kG := hO.fileAt_eq (by unfold isPcKey; decide)
    have eF : fileAt (Spec.pushSpec cfgA w0.fs).fs kF = fileAt w'.fs kF := hO.fileAt_eq (by unfold isPcKey; decide)
    have eR : fileAt (Spec.pushSpec cfgA w0.fs).fs kFrej = fileAt w'.fs kFrej :=
      hO.fileAt_eq (by unfold isPcKey; decide)
    refine ⟨hexit, hO, hT', by rw [← eG]; exact hg, by rw [← eF]; exact hf, eR.symm, ?_⟩
    rw [← eR, ← hr2]
    exact hr1

/-- a save schedule under which the parallel push succeeds (the theorem is not vacuous here): 1 patch applied -/
def schedS : List Nat := [0, 1, 1, 0, 0, 1, 0, 1, 0, 1, 0, 1, 0, 1, 0, 1, 0, 1, 0, 1]

theorem runs : (match parApplyPatches w0 cfgA range0 2 schedA schedS with
    | some (.ok (_, k)) => k == 1
    | _ => false) = true := by decide

end SpecEx

#print axioms C06_parallel_tight
#print axioms C06_parallel_outsidePc
#print axioms C06_parallel_files
#print axioms C06_par_refines_pushSpec
#print axioms C06_par_refines_pushSpec_via_seq
#print axioms SpecEx.refines
#print axioms SpecEx.runs
#print axioms ParEx.refine_instance

end RQ.Par
