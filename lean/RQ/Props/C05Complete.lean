import RQ.Lemmas.DriverSucceeds
import RQ.Props.C08Refine
/-!
# C05 (completed) — the driver does not fail spuriously: the refinement theorem without the hypothesis on the driver's run

`C05_push_refines_pushSpec` (`RQ/Props/C05Refine.lean`) and `C05_push_refines_pushSpec_all` (`RQ/Props/C08Refine.lean`)
say: the model of `rapidquilt push` with the sequential driver (`Push.push`) and the executable specification
(`Spec.pushSpec`) end with the same exit status and the same tree — *provided the driver's run ended with "all applied"
or "not all applied"*, i.e. met no I/O error and did not panic (`hrun`).  Property C05 says "the exit status is 0 exactly
when the whole requested range applied"; the direction "the whole range applies ⇒ exit status 0" needs that the driver
does not fail where the specification succeeds.  This file discharges `hrun`:

* `C05_driver_succeeds`: with no fault injected, if the specification neither refuses the range while applying it
  (`¬ Refused`: no unsafe name, no unreadable file, nothing in the way of a file the patches name) nor meets an output
  failure in its last phase (`ioError = false`: nothing in the way of a reject file, a backup file or
  `.pc/applied-patches`), the driver model ends with `allApplied` or `notAll`.
* `C05_push_is_pushSpec`, `C05_push_is_pushSpec_all`: the refinement theorems without `hrun`.
* `C05_exit_zero_iff`: the driver's outcome is "all applied" (exit status 0) exactly when the specification's exit status
  is 0; `C05_whole_range_applies`: if the specification's exit status is 0 — the whole range applies, nothing in the way
  of the bookkeeping — the driver's outcome is "all applied" (here `¬ Refused` and `ioError = false` follow from the
  exit status).

No hypothesis beyond those of `C05_push_refines_pushSpec` is needed except the three that replace `hrun`
(`w.faultAt = none`, `¬ Refused`, `ioError = false`): in particular *no* well-formedness of the tree below `.pc`, *no*
`PatchPathsDistinct` (that one is needed for the trees to agree below `.pc`, not for the driver to succeed).  Why
(lemmas: `RQ/Lemmas/DriverSucceeds.lean`):

1. the application loop fails exactly when the abstract run does (`C05_apply_refines`), and then the specification
   refuses (`spec_agree`); rollbacks never abort (`C08_backups_total`);
2. `saveAll`: an entry of the cache is `Ready` (its path was read, or answered "not found", when it was loaded:
   `MemLd`, a new invariant of the loop next to `MemOK`), and stays `Ready` while entries with paths apart from its own
   are saved (distinct keys, `PrefixFree`), in whatever order;
3. `cleanAll`: the directories cleaned are ancestors of removed files — directories of the starting tree (tightness),
   so directories or gone; the working directory is never empty (`series` is there);
4. `saveRejFiles`: simulated against `putRejects` on a tree that agrees outside `.pc`; where the driver's unlink or
   create would fail the specification's `putFile` fails too;
5. backups: every call of the driver writes where the specification writes too (`call_specWrite`, from `SlotsD`/`BInv`);
   a sequence of writes "unlink, `mkdir -p`, create" succeeds iff each write could be made first and no path is a
   directory of another (`WChain.allOK`, `saveBackups_succeeds`) — independent of order and multiplicity, so the
   specification's success (oldest patch first, first state per name) gives the driver's (newest first, all states);
6. `.pc/applied-patches`: `mkdir -p .pc` and the open-for-append succeed iff a write at `.pc/applied-patches` could
   (`PcFree`), and that is carried across the backups on both sides.

Each of the three hypotheses is needed: `Needed.fault`, `Needed.inTheWay`, `Needed.refused` (decided).
-/
namespace RQ.Refine2
open RQ RQ.Push RQ.Spec RQ.Flush RQ.Agree RQ.Compose RQ.Tight RQ.BackupDisk

/-- **C05: the driver does not fail spuriously.** -/
theorem C05_driver_succeeds (cfg : Cfg) (w : World) (range : List Series.Entry)
    (hf : w.faultAt = none) (hdry : cfg.dryRun = false) (hplan : plan cfg w.fs = .apply range)
    (hT : Tight w.fs) (hclean : Clean cfg w.fs range) (hpf : PrefixFree w.fs cfg range)
    (hterm : ∀ t' ∈ reached w.fs cfg range [], TreeTerminated t')
    (hnr : ¬ Refused cfg w.fs range)
    (hio : (Spec.pushSpec cfg w.fs).ioError = false) :
    (Push.push cfg w).1 = .allApplied ∨ (Push.push cfg w).1 = .notAll := by
  have hr : Push.push cfg w = pushRange cfg w range := by
    unfold Push.push
    rw [hplan]
  rw [pushSpec_eq_specRun hplan] at hio
  rw [hr]
  exact Succeeds.pushRange_succeeds cfg w range hf hdry hT hclean hpf hterm (Succeeds.series_of_plan hplan) hnr hio

/-- **C05 (capstone) without the hypothesis on the driver's run**: same exit status, the same node at every path outside
`.pc`, the same `.pc/applied-patches` -/
theorem C05_push_is_pushSpec (cfg : Cfg) (w : World) (range : List Series.Entry)
    (hf : w.faultAt = none) (hdry : cfg.dryRun = false) (hplan : plan cfg w.fs = .apply range)
    (hT : Tight w.fs) (hclean : Clean cfg w.fs range) (hpf : PrefixFree w.fs cfg range)
    (hterm : ∀ t' ∈ reached w.fs cfg range [], TreeTerminated t')
    (hnr : ¬ Refused cfg w.fs range)
    (hio : (Spec.pushSpec cfg w.fs).ioError = false) :
    (Push.push cfg w).1.exit = (Spec.pushSpec cfg w.fs).exit ∧
    OutsidePc (Spec.pushSpec cfg w.fs).fs (Push.push cfg w).2.fs ∧
    fileAt (Push.push cfg w).2.fs appliedKey = fileAt (Spec.pushSpec cfg w.fs).fs appliedKey :=
  C05_push_refines_pushSpec cfg w range hdry hplan hT hclean hpf hterm
    (C05_driver_succeeds cfg w range hf hdry hplan hT hclean hpf hterm hnr hio) hio

/-- **C05 (capstone, the whole tree) without the hypothesis on the driver's run**: the same node at every path, `.pc`
included, up to inode numbers (`PatchPathsDistinct`: see `RQ/Props/C08Refine.lean`) -/
theorem C05_push_is_pushSpec_all (cfg : Cfg) (w : World) (range : List Series.Entry)
    (hf : w.faultAt = none) (hdry : cfg.dryRun = false) (hplan : plan cfg w.fs = .apply range)
    (hT : Tight w.fs) (hclean : Clean cfg w.fs range) (hpf : PrefixFree w.fs cfg range)
    (hterm : ∀ t' ∈ reached w.fs cfg range [], TreeTerminated t')
    (hnr : ¬ Refused cfg w.fs range) (hdist : PatchPathsDistinct range)
    (hio : (Spec.pushSpec cfg w.fs).ioError = false) :
    (Push.push cfg w).1.exit = (Spec.pushSpec cfg w.fs).exit ∧
    ParSave.FSEquiv (Spec.pushSpec cfg w.fs).fs (Push.push cfg w).2.fs := by
  have hrun := C05_driver_succeeds cfg w range hf hdry hplan hT hclean hpf hterm hnr hio
  exact ⟨(C05_push_refines_pushSpec cfg w range hdry hplan hT hclean hpf hterm hrun hio).1,
    C05_push_refines_pushSpec_all cfg w range hdry hplan hT hclean hpf hterm hrun hdist hio⟩

/-- **C05: exit status 0 exactly when the whole range applied** — the driver's outcome is "all applied" iff the
specification's exit status is 0 -/
theorem C05_exit_zero_iff (cfg : Cfg) (w : World) (range : List Series.Entry)
    (hf : w.faultAt = none) (hdry : cfg.dryRun = false) (hplan : plan cfg w.fs = .apply range)
    (hT : Tight w.fs) (hclean : Clean cfg w.fs range) (hpf : PrefixFree w.fs cfg range)
    (hterm : ∀ t' ∈ reached w.fs cfg range [], TreeTerminated t')
    (hnr : ¬ Refused cfg w.fs range)
    (hio : (Spec.pushSpec cfg w.fs).ioError = false) :
    (Push.push cfg w).1 = .allApplied ↔ (Spec.pushSpec cfg w.fs).exit = 0 := by
  have hrun := C05_driver_succeeds cfg w range hf hdry hplan hT hclean hpf hterm hnr hio
  have hex := (C05_push_refines_pushSpec cfg w range hdry hplan hT hclean hpf hterm hrun hio).1
  constructor
  · intro h
    rw [← hex, h]
    rfl
  · intro h
    rcases hrun with h1 | h1
    · exact h1
    · rw [h1, h] at hex
      cases hex

/-- **C05, the direction that needs the driver not to fail**: if the specification's exit status is 0 — the whole
requested range applies and nothing is in the way of the bookkeeping below `.pc` — the driver's outcome is "all
applied", its exit status 0 (`¬ Refused` and `ioError = false` follow from the specification's exit status) -/
theorem C05_whole_range_applies (cfg : Cfg) (w : World) (range : List Series.Entry)
    (hf : w.faultAt = none) (hdry : cfg.dryRun = false) (hplan : plan cfg w.fs = .apply range)
    (hT : Tight w.fs) (hclean : Clean cfg w.fs range) (hpf : PrefixFree w.fs cfg range)
    (hterm : ∀ t' ∈ reached w.fs cfg range [], TreeTerminated t')
    (hexit : (Spec.pushSpec cfg w.fs).exit = 0) :
    (Push.push cfg w).1 = .allApplied ∧ (Push.push cfg w).1.exit = 0 := by
  have hs : Spec.pushSpec cfg w.fs = specRun cfg w.fs range := pushSpec_eq_specRun hplan
  have hexit' := hexit
  rw [hs] at hexit'
  obtain ⟨p, hp, _, _, _, _, hio⟩ := specRun_exit0 hdry hexit'
  have hnr : ¬ Refused cfg w.fs range := by
    intro h
    unfold Refused at h
    rw [hp] at h
    cases h
  rw [← hs] at hio
  have h := (C05_exit_zero_iff cfg w range hf hdry hplan hT hclean hpf hterm hnr hio).mpr hexit
  exact ⟨h, by rw [h]; rfl⟩

/-- did the computation end without error -/
def ranOk {ε α : Type} : Except ε α → Bool | .ok _ => true | .error _ => false

theorem notRefused_of_ranOk {cfg : Cfg} {fs : FS} {range : List Series.Entry}
    (h : ranOk (applyRangeTree cfg fs range (start fs)) = true) : ¬ Refused cfg fs range := by
  intro hr
  unfold Refused at hr
  rw [hr] at h
  cases h

/-! ## Decided instances

The working directories of `RQ/Props/C05Refine.lean` and `RQ/Props/C08Refine.lean`; every hypothesis is decided by the
kernel, the conclusion is what the kernel computes for the driver model. -/
namespace Example
open RQ.Compose.FailExample

namespace Good

/-- `p0` applies, `p1` fails (reject file, backups taken: `--backup onfail`): the theorem gives "all applied or not all
applied" from the hypotheses alone … -/
theorem succeeds : (Push.push cfgA w0).1 = .allApplied ∨ (Push.push cfgA w0).1 = .notAll :=
  C05_driver_succeeds cfgA w0 range0 rfl rfl plan0 tight0 Good.clean0 pf0 term0 (notRefused_of_ranOk (by decide)) io0

/-- … and the kernel computes: not all applied -/
theorem value : (Push.push cfgA w0).1 = .notAll := run0

/-- the refinement theorem without `hrun` -/
theorem is_pushSpec : (Push.push cfgA w0).1.exit = (Spec.pushSpec cfgA w0.fs).exit ∧
    ParSave.FSEquiv (Spec.pushSpec cfgA w0.fs).fs (Push.push cfgA w0).2.fs :=
  C05_push_is_pushSpec_all cfgA w0 range0 rfl rfl plan0 tight0 Good.clean0 pf0 term0 (notRefused_of_ranOk (by decide))
    distinct0 io0

end Good

namespace AllApplied

theorem exit0 : (Spec.pushSpec cfg0 w0.fs).exit = 0 := by decide

/-- the whole range applies: exit status 0 -/
theorem applied : (Push.push cfg0 w0).1 = .allApplied ∧ (Push.push cfg0 w0).1.exit = 0 :=
  C05_whole_range_applies cfg0 w0 range0 rfl rfl plan0 tight0 clean0 pf0 term0 exit0

end AllApplied

namespace Twice

/-- `--backup always`: the backup phase runs (three calls of the driver, two writes of the specification) -/
theorem applied : (Push.push cfg0 w0).1 = .allApplied ∧ (Push.push cfg0 w0).1.exit = 0 :=
  C05_whole_range_applies cfg0 w0 range0 rfl rfl plan0 tight0 clean0 pf0 term0 (by decide)

end Twice

end Example

/-! ## The three hypotheses that replace `hrun` are needed

Each time the working directory `Good` (or a variant), all other hypotheses decided, the driver's outcome `error`. -/
namespace Needed
open RQ.Compose.FailExample

/-- `w.faultAt = none`: the first file-system operation of the run fails (injected fault) -/
theorem fault :
    let w : World := { fs := Good.fs0, faultAt := some 0 }
    plan cfgA w.fs = .apply [e0, e1] ∧ Tight w.fs ∧ Clean cfgA w.fs [e0, e1] ∧ PrefixFree w.fs cfgA [e0, e1] ∧
    (∀ t' ∈ reached w.fs cfgA [e0, e1] [], TreeTerminated t') ∧ ¬ Refused cfgA w.fs [e0, e1] ∧
    (Spec.pushSpec cfgA w.fs).ioError = false ∧ (Push.push cfgA w).1 = .error :=
  ⟨RQ.Refine2.Example.Good.plan0, RQ.Refine2.Example.Good.tight0, Good.clean0, RQ.Refine2.Example.Good.pf0,
    RQ.Refine2.Example.Good.term0, notRefused_of_ranOk (by decide), RQ.Refine2.Example.Good.io0, by decide⟩

/-- `Good` with a regular file `.pc` -/
def fsPc : FS := { nodes := Good.fs0.nodes ++ [([[46, 112, 99]], .file [] 0o644 6)], nextIno := 7 }

/-- `ioError = false`: `.pc` is a regular file — the specification reports an output failure, the driver an error -/
theorem inTheWay :
    let w : World := { fs := fsPc }
    w.faultAt = none ∧ plan cfgA w.fs = .apply [e0, e1] ∧ Tight w.fs ∧ Clean cfgA w.fs [e0, e1] ∧
    PrefixFree w.fs cfgA [e0, e1] ∧ (∀ t' ∈ reached w.fs cfgA [e0, e1] [], TreeTerminated t') ∧
    ¬ Refused cfgA w.fs [e0, e1] ∧
    (Spec.pushSpec cfgA w.fs).ioError = true ∧ (Push.push cfgA w).1 = .error :=
  ⟨rfl, RQ.Refine2.Example.plan_of_isApply (by decide), tightB_sound (by decide), by decide, by decide, by decide,
    notRefused_of_ranOk (by decide), by decide, by decide⟩

/-- `Good` with a directory `g` (holding a file `g/h`) where `p0` expects a regular file -/
def fsDir : FS :=
  { nodes := [(kG, .dir), (kG ++ [[104]], .file [97, 10] 0o644 1), (kF, .file [120, 10] 0o644 2),
      ([[115, 101, 114, 105, 101, 115]], .file [112, 48, 10, 112, 49, 10] 0o644 3),
      (kPatches, .dir),
      (kPatches ++ [[112, 48]], .file patchG 0o644 4),
      (kPatches ++ [[112, 49]], .file patchF 0o644 5)], nextIno := 6 }

/-- `¬ Refused`: a directory is in the way of a file the first patch names — the specification refuses the push (exit
status 1, nothing touched), the driver ends with an error -/
theorem refused :
    let w : World := { fs := fsDir }
    w.faultAt = none ∧ plan cfgA w.fs = .apply [e0, e1] ∧ Tight w.fs ∧ Clean cfgA w.fs [e0, e1] ∧
    PrefixFree w.fs cfgA [e0, e1] ∧ (∀ t' ∈ reached w.fs cfgA [e0, e1] [], TreeTerminated t') ∧
    ranOk (applyRangeTree cfgA w.fs [e0, e1] (start w.fs)) = false ∧
    (Spec.pushSpec cfgA w.fs).ioError = false ∧ (Spec.pushSpec cfgA w.fs).exit = 1 ∧
    (Push.push cfgA w).1 = .error :=
  ⟨rfl, RQ.Refine2.Example.plan_of_isApply (by decide), tightB_sound (by decide), by decide, by decide, by decide, by decide, by decide,
    by decide, by decide⟩

end Needed

#print axioms C05_driver_succeeds
#print axioms C05_push_is_pushSpec
#print axioms C05_push_is_pushSpec_all
#print axioms C05_exit_zero_iff
#print axioms C05_whole_range_applies
#print axioms Example.Good.succeeds
#print axioms Example.Good.is_pushSpec
#print axioms Example.AllApplied.applied
#print axioms Example.Twice.applied
#print axioms Needed.fault
#print axioms Needed.inTheWay
#print axioms Needed.refused

end RQ.Refine2
