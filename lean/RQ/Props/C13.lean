import RQ.Lemmas.RoundTripRej
import RQ.Props.C09
import RQ.Lemmas.RejDisk
/-!
# C13 — reject files hold exactly the failed hunks of the failing patch

Content: a reject file is `writeRej fp report` = the file-patch header followed by the hunks whose
report is `failed`, in order.  `C13_rej_parses` shows that this text parses (as the parser of C11/C12
reads it) to one file patch for the same file — same names, rename flag, modes, hashes — whose hunks
are exactly the failed hunks, in order, with the same lines on both sides and the same start lines.
Which files get one: the application loop renders reject files only for file patches of the failing
patch whose report has a failed hunk (`C13_no_rej_on_success`, and `RQ.Abs.C05_apply_refines` for the
equality with the specification).
On disk: `C13_rej_on_disk` — after a real run of the sequential driver that succeeds, every rendered
reject `(name, content)` whose directory exists is the regular file at the path of `name`, with exactly
that content and mode 644 (`RQ/Lemmas/RejDisk.lean`: `saveRejFiles_written` describes the path after the
loop of `save_rej_files` in general, `rejView`); `C13_rej_no_dir` — if the directory does not exist, no
reject file is written and a stale one is gone (it is unlinked before the creation is attempted).

Since the repair of the finding `rej-dir-order`, `save_rej_files` bypasses a reject whose path leads through a
regular file (`ENOTDIR` is treated like a missing directory: `Push.World.opRej`).  The model's file system does
not force the parents of a node to be directories, so "the directory exists" is stated for what it means on a real
file system: in `C13_rej_on_disk` the directory of the path exists *with all directories leading to it* (`hdir`);
in `C13_rej_no_dir` nothing on the way to the path is a regular file in the final tree and no other reject of the
push goes to a path on the way (`hpath`, `hpre`) — on a tree whose nodes have directories as parents all of these
follow from the plain directory test.  Without them the statements fail on ill-formed trees: a reject bypassed with
`ENOTDIR` below a regular file is neither written nor is a stale file there unlinked.
-/
namespace RQ.Write
open RQ RQ.Parse

/-- the rejected part of a file patch: the same header, only the failed hunks -/
def rejPatch (f : PFilePatch) (rep : Report) : PFilePatch := { f with hunks := failedHunks f.hunks rep.reps }

theorem writeRej_eq (f : PFilePatch) (rep : Report) (h : rep.ok = false) :
    writeRej f rep = writeFilePatch (rejPatch f rep) := by
  unfold writeRej
  rw [h]
  rfl

/-- **C13 (content)**: the reject file of a file patch that came out of the parser parses back to exactly
its failed hunks -/
theorem C13_rej_parses (bs : Bytes) (strip : Nat) (wh : Bool) (p : Patch) (hp : parsePatch bs strip wh = .ok p)
    (f : PFilePatch) (hf : f ∈ p.fps) (hn : nullNamed f = false)
    (rep : Report) (hl : rep.reps.length = f.hunks.length) (hfail : rep.ok = false) :
    ∃ p' f', parsePatch (writeRej f rep) 0 true = .ok p' ∧ p'.fps = [f'] ∧
      f'.old = f.old ∧ f'.new = f.new ∧ f'.rename = f.rename ∧
      f'.oldPerm = f.oldPerm ∧ f'.newPerm = f.newPerm ∧ f'.oldHash = f.oldHash ∧ f'.newHash = f.newHash ∧
      sameHunks (failedHunks f.hunks rep.reps) f'.hunks := by
  rw [writeRej_eq f rep hfail]
  have hany : rep.reps.any Rep.isFailed = true := by
    simpa [Report.ok, Report.failed] using hfail
  exact rej_roundtrip f (parsePatch_inv bs strip wh p hp f hf) hn (failedHunks f.hunks rep.reps)
    (failedHunks_mem f.hunks rep.reps) (failedHunks_ne f.hunks rep.reps hl hany)

/-- a push that applies its whole range renders no reject file -/
theorem C13_no_rej_on_success (fs : FS) (cfg : Push.Cfg)
    (range : List Series.Entry) (k : Nat) (t t' : Abs.ATree) (k' : Nat) (rejs : List (Bytes × Bytes))
    (h : Abs.applyRange fs cfg range k t = .ok (t', k', rejs)) (hk : k' = k + range.length) : rejs = [] :=
  Abs.applyRange_success_no_rej fs cfg range k t t' k' rejs h hk

/-- **C13 (on disk)**: the reject files are where the user looks for them, and hold what was rendered.
A real (non-dry) run of `applyPatches` returns `.ok (w', k)`; its application loop rendered the reject
files `rejs`.  For every `(name, content) ∈ rejs` with path `key` (`safeKey name = some key`) outside
`.pc`, provided no other reject for the same path carries a different content (`huniq`; in particular:
the failing patch has only one failing file patch for that file — two of them is the known finding
dup-entry-rej-overwrite, the later one wins) and the directory of `key` exists in the final tree `w'.fs`, with
the directories leading to it (`hdir`: every prefix of `key.dropLast` is a directory; so nothing on the way to
`key` is a regular file, and `save_rej_files` did not bypass the reject with `ENOTDIR`):
the regular file at `key` in `w'.fs` has exactly the bytes `content` and mode 644.
With `C13_rej_parses` (`content` parses back to exactly the failed hunks) this puts the failed hunks on
disk.  No assumption on fault injection is needed: a run that returns `.ok` met no fault. -/
theorem C13_rej_on_disk (w w' : Push.World) (cfg : Push.Cfg) (range : List Series.Entry) (st : Push.St)
    (final k : Nat) (rejs : List (Bytes × Bytes)) (hdry : cfg.dryRun = false)
    (hloop : Push.applyLoop w.fs cfg range 0 {} = .ok (st, final, rejs))
    (h : Push.applyPatches w cfg range = .ok (w', k))
    (name content : Bytes) (key : Key) (hmem : (name, content) ∈ rejs) (hkey : safeKey name = some key)
    (huniq : ∀ r ∈ rejs, safeKey r.1 = some key → r.2 = content)
    (hpc : ¬ Flush.isPcKey key) (hdir : ∀ q, q <+: key.dropLast → w'.fs.isDir q = true) :
    Flush.fileAt w'.fs key = some (content, 0o644) :=
  Flush.applyPatches_rej_on_disk w w' cfg range st final k rejs hdry hloop h name content key hmem hkey huniq
    hpc hdir

/-- the special case the task names: the name of the reject occurs only once among the rendered rejects,
and no differently spelled name among them denotes the same path -/
theorem C13_rej_on_disk_once (w w' : Push.World) (cfg : Push.Cfg) (range : List Series.Entry) (st : Push.St)
    (final k : Nat) (rejs : List (Bytes × Bytes)) (hdry : cfg.dryRun = false)
    (hloop : Push.applyLoop w.fs cfg range 0 {} = .ok (st, final, rejs))
    (h : Push.applyPatches w cfg range = .ok (w', k))
    (name content : Bytes) (key : Key) (hmem : (name, content) ∈ rejs) (hkey : safeKey name = some key)
    (honce : ∀ r ∈ rejs, safeKey r.1 = some key → r = (name, content))
    (hpc : ¬ Flush.isPcKey key) (hdir : ∀ q, q <+: key.dropLast → w'.fs.isDir q = true) :
    Flush.fileAt w'.fs key = some (content, 0o644) :=
  C13_rej_on_disk w w' cfg range st final k rejs hdry hloop h name content key hmem hkey
    (fun r hr hk => by rw [honce r hr hk]) hpc hdir

/-- the complement: the directory of a reject path does not exist in the final tree — then there is no
file at that path: none is written, and an old one has been unlinked.  `hpath`, `hpre`: nothing on the way to
the path is a regular file in the final tree, and no reject of the push goes to a path on the way to it — so the
rejects for the path were not bypassed with `ENOTDIR` (which happens before the unlink). -/
theorem C13_rej_no_dir (w w' : Push.World) (cfg : Push.Cfg) (range : List Series.Entry) (st : Push.St)
    (final k : Nat) (rejs : List (Bytes × Bytes)) (hdry : cfg.dryRun = false)
    (hloop : Push.applyLoop w.fs cfg range 0 {} = .ok (st, final, rejs))
    (h : Push.applyPatches w cfg range = .ok (w', k))
    (key : Key) (hex : Flush.isRejKey rejs key) (hpc : ¬ Flush.isPcKey key)
    (hdir : w'.fs.isDir key.dropLast = false)
    (hpath : w'.fs.fileOnPath key = false) (hpre : ∀ q, Flush.isRejKey rejs q → ¬ q <+: key.dropLast) :
    Flush.fileAt w'.fs key = none :=
  Flush.applyPatches_rej_no_dir w w' cfg range st final k rejs hdry hloop h key hex hpc hdir hpath hpre

/-! ### non-vacuity: `b` = "y\n", `patches/p1` wants to change `z` into `Z` in `b` and fails -/
namespace RejEx
open RQ.Push

/-- `--- b\n+++ b\n@@ -1 +1 @@\n-z\n+Z\n` -/
def p1Bytes : Bytes :=
  [45, 45, 45, 32, 98, 10, 43, 43, 43, 32, 98, 10, 64, 64, 32, 45, 49, 32, 43, 49, 32, 64, 64, 10, 45, 122, 10, 43, 90, 10]
def pdir : Bytes := [112, 97, 116, 99, 104, 101, 115]
def fs0 : FS :=
  { nodes := [([[98]], .file [121, 10] 0o644 1), ([pdir], .dir), ([pdir, [112, 49]], .file p1Bytes 0o644 2)],
    nextIno := 3 }
def w0 : World := { fs := fs0 }
def cfg0 : Cfg := {}
def range0 : List Series.Entry := [{ name := [112, 49], strip := 0, reverse := false }]
/-- `b.rej` -/
def bRejName : Bytes := [98, 46, 114, 101, 106]

theorem loop0 : (match applyLoop w0.fs cfg0 range0 0 {} with
    | .ok (_, k, rejs) => k == 0 && rejs.map (·.1) == [bRejName]
    | .error _ => false) = true := by decide

theorem run0 : (match applyPatches w0 cfg0 range0 with
    | .ok (_, k) => k == 0
    | .error _ => false) = true := by decide

/-- all hypotheses of `C13_rej_on_disk` hold for this push, so `b.rej` is on disk with the rendered content -/
example : ∃ w' k st final content, applyPatches w0 cfg0 range0 = .ok (w', k) ∧
    applyLoop w0.fs cfg0 range0 0 {} = .ok (st, final, [(bRejName, content)]) ∧
    Flush.fileAt w'.fs [bRejName] = some (content, 0o644) := by
  have hl := loop0
  have hr := run0
  cases hloop : applyLoop w0.fs cfg0 range0 0 {} with
  | error e => rw [hloop] at hl; cases hl
  | ok r =>
    obtain ⟨st, final, rejs⟩ := r
    rw [hloop] at hl
    simp only [Bool.and_eq_true, beq_iff_eq] at hl
    obtain ⟨_, hnames⟩ := hl
    cases hrun : applyPatches w0 cfg0 range0 with
    | error e => rw [hrun] at hr; cases hr
    | ok r2 =>
      obtain ⟨w', k⟩ := r2
      match rejs, hnames, hloop with
      | [(n, content)], hnames, hloop =>
        simp only [List.map_cons, List.map_nil, List.cons.injEq, and_true] at hnames
        subst hnames
        refine ⟨w', k, st, final, content, rfl, rfl, ?_⟩
        have hkey : safeKey bRejName = some [bRejName] := by decide
        exact C13_rej_on_disk w0 w' cfg0 range0 st final k _ rfl hloop hrun bRejName content [bRejName]
          (List.mem_cons_self ..) hkey
          (fun r hr _ => by simp only [List.mem_cons, List.not_mem_nil, or_false] at hr; rw [hr])
          (by unfold Flush.isPcKey; decide)
          (fun q hq => by
            have : q = [] := by simpa [bRejName] using hq
            subst this; rfl)

end RejEx

#print axioms writeRej_eq
#print axioms C13_rej_parses
#print axioms C13_no_rej_on_success
#print axioms Flush.saveRejFiles_isDir
#print axioms Flush.saveRejFiles_written
#print axioms C13_rej_on_disk
#print axioms C13_rej_on_disk_once
#print axioms C13_rej_no_dir

end RQ.Write
