import RQ.Lemmas.RoundTripRej
import RQ.Props.C09
/-!
# C13 — reject files hold exactly the failed hunks of the failing patch

Content: a reject file is `writeRej fp report` = the file-patch header followed by the hunks whose
report is `failed`, in order.  `C13_rej_parses` shows that this text parses (as the parser of C11/C12
reads it) to one file patch for the same file — same names, rename flag, modes, hashes — whose hunks
are exactly the failed hunks, in order, with the same lines on both sides and the same start lines.
Which files get one: the application loop renders reject files only for file patches of the failing
patch whose report has a failed hunk (`C13_no_rej_on_success`, and `RQ.Abs.C05_apply_refines` for the
equality with the specification).
-/
namespace RQ.Write
open RQ RQ.Parse

/-- the rejected part of a file patch: the same header, only the failed hunks -/
def rejPatch (f : PFilePatch) (rep : Report) : PFilePatch := { f with hunks := failedHunks f.hunks rep.reps }

theorem writeRej_eq (f : PFilePatch) (rep : Report) (h : rep.ok = false) :
    writeRej f rep = writeFilePatch (rejPatch f rep) := by
  unfold writeRej
  rw [h]
  rfl

/-- **C13 (content)**: the reject file of a file patch that came out of the parser parses back to exactly
its failed hunks -/
theorem C13_rej_parses (bs : Bytes) (strip : Nat) (wh : Bool) (p : Patch) (hp : parsePatch bs strip wh = .ok p)
    (f : PFilePatch) (hf : f ∈ p.fps) (hn : nullNamed f = false)
    (rep : Report) (hl : rep.reps.length = f.hunks.length) (hfail : rep.ok = false) :
    ∃ p' f', parsePatch (writeRej f rep) 0 true = .ok p' ∧ p'.fps = [f'] ∧
      f'.old = f.old ∧ f'.new = f.new ∧ f'.rename = f.rename ∧
      f'.oldPerm = f.oldPerm ∧ f'.newPerm = f.newPerm ∧ f'.oldHash = f.oldHash ∧ f'.newHash = f.newHash ∧
      sameHunks (failedHunks f.hunks rep.reps) f'.hunks := by
  rw [writeRej_eq f rep hfail]
  have hany : rep.reps.any Rep.isFailed = true := by
    simpa [Report.ok, Report.failed] using hfail
  exact rej_roundtrip f (parsePatch_inv bs strip wh p hp f hf) hn (failedHunks f.hunks rep.reps)
    (failedHunks_mem f.hunks rep.reps) (failedHunks_ne f.hunks rep.reps hl hany)

/-- a push that applies its whole range renders no reject file -/
theorem C13_no_rej_on_success (fs : FS) (cfg : Push.Cfg)
    (range : List Series.Entry) (k : Nat) (t t' : Abs.ATree) (k' : Nat) (rejs : List (Bytes × Bytes))
    (h : Abs.applyRange fs cfg range k t = .ok (t', k', rejs)) (hk : k' = k + range.length) : rejs = [] :=
  Abs.applyRange_success_no_rej fs cfg range k t t' k' rejs h hk

#print axioms writeRej_eq
#print axioms C13_rej_parses
#print axioms C13_no_rej_on_success

end RQ.Write
