import RQ.Spec.Push
/-!
# C10 — `--dry-run` writes nothing and predicts the real outcome

Model level: with `dryRun` the driver performs no file-system operation at all (the world, including its
operation trace, is returned unchanged), and the exit status is computed by the same application loop
as in a real run.
-/
namespace RQ.Push
open RQ

/-- with `--dry-run` the application phase never touches the world -/
theorem applyPatches_dry (w : World) (cfg : Cfg) (range : List Series.Entry) (hd : cfg.dryRun = true) :
    (∃ final, applyPatches w cfg range = .ok (w, final)) ∨ (∃ e, applyPatches w cfg range = .error (e, w)) := by
  unfold applyPatches
  split
  · rename_i e _; exact Or.inr ⟨e, rfl⟩
  · rename_i st final rejs _
    simp only [hd, if_true]
    exact Or.inl ⟨final, rfl⟩

/-- **C10 (no write)**: a dry run returns the world it was given: same files, same inodes, and not a
single mutating operation in the trace — whatever the input, whether the series applies or fails. -/
theorem C10_no_write (cfg : Cfg) (w : World) (hd : cfg.dryRun = true) : (push cfg w).2 = w := by
  unfold push
  split
  · rfl
  · rfl
  · rename_i range _
    unfold pushRange
    rcases applyPatches_dry w cfg range hd with ⟨f, h⟩ | ⟨e, h⟩
    · simp only [h, hd, if_true]
    · rw [h]; cases e <;> rfl

theorem rollbackOne_no_err (m : Mem) (s : Status) : rollbackOne m s ≠ .error .err := by
  unfold rollbackOne
  split
  · simp
  · split
    · simp
    · split
      · simp only
        split
        · simp
        · split <;> simp
      · simp

theorem rollbackAndRenderRej_no_err : ∀ (fuel : Nat) (st : St) (idx : Nat) (rejs : List (Bytes × Bytes)),
    rollbackAndRenderRej fuel st idx rejs ≠ .error .err := by
  intro fuel
  induction fuel with
  | zero => intro st idx rejs; simp [rollbackAndRenderRej]
  | succ fuel ih =>
    intro st idx rejs
    unfold rollbackAndRenderRej
    split
    · simp
    · split
      · simp
      · split
        · simp
        · split
          · rename_i e he
            intro h
            simp only [Except.error.injEq] at h
            subst h
            exact rollbackOne_no_err _ _ he
          · split
            · exact ih _ _ _
            · exact ih _ _ _

/-- the application loop — which alone decides the number of applied patches, hence the exit status and
the failing patch — does not depend on `dryRun` except that a real run also renders reject files -/
theorem applyLoop_dry_same_final (fs : FS) (cfg : Cfg) :
    ∀ (range : List Series.Entry) (index : Nat) (st : St),
      (match applyLoop fs cfg range index st, applyLoop fs { cfg with dryRun := true } range index st with
       | .ok (_, f1, _), .ok (_, f2, _) => f1 = f2
       | .error e1, .error e2 => e1 = e2
       | .ok _, .error _ => False
       | .error .panic, .ok _ => True      -- only a rollback that aborts (excluded by C04) could make the real run differ
       | .error .err, .ok _ => False) := by
  intro range
  induction range with
  | nil => intro index st; simp [applyLoop]
  | cons entry rest ih =>
    intro index st
    simp only [applyLoop]
    have hk : patchKey { cfg with dryRun := true } entry.name = patchKey cfg entry.name := rfl
    rw [hk]
    cases patchKey cfg entry.name with
    | none => simp
    | some pk =>
      simp only
      cases fs.readFile pk with
      | error _ => simp
      | ok bm =>
        obtain ⟨bytes, m⟩ := bm
        simp only
        cases Parse.parsePatch bytes entry.strip false with
        | error _ => simp
        | ok patch =>
          simp only
          have hfp : ∀ fps st b, applyFilePatches st fs { cfg with dryRun := true } index entry fps b
              = applyFilePatches st fs cfg index entry fps b := by
            intro fps
            induction fps with
            | nil => intro st b; rfl
            | cons fp fps ihf =>
              intro st b
              simp only [applyFilePatches]
              have : applyOne st fs { cfg with dryRun := true } index entry fp = applyOne st fs cfg index entry fp := rfl
              rw [this]
              cases applyOne st fs cfg index entry fp with
              | error _ => rfl
              | ok r => exact ihf _ _
          rw [hfp]
          cases applyFilePatches st fs cfg index entry patch.fps false with
          | error e => simp
          | ok r =>
            obtain ⟨st', anyFailed⟩ := r
            simp only
            cases anyFailed with
            | true =>
              simp only [if_true]
              cases hd : cfg.dryRun with
              | true => simp
              | false =>
                simp only [Bool.false_eq_true, if_false]
                cases hr : rollbackAndRenderRej (st'.applied.length + 1) st' index [] with
                | error e =>
                  cases e with
                  | panic => simp
                  | err => exact absurd hr (rollbackAndRenderRej_no_err _ _ _ _)
                | ok r2 => simp
            | false =>
              simp only [Bool.false_eq_true, if_false]
              exact ih (index + 1) st'

#print axioms C10_no_write
#print axioms applyLoop_dry_same_final

end RQ.Push
