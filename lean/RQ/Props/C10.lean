import RQ.Spec.Push
import RQ.Props.C06
/-!
# C10 — `--dry-run` writes nothing and predicts the real outcome

Model level: with `dryRun` the driver performs no file-system operation at all (the world, including its
operation trace, is returned unchanged), and the exit status is computed by the same application loop
as in a real run.  `C10_parallel` carries both halves to the parallel driver (`parApplyPatches`, every pair of
thread schedules), via `RQ.Par.C06_parallel_eq_sequential_tree`.
-/
namespace RQ.Push
open RQ

/-- with `--dry-run` the application phase never touches the world -/
theorem applyPatches_dry (w : World) (cfg : Cfg) (range : List Series.Entry) (hd : cfg.dryRun = true) :
    (∃ final, applyPatches w cfg range = .ok (w, final)) ∨ (∃ e, applyPatches w cfg range = .error (e, w)) := by
  unfold applyPatches
  split
  · rename_i e _; exact Or.inr ⟨e, rfl⟩
  · rename_i st final rejs _
    simp only [hd, if_true]
    exact Or.inl ⟨final, rfl⟩

/-- **C10 (no write)**: a dry run returns the world it was given: same files, same inodes, and not a
single mutating operation in the trace — whatever the input, whether the series applies or fails. -/
theorem C10_no_write (cfg : Cfg) (w : World) (hd : cfg.dryRun = true) : (push cfg w).2 = w := by
  unfold push
  split
  · rfl
  · rfl
  · rename_i range _
    unfold pushRange
    rcases applyPatches_dry w cfg range hd with ⟨f, h⟩ | ⟨e, h⟩
    · simp only [h, hd, if_true]
    · rw [h]; cases e <;> rfl

theorem rollbackOne_no_err (m : Mem) (s : Status) : rollbackOne m s ≠ .error .err := by
  unfold rollbackOne
  split
  · simp
  · split
    · simp
    · split
      · simp only
        split
        · simp
        · split <;> simp
      · simp

theorem rollbackAndRenderRej_no_err : ∀ (fuel : Nat) (st : St) (idx : Nat) (rejs : List (Bytes × Bytes)),
    rollbackAndRenderRej fuel st idx rejs ≠ .error .err := by
  intro fuel
  induction fuel with
  | zero => intro st idx rejs; simp [rollbackAndRenderRej]
  | succ fuel ih =>
    intro st idx rejs
    unfold rollbackAndRenderRej
    split
    · simp
    · split
      · simp
      · split
        · simp
        · split
          · rename_i e he
            intro h
            simp only [Except.error.injEq] at h
            subst h
            exact rollbackOne_no_err _ _ he
          · split
            · exact ih _ _ _
            · exact ih _ _ _

/-- the application loop — which alone decides the number of applied patches, hence the exit status and
the failing patch — does not depend on `dryRun` except that a real run also renders reject files -/
theorem applyLoop_dry_same_final (fs : FS) (cfg : Cfg) :
    ∀ (range : List Series.Entry) (index : Nat) (st : St),
      (match applyLoop fs cfg range index st, applyLoop fs { cfg with dryRun := true } range index st with
       | .ok (_, f1, _), .ok (_, f2, _) => f1 = f2
       | .error e1, .error e2 => e1 = e2
       | .ok _, .error _ => False
       | .error .panic, .ok _ => True      -- only a rollback that aborts (excluded by C04) could make the real run differ
       | .error .err, .ok _ => False) := by
  intro range
  induction range with
  | nil => intro index st; simp [applyLoop]
  | cons entry rest ih =>
    intro index st
    simp only [applyLoop]
    have hk : patchKey { cfg with dryRun := true } entry.name = patchKey cfg entry.name := rfl
    rw [hk]
    cases patchKey cfg entry.name with
    | none => simp
    | some pk =>
      simp only
      cases fs.readFile pk with
      | error _ => simp
      | ok bm =>
        obtain ⟨bytes, m⟩ := bm
        simp only
        cases Parse.parsePatch bytes entry.strip false with
        | error _ => simp
        | ok patch =>
          simp only
          have hfp : ∀ fps st b, applyFilePatches st fs { cfg with dryRun := true } index entry fps b
              = applyFilePatches st fs cfg index entry fps b := by
            intro fps
            induction fps with
            | nil => intro st b; rfl
            | cons fp fps ihf =>
              intro st b
              simp only [applyFilePatches]
              have : applyOne st fs { cfg with dryRun := true } index entry fp = applyOne st fs cfg index entry fp := rfl
              rw [this]
              cases applyOne st fs cfg index entry fp with
              | error _ => rfl
              | ok r => exact ihf _ _
          rw [hfp]
          cases applyFilePatches st fs cfg index entry patch.fps false with
          | error e => simp
          | ok r =>
            obtain ⟨st', anyFailed⟩ := r
            simp only
            cases anyFailed with
            | true =>
              simp only [if_true]
              cases hd : cfg.dryRun with
              | true => simp
              | false =>
                simp only [Bool.false_eq_true, if_false]
                cases hr : rollbackAndRenderRej (st'.applied.length + 1) st' index [] with
                | error e =>
                  cases e with
                  | panic => simp
                  | err => exact absurd hr (rollbackAndRenderRej_no_err _ _ _ _)
                | ok r2 => simp
            | false =>
              simp only [Bool.false_eq_true, if_false]
              exact ih (index + 1) st'

/-! ### the parallel driver -/

/-- the abstract specification of the application phase does not look at `dryRun` except for the reject
files it returns -/
theorem applyFPs_dryRun (fs : FS) (cfg : Cfg) (b : Bool) (entry : Series.Entry) :
    ∀ (fps : List Parse.PFilePatch) (t : Abs.ATree) (ok : Bool) (rejs : List (Bytes × Bytes)),
      Abs.applyFPs fs { cfg with dryRun := b } entry fps t ok rejs = Abs.applyFPs fs cfg entry fps t ok rejs := by
  intro fps
  induction fps with
  | nil => intro t ok rejs; rfl
  | cons fp fps ih =>
    intro t ok rejs
    simp only [Abs.applyFPs]
    have : Abs.applyFP t fs { cfg with dryRun := b } entry fp = Abs.applyFP t fs cfg entry fp := rfl
    rw [this]
    cases Abs.applyFP t fs cfg entry fp with
    | error _ => rfl
    | ok r => exact ih _ _ _

theorem applyRange_dryRun (fs : FS) (cfg : Cfg) (b : Bool) :
    ∀ (range : List Series.Entry) (k : Nat) (t : Abs.ATree),
      (match Abs.applyRange fs cfg range k t, Abs.applyRange fs { cfg with dryRun := b } range k t with
       | .ok (t1, k1, _), .ok (t2, k2, _) => t1 = t2 ∧ k1 = k2
       | .error e1, .error e2 => e1 = e2
       | _, _ => False) := by
  intro range
  induction range with
  | nil => intro k t; simp [Abs.applyRange]
  | cons entry rest ih =>
    intro k t
    simp only [Abs.applyRange]
    have hk : patchKey { cfg with dryRun := b } entry.name = patchKey cfg entry.name := rfl
    rw [hk]
    cases patchKey cfg entry.name with
    | none => simp
    | some pk =>
      simp only
      cases fs.readFile pk with
      | error _ => simp
      | ok bm =>
        obtain ⟨bytes, m⟩ := bm
        simp only
        cases Parse.parsePatch bytes entry.strip false with
        | error _ => simp
        | ok patch =>
          simp only
          rw [applyFPs_dryRun fs cfg b entry]
          cases Abs.applyFPs fs cfg entry patch.fps t true [] with
          | error e => simp
          | ok r =>
            obtain ⟨t', ok, rejs⟩ := r
            simp only
            cases ok with
            | true => simp only [if_true]; exact ih (k + 1) t'
            | false => simp

/-- the application loop of a dry run stops without error at patch `k` exactly when the loop of the real
run does — *including* the rollback of the failing patch, which cannot abort (C04, through the refinement
`Abs.applyLoop_sim`): this closes the `.error .panic` case `applyLoop_dry_same_final` leaves open, for a
loop started on the empty cache -/
theorem applyLoop_dry_real (fs : FS) (cfg : Cfg) (range : List Series.Entry) (st : St) (k : Nat)
    (rejs : List (Bytes × Bytes)) (hd : cfg.dryRun = true)
    (h : applyLoop fs cfg range 0 {} = .ok (st, k, rejs)) :
    ∃ st' rejs', applyLoop fs { cfg with dryRun := false } range 0 {} = .ok (st', k, rejs') := by
  have hsame := applyLoop_dry_same_final fs { cfg with dryRun := false } range 0 {}
  have hcfg : ({ ({ cfg with dryRun := false } : Cfg) with dryRun := true } : Cfg) = cfg := by
    cases cfg; simp only at hd; subst hd; rfl
  rw [hcfg, h] at hsame
  have hsim := Abs.applyLoop_sim fs { cfg with dryRun := false } range 0 {} [] (Abs.SameTree.refl fs _)
    Abs.memDE_nil (fun s hs => by cases hs)
  have hsimd := Abs.applyLoop_sim fs cfg range 0 {} [] (Abs.SameTree.refl fs _)
    Abs.memDE_nil (fun s hs => by cases hs)
  have hspec := applyRange_dryRun fs cfg false range 0 []
  rw [h] at hsimd
  cases hreal : applyLoop fs { cfg with dryRun := false } range 0 {} with
  | ok r =>
    obtain ⟨st', k', rejs'⟩ := r
    rw [hreal] at hsame
    simp only at hsame
    subst hsame
    exact ⟨st', rejs', rfl⟩
  | error e =>
    exfalso
    rw [hreal] at hsim
    cases hA : Abs.applyRange fs cfg range 0 [] with
    | error e' => rw [hA] at hsimd; exact hsimd
    | ok ra =>
      rw [hA] at hspec
      cases hB : Abs.applyRange fs { cfg with dryRun := false } range 0 [] with
      | error e' => rw [hB] at hspec; exact hspec
      | ok rb => rw [hB] at hsim; exact hsim

/-- **C10 for the parallel driver**: a parallel dry run writes nothing and predicts the patch at which the
real run stops, under EVERY pair of thread schedules.  For a world without fault injection, a
configuration with `--dry-run`, a range all of whose patches parse (otherwise the parallel driver refuses
up front), at least one thread, and every `schedA`, `schedS` for which the result `res` of
`parApplyPatches` exists: either `res` is an error with the world it was given — and then the application
loop of the real (non-dry) sequential run fails as well —, or `res = .ok (w, k)` with that same world `w`
(same files, same inodes, no operation in the trace), the sequential dry run returns the same `(w, k)`,
and `k` is the number of patches the application loop of the real sequential run applies before it stops
(`C05_apply_refines`, `C06_parallel_eq_sequential_tree`: also of the real parallel run). -/
theorem C10_parallel (w : World) (cfg : Cfg) (range : List Series.Entry) (threads : Nat)
    (schedA schedS : List Nat) (ht : 0 < threads) (hf : w.faultAt = none) (hd : cfg.dryRun = true)
    (patches : List (Series.Entry × List Parse.PFilePatch))
    (hparse : Par.parseRange w.fs cfg range = some patches)
    (res : WR (World × Nat)) (hres : Par.parApplyPatches w cfg range threads schedA schedS = some res) :
    (∃ e, res = .error (e, w) ∧
        ∃ e', applyLoop w.fs { cfg with dryRun := false } range 0 {} = .error e') ∨
    (∃ k, res = .ok (w, k) ∧ applyPatches w cfg range = .ok (w, k) ∧
        ∃ st rejs, applyLoop w.fs { cfg with dryRun := false } range 0 {} = .ok (st, k, rejs)) := by
  obtain ⟨h1, _, h3⟩ := Par.C06_parallel_eq_sequential_tree w cfg range threads schedA schedS ht hf
    patches hparse res hres
  cases hloop : applyLoop w.fs cfg range 0 {} with
  | error e =>
    obtain ⟨_, e', he'⟩ := h1 e hloop
    refine Or.inl ⟨e', he', ?_⟩
    have hsame := applyLoop_dry_same_final w.fs { cfg with dryRun := false } range 0 {}
    have hcfg : ({ ({ cfg with dryRun := false } : Cfg) with dryRun := true } : Cfg) = cfg := by
      cases cfg; simp only at hd; subst hd; rfl
    rw [hcfg, hloop] at hsame
    cases hreal : applyLoop w.fs { cfg with dryRun := false } range 0 {} with
    | ok r => rw [hreal] at hsame; exact hsame.elim
    | error e1 => exact ⟨e1, rfl⟩
  | ok r =>
    obtain ⟨st, k, rejs⟩ := r
    obtain ⟨_, _, _, hdry, _⟩ := h3 st k rejs hloop
    obtain ⟨hr, hs⟩ := hdry hd
    exact Or.inr ⟨k, hr, hs, applyLoop_dry_real w.fs cfg range st k rejs hd hloop⟩

/-! ### non-vacuity: the two-patch push of `RQ.Par.ParEx` (`p1` fails on `b`, `p2` would apply to `a`), dry,
two threads, worker 1 running ahead (`schedA = [1, 0, 1, 0]`) -/
namespace DryEx
open RQ.Par RQ.Par.ParEx

def cfgDry : Cfg := { dryRun := true }

theorem parse0 : (parseRange w0.fs cfgDry range0).isSome = true := by decide

theorem par0 : (match parApplyPatches w0 cfgDry range0 2 schedA [] with
    | some (.ok (_, k)) => k == 0
    | _ => false) = true := by decide

/-- the hypotheses of `C10_parallel` hold, and it is the second alternative that occurs: the world comes
back unchanged, `0` patches are predicted, and the real sequential loop stops at patch `0` as well -/
example : ∃ st rejs, parApplyPatches w0 cfgDry range0 2 schedA [] = some (.ok (w0, 0)) ∧
    applyPatches w0 cfgDry range0 = .ok (w0, 0) ∧
    applyLoop w0.fs { cfgDry with dryRun := false } range0 0 {} = .ok (st, 0, rejs) := by
  have hp := parse0
  have hr := par0
  cases hparse : parseRange w0.fs cfgDry range0 with
  | none => rw [hparse] at hp; cases hp
  | some patches =>
    cases hres : parApplyPatches w0 cfgDry range0 2 schedA [] with
    | none => rw [hres] at hr; cases hr
    | some res =>
      rcases C10_parallel w0 cfgDry range0 2 schedA [] (by decide) rfl rfl patches hparse res hres with
        ⟨e, he, _⟩ | ⟨k, hk, hs, st, rejs, hl⟩
      · rw [hres, he] at hr; cases hr
      · rw [hres, hk] at hr
        simp only [beq_iff_eq] at hr
        subst hr
        exact ⟨st, rejs, by rw [hk], hs, hl⟩

end DryEx

#print axioms C10_no_write
#print axioms applyLoop_dry_same_final
#print axioms applyLoop_dry_real
#print axioms C10_parallel

end RQ.Push
