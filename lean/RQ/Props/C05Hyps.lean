import RQ.Lemmas.HypsSound
import RQ.Props.C05Complete
/-!
# C05 on a checked instance: the refinement theorem with its static hypotheses discharged by the Bool the driver computes

The compiled driver reports, for every generated workspace, `HYP=1` when `PushEngine.hypsHold fs cfg range = true`
(`RQ/Driver/PushEngine.lean`).  `HypsSound.hypsHold_sound` (`RQ/Lemmas/HypsSound.lean`) shows that this Bool implies
`Tight`, `Compose.Clean`, `Agree.PrefixFree`, the terminated-lines condition and `PatchPathsDistinct`; so for a workspace
with `HYP=1` the theorem `Refine2.C05_push_is_pushSpec_all` speaks, and what is left to assume is about the run:

* `plan cfg w.fs = .apply range` — `range` is what the invocation has to apply (the driver computes `hypsHold` for that
  range);
* `w.faultAt = none`, `cfg.dryRun = false`;
* `¬ Refused cfg w.fs range` and `(pushSpec cfg w.fs).ioError = false` — the specification neither refuses the range
  nor meets an output failure in its last phase.

The hypotheses of the parallel theorem `Par.C06_par_is_pushSpec` are these plus `ParSucceeds.RejPrefixFree`, of which
`hypsHold` has no mirror.
-/
namespace RQ.Refine2
open RQ RQ.Push RQ.Spec RQ.Flush RQ.Agree RQ.Compose RQ.Tight RQ.BackupDisk

/-- **C05 where the driver's check says `HYP=1`**: same exit status, and the same node at every path (up to inode
numbers) as the specification -/
theorem C05_checked_instance (cfg : Cfg) (w : World) (range : List Series.Entry)
    (hhyp : PushEngine.hypsHold w.fs cfg range = true) (hplan : plan cfg w.fs = .apply range)
    (hf : w.faultAt = none) (hdry : cfg.dryRun = false) (hnr : ¬ Refused cfg w.fs range)
    (hio : (Spec.pushSpec cfg w.fs).ioError = false) :
    ParSave.FSEquiv (Spec.pushSpec cfg w.fs).fs (Push.push cfg w).2.fs ∧
    (Push.push cfg w).1.exit = (Spec.pushSpec cfg w.fs).exit := by
  obtain ⟨hT, hclean, hpf, hterm, hdist⟩ := HypsSound.hypsHold_sound w.fs cfg range hhyp
  have h := C05_push_is_pushSpec_all cfg w range hf hdry hplan hT hclean hpf hterm hnr hdist hio
  exact ⟨h.2, h.1⟩

/-- the exit status is 0 exactly when the whole range applied, where the driver's check says `HYP=1` -/
theorem C05_checked_exit_zero_iff (cfg : Cfg) (w : World) (range : List Series.Entry)
    (hhyp : PushEngine.hypsHold w.fs cfg range = true) (hplan : plan cfg w.fs = .apply range)
    (hf : w.faultAt = none) (hdry : cfg.dryRun = false) (hnr : ¬ Refused cfg w.fs range)
    (hio : (Spec.pushSpec cfg w.fs).ioError = false) :
    (Push.push cfg w).1 = .allApplied ↔ (Spec.pushSpec cfg w.fs).exit = 0 := by
  obtain ⟨hT, hclean, hpf, hterm, _⟩ := HypsSound.hypsHold_sound w.fs cfg range hhyp
  exact C05_exit_zero_iff cfg w range hf hdry hplan hT hclean hpf hterm hnr hio

/-! ## A decided instance

The working directory `Good` of `RQ/Props/C05Complete.lean` (`p0` applies, `p1` fails): the driver's Bool is computed by
the kernel, nothing else about the tree is decided. -/
namespace Example.Good
open RQ.Compose.FailExample

theorem hyps0 : PushEngine.hypsHold w0.fs cfgA range0 = true := by decide

theorem checked : ParSave.FSEquiv (Spec.pushSpec cfgA w0.fs).fs (Push.push cfgA w0).2.fs ∧
    (Push.push cfgA w0).1.exit = (Spec.pushSpec cfgA w0.fs).exit :=
  C05_checked_instance cfgA w0 range0 hyps0 plan0 rfl rfl (notRefused_of_ranOk (by decide)) io0

end Example.Good

#print axioms C05_checked_instance
#print axioms C05_checked_exit_zero_iff
#print axioms RQ.HypsSound.hypsHold_sound
#print axioms Example.Good.checked

end RQ.Refine2
