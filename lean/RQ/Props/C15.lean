import RQ.Lemmas.Inodes
/-!
# C15 — files are replaced, never edited in place; hard-linked copies stay intact

In the abstract file system an inode number identifies the file object that any number of hard links
may share.  `OldInodesIntact before after` says: every file object that existed before the push and is
still reachable after it sits at the same path with the same bytes and the same mode — nothing was
written through an old inode; every changed file is a fresh object.  The only file rapidquilt appends
to in place is `.pc/applied-patches` (quilt metadata, excepted by name).
-/
namespace RQ.Push
open RQ

/-- no file object that existed before was modified (or moved): old inodes keep path, bytes and mode -/
def OldInodesIntact (before after : FS) : Prop :=
  ∀ (k : Key) (c : Bytes) (m i : Nat), after.lookup k = some (.file c m i) → i < before.nextIno →
    k ≠ appliedKey → before.lookup k = some (.file c m i)

/-- inode numbers in use are below `nextIno` and no two paths share an inode (no hard links inside the model) -/
def FSWF (fs : FS) : Prop :=
  (∀ k c m i, fs.lookup k = some (.file c m i) → i < fs.nextIno) ∧
  (fs.nodes.map (·.1)).Nodup

/-- **C15**: a push (sequential driver, no injected fault) never writes through an inode that existed
before: files it changes, reject files and quilt backups are fresh objects; everything that keeps its
inode keeps its bytes and its mode. -/
theorem C15_old_inodes_intact (cfg : Cfg) (w : World) (hw : FSWF w.fs) (hf : w.faultAt = none) :
    OldInodesIntact w.fs (push cfg w).2.fs := by
  -- the well-formedness hypothesis is not needed: freshness only compares against the initial `nextIno`
  have _ := hw
  exact (push_inv (cfg := cfg) (w := w) ⟨hf, FS.Inv.refl w.fs⟩).2.2

/-! ### non-vacuity: a file system with one file satisfies `WF` -/
example : FSWF { nodes := [([[102]], .file [97, 10] 0o644 1)], nextIno := 2 } := by
  constructor
  · intro k c m i h
    simp [FS.lookup] at h
    obtain ⟨_, _, _, rfl⟩ := h
    decide
  · decide

#print axioms C15_old_inodes_intact

end RQ.Push
