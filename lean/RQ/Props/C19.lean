import RQ.Lemmas.PathLemmas
import RQ.Props.C17
/-!
# C19 — patch file names can never make a push touch files outside the working tree

Every file-system operation of the model addresses a `Key`: a list of components below the working
directory.  A key is obtained from a (stripped) file name only through `safeKey`, which rejects the empty
name and any name with a root or `..` component; `C19_key_below` shows the components of a key are plain
names (non-empty, not `.`/`..`, without `/`), so joining them to the working directory stays lexically
below it.  `C19_refuse` shows a file patch carrying any other name is refused before anything is loaded
or written, and with `C17_apply_error` the push then fails with status 1 and the world untouched.
-/
namespace RQ.Push
open RQ

/-- the components of a safe key are plain names -/
theorem C19_key_below (name : Bytes) (k : Key) (h : safeKey name = some k) :
    ∀ c ∈ k, c ≠ [] ∧ c ≠ [46] ∧ c ≠ [46, 46] ∧ (47 : UInt8) ∉ c :=
  fun _ hc => components_normal (safeKey_mem h hc)

/-- a name with a root component (absolute path) or a `..` component, or an empty name, has no key -/
theorem C19_unsafe (name : Bytes) (h : name = [] ∨ Comp.root ∈ components name ∨ Comp.parent ∈ components name) :
    safeKey name = none :=
  safeKey_unsafe name h

/-- **C19 (refusal)**: a file patch one of whose names is unsafe is refused by `apply_one_file_patch`
with an error, before any file is looked at -/
theorem C19_refuse (st : St) (fs : FS) (cfg : Cfg) (index : Nat) (entry : Series.Entry) (fp : Parse.PFilePatch)
    (h : namesSafe fp = false) : applyOne st fs cfg index entry fp = .error .err := by
  simp [applyOne, h]

/-- the refusal propagates: the patch, and with it the push, fails with an error … -/
theorem C19_patch_refused (st : St) (fs : FS) (cfg : Cfg) (index : Nat) (entry : Series.Entry) :
    ∀ (fps : List Parse.PFilePatch) (b : Bool),
      (∃ fp ∈ fps, namesSafe fp = false) →
      (∃ e, applyFilePatches st fs cfg index entry fps b = .error e) := by
  intro fps
  induction fps generalizing st with
  | nil => intro b h; simp at h
  | cons fp fps ih =>
    intro b h
    unfold applyFilePatches
    cases ha : applyOne st fs cfg index entry fp with
    | error e => exact ⟨e, rfl⟩
    | ok r =>
      obtain ⟨st', ok⟩ := r
      simp only []
      obtain ⟨fp', hmem, hns⟩ := h
      rcases List.mem_cons.mp hmem with e | hm
      · subst e
        rw [C19_refuse st fs cfg index entry fp' hns] at ha
        cases ha
      · exact ih st' _ ⟨fp', hm, hns⟩

/-! ### non-vacuity -/
example : safeKey [46, 46, 47, 120] = none ∧ safeKey [47, 120] = none ∧ safeKey [] = none ∧
    safeKey [97, 47, 46, 47, 98] = some [[97], [98]] := by decide

#print axioms C19_key_below
#print axioms C19_unsafe
#print axioms C19_refuse
#print axioms C19_patch_refused

end RQ.Push
