import RQ.Lemmas.NoPanic
/-!
# C11 (whole tool) — whatever the patch, the series file and the tree: exit status 0 or 1, never a crash

"The same holds for the series file and for the whole tool when given such a patch: it exits with status 0 or 1,
never by a crash."  In the model of the driver (`RQ/Model/Push.lean`) a crash of the tool is the outcome `.panic`
(exit status 101): `Fail.panic` stands for the `assert!(hunks.len() == 1)` of the whole-file kinds and the slice
ranges of `apply_modify` (`fp.apply = none`), "This is a bug" (`FilePatch.rollback = none`), the
`unreachable!()` for a file patch without any name (`choose = none`, `distPair = none`), the `unwrap()` of the new name
of a rename, cache look-ups that "cannot fail", `rollback_and_save_rej_files` meeting an index out of order.

`C11_push_never_panics`: for EVERY configuration and EVERY world — any tree, well-formed or not (files where
directories are expected, unreadable or garbage series and patch files, unsafe names, …), any injected fault —
the outcome of `push` with the sequential driver is not `panic`; `C11_push_exit`: its exit status is 0 or 1.
No hypothesis at all.

Pieces (`RQ/Lemmas/NoPanic.lean`):
* `C11_apply_total`: `TextFilePatch::apply` returns on every file patch that satisfies what `C11_wf` states of parsed
  ones, on every file, direction and fuzz;
* `C11_applyOne_never_panics`: one `apply_one_file_patch` of a parsed file patch, on ANY state of the cache;
* `C11_applyLoop_never_panics` (from every state satisfying the loop invariant), `C11_applyLoop_never_panics_init`
  (the state `{}` `apply_patches` starts with), `C11_spec_never_panics` (the abstract specification `Abs.applyRange`,
  which has the same panic sites minus the cache);
* `C11_applyPatches_never_panics`: the loop, `save`, `clean_empty_directories`, `save_rej_files`,
  `rollback_and_save_backup_files` (the in-memory undo never aborts: `C08_backups_total`);
* `C11_saveApplied_no_panic`: `save_applied_patches` has no panic branch.

Series file: `plan` reads `series` and `.pc/applied-patches` through total functions and answers `refuse`,
`nothingToDo` or a range — there is no panic branch; `C11_plan_outcomes`.

Parallel driver (`RQ/Model/ParPush.lean`, `RQ/Model/ParFault.lean`): `C11_par_never_panics` — for every world,
configuration, fault position, thread count `> 0` and pair of schedules under which the run finishes, the outcome of
the command is not `panic` (`C11_par_driver_never_panics`, `C11_par_driver_never_panics'`: the driver function, with
and without fault injection in the save phase).  `threads = 0` IS a modelled panic (`% thread_count`; rayon never has
0 threads): `C11_par_zero_threads`.
-/
namespace RQ.Push
open RQ RQ.Parse RQ.Abs

/-- **C11 (whole tool, sequential driver)**: `rapidquilt push` never crashes -/
theorem C11_push_never_panics (cfg : Cfg) (w : World) : (Push.push cfg w).1 ≠ .panic :=
  push_no_panic cfg w

/-- … it exits with status 0 or 1 -/
theorem C11_push_exit (cfg : Cfg) (w : World) : (Push.push cfg w).1.exit = 0 ∨ (Push.push cfg w).1.exit = 1 := by
  have h := C11_push_never_panics cfg w
  cases ho : (Push.push cfg w).1 with
  | allApplied => exact .inl rfl
  | notAll => exact .inr rfl
  | error => exact .inr rfl
  | panic => exact absurd ho h

/-- the two statements are the same -/
theorem C11_exit_iff (o : Outcome) : o ≠ .panic ↔ (o.exit = 0 ∨ o.exit = 1) := by
  cases o <;> simp [Outcome.exit]

/-- `TextFilePatch::apply` never panics on a file patch with well-formed hunks and, for `Create`/`Delete`, exactly one
hunk — what `C11_wf` states of every file patch the parser returns -/
theorem C11_apply_total (fp : PFilePatch) (d : Dir) (F : Nat) (f : FileSt Bytes)
    (hw : ∀ hk ∈ fp.hunks, hk.WF) (h1 : fp.kind ≠ .modify → fp.hunks.length = 1) :
    ∃ r, fp.apply d F f = some r :=
  apply_isSome fp d F f ⟨fun hk hhk => (hw hk hhk).wflen, h1⟩

/-- one `apply_one_file_patch` never panics on a file patch of a parsed patch — on any state of the cache, any tree -/
theorem C11_applyOne_never_panics (bytes : Bytes) (strip : Nat) (wh : Bool) (patch : Patch)
    (hp : parsePatch bytes strip wh = .ok patch) (fp : PFilePatch) (hfp : fp ∈ patch.fps)
    (st : St) (fs : FS) (cfg : Cfg) (index : Nat) (entry : Series.Entry) :
    applyOne st fs cfg index entry fp ≠ .error .panic :=
  applyOne_no_panic st fs cfg index entry fp (parsed_noPanic hp fp hfp)

/-- the abstract specification of the application phase never panics -/
theorem C11_spec_never_panics (fs : FS) (cfg : Cfg) (range : List Series.Entry) (k : Nat) (t : ATree) :
    applyRange fs cfg range k t ≠ .error .panic :=
  applyRange_no_panic fs cfg range k t

/-- the application loop never panics, from every state that satisfies its invariant (a cached file that is marked
deleted has no content; the recorded file patches belong to earlier patches) -/
theorem C11_applyLoop_never_panics (fs : FS) (cfg : Cfg) (range : List Series.Entry) (idx : Nat) (st : St)
    (hde : MemDE st.mem) (hidx : ∀ s ∈ st.applied, s.index < idx) :
    applyLoop fs cfg range idx st ≠ .error .panic :=
  applyLoop_no_panic fs cfg range idx st hde hidx

/-- … in particular from the state `apply_patches` starts with: unconditionally -/
theorem C11_applyLoop_never_panics_init (fs : FS) (cfg : Cfg) (range : List Series.Entry) :
    applyLoop fs cfg range 0 {} ≠ .error .panic :=
  applyLoop_no_panic_init fs cfg range

/-- `sequential::apply_patches` never panics: its only failure is `.err` -/
theorem C11_applyPatches_never_panics (w : World) (cfg : Cfg) (range : List Series.Entry) (e : Fail) (w' : World)
    (h : applyPatches w cfg range = .error (e, w')) : e = .err :=
  applyPatches_err h

/-- `save_applied_patches` has no panic branch -/
theorem C11_saveApplied_no_panic (w : World) (names : List Bytes) (e : Fail) (w' : World)
    (h : saveApplied w names = .error (e, w')) : e = .err :=
  saveApplied_err h

/-- the series file (and `.pc/applied-patches`): whatever they contain, the first part of `cmd_push` refuses, has
nothing to do, or chooses a range; a refusal is exit status 1 with the world untouched -/
theorem C11_plan_outcomes (cfg : Cfg) (w : World) :
    (plan cfg w.fs = .refuse ∧ Push.push cfg w = (.error, w)) ∨
    (plan cfg w.fs = .nothingToDo ∧ Push.push cfg w = (.allApplied, w)) ∨
    (∃ range, plan cfg w.fs = .apply range ∧ Push.push cfg w = pushRange cfg w range) := by
  unfold Push.push
  cases plan cfg w.fs with
  | refuse => exact .inl ⟨rfl, rfl⟩
  | nothingToDo => exact .inr (.inl ⟨rfl, rfl⟩)
  | apply range => exact .inr (.inr ⟨range, rfl, rfl⟩)

end RQ.Push

namespace RQ.Par
open RQ RQ.Push RQ.Parse

/-- **C11 (whole tool, parallel driver)**: with at least one worker thread, under every schedule of the apply phase
and every schedule of the save phase under which the run finishes, with or without an injected fault, the outcome of
`rapidquilt push` is not a crash -/
theorem C11_par_never_panics (fault : Option Nat) (cfg : Cfg) (w : World) (threads : Nat) (schedA schedS : List Nat)
    (ht : 0 < threads) (out : Outcome) (w' : World)
    (h : parPushF fault cfg w threads schedA schedS = some (out, w')) : out ≠ .panic :=
  parPushF_no_panic fault cfg w threads schedA schedS ht h

/-- … it exits with status 0 or 1 -/
theorem C11_par_exit (fault : Option Nat) (cfg : Cfg) (w : World) (threads : Nat) (schedA schedS : List Nat)
    (ht : 0 < threads) (out : Outcome) (w' : World)
    (h : parPushF fault cfg w threads schedA schedS = some (out, w')) : out.exit = 0 ∨ out.exit = 1 :=
  (C11_exit_iff out).mp (C11_par_never_panics fault cfg w threads schedA schedS ht out w' h)

/-- `parallel::apply_patches` with fault injection: its only failure is `.err` -/
theorem C11_par_driver_never_panics (fault : Option Nat) (w : World) (cfg : Cfg) (range : List Series.Entry)
    (threads : Nat) (schedA schedS : List Nat) (ht : 0 < threads) (e : Fail) (w' : World)
    (h : parApplyPatchesF fault w cfg range threads schedA schedS = some (.error (e, w'))) : e = .err :=
  parApplyPatchesF_no_panic fault w cfg range threads schedA schedS ht h

/-- `parallel::apply_patches` (the model `Par.parApplyPatches` of C06, whose save phase injects no fault), for
every world -/
theorem C11_par_driver_never_panics' (w : World) (cfg : Cfg) (range : List Series.Entry)
    (threads : Nat) (schedA schedS : List Nat) (ht : 0 < threads) (e : Fail) (w' : World)
    (h : parApplyPatches w cfg range threads schedA schedS = some (.error (e, w'))) : e = .err :=
  parApplyPatches_no_panic w cfg range threads schedA schedS ht h

/-- the in-memory part of the parallel push (apply phase under the schedule `schedA`, which error counts,
`rollbackAhead`, rollback of the failing patch) never fails with a panic -/
theorem C11_par_memory_never_panics (fs : FS) (cfg : Cfg) (range : List Series.Entry)
    (patches : List (Series.Entry × List PFilePatch)) (hparse : parseRange fs cfg range = some patches)
    (threads : Nat) (ht : 0 < threads) (schedA : List Nat) (e : Fail)
    (h : parMemory fs cfg patches threads schedA = some (.error e)) : e = .err :=
  parMemory_err_kind hparse ht schedA h

/-- the hypothesis `0 < threads` is needed: without a thread the model panics (`% thread_count`; rayon always has at
least one thread, so this is not a behaviour of the tool) -/
theorem C11_par_zero_threads (w : World) (cfg : Cfg) (range : List Series.Entry) (schedA schedS : List Nat) :
    parApplyPatches w cfg range 0 schedA schedS = some (.error (.panic, w)) := by
  unfold parApplyPatches
  rfl

end RQ.Par

/-! ## Decided instances: hostile inputs, exit status 1

A tree with `a` = `x\n`, `series` = `p1\n`, and a patch file `patches/p1` that is
* `mismatch`: a hunk that does not match (`-q`): outcome `notAll`, a reject file is written;
* `createOver`: creates `a`, which exists: outcome `notAll`;
* `truncated`: the hunk header promises two lines, one is there: the parser refuses, outcome `error`;
* `renameMismatch`: a git rename `a` → `b` whose hunk does not match: rollback of a rename, outcome `notAll`;
* no `patches/p1` at all, a `series` that is a directory, an injected fault at the first operation.
The theorems above say so for every input; these are evaluated by the kernel. -/
namespace RQ.Push.C11Example
open RQ RQ.Push

def mismatch : Bytes :=
  [45, 45, 45, 32, 97, 47, 97, 10, 43, 43, 43, 32, 98, 47, 97, 10, 64, 64, 32, 45, 49, 32, 43, 49, 32, 64, 64, 10,
   45, 113, 10, 43, 121, 10]
def createOver : Bytes :=
  [45, 45, 45, 32, 47, 100, 101, 118, 47, 110, 117, 108, 108, 10, 43, 43, 43, 32, 98, 47, 97, 10, 64, 64, 32, 45, 48,
   44, 48, 32, 43, 49, 32, 64, 64, 10, 43, 121, 10]
def truncated : Bytes :=
  [45, 45, 45, 32, 97, 47, 97, 10, 43, 43, 43, 32, 98, 47, 97, 10, 64, 64, 32, 45, 49, 44, 50, 32, 43, 49, 32, 64, 64,
   10, 45, 120, 10]
def renameMismatch : Bytes :=
  [100, 105, 102, 102, 32, 45, 45, 103, 105, 116, 32, 97, 47, 97, 32, 98, 47, 98, 10, 114, 101, 110, 97, 109, 101, 32,
   102, 114, 111, 109, 32, 97, 10, 114, 101, 110, 97, 109, 101, 32, 116, 111, 32, 98, 10, 45, 45, 45, 32, 97, 47, 97,
   10, 43, 43, 43, 32, 98, 47, 98, 10, 64, 64, 32, 45, 49, 32, 43, 49, 32, 64, 64, 10, 45, 113, 10, 43, 121, 10]

def fsWith (patch : Bytes) : FS :=
  { nodes := [([[97]], .file [120, 10] 0o644 1),
      ([[115, 101, 114, 105, 101, 115]], .file [112, 49, 10] 0o644 2),
      ([[112, 97, 116, 99, 104, 101, 115]], .dir),
      ([[112, 97, 116, 99, 104, 101, 115], [112, 49]], .file patch 0o644 3)], nextIno := 4 }

/-- no patch file -/
def fsNoPatch : FS :=
  { nodes := [([[97]], .file [120, 10] 0o644 1),
      ([[115, 101, 114, 105, 101, 115]], .file [112, 49, 10] 0o644 2),
      ([[112, 97, 116, 99, 104, 101, 115]], .dir)], nextIno := 3 }

/-- `series` is a directory -/
def fsSeriesDir : FS :=
  { nodes := [([[97]], .file [120, 10] 0o644 1), ([[115, 101, 114, 105, 101, 115]], .dir)], nextIno := 2 }

def cfgA : Cfg := { goal := .all, backup := .always }

theorem mismatch_exit : (Push.push cfgA { fs := fsWith mismatch }).1 = .notAll := by decide
theorem createOver_exit : (Push.push cfgA { fs := fsWith createOver }).1 = .notAll := by decide
theorem truncated_exit : (Push.push cfgA { fs := fsWith truncated }).1 = .error := by decide
theorem renameMismatch_exit : (Push.push cfgA { fs := fsWith renameMismatch }).1 = .notAll := by decide
theorem noPatch_exit : (Push.push cfgA { fs := fsNoPatch }).1 = .error := by decide
theorem seriesDir_exit : (Push.push cfgA { fs := fsSeriesDir }).1 = .error := by decide
/-- the first file-system operation of the push fails -/
theorem fault_exit : (Push.push cfgA { fs := fsWith mismatch, faultAt := some 0 }).1 = .error := by decide

/-- what the theorem says of them -/
example : (Push.push cfgA { fs := fsWith renameMismatch }).1.exit = 1 := by
  rw [renameMismatch_exit]; rfl
example (k : Nat) : (Push.push cfgA { fs := fsWith renameMismatch, faultAt := some k }).1 ≠ .panic :=
  C11_push_never_panics _ _

end RQ.Push.C11Example

#print axioms RQ.Push.C11_push_never_panics
#print axioms RQ.Push.C11_push_exit
#print axioms RQ.Push.C11_apply_total
#print axioms RQ.Push.C11_applyOne_never_panics
#print axioms RQ.Push.C11_spec_never_panics
#print axioms RQ.Push.C11_applyLoop_never_panics
#print axioms RQ.Push.C11_applyLoop_never_panics_init
#print axioms RQ.Push.C11_applyPatches_never_panics
#print axioms RQ.Push.C11_saveApplied_no_panic
#print axioms RQ.Push.C11_plan_outcomes
#print axioms RQ.Par.C11_par_never_panics
#print axioms RQ.Par.C11_par_exit
#print axioms RQ.Par.C11_par_driver_never_panics
#print axioms RQ.Par.C11_par_driver_never_panics'
#print axioms RQ.Par.C11_par_memory_never_panics
#print axioms RQ.Par.C11_par_zero_threads
#print axioms RQ.Push.C11Example.mismatch_exit
#print axioms RQ.Push.C11Example.renameMismatch_exit
#print axioms RQ.Push.C11Example.fault_exit
