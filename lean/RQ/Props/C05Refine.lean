import RQ.Lemmas.RefineDisk
import RQ.Lemmas.TightDec
import RQ.Props.C09Fail
/-!
# C05 (capstone) — the model of the whole command refines the executable specification, on the file system

`Push.push cfg w` is the model of `rapidquilt push` with the sequential driver (plan; application loop in memory with
rollback of the failing patch; `saveAll`, `cleanAll`, `saveRejFiles`, backups; `saveApplied`).  `Spec.pushSpec cfg w.fs`
is the executable specification the correspondence check evaluates on the implementation's output (plan; every file
patch applied to the tree itself; reject files, backups, `.pc/applied-patches`).

`C05_push_refines_pushSpec`: whenever the driver model ends without an I/O error or panic and the specification
reports no output failure of its last phase, the two agree on

* the exit status,
* the node — regular file with content and permission bits, or directory, or nothing — at EVERY path outside `.pc`:
  tracked files, reject files of the failing patch, directories (`Compose.OutsidePc`),
* `.pc/applied-patches`.

This covers both the push that applies its whole range and the push that stops at a patch `k < |range|` (rolled back,
reject files written, backups taken).

Below `.pc`: `C05_push_refines_pushSpec_whole` — when no backups are due (`--backup never`, or the default `onfail`
when everything applied) the two trees hold the same node at every path, `.pc` included, up to inode numbers.  When
backups are due, what the driver model leaves at `.pc/<patch>/<file>` is described by `RQ/Props/C08Disk.lean`
(`C08_backup_on_disk_is_prestate`); the comparison with `Spec.putBackups` is made in `RQ/Props/C08Refine.lean`
(`C08_backups_refine_nodes`, and the whole-tree statement for all backup modes `C05_push_refines_pushSpec_all`, under
the additional hypothesis that the series does not list a patch file twice).

Hypotheses (all but the one on the driver's outcome are decidable on the starting tree):

* `cfg.dryRun = false`: a dry run writes nothing; the statement is about what is on disk.
* `Tight w.fs` (`RQ/Lemmas/Tight.lean`, decided by `Tight.tightB`): outside `.pc` the parents of every node are
  directories, every directory has a regular file below it, permission bits are permission bits.  Needed for the
  directories: known finding `empty-dir-kept` (`RQ/Props/C09Disk.lean`, `Example.tight_needed`).
* `Compose.Clean cfg w.fs range`: the patch files can be read and parsed, and no patch names one of quilt's own files
  (below `.pc`, `series`, the patches directory); no patch is called `.` or lives in a directory `applied-patches`.
* `Agree.PrefixFree`, terminated lines: the hypotheses of `C05_oracle_agrees` (known findings `dir-file-swap`,
  `unterminated-line-mid-file`).
* the driver's outcome is `allApplied` or `notAll`, i.e. its run met no I/O error (and did not panic).  The
  specification does not say which operation of the driver fails when something is in the way below `.pc`; the
  existing theorems (`C05_tree_on_disk`, `C09_bridge`, `C13_rej_on_disk`) take the successful run as a hypothesis too.

NOT needed (contrary to what one might expect from `C13_rej_on_disk_once`, `FailApart`): that no two reject files of
the failing patch have the same path, or that the reject paths are apart from the paths the range names.  Both sides
write the same list of reject files in the same order, each replacing whatever is at its path
(`Refine2.rejects_sim`); the specification models `dup-entry-rej-overwrite` as the code behaves.  `w.faultAt = none` is
not needed either: a run whose operations all answered `ok` did what the file system says.
-/
namespace RQ.Refine2
open RQ RQ.Push RQ.Spec RQ.Flush RQ.Agree RQ.Compose RQ.Tight

/-- **C05 (capstone), for the range `plan` chose.** -/
theorem C05_push_refines_pushSpec (cfg : Cfg) (w : World) (range : List Series.Entry)
    (hdry : cfg.dryRun = false) (hplan : plan cfg w.fs = .apply range)
    (hT : Tight w.fs) (hclean : Clean cfg w.fs range) (hpf : PrefixFree w.fs cfg range)
    (hterm : ∀ t' ∈ reached w.fs cfg range [], TreeTerminated t')
    (hrun : (Push.push cfg w).1 = .allApplied ∨ (Push.push cfg w).1 = .notAll) :
    let r := Push.push cfg w
    let sp := Spec.pushSpec cfg w.fs
    sp.ioError = false →
      r.1.exit = sp.exit ∧ OutsidePc sp.fs r.2.fs ∧ fileAt r.2.fs appliedKey = fileAt sp.fs appliedKey := by
  have hr : Push.push cfg w = pushRange cfg w range := by
    unfold Push.push
    rw [hplan]
  have hs : Spec.pushSpec cfg w.fs = specRun cfg w.fs range := pushSpec_eq_specRun hplan
  intro r sp hio
  show (Push.push cfg w).1.exit = (Spec.pushSpec cfg w.fs).exit ∧
    OutsidePc (Spec.pushSpec cfg w.fs).fs (Push.push cfg w).2.fs ∧
    fileAt (Push.push cfg w).2.fs appliedKey = fileAt (Spec.pushSpec cfg w.fs).fs appliedKey
  have hio' : (Spec.pushSpec cfg w.fs).ioError = false := hio
  rw [hr] at hrun ⊢
  rw [hs] at hio' ⊢
  exact pushRange_refines_specRun cfg w range hdry hT hclean hpf hterm hrun hio'

/-- **C05 (capstone), whatever `plan` decides.**  The hypotheses about the range are asked for the range `plan`
chooses, if it chooses one; when the push is refused by `plan` or there is nothing to do, neither side touches the
tree.  `hnoerr`: unless `plan` refuses, the driver's outcome is not "I/O error"; `hnopanic`: it is not a panic. -/
theorem C05_push_refines_pushSpec_any (cfg : Cfg) (w : World) (hdry : cfg.dryRun = false) (hT : Tight w.fs)
    (hrange : ∀ range, plan cfg w.fs = .apply range →
      Clean cfg w.fs range ∧ PrefixFree w.fs cfg range ∧ ∀ t' ∈ reached w.fs cfg range [], TreeTerminated t')
    (hnoerr : plan cfg w.fs ≠ .refuse → (Push.push cfg w).1 ≠ .error)
    (hnopanic : (Push.push cfg w).1 ≠ .panic) :
    let r := Push.push cfg w
    let sp := Spec.pushSpec cfg w.fs
    sp.ioError = false →
      r.1.exit = sp.exit ∧ OutsidePc sp.fs r.2.fs ∧ fileAt r.2.fs appliedKey = fileAt sp.fs appliedKey := by
  cases hplan : plan cfg w.fs with
  | refuse =>
    have hr : Push.push cfg w = (.error, w) := by
      unfold Push.push; rw [hplan]
    have hs : Spec.pushSpec cfg w.fs = { exit := 1, fs := w.fs } := C09_refused_changes_nothing cfg w.fs hplan
    intro r sp _
    show (Push.push cfg w).1.exit = (Spec.pushSpec cfg w.fs).exit ∧
      OutsidePc (Spec.pushSpec cfg w.fs).fs (Push.push cfg w).2.fs ∧
      fileAt (Push.push cfg w).2.fs appliedKey = fileAt (Spec.pushSpec cfg w.fs).fs appliedKey
    rw [hr, hs]
    exact ⟨rfl, OutsidePc.refl _, rfl⟩
  | nothingToDo =>
    have hr : Push.push cfg w = (.allApplied, w) := C09_nothing_to_do_driver cfg w hplan
    have hs : Spec.pushSpec cfg w.fs = { exit := 0, fs := w.fs } := C09_nothing_to_do cfg w.fs hplan
    intro r sp _
    show (Push.push cfg w).1.exit = (Spec.pushSpec cfg w.fs).exit ∧
      OutsidePc (Spec.pushSpec cfg w.fs).fs (Push.push cfg w).2.fs ∧
      fileAt (Push.push cfg w).2.fs appliedKey = fileAt (Spec.pushSpec cfg w.fs).fs appliedKey
    rw [hr, hs]
    exact ⟨rfl, OutsidePc.refl _, rfl⟩
  | apply range =>
    obtain ⟨hclean, hpf, hterm⟩ := hrange range hplan
    have hne : (Push.push cfg w).1 ≠ .error := hnoerr (by rw [hplan]; exact fun h => by cases h)
    have hrun : (Push.push cfg w).1 = .allApplied ∨ (Push.push cfg w).1 = .notAll := by
      cases ho : (Push.push cfg w).1 with
      | allApplied => exact .inl rfl
      | notAll => exact .inr rfl
      | error => exact absurd ho hne
      | panic => exact absurd ho hnopanic
    exact C05_push_refines_pushSpec cfg w range hdry hplan hT hclean hpf hterm hrun

/-- the second conclusion spelled out: the same regular file (content, permission bits) or no regular file at every
path outside `.pc` — in particular at the path of every reject file — and the same directories -/
theorem C05_push_refines_pushSpec_files (cfg : Cfg) (w : World) (range : List Series.Entry)
    (hdry : cfg.dryRun = false) (hplan : plan cfg w.fs = .apply range)
    (hT : Tight w.fs) (hclean : Clean cfg w.fs range) (hpf : PrefixFree w.fs cfg range)
    (hterm : ∀ t' ∈ reached w.fs cfg range [], TreeTerminated t')
    (hrun : (Push.push cfg w).1 = .allApplied ∨ (Push.push cfg w).1 = .notAll)
    (hio : (Spec.pushSpec cfg w.fs).ioError = false) (k : Key) (hk : ¬ isPcKey k) :
    fileAt (Push.push cfg w).2.fs k = fileAt (Spec.pushSpec cfg w.fs).fs k ∧
    (Push.push cfg w).2.fs.isDir k = (Spec.pushSpec cfg w.fs).fs.isDir k := by
  obtain ⟨_, h, _⟩ := C05_push_refines_pushSpec cfg w range hdry hplan hT hclean hpf hterm hrun hio
  exact ⟨(h.fileAt_eq hk).symm, (h.isDir_eq hk).symm⟩

/-- **C05 (capstone), the whole tree when no backups are due**: with `--backup never`, or `--backup onfail` (the
default) when the whole range applied, the two trees hold the same node at EVERY path — below `.pc` too: `.pc` is a
directory, `.pc/applied-patches` has gained the names, everything else below `.pc` is as it was — up to inode numbers
(`ParSave.FSEquiv`).  (When backups are due, the files `.pc/<patch>/<file>` of the driver model are described by
`RQ/Props/C08Disk.lean`; they are not compared with `putBackups` here.) -/
theorem C05_push_refines_pushSpec_whole (cfg : Cfg) (w : World) (range : List Series.Entry)
    (hdry : cfg.dryRun = false) (hplan : plan cfg w.fs = .apply range)
    (hT : Tight w.fs) (hclean : Clean cfg w.fs range) (hpf : PrefixFree w.fs cfg range)
    (hterm : ∀ t' ∈ reached w.fs cfg range [], TreeTerminated t')
    (hrun : (Push.push cfg w).1 = .allApplied ∨ (Push.push cfg w).1 = .notAll)
    (hnb : cfg.backup = .never ∨ (cfg.backup = .onfail ∧ (Push.push cfg w).1 = .allApplied))
    (hio : (Spec.pushSpec cfg w.fs).ioError = false) :
    ParSave.FSEquiv (Spec.pushSpec cfg w.fs).fs (Push.push cfg w).2.fs := by
  have hr : Push.push cfg w = pushRange cfg w range := by
    unfold Push.push
    rw [hplan]
  have hs : Spec.pushSpec cfg w.fs = specRun cfg w.fs range := pushSpec_eq_specRun hplan
  rw [hr] at hrun hnb ⊢
  rw [hs] at hio ⊢
  exact pushRange_refines_specRun_whole cfg w range hdry hT hclean hpf hterm hrun hnb hio

/-! ## The hypotheses can be met: decided instances

`Good` (the working directory of `RQ/Props/C09Fail.lean`, `FailExample.Good.fs0`): `g` = `a\n`, `f` = `x\n`, `series` =
`p0\np1\n`; `p0` turns `g` into `b\n`, `p1` wants to turn `y` into `z` in `f` and fails; `push -a`.  The driver model
applies `p0`, rolls `p1` back, writes `f.rej`, takes backups (`--backup onfail`), records `p0`; outcome `notAll`.
Every hypothesis of the theorem is decided by the kernel, so is what its conclusion says for this push.

`Overwrite` (`FailExample.Bad.fs0`): `f.rej` exists and is itself patched by the failing patch — the reject file is
written over a tracked file.  `FailApart` fails (that is the point of that example), the refinement theorem applies all
the same. -/
namespace Example
open RQ.Compose.FailExample

theorem plan_of_isApply {p : Plan} {r : List Series.Entry} (h : isApply p r = true) : p = .apply r := by
  cases p with
  | refuse => cases h
  | nothingToDo => cases h
  | apply x =>
    have : x = r := by simpa [isApply] using h
    rw [this]

namespace Good

def w0 : World := { fs := Good.fs0 }
def range0 : List Series.Entry := [e0, e1]

theorem plan0 : plan cfgA w0.fs = .apply range0 := plan_of_isApply Good.plan1
theorem tight0 : Tight w0.fs := tightB_sound (by decide)
theorem pf0 : PrefixFree w0.fs cfgA range0 := by decide
theorem term0 : ∀ t' ∈ reached w0.fs cfgA range0 [], TreeTerminated t' := by decide
theorem run0 : (Push.push cfgA w0).1 = .notAll := by decide
theorem io0 : (Spec.pushSpec cfgA w0.fs).ioError = false := by decide

/-- the theorem applies -/
theorem refines :
    (Push.push cfgA w0).1.exit = (Spec.pushSpec cfgA w0.fs).exit ∧
    OutsidePc (Spec.pushSpec cfgA w0.fs).fs (Push.push cfgA w0).2.fs ∧
    fileAt (Push.push cfgA w0).2.fs appliedKey = fileAt (Spec.pushSpec cfgA w0.fs).fs appliedKey :=
  C05_push_refines_pushSpec cfgA w0 range0 rfl plan0 tight0 Good.clean0 pf0 term0 (.inr run0) io0

/-- what it says here: exit status 1 on both sides, `g` patched, `f` not, a reject file `f.rej` (the same one),
`p0` recorded -/
theorem values :
    (let d := Push.push cfgA w0
     let s := Spec.pushSpec cfgA w0.fs
     d.1.exit == 1 && s.exit == 1 &&
     fileAt d.2.fs kG == some ([98, 10], 0o644) && fileAt s.fs kG == some ([98, 10], 0o644) &&
     fileAt d.2.fs kF == some ([120, 10], 0o644) && fileAt s.fs kF == some ([120, 10], 0o644) &&
     (fileAt d.2.fs kFrej).isSome && fileAt d.2.fs kFrej == fileAt s.fs kFrej &&
     fileAt d.2.fs appliedKey == some ([112, 48, 10], 0o644) &&
     fileAt s.fs appliedKey == some ([112, 48, 10], 0o644)) = true := by decide

end Good

namespace Overwrite

def w0 : World := { fs := Bad.fs0 }
def range0 : List Series.Entry := [e1]

theorem plan0 : (match plan cfgA w0.fs with | .apply x => x == range0 | _ => false) = true := by decide
theorem tight0 : Tight w0.fs := tightB_sound (by decide)
theorem pf0 : PrefixFree w0.fs cfgA range0 := by decide
theorem term0 : ∀ t' ∈ reached w0.fs cfgA range0 [], TreeTerminated t' := by decide
theorem run0 : (Push.push cfgA w0).1 = .notAll := by decide
theorem io0 : (Spec.pushSpec cfgA w0.fs).ioError = false := by decide

/-- the reject file of `f` replaces the tracked file `f.rej` on both sides alike — no apartness hypothesis -/
theorem refines :
    (Push.push cfgA w0).1.exit = (Spec.pushSpec cfgA w0.fs).exit ∧
    OutsidePc (Spec.pushSpec cfgA w0.fs).fs (Push.push cfgA w0).2.fs ∧
    fileAt (Push.push cfgA w0).2.fs appliedKey = fileAt (Spec.pushSpec cfgA w0.fs).fs appliedKey :=
  C05_push_refines_pushSpec cfgA w0 range0 rfl (plan_of_isApply plan0) tight0 Bad.clean0 pf0 term0 (.inr run0) io0

theorem not_apart : ¬ FailApart cfgA w0.fs range0 := Bad.not_apart

/-- `f.rej` held `a\n`; after the push it holds the reject file of `f`, on both sides -/
theorem values :
    (let d := Push.push cfgA w0
     let s := Spec.pushSpec cfgA w0.fs
     fileAt w0.fs kFrej == some ([97, 10], 0o644) &&
     fileAt d.2.fs kFrej != some ([97, 10], 0o644) && (fileAt d.2.fs kFrej).isSome &&
     fileAt d.2.fs kFrej == fileAt s.fs kFrej) = true := by decide

end Overwrite

/-! `AllApplied` (the working directory of `RQ/Props/C09.lean`): `a` = `x\n`, `p1`: `x` → `y`, `p2`: `y` → `z`; `push 2`
applies both; `--backup onfail`, so no backups: the whole trees agree. -/
namespace AllApplied

def w0 : World := { fs := RQ.Compose.Example.fs0 }
def cfg0 : Cfg := RQ.Compose.Example.cfg2
def range0 : List Series.Entry := [RQ.Compose.Example.e1, RQ.Compose.Example.e2]

theorem plan0 : plan cfg0 w0.fs = .apply range0 := RQ.Compose.Example.isApply_eq RQ.Compose.Example.planAll
theorem tight0 : Tight w0.fs := tightB_sound (by decide)
theorem clean0 : Clean cfg0 w0.fs range0 := by decide
theorem pf0 : PrefixFree w0.fs cfg0 range0 := by decide
theorem term0 : ∀ t' ∈ reached w0.fs cfg0 range0 [], TreeTerminated t' := by decide
theorem run0 : (Push.push cfg0 w0).1 = .allApplied := by decide
theorem io0 : (Spec.pushSpec cfg0 w0.fs).ioError = false := by decide

theorem whole : ParSave.FSEquiv (Spec.pushSpec cfg0 w0.fs).fs (Push.push cfg0 w0).2.fs :=
  C05_push_refines_pushSpec_whole cfg0 w0 range0 rfl plan0 tight0 clean0 pf0 term0 (.inl run0)
    (.inr ⟨rfl, run0⟩) io0

theorem values :
    (let d := Push.push cfg0 w0
     let s := Spec.pushSpec cfg0 w0.fs
     d.1.exit == 0 && s.exit == 0 &&
     fileAt d.2.fs [[97]] == some ([122, 10], 0o644) && fileAt s.fs [[97]] == some ([122, 10], 0o644) &&
     d.2.fs.isDir pcDir && s.fs.isDir pcDir &&
     fileAt d.2.fs appliedKey == some ([112, 49, 10, 112, 50, 10], 0o644) &&
     fileAt s.fs appliedKey == some ([112, 49, 10, 112, 50, 10], 0o644)) = true := by decide

end AllApplied

end Example

#print axioms C05_push_refines_pushSpec
#print axioms C05_push_refines_pushSpec_any
#print axioms C05_push_refines_pushSpec_files
#print axioms C05_push_refines_pushSpec_whole
#print axioms Example.Good.refines
#print axioms Example.Good.values
#print axioms Example.Overwrite.refines
#print axioms Example.Overwrite.values
#print axioms Example.AllApplied.whole
#print axioms Example.AllApplied.values

end RQ.Refine2
