import RQ.Lemmas.C01EndToEnd
/-!
# C01 end to end: bytes → diff → patch text → parser → application → tree

The layers of C01 composed (`RQ/Lemmas/C01EndToEnd.lean` has the definitions and the helper lemmas).  For
files `A`, `B` given as **bytes** (arbitrary bytes, empty, with or without final newline) and any context
width `c`, `diffTextTs ts c A B old new` is the text of the unified diff: a `---`/`+++` header for the names
`old`/`new` (each optionally followed by a timestamp `ts`; `diffText` = no timestamp) and the hunks of
`mkDiff c (editScript (linesOf A) (linesOf B))`, each written the way `diff -u` writes a change (`renderHunk`:
hunk header, leading context, `-` lines, `+` lines, trailing context, `\ No newline at end of file` after a
line that lacks its newline).

* **Level 1** (`C01_e2e_parse`, `C01_e2e_forward`, `C01_e2e_reverse`): the parser reads the text (at any strip
  level) as exactly ONE file patch with the stripped names and EXACTLY the hunks of the diff (context counts
  included); that file patch applied to the lines of `A` gives the lines of `B`, every hunk at its stated line
  with offset 0 and fuzz 0 (`C01_e2e_reports`); applied in reverse to `B` it gives `A`.
* **Level 2** (`C01_e2e_pushSpec`, `C01_e2e_pushSpec_R`): on the working directory `f ↦ A` (mode `m`),
  `series ↦ "p\n"`, `patches/p ↦ diffText c A B "a/f" "b/f"` the specification `pushSpec` (push all, strip level 1
  = the default) exits 0 and leaves exactly `B` at `f` (same permission bits), `p` in `.pc/applied-patches`, and
  nothing else changed; with `series ↦ "p -R\n"` on a tree holding `B` it leaves exactly `A`.
* **Level 3** (`C01_e2e_push`, `C01_e2e_push_R`): the same for the model of the sequential driver
  (`Push.push`), including the list of file-system operations it performs.

Hypotheses, all decidable: `A ≠ B` (otherwise the diff has no hunk and the text is only a header, which the
parser takes for garbage); `A.length < 2^63`, `B.length < 2^63` (the parser rejects line numbers above
`isize::MAX`; a Rust `Vec<u8>` cannot be longer anyway); the names are not `/dev/null` (levels 2–3 fix them to
`a/f`, `b/f`); a timestamp is empty or a tab followed by anything without a newline; and
`c0TopOfFile c A B = false`, which excludes exactly the known finding `c0-top-of-file` (the diff is a single
context-free hunk whose empty side is at line 0 although neither file is empty: the parser takes it for a
whole-file creation / deletion).  `C01_e2e_c0_only` shows that this class is empty for every `c > 0`; the
examples at the end show on concrete bytes that it is not for `c = 0` and that the application then fails.
`A = []` or `B = []` (empty file ↔ non-empty file, both names given) are covered: the diff is then a
whole-file creation / deletion, which libpatch applies by its own rule, and the file ends up empty, not removed.

* **Absent files** (`/dev/null` as the old or the new name, `diffTextOpt`): `C01_e2e_create`, `C01_e2e_delete`
  (level 1: parsed to one file patch without old / new name; applied to "does not exist" it creates `B`, applied to
  `A` it leaves "does not exist", and `-R` the other way round), `C01_e2e_pushSpec_create/_delete(_R)` (level 2:
  `f` appears with mode 644 / disappears from the tree) and `C01_e2e_push_create/_delete(_R)` (level 3).

**Finding (tool's own writer).**  The task asked for the hunks to be rendered with the model of the tool's
writer (`writeHunk`).  With that rendering the statement is FALSE: the writer re-derives the context lines of
a hunk from its two sides with `find_closest_match`, which can turn a change in the middle of a hunk into
"insert early, delete at the end", so the text it writes has the same two sides but other leading / trailing
context counts; parsed back, such a hunk can be anchored differently (e.g. to the end of the file), apply at an
offset and produce a different file, with every hunk reported as applied.  Smallest witness found (`c = 3`,
`A` = six lines `b`, `B = b a b b b b`): see `writerCounterexample` below.  This does not touch C01 itself (the
diffs of C01 come from `diff`, not from the tool's writer) but it does concern whatever the writer is used
for (`.rej` files, C12/C13): `sameHunks` is not enough to conclude that a re-written patch applies alike.
Seen on the real binary (2026-09-30, unchanged /repo debug build): the hunk ` b -b +a  b  b  b` failing on a file
`x x x` is written to `f.rej` as ` b +a  b  b  b -b`; that reject file applied (`-p0`, by rapidquilt or by GNU
patch, "offset 1 line") to six lines `b` gives `b b a b b b`, the original hunk gives `b a b b b b`.
-/
namespace RQ
open RQ.Parse RQ.Write RQ.Push RQ.Spec

/-! ## Level 1: text → one file patch → applied -/

/-- **C01 end to end, parsing**: the diff text is parsed, at any strip level, to exactly one file patch: the
stripped names, no rename, no modes, and exactly the hunks of the diff -/
theorem C01_e2e_parse (ts : Bytes) (c : Nat) (A B old new : Bytes) (strip : Nat)
    (hAB : A ≠ B) (hA : A.length < 2 ^ 63) (hB : B.length < 2 ^ 63)
    (ho : old ≠ nullFilename) (hn : new ≠ nullFilename) (hts : TsOK ts) :
    parsePatch (diffTextTs ts c A B old new) strip false =
      .ok { header := [],
            fps := [{ kind := recognizeKind (diffHunks c A B), old := some (stripPath strip old),
                      new := some (stripPath strip new), rename := false, oldPerm := none, newPerm := none,
                      oldHash := none, newHash := none, hunks := diffHunks c A B }] } :=
  diffTextTs_parses ts c A B old new strip hAB hA hB ho hn hts

/-- **C01 end to end, forward**: the text of the diff `A → B` is parsed to one file patch `f'` which, applied
to a file holding `A` (any permissions `m`, any fuzz limit `F`), yields exactly `B`; flags and permissions stay -/
theorem C01_e2e_forward (ts : Bytes) (c F : Nat) (A B old new : Bytes) (strip : Nat) (ex : Bool) (m : Option Nat)
    (hAB : A ≠ B) (hA : A.length < 2 ^ 63) (hB : B.length < 2 ^ 63)
    (ho : old ≠ nullFilename) (hn : new ≠ nullFilename) (hts : TsOK ts)
    (hex : c0TopOfFile c A B = false) :
    ∃ f', parsePatch (diffTextTs ts c A B old new) strip false = .ok { header := [], fps := [f'] } ∧
      f'.old = some (stripPath strip old) ∧ f'.new = some (stripPath strip new) ∧ f'.hunks = diffHunks c A B ∧
      f'.apply .fwd F { content := linesOf A, existed := ex, deleted := false, perms := m } =
        some ({ content := linesOf B, existed := ex, deleted := false, perms := m },
              { reps := e2eReps .fwd c F A B, dir := .fwd, fuzz := F, prevPerms := m, prevDeleted := false }) :=
  ⟨diffFP c A B (stripPath strip old) (stripPath strip new),
    diffTextTs_parses ts c A B old new strip hAB hA hB ho hn hts, rfl, rfl, rfl,
    diffFP_apply_fwd c F A B _ _ ex m hex⟩

/-- **C01 end to end, reverse**: the same text applied in the reverse direction (`-R`) to a file holding `B`
yields exactly `A` -/
theorem C01_e2e_reverse (ts : Bytes) (c F : Nat) (A B old new : Bytes) (strip : Nat) (ex : Bool) (m : Option Nat)
    (hAB : A ≠ B) (hA : A.length < 2 ^ 63) (hB : B.length < 2 ^ 63)
    (ho : old ≠ nullFilename) (hn : new ≠ nullFilename) (hts : TsOK ts)
    (hex : c0TopOfFile c A B = false) :
    ∃ f', parsePatch (diffTextTs ts c A B old new) strip false = .ok { header := [], fps := [f'] } ∧
      f'.old = some (stripPath strip old) ∧ f'.new = some (stripPath strip new) ∧ f'.hunks = diffHunks c A B ∧
      f'.apply .rev F { content := linesOf B, existed := ex, deleted := false, perms := m } =
        some ({ content := linesOf A, existed := ex, deleted := false, perms := m },
              { reps := e2eReps .rev c F A B, dir := .rev, fuzz := F, prevPerms := m, prevDeleted := false }) :=
  ⟨diffFP c A B (stripPath strip old) (stripPath strip new),
    diffTextTs_parses ts c A B old new strip hAB hA hB ho hn hts, rfl, rfl, rfl,
    diffFP_apply_rev c F A B _ _ ex m hex⟩

/-- the reports of both theorems: every hunk applied, offset 0, and fuzz 0 for an ordinary (Modify) diff; none
failed.  (For a whole-file creation / deletion libpatch's single report carries the configured fuzz limit.) -/
theorem C01_e2e_reports (d : Dir) (c F : Nat) (A B : Bytes) :
    (e2eReps d c F A B).any Rep.isFailed = false ∧
    ∀ r ∈ e2eReps d c F A B, ∃ line rb diff fz, r = .applied line rb 0 diff fz ∧
      (recognizeKind (diffHunks c A B) = .modify → fz = 0) :=
  ⟨e2eReps_ok d c F A B, e2eReps_exact d c F A B⟩

/-- for an ordinary diff the reports are those of `C01_forward`: every hunk at its stated line -/
theorem C01_e2e_reports_modify (c F : Nat) (A B : Bytes) (h : recognizeKind (diffHunks c A B) = .modify) :
    e2eReps .fwd c F A B = exactReports (diffHunks c A B) 0 ∧
    e2eReps .rev c F A B = exactReports ((diffHunks c A B).map Hunk.swap) 0 := by
  simp only [e2eReps, h, and_self]

/-- **the excluded class `c0-top-of-file` only exists for context width 0** -/
theorem C01_e2e_c0_only (c : Nat) (hc : 0 < c) (A B : Bytes) : c0TopOfFile c A B = false :=
  c0TopOfFile_pos c hc A B

/-! ## Level 2: the specification of the whole tool -/

theorem nmOld_ne_null : nmOld ≠ nullFilename := by decide
theorem nmNew_ne_null : nmNew ≠ nullFilename := by decide

/-- **C01 end to end, `pushSpec`**: `f` holds `A` (mode `m`), `series` is `p`, `patches/p` is the diff of `a/f` (`A`)
and `b/f` (`B`): the push of all patches exits 0 and leaves the tree `e2eFinal`: `f` holds exactly `B` with the same
permission bits, `.pc/applied-patches` is `p`, `series` and `patches/p` are as before, nothing else exists -/
theorem C01_e2e_pushSpec (c : Nat) (A B : Bytes) (m : Nat)
    (hAB : A ≠ B) (hA : A.length < 2 ^ 63) (hB : B.length < 2 ^ 63) (hex : c0TopOfFile c A B = false) :
    pushSpec cfgAll (e2eFS A m serFwd (diffText c A B nmOld nmNew)) =
      { exit := 0, fs := e2eFinal B (m % 4096) serFwd (diffText c A B nmOld nmNew) } := by
  have hp := diffTextTs_parses [] c A B nmOld nmNew 1 hAB hA hB nmOld_ne_null nmNew_ne_null (Or.inl rfl)
  rw [stripPath_nmOld, stripPath_nmNew] at hp
  exact pushSpec_e2e_core false A B m _ (diffFP c A B nmF nmF) _ ⟨rfl, rfl, rfl⟩ hp
    (diffFP_apply_fwd c 0 A B nmF nmF true _ hex) (by simp [Report.ok, Report.failed, e2eReps_ok])

/-- **the same with `-R`**: `series` is `p -R`, `f` holds `B`: the push leaves exactly `A` -/
theorem C01_e2e_pushSpec_R (c : Nat) (A B : Bytes) (m : Nat)
    (hAB : A ≠ B) (hA : A.length < 2 ^ 63) (hB : B.length < 2 ^ 63) (hex : c0TopOfFile c A B = false) :
    pushSpec cfgAll (e2eFS B m serRev (diffText c A B nmOld nmNew)) =
      { exit := 0, fs := e2eFinal A (m % 4096) serRev (diffText c A B nmOld nmNew) } := by
  have hp := diffTextTs_parses [] c A B nmOld nmNew 1 hAB hA hB nmOld_ne_null nmNew_ne_null (Or.inl rfl)
  rw [stripPath_nmOld, stripPath_nmNew] at hp
  exact pushSpec_e2e_core true B A m _ (diffFP c A B nmF nmF) _ ⟨rfl, rfl, rfl⟩ hp
    (diffFP_apply_rev c 0 A B nmF nmF true _ hex) (by simp [Report.ok, Report.failed, e2eReps_ok])

/-- what a user sees afterwards (`Flush.fileAt`: content and permission bits of the regular file at a path) -/
theorem C01_e2e_pushSpec_view (c : Nat) (A B : Bytes) (m : Nat)
    (hAB : A ≠ B) (hA : A.length < 2 ^ 63) (hB : B.length < 2 ^ 63) (hex : c0TopOfFile c A B = false) :
    let out := pushSpec cfgAll (e2eFS A m serFwd (diffText c A B nmOld nmNew))
    out.exit = 0 ∧ out.ioError = false ∧
    Flush.fileAt out.fs [nmF] = some (B, m % 4096) ∧
    Flush.fileAt out.fs appliedKey = some (nmP ++ [10], 0o644) ∧
    Flush.fileAt out.fs seriesKey = some (serFwd, 0o644) ∧
    Flush.fileAt out.fs (patchesKey ++ [nmP]) = some (diffText c A B nmOld nmNew, 0o644) := by
  intro out
  have h : out = _ := C01_e2e_pushSpec c A B m hAB hA hB hex
  rw [h]
  have hm : m % 4096 % 4096 = m % 4096 := by omega
  refine ⟨rfl, rfl, ?_, rfl, rfl, rfl⟩
  show some (B, m % 4096 % 4096) = _
  rw [hm]

/-! ## Level 3: the model of the driver -/

/-- **C01 end to end, driver model**: `Push.push` on the same working directory reports "all applied" (exit 0),
leaves the same tree as `pushSpec`, and gets there by exactly the operations `trAll`: unlink `f`, create it,
set its mode, write `B`, make `.pc`, open `.pc/applied-patches` for appending, write `p` -/
theorem C01_e2e_push (c : Nat) (A B : Bytes) (m : Nat)
    (hAB : A ≠ B) (hA : A.length < 2 ^ 63) (hB : B.length < 2 ^ 63) (hex : c0TopOfFile c A B = false) :
    Push.push cfgAll { fs := e2eFS A m serFwd (diffText c A B nmOld nmNew) } =
      (.allApplied, { fs := e2eFinal B (m % 4096) serFwd (diffText c A B nmOld nmNew),
                      trace := trAll (0o100000 + m % 4096) B, faultAt := none }) := by
  have hp := diffTextTs_parses [] c A B nmOld nmNew 1 hAB hA hB nmOld_ne_null nmNew_ne_null (Or.inl rfl)
  rw [stripPath_nmOld, stripPath_nmNew] at hp
  exact push_e2e_core false A B m _ (diffFP c A B nmF nmF) _ ⟨rfl, rfl, rfl⟩ hp
    (diffFP_apply_fwd c 0 A B nmF nmF true _ hex) (by simp [Report.ok, Report.failed, e2eReps_ok])

/-- **the same with `-R`** -/
theorem C01_e2e_push_R (c : Nat) (A B : Bytes) (m : Nat)
    (hAB : A ≠ B) (hA : A.length < 2 ^ 63) (hB : B.length < 2 ^ 63) (hex : c0TopOfFile c A B = false) :
    Push.push cfgAll { fs := e2eFS B m serRev (diffText c A B nmOld nmNew) } =
      (.allApplied, { fs := e2eFinal A (m % 4096) serRev (diffText c A B nmOld nmNew),
                      trace := trAll (0o100000 + m % 4096) A, faultAt := none }) := by
  have hp := diffTextTs_parses [] c A B nmOld nmNew 1 hAB hA hB nmOld_ne_null nmNew_ne_null (Or.inl rfl)
  rw [stripPath_nmOld, stripPath_nmNew] at hp
  exact push_e2e_core true B A m _ (diffFP c A B nmF nmF) _ ⟨rfl, rfl, rfl⟩ hp
    (diffFP_apply_rev c 0 A B nmF nmF true _ hex) (by simp [Report.ok, Report.failed, e2eReps_ok])

/-- driver model and specification leave the same tree with the same exit status -/
theorem C01_e2e_push_eq_spec (c : Nat) (A B : Bytes) (m : Nat)
    (hAB : A ≠ B) (hA : A.length < 2 ^ 63) (hB : B.length < 2 ^ 63) (hex : c0TopOfFile c A B = false) :
    let w := Push.push cfgAll { fs := e2eFS A m serFwd (diffText c A B nmOld nmNew) }
    let o := pushSpec cfgAll (e2eFS A m serFwd (diffText c A B nmOld nmNew))
    w.1.exit = o.exit ∧ w.2.fs = o.fs := by
  intro w o
  have h1 : w = _ := C01_e2e_push c A B m hAB hA hB hex
  have h2 : o = _ := C01_e2e_pushSpec c A B m hAB hA hB hex
  rw [h1, h2]
  exact ⟨rfl, rfl⟩

/-! ## absent files: `/dev/null` as one of the names -/

/-- **creation** (`--- /dev/null`, `+++ new`): the text is parsed to one file patch without old name; applied to a
file that does not exist it creates exactly `B`; un-applied (`-R`) from a file holding `B` it leaves "does not exist" -/
theorem C01_e2e_create (ts : Bytes) (c F : Nat) (B new : Bytes) (strip : Nat) (ex : Bool) (m : Option Nat)
    (hB : B ≠ []) (hBl : B.length < 2 ^ 63) (hn : new ≠ nullFilename) (hts : TsOK ts) :
    ∃ f', parsePatch (diffTextOpt ts c [] B none (some new)) strip false = .ok { header := [], fps := [f'] } ∧
      f'.old = none ∧ f'.new = some (stripPath strip new) ∧ f'.hunks = diffHunks c [] B ∧
      f'.apply .fwd F nonExistent =
        some ({ content := linesOf B, existed := false, deleted := false, perms := none },
              { reps := [.applied 0 0 0 ((linesOf B).length : Int) F], dir := .fwd, fuzz := F,
                prevPerms := none, prevDeleted := true }) ∧
      f'.apply .rev F { content := linesOf B, existed := ex, deleted := false, perms := m } =
        some ({ content := [], existed := ex, deleted := true, perms := none },
              { reps := [.applied 0 0 0 (-((linesOf B).length : Int)) F], dir := .rev, fuzz := F,
                prevPerms := m, prevDeleted := false }) :=
  ⟨diffFPOpt c [] B none (some (stripPath strip new)),
    diffTextOpt_parses ts c [] B none (some new) strip (fun e => hB e.symm) (by decide) hBl (by simp)
      (by intro e; exact hn (Option.some.inj e)) (Or.inr rfl) hts,
    rfl, rfl, rfl, diffFPOpt_create_fwd c F B _ _ false true none hB, diffFPOpt_create_rev c F B _ _ ex false m hB⟩

/-- **deletion** (`--- old`, `+++ /dev/null`): applied to a file holding `A` it leaves "does not exist"; un-applied
(`-R`) from a file that does not exist it creates exactly `A` -/
theorem C01_e2e_delete (ts : Bytes) (c F : Nat) (A old : Bytes) (strip : Nat) (ex : Bool) (m : Option Nat)
    (hA : A ≠ []) (hAl : A.length < 2 ^ 63) (ho : old ≠ nullFilename) (hts : TsOK ts) :
    ∃ f', parsePatch (diffTextOpt ts c A [] (some old) none) strip false = .ok { header := [], fps := [f'] } ∧
      f'.old = some (stripPath strip old) ∧ f'.new = none ∧ f'.hunks = diffHunks c A [] ∧
      f'.apply .fwd F { content := linesOf A, existed := ex, deleted := false, perms := m } =
        some ({ content := [], existed := ex, deleted := true, perms := none },
              { reps := [.applied 0 0 0 (-((linesOf A).length : Int)) F], dir := .fwd, fuzz := F,
                prevPerms := m, prevDeleted := false }) ∧
      f'.apply .rev F nonExistent =
        some ({ content := linesOf A, existed := false, deleted := false, perms := none },
              { reps := [.applied 0 0 0 ((linesOf A).length : Int) F], dir := .rev, fuzz := F,
                prevPerms := none, prevDeleted := true }) :=
  ⟨diffFPOpt c A [] (some (stripPath strip old)) none,
    diffTextOpt_parses ts c A [] (some old) none strip hA hAl (by decide)
      (by intro e; exact ho (Option.some.inj e)) (by simp) (Or.inl rfl) hts,
    rfl, rfl, rfl, diffFPOpt_delete_fwd c F A _ _ ex false m hA, diffFPOpt_delete_rev c F A _ _ false true none hA⟩

theorem create_parse1 (c : Nat) (B : Bytes) (hB : B ≠ []) (hBl : B.length < 2 ^ 63) :
    parsePatch (diffTextOpt [] c [] B none (some nmNew)) 1 false =
      .ok { header := [], fps := [diffFPOpt c [] B none (some nmF)] } := by
  have hp := diffTextOpt_parses [] c [] B none (some nmNew) 1 (fun e => hB e.symm) (by decide) hBl (by simp)
    (by decide) (Or.inr rfl) (Or.inl rfl)
  rwa [show (some nmNew : Option Bytes).map (stripPath 1) = some nmF from by decide,
    show (none : Option Bytes).map (stripPath 1) = none from rfl] at hp

theorem delete_parse1 (c : Nat) (A : Bytes) (hA : A ≠ []) (hAl : A.length < 2 ^ 63) :
    parsePatch (diffTextOpt [] c A [] (some nmOld) none) 1 false =
      .ok { header := [], fps := [diffFPOpt c A [] (some nmF) none] } := by
  have hp := diffTextOpt_parses [] c A [] (some nmOld) none 1 hA hAl (by decide) (by decide) (by simp)
    (Or.inl rfl) (Or.inl rfl)
  rwa [show (some nmOld : Option Bytes).map (stripPath 1) = some nmF from by decide,
    show (none : Option Bytes).map (stripPath 1) = none from rfl] at hp

/-- **`pushSpec`, creation**: `f` does not exist, `patches/p` is the diff of `/dev/null` and `b/f`: the push exits 0,
`f` exists with content `B` and mode 644 -/
theorem C01_e2e_pushSpec_create (c : Nat) (B : Bytes) (hB : B ≠ []) (hBl : B.length < 2 ^ 63) :
    pushSpec cfgAll (e2eFS0 serFwd (diffTextOpt [] c [] B none (some nmNew))) =
      { exit := 0, fs := e2eFinal B 0o644 serFwd (diffTextOpt [] c [] B none (some nmNew)) } :=
  pushSpec_e2e_create false B _ _ _ ⟨Or.inl ⟨rfl, rfl⟩, rfl⟩ (create_parse1 c B hB hBl)
    (diffFPOpt_create_fwd c 0 B none (some nmF) false true none hB) rfl

/-- **`pushSpec`, creation un-applied** (`p -R`, `f` holds `B`): `f` is gone afterwards -/
theorem C01_e2e_pushSpec_create_R (c : Nat) (B : Bytes) (m : Nat) (hB : B ≠ []) (hBl : B.length < 2 ^ 63) :
    pushSpec cfgAll (e2eFS B m serRev (diffTextOpt [] c [] B none (some nmNew))) =
      { exit := 0, fs := e2eGone serRev (diffTextOpt [] c [] B none (some nmNew)) } :=
  pushSpec_e2e_remove true B m _ _ _ ⟨Or.inl ⟨rfl, rfl⟩, rfl⟩ (create_parse1 c B hB hBl)
    (diffFPOpt_create_rev c 0 B none (some nmF) true false _ hB) rfl

/-- **`pushSpec`, deletion**: `f` holds `A`, `patches/p` is the diff of `a/f` and `/dev/null`: `f` is gone afterwards -/
theorem C01_e2e_pushSpec_delete (c : Nat) (A : Bytes) (m : Nat) (hA : A ≠ []) (hAl : A.length < 2 ^ 63) :
    pushSpec cfgAll (e2eFS A m serFwd (diffTextOpt [] c A [] (some nmOld) none)) =
      { exit := 0, fs := e2eGone serFwd (diffTextOpt [] c A [] (some nmOld) none) } :=
  pushSpec_e2e_remove false A m _ _ _ ⟨Or.inr ⟨rfl, rfl⟩, rfl⟩ (delete_parse1 c A hA hAl)
    (diffFPOpt_delete_fwd c 0 A (some nmF) none true false _ hA) rfl

/-- **`pushSpec`, deletion un-applied** (`p -R`, `f` does not exist): `f` exists with content `A` and mode 644 -/
theorem C01_e2e_pushSpec_delete_R (c : Nat) (A : Bytes) (hA : A ≠ []) (hAl : A.length < 2 ^ 63) :
    pushSpec cfgAll (e2eFS0 serRev (diffTextOpt [] c A [] (some nmOld) none)) =
      { exit := 0, fs := e2eFinal A 0o644 serRev (diffTextOpt [] c A [] (some nmOld) none) } :=
  pushSpec_e2e_create true A _ _ _ ⟨Or.inr ⟨rfl, rfl⟩, rfl⟩ (delete_parse1 c A hA hAl)
    (diffFPOpt_delete_rev c 0 A (some nmF) none false true none hA) rfl

/-- **driver model, creation**: operations `trCreate`: `create_dir_all` of the working directory, create `f`, write
`B` (no mode is set: the file keeps the 644 it was created with), then `.pc/applied-patches` -/
theorem C01_e2e_push_create (c : Nat) (B : Bytes) (hB : B ≠ []) (hBl : B.length < 2 ^ 63) :
    Push.push cfgAll { fs := e2eFS0 serFwd (diffTextOpt [] c [] B none (some nmNew)) } =
      (.allApplied, { fs := e2eFinal B 0o644 serFwd (diffTextOpt [] c [] B none (some nmNew)),
                      trace := trCreate B, faultAt := none }) :=
  push_e2e_create false B _ _ _ ⟨Or.inl ⟨rfl, rfl⟩, rfl⟩ (create_parse1 c B hB hBl)
    (diffFPOpt_create_fwd c 0 B none (some nmF) false true none hB) rfl

theorem C01_e2e_push_create_R (c : Nat) (B : Bytes) (m : Nat) (hB : B ≠ []) (hBl : B.length < 2 ^ 63) :
    Push.push cfgAll { fs := e2eFS B m serRev (diffTextOpt [] c [] B none (some nmNew)) } =
      (.allApplied, { fs := e2eGone serRev (diffTextOpt [] c [] B none (some nmNew)),
                      trace := trRemove, faultAt := none }) :=
  push_e2e_remove true B m _ _ _ ⟨Or.inl ⟨rfl, rfl⟩, rfl⟩ (create_parse1 c B hB hBl)
    (diffFPOpt_create_rev c 0 B none (some nmF) true false _ hB) rfl

/-- **driver model, deletion**: operations `trRemove`: unlink `f`, then `.pc/applied-patches` (the working directory
is looked at for cleaning but is not empty) -/
theorem C01_e2e_push_delete (c : Nat) (A : Bytes) (m : Nat) (hA : A ≠ []) (hAl : A.length < 2 ^ 63) :
    Push.push cfgAll { fs := e2eFS A m serFwd (diffTextOpt [] c A [] (some nmOld) none) } =
      (.allApplied, { fs := e2eGone serFwd (diffTextOpt [] c A [] (some nmOld) none),
                      trace := trRemove, faultAt := none }) :=
  push_e2e_remove false A m _ _ _ ⟨Or.inr ⟨rfl, rfl⟩, rfl⟩ (delete_parse1 c A hA hAl)
    (diffFPOpt_delete_fwd c 0 A (some nmF) none true false _ hA) rfl

theorem C01_e2e_push_delete_R (c : Nat) (A : Bytes) (hA : A ≠ []) (hAl : A.length < 2 ^ 63) :
    Push.push cfgAll { fs := e2eFS0 serRev (diffTextOpt [] c A [] (some nmOld) none) } =
      (.allApplied, { fs := e2eFinal A 0o644 serRev (diffTextOpt [] c A [] (some nmOld) none),
                      trace := trCreate A, faultAt := none }) :=
  push_e2e_create true A _ _ _ ⟨Or.inr ⟨rfl, rfl⟩, rfl⟩ (delete_parse1 c A hA hAl)
    (diffFPOpt_delete_rev c 0 A (some nmF) none false true none hA) rfl

/-! ## non-vacuity on concrete bytes

`A` = `a\nb\nc\n`, `B` = `a\nx\nc` (no final newline), context width 1. -/

def e2eA : Bytes := [97, 10, 98, 10, 99, 10]
def e2eB : Bytes := [97, 10, 120, 10, 99]

/-- `--- a/f\n+++ b/f\n@@ -1,3 +1,3 @@\n a\n-b\n-c\n+x\n+c\n\ No newline at end of file\n` -/
example : diffText 1 e2eA e2eB nmOld nmNew =
    [45, 45, 45, 32, 97, 47, 102, 10, 43, 43, 43, 32, 98, 47, 102, 10,
     64, 64, 32, 45, 49, 44, 51, 32, 43, 49, 44, 51, 32, 64, 64, 10,
     32, 97, 10, 45, 98, 10, 45, 99, 10, 43, 120, 10, 43, 99, 10,
     92, 32, 78, 111, 32, 110, 101, 119, 108, 105, 110, 101, 32, 97, 116, 32, 101, 110, 100, 32, 111, 102, 32,
     102, 105, 108, 101, 10] := by decide

example : pushSpec cfgAll (e2eFS e2eA 0o755 serFwd (diffText 1 e2eA e2eB nmOld nmNew)) =
    { exit := 0, fs := e2eFinal e2eB 0o755 serFwd (diffText 1 e2eA e2eB nmOld nmNew) } :=
  C01_e2e_pushSpec 1 e2eA e2eB 0o755 (by decide) (by decide) (by decide) (by decide)

example : (Push.push cfgAll { fs := e2eFS e2eB 0o644 serRev (diffText 1 e2eA e2eB nmOld nmNew) }).1 = .allApplied :=
  by rw [C01_e2e_push_R 1 e2eA e2eB 0o644 (by decide) (by decide) (by decide) (by decide)]

/-- an empty file becomes non-empty (the parser takes the diff for a creation; both names given) and back -/
example : pushSpec cfgAll (e2eFS [] 0o600 serFwd (diffText 3 [] e2eB nmOld nmNew)) =
    { exit := 0, fs := e2eFinal e2eB 0o600 serFwd (diffText 3 [] e2eB nmOld nmNew) } :=
  C01_e2e_pushSpec 3 [] e2eB 0o600 (by decide) (by decide) (by decide) (by decide)

/-- `--- /dev/null\n+++ b/f\n@@ -0,0 +1,3 @@\n+a\n+x\n+c\n\ No newline at end of file\n`: `f` is created -/
example : diffTextOpt [] 3 [] e2eB none (some nmNew) =
    [45, 45, 45, 32, 47, 100, 101, 118, 47, 110, 117, 108, 108, 10, 43, 43, 43, 32, 98, 47, 102, 10,
     64, 64, 32, 45, 48, 44, 48, 32, 43, 49, 44, 51, 32, 64, 64, 10,
     43, 97, 10, 43, 120, 10, 43, 99, 10,
     92, 32, 78, 111, 32, 110, 101, 119, 108, 105, 110, 101, 32, 97, 116, 32, 101, 110, 100, 32, 111, 102, 32,
     102, 105, 108, 101, 10] := by decide

example : Flush.fileAt (pushSpec cfgAll (e2eFS0 serFwd (diffTextOpt [] 3 [] e2eB none (some nmNew)))).fs [nmF] =
    some (e2eB, 0o644) := by
  rw [C01_e2e_pushSpec_create 3 e2eB (by decide) (by decide)]; rfl

example : Flush.fileAt (pushSpec cfgAll (e2eFS e2eA 0o755 serFwd (diffTextOpt [] 0 e2eA [] (some nmOld) none))).fs [nmF] =
    none := by
  rw [C01_e2e_pushSpec_delete 0 e2eA 0o755 (by decide) (by decide)]; rfl

/-! ### the hypothesis `c0TopOfFile c A B = false` is needed: `a\nb\n` → `b\n` with context width 0

The diff is `@@ -1,1 +0,0 @@ -a`; the parser takes it for the deletion of the whole file and libpatch refuses
("delete mismatch"), the file stays as it was. -/

def c0A : Bytes := [97, 10, 98, 10]
def c0B : Bytes := [98, 10]

example : c0TopOfFile 0 c0A c0B = true := by decide

example : (diffFP 0 c0A c0B nmF nmF).apply .fwd 0 { content := linesOf c0A, existed := true, deleted := false, perms := none } =
    some ({ content := linesOf c0A, existed := true, deleted := false, perms := none },
          { reps := [.failed .deleteMismatch], dir := .fwd, fuzz := 0 }) := by decide

/-- with one line of context the same pair of files is fine -/
example : c0TopOfFile 1 c0A c0B = false := by decide

/-! ### the tool's own writer is not a faithful renderer (see the finding in the header)

`A` = six lines `b`, `B` = `b a b b b b`, context width 3.  The diff has one hunk `b -b +a b b b` (leading context
1, trailing context 3).  `writeHunk` writes it as ` b +a  b  b  b -b`; the parser reads that back with leading
context 1, trailing context 0, i.e. anchored to the end of the file; applied to `A` it is placed one line down
(offset 1), reported as applied, and the result is `b b a b b b`, not `B`. -/

def wA : Bytes := [98, 10, 98, 10, 98, 10, 98, 10, 98, 10, 98, 10]
def wB : Bytes := [98, 10, 97, 10, 98, 10, 98, 10, 98, 10, 98, 10]

/-- the diff text with the hunks written by the model of the tool's writer -/
def diffTextW (c : Nat) (A B old new : Bytes) : Bytes :=
  plainHeader (some old) (some new) [] ++ ((diffHunks c A B).map writeHunk).flatten

/-- parse `diffTextW`, apply to `A`: (context counts of the parsed hunks, all reported applied?, reports, result = `B`?) -/
def writerCounterexample : Option (List (Nat × Nat) × Bool × List Rep × Bool) :=
  match parsePatch (diffTextW 3 wA wB nmOld nmNew) 1 false with
  | .ok p =>
    match p.fps with
    | [f] =>
      match f.apply .fwd 0 { content := linesOf wA, existed := true, deleted := false, perms := none } with
      | some (st, rep) => some (f.hunks.map (fun h => (h.pre, h.suf)), rep.ok, rep.reps, decide (st.content = linesOf wB))
      | none => none
    | _ => none
  | .error _ => none

example : (diffHunks 3 wA wB).map (fun h => (h.pre, h.suf)) = [(1, 3)] := by decide

example : writerCounterexample = some ([(1, 0)], true, [.applied 1 1 1 0 0], false) := by decide

/-- the faithful rendering of the same diff is fine, as the theorems say -/
example : c0TopOfFile 3 wA wB = false := by decide

#print axioms C01_e2e_parse
#print axioms C01_e2e_forward
#print axioms C01_e2e_reverse
#print axioms C01_e2e_reports
#print axioms C01_e2e_reports_modify
#print axioms C01_e2e_c0_only
#print axioms C01_e2e_pushSpec
#print axioms C01_e2e_pushSpec_R
#print axioms C01_e2e_pushSpec_view
#print axioms C01_e2e_push
#print axioms C01_e2e_push_R
#print axioms C01_e2e_push_eq_spec
#print axioms C01_e2e_create
#print axioms C01_e2e_delete
#print axioms C01_e2e_pushSpec_create
#print axioms C01_e2e_pushSpec_create_R
#print axioms C01_e2e_pushSpec_delete
#print axioms C01_e2e_pushSpec_delete_R
#print axioms C01_e2e_push_create
#print axioms C01_e2e_push_create_R
#print axioms C01_e2e_push_delete
#print axioms C01_e2e_push_delete_R

end RQ
