import RQ.Lemmas.Refine
import RQ.Lemmas.DiskTree
/-!
# C05 — push is all-or-nothing per patch: tree = first k patches, k = names recorded

`RQ.Abs.applyRange` (Spec/Abs.lean) is the specification of the application phase: file patches applied
to the tree one after another, a patch adopted only if all its hunks apply, the first failing patch
discarded as a whole, `k` = number of adopted patches.  `C05_apply_refines` says the model of the real
driver — which keeps `ModifiedFile`s in memory, applies the failing patch partially and then rolls it
back in LIFO order, and collects reject files on the way — computes exactly that: same `k`, same reject
files, and a memory that stands for the same tree (for a real run; a dry run does not bother to undo).
Exit status and `.pc/applied-patches` are functions of `k` (`pushRange`).

The flush of the memory to disk (`saveAll`, `cleanAll`, reject files, backups) is `RQ.Flush.applyPatches_tree`
(`RQ/Lemmas/SaveFlush.lean`); `C05_tree_on_disk` joins the two halves (`RQ/Lemmas/DiskTree.lean`): after
`applyPatches` the file on disk under every name that is neither a reject file nor below `.pc` is the file
`applyRange` has under that name after the first `k` patches.  The join needs that no name in the cache has a
`.` component — true because every name went through `FilePatch::strip` (`cur_not_mem_stripPath`).
-/
namespace RQ.Abs
open RQ RQ.Push
open RQ.Disk (viewOf)

/-- **C05 (application phase)** -/
theorem C05_apply_refines (fs : FS) (cfg : Cfg) (range : List Series.Entry) :
    match applyLoop fs cfg range 0 {}, applyRange fs cfg range 0 [] with
    | .ok (st, k, rejs), .ok (t, k', rejs') =>
        k = k' ∧ rejs = rejs' ∧ (cfg.dryRun = false → SameTree fs (ofMem st.mem) t)
    | .error e, .error e' => e = e'
    | _, _ => False :=
  applyLoop_sim fs cfg range 0 {} [] (SameTree.refl fs _) memDE_nil (fun s hs => by cases hs)

/-- the number of names appended to `.pc/applied-patches` is `k`, and the exit status is 0 exactly when
the whole range applied -/
theorem C05_exit_and_names (cfg : Cfg) (w : World) (range : List Series.Entry) (w' : World) (final : Nat)
    (h : applyPatches w cfg range = .ok (w', final)) :
    ((pushRange cfg w range).1 = .allApplied ∨ (pushRange cfg w range).1 = .error → True) ∧
    ((pushRange cfg w range).1 = .allApplied → final = range.length) ∧
    ((pushRange cfg w range).1 = .notAll → final ≠ range.length) := by
  have key : (pushRange cfg w range).1 = .error ∨
      (pushRange cfg w range).1 = (if final == range.length then .allApplied else .notAll) := by
    unfold pushRange
    rw [h]
    simp only
    cases cfg.dryRun with
    | true => right; rfl
    | false =>
      simp only [Bool.false_eq_true, if_false]
      cases saveApplied w' (List.map (fun x => x.name) (List.take final range)) with
      | error e => left; rfl
      | ok w'' => right; rfl
  refine ⟨fun _ => trivial, ?_, ?_⟩
  · intro ha
    rw [ha] at key
    rcases key with key | key
    · cases key
    · by_cases hf : final = range.length
      · exact hf
      · simp [hf] at key
  · intro hn
    rw [hn] at key
    rcases key with key | key
    · cases key
    · intro hf
      simp [hf] at key

/-- **C05 (end to end)**: whenever the model of the sequential driver finishes without an I/O error, the file
found on disk under every (non-reject, non-`.pc`) name is exactly the file the abstract patch-by-patch
specification has under that name after the first `k` patches — `k` being the number `applyPatches` returns,
which `pushRange` records in `.pc/applied-patches`.  (Non-vacuity: `RQ.Disk.Example`.) -/
theorem C05_tree_on_disk (w w' : World) (cfg : Cfg) (range : List Series.Entry) (k : Nat)
    (hf : w.faultAt = none) (hdry : cfg.dryRun = false)
    (h : applyPatches w cfg range = .ok (w', k)) :
    ∃ t rejs, Abs.applyRange w.fs cfg range 0 [] = .ok (t, k, rejs) ∧
      ∀ name key a, Comp.cur ∉ components name → safeKey name = some key →
        ¬ Flush.isRejKey rejs key → ¬ Flush.isPcKey key →
        Abs.look t w.fs name = .ok a → Flush.fileAt w'.fs key = viewOf a :=
  Disk.C05_tree_on_disk' w w' cfg range k hf hdry h

#print axioms C05_apply_refines
#print axioms C05_tree_on_disk
#print axioms C05_exit_and_names

end RQ.Abs
