import RQ.Lemmas.Refine
import RQ.Lemmas.DiskTree
import RQ.Lemmas.SpecAgree
/-!
# C05 — push is all-or-nothing per patch: tree = first k patches, k = names recorded

`RQ.Abs.applyRange` (Spec/Abs.lean) is the specification of the application phase: file patches applied
to the tree one after another, a patch adopted only if all its hunks apply, the first failing patch
discarded as a whole, `k` = number of adopted patches.  `C05_apply_refines` says the model of the real
driver — which keeps `ModifiedFile`s in memory, applies the failing patch partially and then rolls it
back in LIFO order, and collects reject files on the way — computes exactly that: same `k`, same reject
files, and a memory that stands for the same tree (for a real run; a dry run does not bother to undo).
Exit status and `.pc/applied-patches` are functions of `k` (`pushRange`).

The flush of the memory to disk (`saveAll`, `cleanAll`, reject files, backups) is `RQ.Flush.applyPatches_tree`
(`RQ/Lemmas/SaveFlush.lean`); `C05_tree_on_disk` joins the two halves (`RQ/Lemmas/DiskTree.lean`): after
`applyPatches` the file on disk under every name that is neither a reject file nor below `.pc` is the file
`applyRange` has under that name after the first `k` patches.  The join needs that no name in the cache has a
`.` component — true because every name went through `FilePatch::strip` (`cur_not_mem_stripPath`).

The last hop is `C05_oracle_agrees` (`RQ/Lemmas/SpecAgree.lean`): the executable specification `Spec.pushSpec` — the
oracle the correspondence check evaluates on the implementation's output — applies the patches with
`Spec.applyRangeTree` on the tree itself, and that tree holds under every name the file `applyRange` has under it
(same `k`, same reject files), provided the names of the range are prefix-free (`Agree.PrefixFree`) and no overlay
reached holds an unterminated line in the middle of a file (`Agree.TreeTerminated`, known finding
`unterminated-line-mid-file`); both provisos are needed (`Agree.Needed`).  `C05_disk_is_oracle` chains the three:
the disk the driver model leaves is, file by file, the oracle's tree before reject files, backups and
`.pc/applied-patches` are added.
-/
namespace RQ.Abs
open RQ RQ.Push
open RQ.Disk (viewOf)

/-- **C05 (application phase)** -/
theorem C05_apply_refines (fs : FS) (cfg : Cfg) (range : List Series.Entry) :
    match applyLoop fs cfg range 0 {}, applyRange fs cfg range 0 [] with
    | .ok (st, k, rejs), .ok (t, k', rejs') =>
        k = k' ∧ rejs = rejs' ∧ (cfg.dryRun = false → SameTree fs (ofMem st.mem) t)
    | .error e, .error e' => e = e'
    | _, _ => False :=
  applyLoop_sim fs cfg range 0 {} [] (SameTree.refl fs _) memDE_nil (fun s hs => by cases hs)

/-- the number of names appended to `.pc/applied-patches` is `k`, and the exit status is 0 exactly when
the whole range applied -/
theorem C05_exit_and_names (cfg : Cfg) (w : World) (range : List Series.Entry) (w' : World) (final : Nat)
    (h : applyPatches w cfg range = .ok (w', final)) :
    ((pushRange cfg w range).1 = .allApplied ∨ (pushRange cfg w range).1 = .error → True) ∧
    ((pushRange cfg w range).1 = .allApplied → final = range.length) ∧
    ((pushRange cfg w range).1 = .notAll → final ≠ range.length) := by
  have key : (pushRange cfg w range).1 = .error ∨
      (pushRange cfg w range).1 = (if final == range.length then .allApplied else .notAll) := by
    unfold pushRange
    rw [h]
    simp only
    cases cfg.dryRun with
    | true => right; rfl
    | false =>
      simp only [Bool.false_eq_true, if_false]
      cases saveApplied w' (List.map (fun x => x.name) (List.take final range)) with
      | error e => left; rfl
      | ok w'' => right; rfl
  refine ⟨fun _ => trivial, ?_, ?_⟩
  · intro ha
    rw [ha] at key
    rcases key with key | key
    · cases key
    · by_cases hf : final = range.length
      · exact hf
      · simp [hf] at key
  · intro hn
    rw [hn] at key
    rcases key with key | key
    · cases key
    · intro hf
      simp [hf] at key

/-- **C05 (end to end)**: whenever the model of the sequential driver finishes without an I/O error, the file
found on disk under every (non-reject, non-`.pc`) name is exactly the file the abstract patch-by-patch
specification has under that name after the first `k` patches — `k` being the number `applyPatches` returns,
which `pushRange` records in `.pc/applied-patches`.  (Non-vacuity: `RQ.Disk.Example`.) -/
theorem C05_tree_on_disk (w w' : World) (cfg : Cfg) (range : List Series.Entry) (k : Nat)
    (hf : w.faultAt = none) (hdry : cfg.dryRun = false)
    (h : applyPatches w cfg range = .ok (w', k)) :
    ∃ t rejs, Abs.applyRange w.fs cfg range 0 [] = .ok (t, k, rejs) ∧
      ∀ name key a, Comp.cur ∉ components name → safeKey name = some key →
        ¬ Flush.isRejKey rejs key → ¬ Flush.isPcKey key →
        Abs.look t w.fs name = .ok a → Flush.fileAt w'.fs key = viewOf a :=
  Disk.C05_tree_on_disk' w w' cfg range k hf hdry h

/-- **C05 (oracle)**: the executable specification and the abstract specification describe the same files.  For a
real (non-dry) run over prefix-free names, where every overlay reached holds only `Terminated` files: if `applyRange`
ends with the overlay `t`, `k` applied patches and reject files `rejs`, then `Spec.applyRangeTree` — what `pushSpec`
runs before it adds reject files, backups and `.pc/applied-patches` — ends with the same `k`, `failed` exactly when
not all patches applied, the same reject files (oldest first instead of newest first), and a tree that holds under
every stripped name exactly the file the overlay has under that name; and if `applyRange` refuses, so does
`applyRangeTree` (and `pushSpec` exits with 1, tree untouched).  (Non-vacuity: `RQ.Agree.Example`; necessity of the
two provisos: `RQ.Agree.Needed`.) -/
theorem C05_oracle_agrees (fs : FS) (cfg : Cfg) (range : List Series.Entry) (hdry : cfg.dryRun = false)
    (hpf : Agree.PrefixFree fs cfg range)
    (hterm : ∀ t' ∈ Agree.reached fs cfg range [], Agree.TreeTerminated t') :
    match Abs.applyRange fs cfg range 0 [] with
    | .ok (t, k, rejs) =>
        ∃ p, Spec.applyRangeTree cfg fs range { fs, k := 0, rejs := [], failed := false, backups := [] } = .ok p ∧
          p.k = k ∧ p.failed = decide (k ≠ range.length) ∧ p.rejs = rejs.reverse ∧
          ∀ name key a, Comp.cur ∉ components name → safeKey name = some key →
            Abs.look t fs name = .ok a → Flush.fileAt p.fs key = viewOf a
    | .error _ =>
        Spec.applyRangeTree cfg fs range { fs, k := 0, rejs := [], failed := false, backups := [] } = .error () :=
  Agree.spec_agree fs cfg range hdry hpf hterm

/-- **C05 (driver model = oracle)**: whenever the model of the sequential driver finishes without an I/O error (and
the two provisos of `C05_oracle_agrees` hold), the oracle's patch-by-patch run on the tree itself succeeds with the
same number `k` of applied patches, and the file the driver leaves on disk under every readable (non-reject,
non-`.pc`) name is the file in the oracle's tree. -/
theorem C05_disk_is_oracle (w w' : World) (cfg : Cfg) (range : List Series.Entry) (k : Nat)
    (hf : w.faultAt = none) (hdry : cfg.dryRun = false)
    (hpf : Agree.PrefixFree w.fs cfg range)
    (hterm : ∀ t' ∈ Agree.reached w.fs cfg range [], Agree.TreeTerminated t')
    (h : applyPatches w cfg range = .ok (w', k)) :
    ∃ p t rejs, Abs.applyRange w.fs cfg range 0 [] = .ok (t, k, rejs) ∧
      Spec.applyRangeTree cfg w.fs range { fs := w.fs, k := 0, rejs := [], failed := false, backups := [] } = .ok p ∧
      p.k = k ∧ p.failed = decide (k ≠ range.length) ∧ p.rejs = rejs.reverse ∧
      ∀ name key a, Comp.cur ∉ components name → safeKey name = some key →
        ¬ Flush.isRejKey rejs key → ¬ Flush.isPcKey key → Abs.look t w.fs name = .ok a →
        Flush.fileAt w'.fs key = Flush.fileAt p.fs key := by
  obtain ⟨t, rejs, hspec, hdisk⟩ := C05_tree_on_disk w w' cfg range k hf hdry h
  have ho := C05_oracle_agrees w.fs cfg range hdry hpf hterm
  rw [hspec] at ho
  obtain ⟨p, h1, h2, h3, h4, h5⟩ := ho
  refine ⟨p, t, rejs, hspec, h1, h2, h3, h4, ?_⟩
  intro name key a hc hk hnr hnp hl
  rw [hdisk name key a hc hk hnr hnp hl, h5 name key a hc hk hl]

/-- **C05 (`pushSpec`)**: when `plan` decides to apply `range`, after `pushSpec` every stripped name whose path is
neither a reject file nor below `.pc` holds exactly the file the abstract specification has under it after the first
`k` patches, and (unless the last phase hit an output failure) the exit status is 0 exactly when all patches applied;
if the abstract specification refuses, `pushSpec` exits with 1 and leaves the tree alone. -/
theorem C05_pushSpec_agrees (cfg : Cfg) (fs : FS) (range : List Series.Entry) (hplan : plan cfg fs = .apply range)
    (hdry : cfg.dryRun = false) (hpf : Agree.PrefixFree fs cfg range)
    (hterm : ∀ t' ∈ Agree.reached fs cfg range [], Agree.TreeTerminated t') :
    match Abs.applyRange fs cfg range 0 [] with
    | .ok (t, k, rejs) =>
        ((Spec.pushSpec cfg fs).ioError = false →
          (Spec.pushSpec cfg fs).exit = if k = range.length then 0 else 1) ∧
        ∀ name key a, Comp.cur ∉ components name → safeKey name = some key →
          ¬ Flush.isRejKey rejs key → ¬ Flush.isPcKey key →
          Abs.look t fs name = .ok a → Flush.fileAt (Spec.pushSpec cfg fs).fs key = viewOf a
    | .error _ => (Spec.pushSpec cfg fs).exit = 1 ∧ (Spec.pushSpec cfg fs).fs = fs :=
  Agree.pushSpec_agree cfg fs range hplan hdry hpf hterm

/-- **C05 (driver model = `pushSpec`, file by file)**: the whole chain driver model → abstract tree → disk → oracle.
Whenever the model of the sequential driver finishes the range `plan` chose without an I/O error (and the two
provisos of `C05_oracle_agrees` hold), the file it leaves on disk under every readable (non-reject, non-`.pc`) name
is the file `pushSpec` leaves there. -/
theorem C05_disk_is_pushSpec (w w' : World) (cfg : Cfg) (range : List Series.Entry) (k : Nat)
    (hplan : plan cfg w.fs = .apply range) (hf : w.faultAt = none) (hdry : cfg.dryRun = false)
    (hpf : Agree.PrefixFree w.fs cfg range)
    (hterm : ∀ t' ∈ Agree.reached w.fs cfg range [], Agree.TreeTerminated t')
    (h : applyPatches w cfg range = .ok (w', k)) :
    ∃ t rejs, Abs.applyRange w.fs cfg range 0 [] = .ok (t, k, rejs) ∧
      ∀ name key a, Comp.cur ∉ components name → safeKey name = some key →
        ¬ Flush.isRejKey rejs key → ¬ Flush.isPcKey key → Abs.look t w.fs name = .ok a →
        Flush.fileAt w'.fs key = Flush.fileAt (Spec.pushSpec cfg w.fs).fs key := by
  obtain ⟨t, rejs, hspec, hdisk⟩ := C05_tree_on_disk w w' cfg range k hf hdry h
  have ho := C05_pushSpec_agrees cfg w.fs range hplan hdry hpf hterm
  rw [hspec] at ho
  refine ⟨t, rejs, hspec, ?_⟩
  intro name key a hc hk hnr hnp hl
  rw [hdisk name key a hc hk hnr hnp hl, ho.2 name key a hc hk hnr hnp hl]

#print axioms C05_apply_refines
#print axioms C05_tree_on_disk
#print axioms C05_exit_and_names
#print axioms C05_oracle_agrees
#print axioms C05_disk_is_oracle
#print axioms C05_pushSpec_agrees
#print axioms C05_disk_is_pushSpec

end RQ.Abs
