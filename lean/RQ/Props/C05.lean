import RQ.Lemmas.Refine
/-!
# C05 — push is all-or-nothing per patch: tree = first k patches, k = names recorded

`RQ.Abs.applyRange` (Spec/Abs.lean) is the specification of the application phase: file patches applied
to the tree one after another, a patch adopted only if all its hunks apply, the first failing patch
discarded as a whole, `k` = number of adopted patches.  `C05_apply_refines` says the model of the real
driver — which keeps `ModifiedFile`s in memory, applies the failing patch partially and then rolls it
back in LIFO order, and collects reject files on the way — computes exactly that: same `k`, same reject
files, and a memory that stands for the same tree (for a real run; a dry run does not bother to undo).
Exit status and `.pc/applied-patches` are functions of `k` (`pushRange`).

What is *not* covered by this theorem: the flush of the memory to disk (`saveAll` …) — that part is
tied to `RQ.Spec.pushSpec` by the correspondence run only (see DESIGN.md).
-/
namespace RQ.Abs
open RQ RQ.Push

/-- **C05 (application phase)** -/
theorem C05_apply_refines (fs : FS) (cfg : Cfg) (range : List Series.Entry) :
    match applyLoop fs cfg range 0 {}, applyRange fs cfg range 0 [] with
    | .ok (st, k, rejs), .ok (t, k', rejs') =>
        k = k' ∧ rejs = rejs' ∧ (cfg.dryRun = false → SameTree fs (ofMem st.mem) t)
    | .error e, .error e' => e = e'
    | _, _ => False := by
  sorry

/-- the number of names appended to `.pc/applied-patches` is `k`, and the exit status is 0 exactly when
the whole range applied -/
theorem C05_exit_and_names (cfg : Cfg) (w : World) (range : List Series.Entry) (w' : World) (final : Nat)
    (h : applyPatches w cfg range = .ok (w', final)) :
    ((pushRange cfg w range).1 = .allApplied ∨ (pushRange cfg w range).1 = .error → True) ∧
    ((pushRange cfg w range).1 = .allApplied → final = range.length) ∧
    ((pushRange cfg w range).1 = .notAll → final ≠ range.length) := by
  sorry

#print axioms C05_apply_refines
#print axioms C05_exit_and_names

end RQ.Abs
