import RQ.Props.C08
import RQ.Lemmas.BackupDisk
/-!
# C08 on disk — what `.pc/<patch>/<file>` holds after a push

`RQ/Props/C08.lean` proves which `save_backup_file` calls the driver makes and which state each call carries.  This file
follows the calls to the file system (lemmas: `RQ/Lemmas/BackupDisk.lean`).

* `C08_backups_on_disk`: after a successful real push with backups due, the regular file at `.pc/<patch j>/<name>`
  has the bytes and the permission bits of the state `lastCall j name calls` (644 when the state has no
  permissions), provided `PcKeysApart calls`: two calls that write to the same path are for the same
  (patch index, file) slot.
* `C08_backup_on_disk_is_prestate`: … and that state is the file `name` of the abstract tree after the first `j`
  patches of the range (`Abs.applyRange … (range.take j)`): the file as it was immediately before patch `j`;
  zero-length with mode 644 if it did not exist then.
* `C08_every_status_backed_up`: every file patch of every patch in the window has such a file.
* `C08_apart_of_distinct_patches`: `PcKeysApart` holds as soon as no two entries of the range name the same
  patch file (and none is called `.`).  Different patches cannot collide through the concatenation
  `.pc ++ patch ++ file` (`a` + `b/c` against `a/b` + `c`): both `patches/a` and `patches/a/b` would have to be
  regular files.  Different files of one patch cannot collide either: names are stripped, so equal paths mean equal
  components.  **What remains is a series that lists the same patch file twice** (`p` and `p`, `p` and `./p`,
  `p` and `p -R`): both entries write their backups below `.pc/p/`, the older entry last, so the backup of the
  later entry is lost.  `Example8.dup_entry` shows it on the model (series `p1`, `p1 -R`), so the hypothesis is needed.
* No hypothesis "no backup path is a directory of another" is needed: in that case `saveBackups` fails
  (`C08_backup_paths_no_prefix`, `Example8.prefix_fails`), which `applyPatches … = .ok` excludes.  Nor is
  `w.faultAt = none` needed: an operation that answered `ok` did what the file system says.
* `C08_no_backups_on_disk`: with `--backup never`, or `onfail` when the whole range applied, every path below `.pc`
  holds after `applyPatches` exactly the node it held before (`FS.lookup`: files with content, mode and inode number,
  and directories), provided no patch names a file below `.pc` (`Compose.Clean` implies that).
-/
namespace RQ.Abs
open RQ RQ.Push RQ.Flush RQ.BackupDisk

/-- **C08 (on disk)**: the backup file of a (patch, file) slot holds the state of the last call for the slot -/
theorem C08_backups_on_disk (w w' : World) (cfg : Cfg) (range : List Series.Entry) (st : St) (k k' : Nat)
    (rejs : List (Bytes × Bytes)) (hl : applyLoop w.fs cfg range 0 {} = .ok (st, k, rejs))
    (hd : cfg.dryRun = false) (hrun : applyPatches w cfg range = .ok (w', k'))
    (hdue : cfg.backup = .always ∨ (cfg.backup = .onfail ∧ k ≠ range.length))
    (calls : List Call) (mem' : Mem)
    (hc : backupCalls st.mem st.applied (backupDownTo cfg k) = .ok (calls, mem'))
    (hapart : PcKeysApart calls)
    (j : Nat) (patchName name : Bytes) (g f : FileSt Bytes) (hmem : (j, patchName, name, g) ∈ calls)
    (hlast : lastCall j name calls = some f) (key : Key) (hkey : pcKey patchName name = some key) :
    fileAt w'.fs key = some (bytesOf f.content, modeOf f.perms) := by
  obtain ⟨_, w1, dirs, w2, w3, calls', mem'', _, _, _, hc', hsb⟩ :=
    applyPatches_backups_run w w' cfg range st k k' rejs hl hd hdue hrun
  rw [hc] at hc'
  cases hc'
  exact saveBackups_lastCall hsb (backupCalls_patchNames hl hc).1 hapart hmem hlast hkey

/-- **C08 (on disk, end to end)**: the bytes and the mode on disk at `.pc/<patch j>/<name>` are those of the file
`name` in the abstract tree after the first `j` patches (before patch `j`); a file that did not exist there has no
lines and no permissions: its backup is zero-length with mode 644 -/
theorem C08_backup_on_disk_is_prestate (w w' : World) (cfg : Cfg) (range : List Series.Entry) (st : St) (k k' : Nat)
    (rejs : List (Bytes × Bytes)) (hl : applyLoop w.fs cfg range 0 {} = .ok (st, k, rejs))
    (hd : cfg.dryRun = false) (hrun : applyPatches w cfg range = .ok (w', k'))
    (hdue : cfg.backup = .always ∨ (cfg.backup = .onfail ∧ k ≠ range.length))
    (calls : List Call) (mem' : Mem)
    (hc : backupCalls st.mem st.applied (backupDownTo cfg k) = .ok (calls, mem'))
    (hapart : PcKeysApart calls)
    (j : Nat) (patchName name : Bytes) (g : FileSt Bytes) (hmem : (j, patchName, name, g) ∈ calls)
    (key : Key) (hkey : pcKey patchName name = some key) :
    backupDownTo cfg k ≤ j ∧ j < k ∧
    ∃ t rr a, applyRange w.fs cfg (range.take j) 0 [] = .ok (t, j, rr) ∧ look t w.fs name = .ok a ∧
      fileAt w'.fs key = some (bytesOf a.content, modeOf a.perms) ∧
      (a.deleted = true → a.content = [] ∧ a.perms = none ∧ fileAt w'.fs key = some ([], 0o644)) := by
  obtain ⟨f, hlast⟩ := lastCall_some_of_mem hmem rfl
  have hdisk := C08_backups_on_disk w w' cfg range st k k' rejs hl hd hrun hdue calls mem' hc hapart
    j patchName name g f hmem hlast key hkey
  obtain ⟨h1, h2, t, rr, ht, hlook⟩ :=
    C08_backup_is_prestate w.fs cfg range st k rejs hl hd (backupDownTo cfg k) calls mem' hc j name f hlast
  refine ⟨h1, h2, t, rr, absOf f, ht, hlook, hdisk, fun hdel => ?_⟩
  obtain ⟨c1, c2⟩ := applyRange_look_canon ht hlook hdel
  refine ⟨c1, c2, ?_⟩
  rw [hdisk]
  have e1 : f.content = [] := c1
  have e2 : f.perms = none := c2
  rw [e1, e2]
  rfl

/-- **C08 (on disk, totality)**: every file patch of every patch in the backup window has its backup file, and it
holds the file as it was before that patch -/
theorem C08_every_status_backed_up (w w' : World) (cfg : Cfg) (range : List Series.Entry) (st : St) (k k' : Nat)
    (rejs : List (Bytes × Bytes)) (hl : applyLoop w.fs cfg range 0 {} = .ok (st, k, rejs))
    (hd : cfg.dryRun = false) (hrun : applyPatches w cfg range = .ok (w', k'))
    (hdue : cfg.backup = .always ∨ (cfg.backup = .onfail ∧ k ≠ range.length))
    (hdist : PatchPathsDistinct range) (hprop : PatchNamesProper range)
    (s : Status) (hs : s ∈ st.applied) (hwin : backupDownTo cfg k ≤ s.index) :
    ∃ key t rr a, pcKey s.patchName s.target = some key ∧
      applyRange w.fs cfg (range.take s.index) 0 [] = .ok (t, s.index, rr) ∧ look t w.fs s.target = .ok a ∧
      fileAt w'.fs key = some (bytesOf a.content, modeOf a.perms) ∧
      (a.deleted = true → fileAt w'.fs key = some ([], 0o644)) := by
  obtain ⟨_, w1, dirs, w2, w3, calls, mem', _, _, _, hc, hsb⟩ :=
    applyPatches_backups_run w w' cfg range st k k' rejs hl hd hdue hrun
  obtain ⟨calls', mem'', hc', htot⟩ := C08_backups_total w.fs cfg range st k rejs hl hd (backupDownTo cfg k)
  rw [hc] at hc'
  cases hc'
  obtain ⟨g, hmem⟩ := htot s hs hwin
  have hk := saveBackups_keys calls w3 w' hsb _ hmem
  obtain ⟨key, hkey⟩ := Option.isSome_iff_exists.mp hk
  have hkey' : pcKey s.patchName s.target = some key := hkey
  obtain ⟨_, _, t, rr, a, ht, hlook, hdisk, hdel⟩ :=
    C08_backup_on_disk_is_prestate w w' cfg range st k k' rejs hl hd hrun hdue calls mem' hc
      (pcKeysApart_of_distinct hl hc hdist hprop) s.index s.patchName s.target g hmem key hkey'
  exact ⟨key, t, rr, a, hkey', ht, hlook, hdisk, fun h => (hdel h).2.2⟩

/-- **C08 (when the backup paths are apart)**: it is enough that no two entries of the range name the same patch
file and none is called `.` -/
theorem C08_apart_of_distinct_patches (fs : FS) (cfg : Cfg) (range : List Series.Entry) (st : St) (k : Nat)
    (rejs : List (Bytes × Bytes)) (hl : applyLoop fs cfg range 0 {} = .ok (st, k, rejs))
    (downTo : Nat) (calls : List Call) (mem' : Mem)
    (hc : backupCalls st.mem st.applied downTo = .ok (calls, mem'))
    (hdist : PatchPathsDistinct range) (hprop : PatchNamesProper range) : PcKeysApart calls :=
  pcKeysApart_of_distinct hl hc hdist hprop

/-- **C08 (no directory collisions)**: after a successful push with backups due, no backup path is a directory of
another backup path — which is why `C08_backups_on_disk` assumes nothing of the kind -/
theorem C08_backup_paths_no_prefix (w w' : World) (cfg : Cfg) (range : List Series.Entry) (st : St) (k k' : Nat)
    (rejs : List (Bytes × Bytes)) (hl : applyLoop w.fs cfg range 0 {} = .ok (st, k, rejs))
    (hd : cfg.dryRun = false) (hrun : applyPatches w cfg range = .ok (w', k'))
    (hdue : cfg.backup = .always ∨ (cfg.backup = .onfail ∧ k ≠ range.length))
    (calls : List Call) (mem' : Mem)
    (hc : backupCalls st.mem st.applied (backupDownTo cfg k) = .ok (calls, mem')) :
    ∀ a ∈ calls, ∀ b ∈ calls, ∀ ka kb, pcKey a.2.1 a.2.2.1 = some ka → pcKey b.2.1 b.2.2.1 = some kb →
      ¬ Agree.SPre ka kb := by
  obtain ⟨_, w1, dirs, w2, w3, calls', mem'', _, _, _, hc', hsb⟩ :=
    applyPatches_backups_run w w' cfg range st k k' rejs hl hd hdue hrun
  rw [hc] at hc'
  cases hc'
  exact saveBackups_ok_no_prefix calls w3 w' hsb

/-- **C08 (negative half on disk, general form)**: no backups are due, the names in the cache and the reject names
are outside `.pc`: every path below `.pc` holds the node it held before -/
theorem C08_no_backups_on_disk' (w w' : World) (cfg : Cfg) (range : List Series.Entry) (st : St) (k k' : Nat)
    (rejs : List (Bytes × Bytes)) (hl : applyLoop w.fs cfg range 0 {} = .ok (st, k, rejs))
    (hd : cfg.dryRun = false) (hm : cfg.backup = .never ∨ (cfg.backup = .onfail ∧ k = range.length))
    (hmem : MemOut st.mem) (hrej : Compose.RejsOut rejs) (hrun : applyPatches w cfg range = .ok (w', k')) :
    ∀ key, isPcKey key → w'.fs.lookup key = w.fs.lookup key :=
  applyPatches_no_backups_outOnly w w' cfg range st k k' rejs hl hd hm hmem hrej hrun

/-- **C08 (negative half on disk)**: with `--backup never`, or `onfail` when the whole range applied, a push whose
patches name no file below `.pc` leaves everything below `.pc` as it was -/
theorem C08_no_backups_on_disk (w w' : World) (cfg : Cfg) (range : List Series.Entry) (st : St) (k k' : Nat)
    (rejs : List (Bytes × Bytes)) (hl : applyLoop w.fs cfg range 0 {} = .ok (st, k, rejs))
    (hd : cfg.dryRun = false) (hm : cfg.backup = .never ∨ (cfg.backup = .onfail ∧ k = range.length))
    (hnames : ∀ e ∈ range, ∀ patch, Agree.patchOf w.fs cfg e = some patch → ∀ fp ∈ patch.fps,
      Compose.NamesSat (fun k => ¬ isPcKey k) fp)
    (hrun : applyPatches w cfg range = .ok (w', k')) :
    ∀ key, isPcKey key → w'.fs.lookup key = w.fs.lookup key := by
  obtain ⟨h1, h2⟩ := applyLoop_out hnames hl
  exact C08_no_backups_on_disk' w w' cfg range st k k' rejs hl hd hm h1 h2 hrun

/-- the same under `Compose.Clean` (the decidable hypothesis of C09) -/
theorem C08_no_backups_on_disk_of_clean (w w' : World) (cfg : Cfg) (range : List Series.Entry) (st : St) (k k' : Nat)
    (rejs : List (Bytes × Bytes)) (hl : applyLoop w.fs cfg range 0 {} = .ok (st, k, rejs))
    (hd : cfg.dryRun = false) (hm : cfg.backup = .never ∨ (cfg.backup = .onfail ∧ k = range.length))
    (hclean : Compose.Clean cfg w.fs range) (hrun : applyPatches w cfg range = .ok (w', k')) :
    (∀ key, isPcKey key → w'.fs.lookup key = w.fs.lookup key) ∧
    ∀ key, isPcKey key → fileAt w'.fs key = fileAt w.fs key := by
  have h := C08_no_backups_on_disk w w' cfg range st k k' rejs hl hd hm hclean.namesOut hrun
  exact ⟨h, fun key hk => fileAt_congr (h key hk)⟩

/-! ## Decided examples

Working directory: `a` = `x\n` (mode 600), `patches/p1` turns `x` into `y`, `patches/p2` turns `y` into `z`, `patches/p3`
creates `n`; `--backup always --backup-count all`. -/
namespace Example8

/-- `--- a/a\n+++ b/a\n@@ -1 +1 @@\n-x\n+y\n` (applied with the default `-p1`) -/
def patch1 : Bytes :=
  [45, 45, 45, 32, 97, 47, 97, 10, 43, 43, 43, 32, 98, 47, 97, 10, 64, 64, 32, 45, 49, 32, 43, 49, 32, 64, 64, 10, 45, 120, 10, 43, 121, 10]
/-- `--- a/a\n+++ b/a\n@@ -1 +1 @@\n-y\n+z\n` -/
def patch2 : Bytes :=
  [45, 45, 45, 32, 97, 47, 97, 10, 43, 43, 43, 32, 98, 47, 97, 10, 64, 64, 32, 45, 49, 32, 43, 49, 32, 64, 64, 10, 45, 121, 10, 43, 122, 10]
/-- `--- /dev/null\n+++ b/n\n@@ -0,0 +1 @@\n+q\n` -/
def patch3 : Bytes :=
  [45, 45, 45, 32, 47, 100, 101, 118, 47, 110, 117, 108, 108, 10, 43, 43, 43, 32, 98, 47, 110, 10, 64, 64, 32, 45, 48, 44, 48, 32, 43, 49, 32, 64, 64, 10, 43, 113, 10]

def fs0 : FS :=
  { nodes := [([[97]], .file [120, 10] 0o600 1),
      ([[112, 97, 116, 99, 104, 101, 115]], .dir),
      ([[112, 97, 116, 99, 104, 101, 115], [112, 49]], .file patch1 0o644 3),
      ([[112, 97, 116, 99, 104, 101, 115], [112, 50]], .file patch2 0o644 4),
      ([[112, 97, 116, 99, 104, 101, 115], [112, 51]], .file patch3 0o644 5)], nextIno := 6 }
def w0 : World := { fs := fs0 }
def e1 : Series.Entry := { name := [112, 49], strip := Extracted.defaultPatchStrip, reverse := false }
def e2 : Series.Entry := { name := [112, 50], strip := Extracted.defaultPatchStrip, reverse := false }
def e3 : Series.Entry := { name := [112, 51], strip := Extracted.defaultPatchStrip, reverse := false }
/-- the series line `p1 -R` -/
def e1R : Series.Entry := { name := [112, 49], strip := Extracted.defaultPatchStrip, reverse := true }
def cfgB : Cfg := { backup := .always, backupCount := none, goal := .all }
def pc : Bytes := [46, 112, 99]

/-- **the hypotheses hold and the conclusions say what they should**: series `p1 p2 p3`; the run succeeds, backups
are due, the paths are apart (also by the criterion on the series alone); `.pc/p1/a` = `x\n`, `.pc/p2/a` = `y\n`
(both with the mode of `a`), `.pc/p3/n` is zero-length with mode 644 -/
theorem three_patches :
    (match applyLoop w0.fs cfgB [e1, e2, e3] 0 {}, applyPatches w0 cfgB [e1, e2, e3] with
     | .ok (st, k, _), .ok (w', k') =>
       (match backupCalls st.mem st.applied (backupDownTo cfgB k) with
        | .ok (calls, _) =>
          k == 3 && k' == 3 && decide (PcKeysApart calls) && decide (PatchPathsDistinct [e1, e2, e3]) &&
          decide (PatchNamesProper [e1, e2, e3]) && calls.length == 3 &&
          fileAt w'.fs [[97]] == some ([122, 10], 0o600) &&
          fileAt w'.fs [[110]] == some ([113, 10], 0o644) &&
          fileAt w'.fs [pc, [112, 49], [97]] == some ([120, 10], 0o600) &&
          fileAt w'.fs [pc, [112, 50], [97]] == some ([121, 10], 0o600) &&
          fileAt w'.fs [pc, [112, 51], [110]] == some ([], 0o644)
        | .error _ => false)
     | _, _ => false) = true := by decide

/-- **`PcKeysApart` is needed, and legal input violates it**: the series `p1`, `p1 -R` (the same patch file listed
twice) is pushed completely, with exit status 0.  Both entries back up `a` to `.pc/p1/a`; the calls go newest first, so
the backup of entry 0 (`x\n`) is written last and replaces the backup of entry 1, which should hold `y\n` (the file
immediately before entry 1): the conclusion of `C08_backups_on_disk` fails for `j = 1`. -/
theorem dup_entry :
    (match applyLoop w0.fs cfgB [e1, e1R] 0 {}, applyPatches w0 cfgB [e1, e1R] with
     | .ok (st, k, _), .ok (w', k') =>
       (match backupCalls st.mem st.applied (backupDownTo cfgB k) with
        | .ok (calls, _) =>
          k == 2 && k' == 2 && decide (¬ PcKeysApart calls) && decide (¬ PatchPathsDistinct [e1, e1R]) &&
          (lastCall 1 [97] calls).map (fun f => bytesOf f.content) == some [121, 10] &&
          fileAt w'.fs [pc, [112, 49], [97]] == some ([120, 10], 0o600)
        | .error _ => false)
     | _, _ => false) = true := by decide

def stX : FileSt Bytes := { content := [[120, 10]], existed := true, deleted := false, perms := some 0o100644 }
def stY : FileSt Bytes := { content := [[121, 10]], existed := true, deleted := false, perms := some 0o100644 }

def isOk {ε α : Type} : Except ε α → Bool
  | .ok _ => true
  | .error _ => false

/-- the collision through the concatenation: patch `a` + file `b/c` and patch `a/b` + file `c` have the same backup
path `.pc/a/b/c` (it cannot arise from a series: `patches/a` and `patches/a/b` cannot both be regular files) -/
theorem concat_collides : pcKey [97] [98, 47, 99] = pcKey [97, 47, 98] [99] ∧
    pcKey [97] [98, 47, 99] = some [pc, [97], [98], [99]] := by decide

/-- **no hypothesis about directories is needed**: when one backup path is a directory of another (`.pc/a/b` and
`.pc/a/b/c`), `saveBackups` fails, whichever comes first, so `applyPatches … = .ok` excludes it -/
theorem prefix_fails :
    isOk (saveBackups { fs := { nodes := [], nextIno := 1 } } [(0, [97], [98], stX), (1, [97], [98, 47, 99], stY)]) = false ∧
    isOk (saveBackups { fs := { nodes := [], nextIno := 1 } } [(1, [97], [98, 47, 99], stY), (0, [97], [98], stX)]) = false ∧
    isOk (saveBackups { fs := { nodes := [], nextIno := 1 } } [(1, [97], [98, 47, 99], stY), (0, [97], [100], stX)]) = true := by
  decide

end Example8

#print axioms Example8.three_patches
#print axioms Example8.dup_entry
#print axioms Example8.prefix_fails

#print axioms C08_backups_on_disk
#print axioms C08_backup_on_disk_is_prestate
#print axioms C08_every_status_backed_up
#print axioms C08_apart_of_distinct_patches
#print axioms C08_backup_paths_no_prefix
#print axioms C08_no_backups_on_disk'
#print axioms C08_no_backups_on_disk
#print axioms C08_no_backups_on_disk_of_clean

end RQ.Abs
