import RQ.Model.Args
/-!
# C14 — --mmap, verbosity, colour, statistics and analyses never change the result

In the model the options `-q`, `-v`, `--mmap`, `--stats`, `--color X`, `-A X` (with a value the tool
accepts; other values are refused: `Inv.bad`, `Inv.badLate`) are recognised and dropped: the
configuration handed to the driver has no field for them.  `C14_options` states this as a
theorem about the option model: removing all of them from an invocation, wherever they stand — or
adding any of them anywhere — gives the same configuration, hence (`C14_push`) the same outcome and the
same world.  That the *code* behaves like this model — whose driver takes no presentation option at
all — is what the correspondence run checks: every generated workspace is executed with random
combinations of these options (incl. zero-length source and patch files, failing series) and must give
the model's exit status and tree.
-/
namespace RQ.Args
open RQ RQ.Push

/-- **C14 (options)**: presentation / loader options do not influence the parsed configuration -/
theorem C14_options : ∀ (toks : List Tok) (i : Inv),
    parse (toks.filter (fun t => !t.isPresentation)) i = parse toks i := by
  intro toks
  induction toks with
  | nil => intro i; rfl
  | cons t r ih =>
    intro i
    have keep : t.isPresentation = false →
        (t :: r).filter (fun t => !t.isPresentation) = t :: r.filter (fun t => !t.isPresentation) := by
      intro h; simp [List.filter, h]
    have drop : t.isPresentation = true →
        (t :: r).filter (fun t => !t.isPresentation) = r.filter (fun t => !t.isPresentation) := by
      intro h; simp [List.filter, h]
    cases t with
    | threads n => rw [keep rfl]; simp only [parse]; split <;> exact ih _
    | backup x =>
      rw [keep rfl]; simp only [parse]
      split
      · exact ih _
      · split
        · exact ih _
        · split
          · exact ih _
          · rfl
    | backupCount x =>
      rw [keep rfl]; simp only [parse]
      split
      · exact ih _
      · split
        · exact ih _
        · rfl
    | fuzz n => rw [keep rfl]; simp only [parse, ih]
    | dryRun => rw [keep rfl]; simp only [parse, ih]
    | all => rw [keep rfl]; simp only [parse, ih]
    | quiet => rw [drop rfl]; simp only [parse, ih]
    | verbose => rw [drop rfl]; simp only [parse, ih]
    | mmap => rw [drop rfl]; simp only [parse, ih]
    | stats => rw [drop rfl]; simp only [parse, ih]
    | color x =>
      cases hv : validColor x with
      | true => rw [drop (by simp [Tok.isPresentation, hv])]; simp only [parse, hv, if_true, ih]
      | false => rw [keep (by simp [Tok.isPresentation, hv])]; simp only [parse, hv]; rfl
    | analyze x =>
      cases hv : validAnalysis x with
      | true => rw [drop (by simp [Tok.isPresentation, hv])]; simp only [parse, hv, if_true, ih]
      | false => rw [keep (by simp [Tok.isPresentation, hv])]; simp only [parse, hv, Bool.false_eq_true, if_false]; exact ih _
    | free x => rw [keep rfl]; simp only [parse]; split <;> exact ih _
    | unknown x => rw [keep rfl]; simp only [parse]

/-- **C14 (result)**: the push gives the same outcome and the same world with or without them -/
theorem C14_push (toks : List Tok) (w : World) :
    pushToks (toks.filter (fun t => !t.isPresentation)) w = pushToks toks w := by
  simp only [pushToks, C14_options]

/-- two invocations that differ only in presentation options behave the same -/
theorem C14_same (a b : List Tok) (w : World)
    (h : a.filter (fun t => !t.isPresentation) = b.filter (fun t => !t.isPresentation)) :
    pushToks a w = pushToks b w := by
  rw [← C14_push a, ← C14_push b, h]

example : (tokenize ["-q", "--mmap", "--backup", "always", "-v", "--color", "always", "-A", "multiapply", "--stats", "-a"]).filter
    (fun t => !t.isPresentation) = [.backup "always", .all] := by
  decide

#print axioms C14_options
#print axioms C14_push
#print axioms C14_same

end RQ.Args
