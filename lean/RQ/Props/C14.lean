import RQ.Model.Args
/-!
# C14 — --mmap, verbosity, colour, statistics and analyses never change the result

In the model the options `-q`, `-v`, `--mmap`, `--stats`, `--color X`, `-A X` (with a value the tool
accepts; other values are refused: `Inv.bad`, `Inv.badLate`) are recognised and dropped: the
configuration handed to the driver has no field for them.  What is *not* indifferent is giving one of
them twice: `getopts` refuses an option declared `optflag`/`optopt` that occurs more than once
(`-q -q`, `--mmap --mmap`, `--color always --color never`; only `-v` and `-A` may repeat), exit
status 1, nothing touched (`C14_repeated_refused`).  So the property is stated for invocations `getopts`
accepts in this respect (`SingleOnce`, decidable): `C14_options` — removing all presentation options
from such an invocation, wherever they stand, gives the same configuration, hence (`C14_push`) the same
outcome and the same world; `C14_same` — two such invocations that differ only in presentation options
(so also: adding any of them anywhere, as long as none of `-q`, `--mmap`, `--stats`, `--color` is there
twice afterwards) behave the same.  The hypothesis is needed (`C14_needs_single_once`).  That the *code*
behaves like this model — whose driver takes no presentation option at
all — is what the correspondence run checks: every generated workspace is executed with random
combinations of these options (incl. zero-length source and patch files, failing series) and must give
the model's exit status and tree.
-/
namespace RQ.Args
open RQ RQ.Push

/-- the fold over the options (`parseOpts`: the part of `parse` after `getopts` has accepted the invocation)
drops the presentation / loader options -/
theorem parseOpts_filter : ∀ (toks : List Tok) (i : Inv),
    parseOpts (toks.filter (fun t => !t.isPresentation)) i = parseOpts toks i := by
  intro toks
  induction toks with
  | nil => intro i; rfl
  | cons t r ih =>
    intro i
    have keep : t.isPresentation = false →
        (t :: r).filter (fun t => !t.isPresentation) = t :: r.filter (fun t => !t.isPresentation) := by
      intro h; simp [List.filter, h]
    have drop : t.isPresentation = true →
        (t :: r).filter (fun t => !t.isPresentation) = r.filter (fun t => !t.isPresentation) := by
      intro h; simp [List.filter, h]
    cases t with
    | threads n => rw [keep rfl]; simp only [parseOpts]; split <;> exact ih _
    | backup x =>
      rw [keep rfl]; simp only [parseOpts]
      split
      · exact ih _
      · split
        · exact ih _
        · split
          · exact ih _
          · rfl
    | backupCount x =>
      rw [keep rfl]; simp only [parseOpts]
      split
      · exact ih _
      · split
        · exact ih _
        · rfl
    | fuzz n => rw [keep rfl]; simp only [parseOpts, ih]
    | dryRun => rw [keep rfl]; simp only [parseOpts, ih]
    | patchDir d => rw [keep rfl]; simp only [parseOpts, ih]
    | all => rw [keep rfl]; simp only [parseOpts]; split <;> exact ih _
    | quiet => rw [drop rfl]; simp only [parseOpts, ih]
    | verbose => rw [drop rfl]; simp only [parseOpts, ih]
    | mmap => rw [drop rfl]; simp only [parseOpts, ih]
    | stats => rw [drop rfl]; simp only [parseOpts, ih]
    | color x =>
      cases hv : validColor x with
      | true => rw [drop (by simp [Tok.isPresentation, hv])]; simp only [parseOpts, hv, if_true, ih]
      | false => rw [keep (by simp [Tok.isPresentation, hv])]; simp only [parseOpts, hv]; rfl
    | analyze x =>
      cases hv : validAnalysis x with
      | true => rw [drop (by simp [Tok.isPresentation, hv])]; simp only [parseOpts, hv, if_true, ih]
      | false => rw [keep (by simp [Tok.isPresentation, hv])]; simp only [parseOpts, hv, Bool.false_eq_true, if_false]; exact ih _
    | free x =>
      rw [keep rfl]; simp only [parseOpts]
      split
      · exact ih _
      · split <;> exact ih _
    | unknown x => rw [keep rfl]; simp only [parseOpts]

/-- removing options from an invocation that repeats none of the single-occurrence options leaves such an
invocation -/
theorem SingleOnce.filter {toks : List Tok} (p : Tok → Bool) (h : SingleOnce toks) :
    SingleOnce (toks.filter p) :=
  List.Nodup.sublist (List.Sublist.filterMap _ List.filter_sublist) h

theorem parse_of_singleOnce {toks : List Tok} (h : SingleOnce toks) (i : Inv) :
    parse toks i = parseOpts toks i := by
  simp [parse, dupSingle, h]

theorem parse_of_not_singleOnce {toks : List Tok} (h : ¬ SingleOnce toks) (i : Inv) :
    parse toks i = { i with bad := true } := by
  simp [parse, dupSingle, h]

/-- **C14 (options)**: in an invocation that `getopts` accepts (no `optflag`/`optopt` option given twice),
presentation / loader options do not influence the parsed configuration -/
theorem C14_options : ∀ (toks : List Tok) (i : Inv), SingleOnce toks →
    parse (toks.filter (fun t => !t.isPresentation)) i = parse toks i := by
  intro toks i h
  rw [parse_of_singleOnce h, parse_of_singleOnce (h.filter _), parseOpts_filter]

/-- **C14 (result)**: the push gives the same outcome and the same world with or without them -/
theorem C14_push (toks : List Tok) (w : World) (h : SingleOnce toks) :
    pushToks (toks.filter (fun t => !t.isPresentation)) w = pushToks toks w := by
  simp only [pushToks, C14_options toks _ h]

/-- two invocations (neither repeating a single-occurrence option) that differ only in presentation options
behave the same; in particular adding presentation options anywhere to `a`, giving `b`, changes nothing as long
as `b` still has none of them twice -/
theorem C14_same (a b : List Tok) (w : World) (ha : SingleOnce a) (hb : SingleOnce b)
    (h : a.filter (fun t => !t.isPresentation) = b.filter (fun t => !t.isPresentation)) :
    pushToks a w = pushToks b w := by
  rw [← C14_push a w ha, ← C14_push b w hb, h]

/-- adding one presentation option anywhere: if the invocation is still accepted by `getopts`, nothing changes -/
theorem C14_add (l₁ l₂ : List Tok) (t : Tok) (w : World) (ht : t.isPresentation = true)
    (h : SingleOnce (l₁ ++ t :: l₂)) : pushToks (l₁ ++ t :: l₂) w = pushToks (l₁ ++ l₂) w := by
  have h' : SingleOnce (l₁ ++ l₂) :=
    List.Nodup.sublist (List.Sublist.filterMap _
      (List.Sublist.append (List.Sublist.refl l₁) (List.sublist_cons_self t l₂))) h
  apply C14_same _ _ w h h'
  simp [List.filter_append, ht]

/-- **C14 (repetition)**: an invocation that gives an `optflag`/`optopt` option more than once is refused,
nothing is touched — also when the repeated option is a presentation option -/
theorem C14_repeated_refused (toks : List Tok) (w : World) (h : ¬ SingleOnce toks) :
    pushToks toks w = (.error, w) := by
  simp [pushToks, parse_of_not_singleOnce h, pushInv]

/-- `-q -q` -/
example (w : World) : pushArgs ["-q", "-q"] w = (.error, w) :=
  C14_repeated_refused _ w (by decide)

/-- `-F 1 -F 2` (also in the spelling `-F 1 --fuzz 2`: the same option) -/
example (w : World) : pushArgs ["-F", "1", "-F", "2"] w = (.error, w) :=
  C14_repeated_refused _ w (by decide)

example (w : World) : pushArgs ["-F", "1", "--fuzz", "2"] w = (.error, w) :=
  C14_repeated_refused _ w (by decide)

example (w : World) : pushArgs ["--mmap", "--mmap", "-a"] w = (.error, w) :=
  C14_repeated_refused _ w (by decide)

/-- `-v` and `-A` may repeat -/
example : SingleOnce (tokenize ["-v", "-v", "-A", "multiapply", "-A", "multiapply", "-q"]) := by decide

/-- the hypothesis of `C14_options` is needed: `-q -q` is refused, the same invocation without presentation
options (no option at all) is not -/
theorem C14_needs_single_once :
    (parse ([Tok.quiet, Tok.quiet].filter (fun t => !t.isPresentation)) {}).bad = false ∧
    (parse [Tok.quiet, Tok.quiet] {}).bad = true := by
  decide

/-- non-vacuity: an invocation with every presentation option, accepted by `getopts`; what is left without them -/
example : SingleOnce (tokenize ["-q", "--mmap", "--backup", "always", "-v", "--color", "always", "-A", "multiapply", "--stats", "-a"]) ∧
    (tokenize ["-q", "--mmap", "--backup", "always", "-v", "--color", "always", "-A", "multiapply", "--stats", "-a"]).filter
    (fun t => !t.isPresentation) = [.backup "always", .all] := by
  decide

/-! ### the goal: the first free argument decides (`cmd::run`), wherever `-a` stands; further arguments are ignored -/

/-- once the goal has been given as an argument, nothing behind it on the command line changes it -/
theorem parseOpts_goal_fixed : ∀ (toks : List Tok) (i : Inv), i.goalFromArg = true →
    (parseOpts toks i).cfg.goal = i.cfg.goal ∧ (parseOpts toks i).goalFromArg = true := by
  intro toks
  induction toks with
  | nil => intro i h; exact ⟨rfl, h⟩
  | cons t r ih =>
    intro i h
    cases t with
    | threads n => simp only [parseOpts]; split <;> exact ih _ h
    | backup x =>
      simp only [parseOpts]
      split
      · exact ih _ h
      · split
        · exact ih _ h
        · split
          · exact ih _ h
          · exact ⟨rfl, h⟩
    | backupCount x =>
      simp only [parseOpts]
      split
      · exact ih _ h
      · split
        · exact ih _ h
        · exact ⟨rfl, h⟩
    | fuzz n => simp only [parseOpts]; exact ih _ h
    | patchDir d => simp only [parseOpts]; exact ih _ h
    | dryRun => simp only [parseOpts]; exact ih _ h
    | all => simp only [parseOpts, h, if_true]; exact ih _ h
    | quiet => simp only [parseOpts]; exact ih _ h
    | verbose => simp only [parseOpts]; exact ih _ h
    | mmap => simp only [parseOpts]; exact ih _ h
    | stats => simp only [parseOpts]; exact ih _ h
    | color x => simp only [parseOpts]; split; exact ih _ h; exact ⟨rfl, h⟩
    | analyze x => simp only [parseOpts]; split <;> exact ih _ h
    | free x => simp only [parseOpts, h, if_true]; exact ih _ h
    | unknown x => simp only [parseOpts]; exact ⟨trivial, h⟩

/-- **the first free argument is the goal**: a number (as `str::parse::<usize>` reads it) means that many
patches, anything else the patch to push up to — whatever follows it (`-a`, more arguments) -/
theorem C14_goal_first_arg (x : String) (r : List Tok) (i : Inv) (h : i.goalFromArg = false) :
    (parseOpts (.free x :: r) i).cfg.goal =
      (match usizeOf x with | some n => Goal.count n | none => Goal.upTo x.toUTF8.toList) := by
  simp only [parseOpts, h, Bool.false_eq_true, if_false]
  cases usizeOf x with
  | some n => exact (parseOpts_goal_fixed r _ rfl).1
  | none => exact (parseOpts_goal_fixed r _ rfl).1

#print axioms C14_goal_first_arg
#print axioms C14_options
#print axioms C14_push
#print axioms C14_same
#print axioms C14_add
#print axioms C14_repeated_refused
#print axioms C14_needs_single_once

end RQ.Args
