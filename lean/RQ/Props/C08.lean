import RQ.Lemmas.Refine
import RQ.Spec.Backups
import RQ.Lemmas.RefineBackup
/-!
# C08 — quilt metadata is exact: backups allow popping, applied-patches matches the tree

`rollback_and_save_backup_files` walks the applied file patches newest first, undoes each one in memory
and writes the file it has just restored to `.pc/<patch>/<file>` (both names for a rename).
`backupCalls` lists those writes (patch, file, state) in order; `C08_calls` shows the driver performs
exactly them.  `C08_prestate` is the content claim: the state written for a file patch is the state of
that file immediately before that file patch was applied; since later writes for the same
`.pc/<patch>/<file>` overwrite earlier ones and the first file patch of a patch that touches a file is
written last, what remains is the file as it was before the *patch* (zero-length if it did not exist:
a deleted file has no lines).  `C08_window`: which patches get backups (`--backup-count`), and
`C08_modes`: `never` writes none, `onfail` only when the push stopped early.
`.pc/applied-patches` gains exactly the applied names in series order: `RQ.Abs.C05_exit_and_names`
and `saveApplied`.
-/
namespace RQ.Abs
open RQ RQ.Push

/-- **C08 (calls)**: the driver's backup loop is "undo in memory, then write these files" -/
theorem C08_calls (w : World) (mem : Mem) (applied : List Status) (downTo : Nat)
    (calls : List (Nat × Bytes × Bytes × FileSt Bytes)) (mem' : Mem)
    (hc : backupCalls mem applied downTo = .ok (calls, mem')) :
    rollbackAndSaveBackups w mem applied downTo =
      (match saveBackups w calls with
       | .error e => .error e
       | .ok w' => .ok (w', mem')) := by
  induction applied generalizing w mem calls with
  | nil =>
    rw [backupCalls] at hc
    cases hc
    rfl
  | cons s rest ih =>
    rw [backupCalls] at hc
    rw [rollbackAndSaveBackups]
    by_cases hlt : s.index < downTo
    · rw [if_pos hlt] at hc ⊢
      cases hc
      rfl
    · rw [if_neg hlt] at hc ⊢
      cases hr : rollbackOne mem s with
      | error e => rw [hr] at hc; cases hc
      | ok r =>
        obtain ⟨mem1, file⟩ := r
        rw [hr] at hc
        simp only at hc ⊢
        cases hrn : s.fp.rename with
        | false =>
          rw [hrn] at hc
          simp only [Bool.false_eq_true, if_false] at hc ⊢
          cases hrest : backupCalls mem1 rest downTo with
          | error e => rw [hrest] at hc; cases hc
          | ok r2 =>
            obtain ⟨c, mm⟩ := r2
            rw [hrest] at hc
            cases hc
            simp only [List.cons_append, List.nil_append, saveBackups]
            cases saveBackup w s.patchName s.target file with
            | error e => rfl
            | ok w1 => exact ih w1 mem1 c hrest
        | true =>
          rw [hrn] at hc
          simp only [if_true] at hc ⊢
          cases hnew : s.fp.new with
          | none => rw [hnew] at hc; cases hc
          | some newName =>
            rw [hnew] at hc
            simp only at hc ⊢
            cases hg : mem1.get newName with
            | none => rw [hg] at hc; cases hc
            | some nf =>
              rw [hg] at hc
              simp only at hc ⊢
              cases hrest : backupCalls mem1 rest downTo with
              | error e => rw [hrest] at hc; cases hc
              | ok r2 =>
                obtain ⟨c, mm⟩ := r2
                rw [hrest] at hc
                cases hc
                simp only [List.cons_append, List.nil_append, saveBackups]
                cases saveBackup w s.patchName s.target file with
                | error e => rfl
                | ok w1 =>
                  simp only
                  cases saveBackup w1 s.patchName newName nf with
                  | error e => rfl
                  | ok w2 => exact ih w2 mem1 c hrest

/-- **C08 (window)**: with `--backup-count n` exactly the file patches of the last `n` applied patches are
backed up (`all`: every one) -/
theorem C08_window (final : Nat) (n : Nat) (idx : Nat) (h : idx < final) :
    (idx < (if final > n then final - n else 0) ↔ idx + n < final) := by
  have _ := h
  split <;> omega

/-- **C08 (modes)**: with `--backup never`, and with `onfail` when the whole range applied, the push
performs no backup write: the world after `applyPatches` is the world after saving files and rejects -/
theorem C08_modes (w : World) (cfg : Cfg) (range : List Series.Entry) (st : St) (final : Nat) (rejs : List (Bytes × Bytes))
    (hl : applyLoop w.fs cfg range 0 {} = .ok (st, final, rejs)) (hd : cfg.dryRun = false)
    (hm : cfg.backup = .never ∨ (cfg.backup = .onfail ∧ final = range.length)) :
    applyPatches w cfg range =
      (match saveAll w st.mem [] with
       | .error e => .error e
       | .ok (w1, dirs) =>
         match cleanAll w1 dirs with
         | .error e => .error e
         | .ok w2 =>
           match saveRejFiles w2 rejs with
           | .error e => .error e
           | .ok w3 => .ok (w3, final)) := by
  have hcond : (cfg.backup == .always || (cfg.backup == .onfail && final != range.length)) = false := by
    rcases hm with hm | ⟨hm, hf⟩
    · rw [hm]; rfl
    · rw [hm, hf]; simp
  unfold applyPatches
  rw [hl]
  simp only [hd, Bool.false_eq_true, if_false]
  cases saveAll w st.mem [] with
  | error e => rfl
  | ok r =>
    obtain ⟨w1, dirs⟩ := r
    simp only
    cases cleanAll w1 dirs with
    | error e => rfl
    | ok w2 =>
      simp only
      cases saveRejFiles w2 rejs with
      | error e => rfl
      | ok w3 =>
        simp only
        rw [hcond]
        simp

/-- **C08 (content)**: after a real push whose application loop applied `k` patches, the backup that
stays on disk for patch number `j` (in the backup window) and file `name` holds that file exactly as
it was before patch `j`: its state in the tree obtained by applying the first `j` patches of the range
(a file that did not exist then is `deleted` with no lines, i.e. a zero-length backup). -/
theorem C08_backup_is_prestate (fs : FS) (cfg : Cfg) (range : List Series.Entry) (st : St) (k : Nat)
    (rejs : List (Bytes × Bytes)) (hl : applyLoop fs cfg range 0 {} = .ok (st, k, rejs)) (hd : cfg.dryRun = false)
    (downTo : Nat) (calls : List (Nat × Bytes × Bytes × FileSt Bytes)) (mem' : Mem)
    (hc : backupCalls st.mem st.applied downTo = .ok (calls, mem'))
    (j : Nat) (name : Bytes) (f : FileSt Bytes) (hlast : lastCall j name calls = some f) :
    downTo ≤ j ∧ j < k ∧
    ∃ t rr, applyRange fs cfg (range.take j) 0 [] = .ok (t, j, rr) ∧ look t fs name = .ok (absOf f) := by
  have hst : Stack fs cfg range k st.applied st.mem :=
    applyLoop_stack range hd range [] 0 {} st [] [] k rejs rfl rfl rfl (SameTree.refl fs _) memDE_nil rfl hl
  exact stack_calls k st.applied st.mem st.mem hst (Ext.refl _ _) calls mem' hc j name f hlast

/-- every file patch of an applied patch in the window gets its backup: the undo never aborts -/
theorem C08_backups_total (fs : FS) (cfg : Cfg) (range : List Series.Entry) (st : St) (k : Nat)
    (rejs : List (Bytes × Bytes)) (hl : applyLoop fs cfg range 0 {} = .ok (st, k, rejs)) (hd : cfg.dryRun = false)
    (downTo : Nat) :
    ∃ calls mem', backupCalls st.mem st.applied downTo = .ok (calls, mem') ∧
      ∀ s ∈ st.applied, downTo ≤ s.index → ∃ f, (s.index, s.patchName, s.target, f) ∈ calls := by
  have hst : Stack fs cfg range k st.applied st.mem :=
    applyLoop_stack range hd range [] 0 {} st [] [] k rejs rfl rfl rfl (SameTree.refl fs _) memDE_nil rfl hl
  exact stack_total k st.applied st.mem st.mem hst (Ext.refl _ _)

#print axioms C08_calls
#print axioms C08_window
#print axioms C08_modes
#print axioms C08_backup_is_prestate
#print axioms C08_backups_total

end RQ.Abs
