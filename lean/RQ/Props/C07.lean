import RQ.Lemmas.Dist
/-!
# C07 — file names related through any patch are always handled by the same worker

`Related pairs` is the equivalence closure of the pairs `(a, some b)` fed to `FilenameDistributor::add`,
in any order and multiplicity.  `Dist.worker` is the thread index `build` assigns.
-/
namespace RQ
variable {ν : Type} [DecidableEq ν]

/-- the check run on the implementation's assignment implies the property for arbitrary chains -/
theorem pairsOK_related (t : Nat) (pairs : List (ν × Option ν)) (w : ν → Option Nat)
    (h : pairsOK t pairs w = true) : ∀ a b, Related pairs a b → w a = w b := by
  intro a b hr
  induction hr with
  | pair hm => exact ((pairsOK_mem h hm).2 _ rfl).2
  | refl a => rfl
  | symm _ ih => exact ih.symm
  | trans _ _ ih1 ih2 => exact ih1.trans ih2

/-- every mentioned name gets a worker below the thread count (check form) -/
theorem pairsOK_mentioned (t : Nat) (pairs : List (ν × Option ν)) (w : ν → Option Nat)
    (h : pairsOK t pairs w = true) : ∀ a, Mentioned pairs a → ∃ x, w a = some x ∧ x < t := by
  intro a hm
  obtain ⟨p, hp, ha | ha⟩ := hm
  · subst ha; exact (pairsOK_mem h hp).1
  · exact ((pairsOK_mem h hp).2 a ha).1

/-- **C07 (model passes the check)**: for every sequence of pairs and every positive thread count the
assignment computed by `add`/`build` gives both names of every pair the same worker, and every
mentioned name a worker `< t`. -/
theorem C07_pairs (pairs : List (ν × Option ν)) (t : Nat) (ht : 0 < t) :
    pairsOK t pairs ((Dist.new t : Dist ν).addAll pairs).worker = true := by
  obtain ⟨hI, hT, -, -, hP⟩ := addAll_spec pairs (Dist.new t : Dist ν) (inv_new t)
  have hT' : ((Dist.new t : Dist ν).addAll pairs).threads = t := hT
  apply pairsOK_intro
  intro p hp
  obtain ⟨ha, hb⟩ := hP p hp
  refine ⟨⟨_, worker_spec _ hI _ ha, ?_⟩, ?_⟩
  · rw [hT']; exact Nat.mod_lt _ ht
  · intro b hpb
    obtain ⟨_, hbm, hr⟩ := hb b hpb
    refine ⟨⟨_, worker_spec _ hI _ hbm, ?_⟩, ?_⟩
    · rw [hT']; exact Nat.mod_lt _ ht
    · rw [worker_spec _ hI _ ha, worker_spec _ hI _ hbm, hr]

/-- **C07**: names related directly or through a chain are assigned to the same worker. -/
theorem C07 (pairs : List (ν × Option ν)) (t : Nat) (ht : 0 < t) (a b : ν) (h : Related pairs a b) :
    ((Dist.new t : Dist ν).addAll pairs).worker a = ((Dist.new t : Dist ν).addAll pairs).worker b :=
  pairsOK_related t pairs _ (C07_pairs pairs t ht) a b h

/-- every mentioned name is assigned, to a thread that exists -/
theorem C07_total (pairs : List (ν × Option ν)) (t : Nat) (ht : 0 < t) (a : ν) (h : Mentioned pairs a) :
    ∃ x, ((Dist.new t : Dist ν).addAll pairs).worker a = some x ∧ x < t :=
  pairsOK_mentioned t pairs _ (C07_pairs pairs t ht) a h

/-- consequently two entries dispatched to different workers share no file name
(an entry `(a, b?)` is dispatched by the worker of `a`; its names are `a` and `b`) -/
theorem C07_disjoint (pairs : List (ν × Option ν)) (t : Nat) (ht : 0 < t) (p q : ν × Option ν)
    (hp : p ∈ pairs) (hq : q ∈ pairs)
    (hne : ((Dist.new t : Dist ν).addAll pairs).worker p.1 ≠ ((Dist.new t : Dist ν).addAll pairs).worker q.1) :
    ∀ n, (n = p.1 ∨ p.2 = some n) → ¬ (n = q.1 ∨ q.2 = some n) := by
  intro n hnp hnq
  have hok := C07_pairs pairs t ht
  have e1 : ((Dist.new t : Dist ν).addAll pairs).worker p.1 =
      ((Dist.new t : Dist ν).addAll pairs).worker n := by
    rcases hnp with e | e
    · rw [e]
    · exact ((pairsOK_mem hok hp).2 n e).2
  have e2 : ((Dist.new t : Dist ν).addAll pairs).worker q.1 =
      ((Dist.new t : Dist ν).addAll pairs).worker n := by
    rcases hnq with e | e
    · rw [e]
    · exact ((pairsOK_mem hok hq).2 n e).2
  exact hne (e1.trans e2.symm)

/-! ### non-vacuity: the sequence that split {A,B,C} before the repair -/
example : ((Dist.new 2 : Dist Nat).addAll [(0, some 1), (2, some 1), (2, some 1)]).build = [(0, 0), (1, 0), (2, 0)] := by decide
example : Related [((0 : Nat), some (1 : Nat)), (2, some 1), (2, some 1)] 0 2 :=
  .trans (b := 1) (.pair (by decide)) (.symm (.pair (by decide)))

#print axioms pairsOK_related
#print axioms pairsOK_mentioned
#print axioms C07_pairs
#print axioms C07
#print axioms C07_total
#print axioms C07_disjoint

end RQ
