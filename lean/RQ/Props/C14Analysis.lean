import RQ.Lemmas.AnalysisLemmas
/-!
# C14 — the `-A multiapply` analysis and its line searcher cannot change the result

`RQ/Props/C14.lean` shows that the presentation options (among them `-A multiapply`) do not reach the
configuration of the driver.  Here the code that runs *because of* `-A multiapply` is modelled
(`RQ/Model/Analysis.lean`: `src/libpatch/util/search.rs`, `src/libpatch/analysis/multiapply.rs`) and
shown harmless:

* `C14_search_total` — the searcher never indexes outside the haystack and never underflows: the
  checked model (every `haystack[..]`, every slice, every `usize` subtraction of `SearcherIterator::next`
  guarded, `none` = panic) always returns `some`.  In particular the empty needle (`C14_search_empty_needle`:
  the early return of search.rs:55, whose removal panics — `C14_search_unguarded_panics`), the needle
  longer than the haystack (`C14_search_needle_too_long`) and the empty haystack (`C14_search_empty_hay`).
* `C14_search_correct` — for a non-empty needle the result is exactly the ascending list of all
  positions where the needle occurs (overlapping occurrences included): the Horspool-like skipping
  misses nothing and reports nothing else.  `C14_search_mem`, `C14_search_sorted` are the two halves in
  the usual form.
* `C14_multiapply_places` — every note belongs to an applied, middle-positioned hunk, carries its line and
  offset, and its places are exactly the occurrences of the hunk's fuzz-trimmed remove side in the content
  that overlap the place of no applied hunk (the hunk itself included), at least one.
* `C14_multiapply_stops` — the loop of the analysis ends at the first hunk that was not applied or is not
  positioned in the middle (`return`, not `continue`, multiapply.rs:68,76): no note for any later hunk.
  This is the behaviour of the tool, mirrored, not repaired; it only concerns what is printed.
* `C14_multiapply_pure` — the analysis is a function of (hunks, direction, report of the first loop,
  content before the modifications) that returns notes only.  Remark: `applyModify` / `FilePatch.apply`
  of `RQ/Model/Apply.lean` do not take the analysis at all; `applyModifyA` is `apply_modify` with the
  call of mod.rs:903 in place (`&ModifiedFile`: the analysis cannot write to the file, and by
  `C14_search_total` it cannot panic), its first component *is* `applyModify`.
-/
namespace RQ.Analysis
open RQ

section
variable {α : Type} [DecidableEq α]

/-! ### the searcher never leaves the haystack -/

/-- **C14 (search, total)**: for every needle and haystack no index, slice or subtraction of
`SearcherIterator::next` is out of range (and `hay.length + 1` passes through its loop are enough):
the checked model returns `some`, namely the result of `searchAll` -/
theorem C14_search_total (needle hay : List α) :
    searchAllC needle hay = some (searchAll needle hay) := by
  by_cases hne : needle = []
  · subst hne; rfl
  · rw [searchAll, searchAllC_of_ne hne]; rfl

/-- the empty needle is found nowhere (search.rs:55) -/
theorem C14_search_empty_needle (hay : List α) : searchAll ([] : List α) hay = [] := rfl

/-- a needle longer than the haystack is found nowhere -/
theorem C14_search_needle_too_long (needle hay : List α) (h : needle.length > hay.length) :
    searchAll needle hay = [] := by
  have hne : needle ≠ [] := by intro e; subst e; simp at h
  rw [searchAll_of_ne hne, List.filter_eq_nil_iff]
  intro i _ ho
  have := occB_bound hne ho
  omega

/-- nothing is found in the empty haystack -/
theorem C14_search_empty_hay (needle : List α) : searchAll needle ([] : List α) = [] := by
  cases needle with
  | nil => rfl
  | cons a l => exact C14_search_needle_too_long _ _ (by simp)

/-- the loop of `next` without the test for the empty needle in front of it panics on the empty needle
at once, whatever the haystack (`self.position + 0 - 1` at position 0) -/
theorem C14_search_unguarded_panics (hay : List α) (fuel : Nat) :
    loopC ([] : List α) hay fuel 0 = none :=
  loopC_nil_panics hay fuel

/-! ### the searcher finds exactly the occurrences -/

/-- **C14 (search, correct)**: for a non-empty needle, the result is the ascending list of all
positions `i` of the haystack with `hay[i .. i + needle.len()] == needle` -/
theorem C14_search_correct (needle hay : List α) (hne : needle ≠ []) :
    searchAll needle hay =
      (List.range hay.length).filter
        (fun i => decide ((hay.drop i).take needle.length = needle)) :=
  searchAll_of_ne hne

/-- every occurrence, and nothing else -/
theorem C14_search_mem (needle hay : List α) (hne : needle ≠ []) (i : Nat) :
    i ∈ searchAll needle hay ↔ (hay.drop i).take needle.length = needle := by
  rw [searchAll_of_ne hne, List.mem_filter, occB_iff, List.mem_range]
  constructor
  · exact fun h => h.2
  · intro h
    have := occB_bound hne ((occB_iff needle hay i).mpr h)
    have : 0 < needle.length := List.length_pos_iff.mpr hne
    exact ⟨by omega, h⟩

/-- in ascending order, each once -/
theorem C14_search_sorted (needle hay : List α) :
    (searchAll needle hay).Pairwise (· < ·) := by
  by_cases hne : needle = []
  · subst hne; exact List.Pairwise.nil
  · rw [searchAll_of_ne hne, List.range_eq_range']
    exact List.Pairwise.filter _ (List.pairwise_lt_range' 1)

/-! ### the multiapply analysis -/

/-- **C14 (multiapply, places)**: a note of the analysis belongs to a hunk that was applied and is
positioned in the middle; it carries the line and the offset of the report; its places are exactly the
ranges `i .. i + len` where the (fuzz-trimmed) remove side of the hunk occurs in the content and which
overlap the range `line .. line + len'` of no applied hunk of the file patch; there is at least one -/
theorem C14_multiapply_places (hunks : List (Hunk α)) (dir : Dir) (reps : List Rep) (content : List α)
    (note : Note) (hn : note ∈ multiApply hunks dir reps content) :
    ∃ h line rb off diff fuzz,
      (hunks.zip reps)[note.hunk]? = some (h, Rep.applied line rb off diff fuzz) ∧
      note.line = line ∧ note.offset = off ∧
      (view h dir fuzz).position = Pos.middle ∧
      note.places ≠ [] ∧
      ∀ pl : Int × Int, pl ∈ note.places ↔
        (∃ i : Nat, pl = ((i : Int), ((i + (view h dir fuzz).rem.length : Nat) : Int)) ∧
          (view h dir fuzz).rem ≠ [] ∧
          (content.drop i).take (view h dir fuzz).rem.length = (view h dir fuzz).rem) ∧
        ∀ oh oline orb ooff odiff ofuzz,
          (oh, Rep.applied oline orb ooff odiff ofuzz) ∈ hunks.zip reps →
          pl.2 ≤ oline ∨ oline + ((view oh dir ofuzz).rem.length : Int) ≤ pl.1 := by
  obtain ⟨_, hall, h, line, rb, off, diff, fuzz, hget, hl, ho, hp, hne⟩ :=
    mem_multiApplyLoop hunks dir reps content _ 0 note hn
  simp only [Nat.sub_zero] at hget hall
  obtain ⟨h', line', rb', off', diff', fuzz', hget', hmid⟩ := hall note.hunk (Nat.le_refl _)
  rw [hget] at hget'
  cases hget'
  refine ⟨h, line, rb, off, diff, fuzz, hget, hl, ho, hmid, hne, ?_⟩
  intro pl
  rw [hp]
  exact mem_placesOf hunks dir reps content _ pl

/-- a reported place never overlaps the place where the hunk itself was applied -/
theorem C14_multiapply_not_self (hunks : List (Hunk α)) (dir : Dir) (reps : List Rep) (content : List α)
    (note : Note) (hn : note ∈ multiApply hunks dir reps content) (pl : Int × Int) (hpl : pl ∈ note.places) :
    ∃ h line rb off diff fuzz,
      (hunks.zip reps)[note.hunk]? = some (h, Rep.applied line rb off diff fuzz) ∧
      (pl.2 ≤ line ∨ line + ((view h dir fuzz).rem.length : Int) ≤ pl.1) := by
  obtain ⟨h, line, rb, off, diff, fuzz, hget, _, _, _, _, hiff⟩ :=
    C14_multiapply_places hunks dir reps content note hn
  exact ⟨h, line, rb, off, diff, fuzz, hget,
    ((hiff pl).mp hpl).2 h line rb off diff fuzz (List.mem_of_getElem? hget)⟩

/-- **C14 (multiapply, early return)**: the analysis stops at the first hunk that was not applied or is
not positioned in the middle — every hunk up to the one of a note was applied in the middle -/
theorem C14_multiapply_stops (hunks : List (Hunk α)) (dir : Dir) (reps : List Rep) (content : List α)
    (note : Note) (hn : note ∈ multiApply hunks dir reps content) (j : Nat) (hj : j ≤ note.hunk) :
    ∃ h line rb off diff fuzz,
      (hunks.zip reps)[j]? = some (h, Rep.applied line rb off diff fuzz) ∧
      (view h dir fuzz).position = Pos.middle :=
  (mem_multiApplyLoop hunks dir reps content _ 0 note hn).2.1 j (by omega)

/-- **C14 (multiapply, pure)**: `apply_modify` with the analysis call in place gives the result of
`apply_modify` without it; the notes are a function of the hunks, the direction, the report of the
first loop and the content before the modifications -/
theorem C14_multiapply_pure (hs : List (Hunk α)) (d : Dir) (F : Nat) (f : FileSt α) :
    (applyModifyA hs d F f).1 = applyModify hs d F .normal f ∧
    (applyModifyA hs d F f).2 = multiApply hs d (phase1 d F f.content f.deleted hs 0 (-1)) f.content :=
  ⟨rfl, rfl⟩

end

/-! ### decided examples -/

/-- search.rs `basic1`: `abc` in `xabcx` -/
example : searchAllC ([97, 98, 99] : List UInt8) [120, 97, 98, 99, 120] = some [1] := by decide

/-- search.rs `multiple_matches_overlapping`: `aaa` in `aaaaaaaaa` -/
example : searchAllC ([97, 97, 97] : List UInt8) [97, 97, 97, 97, 97, 97, 97, 97, 97] =
    some [0, 1, 2, 3, 4, 5, 6] := by decide

/-- search.rs `no_match_too_short`: `bb` in `abc` -/
example : searchAllC ([98, 98] : List UInt8) [97, 98, 99] = some [] := by decide

/-- search.rs `multiple_matches2`: `abc` in `abcopopabcqeqeqabc` (skipping whole windows) -/
example : searchAll ([97, 98, 99] : List UInt8)
    [97, 98, 99, 111, 112, 111, 112, 97, 98, 99, 113, 101, 113, 101, 113, 97, 98, 99] = [0, 7, 15] := by decide

/-- the empty needle: nothing with the test of search.rs:55, a panic without it -/
example : searchAllC ([] : List UInt8) [97, 98, 99] = some [] ∧
    loopC ([] : List UInt8) [97, 98, 99] 4 0 = none := by decide

/-- a hunk `1 2 3 → 1 7 3` (one line of context on each side) on a file where the old side occurs at
lines 1 and 5 -/
def exHunk : Hunk Nat := { rem := [1, 2, 3], add := [1, 7, 3], remLine := 0, addLine := 0, pre := 1, suf := 1 }
def exContent : List Nat := [1, 2, 3, 9, 1, 2, 3]

/-- the hunk applies at line 1 (index 0) and would also apply at line 5 (index 4): "Applied on line 1,
but would also apply on line 5" -/
example :
    phase1 .fwd 0 exContent false [exHunk] 0 (-1) = [.applied 0 0 0 0 0] ∧
    multiApply [exHunk] .fwd (phase1 .fwd 0 exContent false [exHunk] 0 (-1)) exContent =
      [{ hunk := 0, line := 0, offset := 0, places := [(4, 7)] }] := by decide

/-- with the call in place: the same result as without, and the note -/
example :
    applyModifyA [exHunk] .fwd 0 { content := exContent, existed := true, deleted := false, perms := none } =
      (applyModify [exHunk] .fwd 0 .normal { content := exContent, existed := true, deleted := false, perms := none },
       [{ hunk := 0, line := 0, offset := 0, places := [(4, 7)] }]) := by decide

/-- a hunk that does not apply -/
def exFailing : Hunk Nat := { rem := [5, 6, 5], add := [5, 0, 5], remLine := 0, addLine := 0, pre := 1, suf := 1 }

/-- the early `return` (multiapply.rs:68): behind a hunk that failed the analysis reports nothing, in the
other order it does -/
example :
    phase1 .fwd 0 exContent false [exFailing, exHunk] 0 (-1) = [.failed .noMatch, .applied 0 0 0 0 0] ∧
    multiApply [exFailing, exHunk] .fwd (phase1 .fwd 0 exContent false [exFailing, exHunk] 0 (-1)) exContent = [] ∧
    multiApply [exHunk, exFailing] .fwd (phase1 .fwd 0 exContent false [exHunk, exFailing] 0 (-1)) exContent =
      [{ hunk := 0, line := 0, offset := 0, places := [(4, 7)] }] := by decide

#print axioms C14_search_total
#print axioms C14_search_empty_needle
#print axioms C14_search_needle_too_long
#print axioms C14_search_empty_hay
#print axioms C14_search_unguarded_panics
#print axioms C14_search_correct
#print axioms C14_search_mem
#print axioms C14_search_sorted
#print axioms C14_multiapply_places
#print axioms C14_multiapply_not_self
#print axioms C14_multiapply_stops
#print axioms C14_multiapply_pure

end RQ.Analysis
