import RQ.Lemmas.Phase1
/-!
# C03 — an applied file patch changes exactly the lines its hunks mark, nothing else

`applySpec 0 orig (coreEdits d hs reps)` is "the original with, for each applied hunk in order, the
removed lines at its matched position replaced by its added lines"; failed hunks contribute no edit,
context lines are not part of any edit.  The theorems hold for every file, every list of
well-formed hunks (context counts consistent with the side lengths — what the parser produces, see
`RQ.Props.C11`), both directions, every fuzz limit, whatever the offsets and however the context of
one hunk overlaps the context or the changed lines of another.
-/
set_option linter.unusedSectionVars false
namespace RQ
variable {α : Type} [DecidableEq α]

theorem coreEdits_setRb (d : Dir) : ∀ (hs : List (Hunk α)) (reps : List Rep) (mo : Int),
    coreEdits d hs (setRb reps mo) = coreEdits d hs reps := by
  intro hs
  induction hs with
  | nil => intro reps mo; cases reps with
    | nil => rfl
    | cons r rs => cases r <;> simp [setRb, coreEdits]
  | cons h hs ih =>
    intro reps mo
    cases reps with
    | nil => rfl
    | cons r rs => cases r <;> simp [setRb, coreEdits, ih]

/-- **C03 (modify)**: `apply_modify` never panics on well-formed hunks, and the new content is the
original with exactly the changed lines of the applied hunks replaced; the edits are ordered and
disjoint in the original. Existence flag, `existed` and permissions are untouched. -/
theorem C03_applyModify (hs : List (Hunk α)) (d : Dir) (F : Nat) (f : FileSt α)
    (hw : ∀ h ∈ hs, h.WFlen) :
    ∃ reps, applyModify hs d F .normal f
        = some ({ f with content := applySpec 0 f.content (coreEdits d hs reps) }, { reps := reps, dir := d, fuzz := F }) ∧
      reps.length = hs.length ∧
      Ordered 0 f.content.length (coreEdits d hs reps) := by
  have hfit := phase1_fits d F f.content f.deleted hs 0 (-1) hw
  have hord := phase1_ordered d F f.content f.deleted hs 0 (-1) 0 hw (by omega) (by omega)
  have h2 := phase2_eq d hs _ [] f.content 0 0 hfit (by simpa using hord) (by simp)
  refine ⟨setRb (phase1 d F f.content f.deleted hs 0 (-1)) 0, ?_, ?_, ?_⟩
  · simp only [applyModify]
    simp only [List.nil_append] at h2
    rw [h2, coreEdits_setRb]
  · have : ∀ (rs : List Rep) (mo : Int), (setRb rs mo).length = rs.length := by
      intro rs; induction rs with
      | nil => intro; rfl
      | cons r rs ih => intro mo; cases r <;> simp [setRb, ih]
    rw [this, phase1_length]
  · rw [coreEdits_setRb]; simpa using hord

/-- the check the driver evaluates on the implementation's output is exactly the statement of C03 -/
theorem contentOK_iff (d : Dir) (hs : List (Hunk α)) (reps : List Rep) (orig result : List α) :
    contentOK d hs reps orig result = true ↔
      Ordered 0 orig.length (coreEdits d hs reps) ∧ result = applySpec 0 orig (coreEdits d hs reps) := by
  simp [contentOK, orderedB_iff]

/-- the model passes the check that is run on the implementation -/
theorem C03_oracle (hs : List (Hunk α)) (d : Dir) (F : Nat) (f : FileSt α) (hw : ∀ h ∈ hs, h.WFlen) :
    ∃ f' rep, applyModify hs d F .normal f = some (f', rep) ∧
      contentOK d hs rep.reps f.content f'.content = true ∧ f'.deleted = f.deleted ∧ f'.perms = f.perms := by
  obtain ⟨reps, h1, _, h3⟩ := C03_applyModify hs d F f hw
  exact ⟨_, _, h1, (contentOK_iff ..).mpr ⟨h3, rfl⟩, rfl, rfl⟩

/-- hunks that are not applied contribute nothing: if none applied, the content is unchanged -/
theorem coreEdits_none (d : Dir) : ∀ (hs : List (Hunk α)) (reps : List Rep),
    (∀ r ∈ reps, r.isApplied = false) → coreEdits d hs reps = [] := by
  intro hs
  induction hs with
  | nil => intro reps _; cases reps <;> rfl
  | cons h hs ih =>
    intro reps hr
    cases reps with
    | nil => rfl
    | cons r rs =>
      have := hr r (by simp)
      cases r with
      | applied => simp [Rep.isApplied] at this
      | failed _ => simp only [coreEdits]; exact ih rs (fun x hx => hr x (by simp [hx]))
      | skipped => simp only [coreEdits]; exact ih rs (fun x hx => hr x (by simp [hx]))

theorem C03_failed_contribute_nothing (hs : List (Hunk α)) (d : Dir) (reps : List Rep) (orig : List α)
    (h : ∀ r ∈ reps, r.isApplied = false) : applySpec 0 orig (coreEdits d hs reps) = orig := by
  rw [coreEdits_none d hs reps h]; rfl

/-- **C03 (create / delete)**: the whole-file kinds either install the new side on an empty file,
or empty a file that equals the old side, or report failure and change nothing. -/
theorem C03_create (h : Hunk α) (d : Dir) (F : Nat) (f : FileSt α) :
    let r := applyCreate h d F .normal f
    (f.content = [] → r.1.content = (match d with | .fwd => h.add | .rev => h.rem) ∧ r.1.deleted = false ∧ r.2.ok = true) ∧
    (f.content ≠ [] → r.1 = f ∧ r.2.reps = [.failed .createExists]) := by
  constructor
  · intro he
    cases d <;> simp [applyCreate, prevFailed, he, Report.ok, Report.failed, Rep.isFailed]
  · intro hne
    cases hc : f.content with
    | nil => exact absurd hc hne
    | cons x xs => simp [applyCreate, prevFailed, hc]

theorem C03_delete (fp : FilePatch α) (h : Hunk α) (d : Dir) (F : Nat) (f : FileSt α) :
    let r := applyDelete fp h d F .normal f
    let expected := (match d with | .fwd => h.rem | .rev => h.add)
    (f.content = expected → r.1.content = [] ∧ r.2.ok = true) ∧
    (f.content ≠ expected → r.1 = f ∧ r.2.reps = [.failed .deleteMismatch]) := by
  constructor
  · intro he
    cases d <;> simp_all [applyDelete, prevFailed, Report.ok, Report.failed, Rep.isFailed]
  · intro hne
    cases d <;> simp [applyDelete, prevFailed, Ne.symm hne]

/-! ### non-vacuity: overlapping context, different offsets

File `1 2 3 4 5 6`; hunk 1 replaces line `2` by `9 9` with context `1`/`3 4`; hunk 2 (stated two lines
too early, so it applies at offset +1... ) deletes `5` with leading context `3 4` — context that
overlaps hunk 1's trailing context. -/
def exHunks : List (Hunk Nat) :=
  [ { rem := [1, 2, 3, 4], add := [1, 9, 9, 3, 4], remLine := 0, addLine := 0, pre := 1, suf := 2 },
    { rem := [3, 4, 5, 6], add := [3, 4, 6], remLine := 1, addLine := 3, pre := 2, suf := 1 } ]

instance (h : Hunk α) : Decidable h.WFlen := by unfold Hunk.WFlen; exact inferInstance

example : (∀ h ∈ exHunks, h.WFlen) := by decide

example : (applyModify exHunks .fwd 0 .normal { content := [1, 2, 3, 4, 5, 6], existed := true, deleted := false, perms := none }).map
      (fun r => (r.1.content, r.2.reps))
    = some ([1, 9, 9, 3, 4, 6], [.applied 0 0 0 1 0, .applied 2 3 1 (-1) 0]) := by decide

#print axioms C03_applyModify
#print axioms C03_oracle
#print axioms contentOK_iff
#print axioms C03_failed_contribute_nothing
#print axioms C03_create
#print axioms C03_delete

end RQ
