import RQ.Props.C01
import RQ.Lemmas.MkDiff
/-!
# C01, closed: for ALL files `A`, `B` and all context widths `c` there is a unified diff, and it applies

`C01_forward` / `C01_reverse` speak about every `hs` with `ValidDiff A B hs`.  Here the hypothesis is
discharged: `mkDiff c (editScript A B)` (RQ/Spec/MkDiff.lean: LCS alignment, GNU-style grouping with
context width `c`, changes at most `2*c` common lines apart share a hunk) is such an `hs` for every `A`,
`B`, `c` (`C01_diff_valid`), so pushing it onto `A` yields exactly `B` with every hunk at its stated line,
offset 0, fuzz 0 (`C01_diff_applies`), and `-R` on `B` yields `A` (`C01_diff_applies_rev`).  This includes
`A = []` or `B = []` (one context-free hunk at line 0), `A = B` (no hunk) and `c = 0` (context-free
hunks; the gap condition holds because a keep between two changes is never empty).
-/
set_option linter.unusedSectionVars false
namespace RQ
variable {α : Type} [DecidableEq α]

/-- the diff function yields a unified diff from `A` to `B`, whatever the files and the context width -/
theorem C01_diff_valid (c : Nat) (A B : List α) : ValidDiff A B (mkDiff c (editScript A B)) :=
  mkDiff_valid c A B

/-- for every normal-form line script, not only the one `editScript` finds -/
theorem C01_diff_valid_script (c : Nat) (s : List (Seg α)) (h : NF s) :
    ValidDiff (oldOf s) (newOf s) (mkDiff c s) :=
  mkDiff_valid_script c s h

/-- **C01 closed, forward**: the diff of `A` and `B` pushed onto `A` yields exactly `B` -/
theorem C01_diff_applies (c F : Nat) (A B : List α) :
    applyModify (mkDiff c (editScript A B)) .fwd F .normal (fileOf A) =
      some (fileOf B, { reps := exactReports (mkDiff c (editScript A B)) 0, dir := .fwd, fuzz := F }) :=
  C01_forward A B _ F (mkDiff_valid c A B)

/-- **C01 closed, reverse**: the same diff applied in the reverse direction to `B` yields exactly `A` -/
theorem C01_diff_applies_rev (c F : Nat) (A B : List α) :
    applyModify (mkDiff c (editScript A B)) .rev F .normal (fileOf B) =
      some (fileOf A,
        { reps := exactReports ((mkDiff c (editScript A B)).map Hunk.swap) 0, dir := .rev, fuzz := F }) :=
  C01_reverse A B _ F (mkDiff_valid c A B)

/-! ### what the diff function computes on the example of RQ/Props/C01.lean

`editScript exA exB` finds the alignment behind `exDiff` (`1 -2 +9 +9 3 4 -5 6`).  With context 1 the two
changes are `2 = 2*c` common lines apart, so their hunks would touch and GNU diff (and `mkDiff`) emits ONE
hunk; `exDiff` (two touching hunks) is another valid diff of the same files.  With context 0, or with one
more common line between the changes, two hunks come out. -/

example : editScript exA exB =
    [.keep [1], .change [2] [9, 9], .keep [3, 4], .change [5] [], .keep [6]] := by decide

example : mkDiff 1 (editScript exA exB) =
    [ { rem := [1, 2, 3, 4, 5, 6], add := [1, 9, 9, 3, 4, 6], remLine := 0, addLine := 0, pre := 1, suf := 1 } ] := by
  decide

example : mkDiff 0 (editScript exA exB) =
    [ { rem := [2], add := [9, 9], remLine := 1, addLine := 1, pre := 0, suf := 0 },
      { rem := [5], add := [], remLine := 4, addLine := 5, pre := 0, suf := 0 } ] := by decide

/-- `exDiff` with one more common line (`7`) between the changes: the two hunks of `exDiff`, the second
one line further down -/
example : mkDiff 1 (editScript [1, 2, 3, 4, 7, 5, 6] [1, 9, 9, 3, 4, 7, 6]) =
    [ { rem := [1, 2, 3], add := [1, 9, 9, 3], remLine := 0, addLine := 0, pre := 1, suf := 1 },
      { rem := [7, 5, 6], add := [7, 6], remLine := 4, addLine := 5, pre := 1, suf := 1 } ] := by decide

/-- empty old file, empty new file, equal files -/
example : mkDiff 3 (editScript ([] : List Nat) [1, 2]) =
    [ { rem := [], add := [1, 2], remLine := 0, addLine := 0, pre := 0, suf := 0 } ] := by decide
example : mkDiff 3 (editScript [1, 2] ([] : List Nat)) =
    [ { rem := [1, 2], add := [], remLine := 0, addLine := 0, pre := 0, suf := 0 } ] := by decide
example : mkDiff 3 (editScript [1, 2] [1, 2]) = [] := by decide

/-- a hunk cut short by the end of both files (`pre = 2 > suf = 1`) -/
example : mkDiff 2 (editScript [1, 2, 3, 4, 5] [1, 2, 3, 9, 5]) =
    [ { rem := [2, 3, 4, 5], add := [2, 3, 9, 5], remLine := 1, addLine := 1, pre := 2, suf := 1 } ] := by decide

#print axioms C01_diff_valid
#print axioms C01_diff_valid_script
#print axioms C01_diff_applies
#print axioms C01_diff_applies_rev
#print axioms editScript_old
#print axioms editScript_new
#print axioms editScript_NF
#print axioms mkDiff_context_le

end RQ
