import RQ.Lemmas.Faults
/-!
# C18 — an output failure is never reported as success nor recorded as applied

Every operation that writes to the file system goes through `World.op`; the world carries an optional
fault index `faultAt = some k`: the operation with number `k` (position in the trace) fails.  The
fault-injection hook in the code does the same at the same points (the correspondence run compares the
number of operations and the exit status for every `k`).

`NotYet w` — the faulty operation has not been attempted yet.  `C18_fault_is_error`: if it has been
attempted by the end of the push, the outcome is `error` (exit status 1): not success, not "some patches
failed", not a crash.  `C18_recorded_last`: `.pc/applied-patches` is written only after `applyPatches`
returned without error, i.e. after every modified file, reject file and backup file was written.
-/
namespace RQ.Push
open RQ

/-- the operation that is to fail has not been attempted yet -/
def NotYet (w : World) : Prop := ∀ k, w.faultAt = some k → w.trace.length ≤ k

/-- **C18**: for every configuration, workspace and fault position: if the faulty operation was reached,
the push ends with outcome `error` — exit status 1, no crash. -/
theorem C18_fault_is_error (cfg : Cfg) (w : World) (h0 : NotYet w) (hr : ¬ NotYet (push cfg w).2) :
    (push cfg w).1 = .error := by
  cases push_ny (cfg := cfg) (w := w) h0 with
  | inl h => exact absurd h hr
  | inr h => exact h

/-- conversely a push that reports `allApplied` or `notAll` never hit the fault -/
theorem C18_success_means_no_fault (cfg : Cfg) (w : World) (h0 : NotYet w)
    (hs : (push cfg w).1 = .allApplied ∨ (push cfg w).1 = .notAll) : NotYet (push cfg w).2 := by
  cases push_ny (cfg := cfg) (w := w) h0 with
  | inl h => exact h
  | inr h =>
    rw [h] at hs
    cases hs with
    | inl hs => cases hs
    | inr hs => cases hs

/-- **C18 (recording)**: the applied patches are recorded only after everything else was written: if
saving files, rejects or backups failed, `save_applied_patches` is not even called and the outcome is
that error with the world at the point of failure -/
theorem C18_recorded_last (cfg : Cfg) (w : World) (range : List Series.Entry) (e : Fail) (w' : World)
    (h : applyPatches w cfg range = .error (e, w')) :
    pushRange cfg w range = ((match e with | .err => Outcome.error | .panic => Outcome.panic), w') := by
  cases e
  · show pushRange cfg w range = (Outcome.error, w')
    unfold pushRange; rw [h]
  · show pushRange cfg w range = (Outcome.panic, w')
    unfold pushRange; rw [h]

/-! ### non-vacuity: a world with the fault at operation 0 and an empty trace satisfies `NotYet` -/
example : NotYet { fs := { nodes := [], nextIno := 1 }, faultAt := some 0 } := by
  intro k hk; simp at hk; subst hk; simp

#print axioms C18_fault_is_error
#print axioms C18_success_means_no_fault
#print axioms C18_recorded_last

end RQ.Push
