import RQ.Lemmas.Bridge
import RQ.Lemmas.TightSave
import RQ.Lemmas.TightSpec
import RQ.Lemmas.TightDec
/-!
# C09 on disk: two consecutive runs of the driver model = one run of the specification

`RQ/Props/C09.lean` proves that the *specification* composes (`C09_oracle_composes`) and reduces the same statement
for two runs of the *driver model* to one bridge hypothesis (`C09_disk_composes_of_bridge`): the disk the first run
leaves agrees with the specification's tree at **every** path outside `.pc`, directories included.  Here that bridge is
proven (`C09_bridge`) and the hypothesis discharged (`C09_disk_composes`).

How: `C05_tree_on_disk` / `C05_oracle_agrees` speak about regular files under readable names.
`Tight.fileAt_disk_eq_spec` (`RQ/Lemmas/Bridge.lean`) extends the agreement on regular files to every path outside
`.pc`; for *tight* trees (`RQ/Lemmas/Tight.lean`: outside `.pc` the parents of every node are directories, every
directory has a regular file somewhere below it, permission bits are permission bits, the working directory itself is
not a node) regular files determine the directories (`Tight.outsidePc_of_fileAt`), and both the specification
(`Tight.specRun_tight`: `createDirAll` before a creation, `pruneUp` after a removal) and the driver
(`Tight.applyPatches_tight'`: `createDirAll` in `saveModifiedFile`, `cleanAll` climbing from the parents of the files
that were removed) keep a tight tree tight.

The hypothesis `Tight w.fs` on the **starting** tree is needed, and it was the proof that said so: with an empty
directory `e` in the starting tree, pushing "create `e/f/x`" and "delete `e/f/x`" in one invocation never writes
anything and leaves `e`, two invocations write the file, remove it and remove the directories the removal left empty,
`e` included.  Shown on the real binary; known finding `empty-dir-kept` (witness `corpus/C09/empty-dir-kept.case`).
`PrefixFree` and terminated lines are the hypotheses of `C05_oracle_agrees` (known findings `dir-file-swap`,
`unterminated-line-mid-file`).
-/
namespace RQ.Compose
open RQ RQ.Push RQ.Spec RQ.Flush RQ.Agree RQ.Tight

/-- **C09 (bridge)**: after a run of the driver model that applied its whole range, the disk agrees with the
specification's tree at every path outside `.pc` — regular files (content, permission bits) and directories. -/
theorem C09_bridge (w w1 : World) (cfg : Cfg) (r1 : List Series.Entry)
    (hf : w.faultAt = none) (hdry : cfg.dryRun = false) (hclean : Clean cfg w.fs r1)
    (hpf : PrefixFree w.fs cfg r1) (hterm : ∀ t' ∈ reached w.fs cfg r1 [], TreeTerminated t')
    (hT0 : Tight w.fs) (h1 : (specRun cfg w.fs r1).exit = 0)
    (h : applyPatches w cfg r1 = .ok (w1, r1.length)) :
    OutsidePc (specRun cfg w.fs r1).fs w1.fs :=
  bridge_of_tight w w1 cfg r1 hf hdry hpf hterm hT0 h
    (applyPatches_tight' w w1 cfg r1 hdry hT0 h)
    (specRun_tight cfg hdry w.fs r1 hclean hT0 h1)
    (fun _ _ ha hb hk => outsidePc_of_fileAt ha hb hk)

/-- **C09 (two runs of the driver model against one run of the specification).**  The driver model applies `r₁`
completely from the tight tree `w.fs`, leaving `w1`; a second run applies `r₂` from `w1` as far as it gets (`k2`
patches), leaving `w2`.  Then the specification's *single* push of `r₁ ++ r₂` from the original tree applies
`|r₁| + k2` patches, renders the same reject files, and the second run's disk holds under every readable non-reject
non-`.pc` name exactly the file that single push leaves there. -/
theorem C09_disk_composes (cfg : Cfg) (hdry : cfg.dryRun = false) (r1 r2 : List Series.Entry)
    (w w1 w2 : World) (k2 : Nat) (hf : w.faultAt = none)
    (hclean : Clean cfg w.fs (r1 ++ r2)) (hT0 : Tight w.fs)
    (h1 : (specRun cfg w.fs r1).exit = 0) (hnr : ¬ Refused cfg w.fs (r1 ++ r2))
    (hpf1 : PrefixFree w.fs cfg r1) (hterm1 : ∀ t' ∈ reached w.fs cfg r1 [], TreeTerminated t')
    (hrun1 : applyPatches w cfg r1 = .ok (w1, r1.length))
    (hpf : PrefixFree w1.fs cfg r2) (hterm : ∀ t' ∈ reached w1.fs cfg r2 [], TreeTerminated t')
    (h2 : applyPatches w1 cfg r2 = .ok (w2, k2)) :
    ∃ t rejs pA, Abs.applyRange w1.fs cfg r2 0 [] = .ok (t, k2, rejs) ∧
      Spec.applyRangeTree cfg w.fs (r1 ++ r2) (start w.fs) = .ok pA ∧ pA.k = k2 + r1.length ∧
      pA.rejs = rejs.reverse ∧
      ∀ name key a, Comp.cur ∉ components name → safeKey name = some key → ¬ isRejKey rejs key → ¬ isPcKey key →
        Abs.look t w1.fs name = .ok a → fileAt w2.fs key = fileAt (specRun cfg w.fs (r1 ++ r2)).fs key :=
  disk_composes_of_tight cfg hdry w.fs r1 r2 hclean h1 hnr w w1 w2 k2 rfl hf hpf1 hterm1 hrun1 hT0
    (applyPatches_tight' w w1 cfg r1 hdry hT0 hrun1)
    (specRun_tight cfg hdry w.fs r1 hclean.left hT0 h1)
    (fun _ _ ha hb hk => outsidePc_of_fileAt ha hb hk) hpf hterm h2

/-- the same without the hypothesis about the specification's first push: if no backups are written (`--backup`
is not `always`; everything applied) and `.pc` is in order at the start, the driver's successful first run implies
that the specification's first push exits with 0 -/
theorem C09_disk_composes' (cfg : Cfg) (hdry : cfg.dryRun = false) (r1 r2 : List Series.Entry)
    (w w1 w2 : World) (k2 : Nat) (hf : w.faultAt = none)
    (hclean : Clean cfg w.fs (r1 ++ r2)) (hT0 : Tight w.fs)
    (hb : cfg.backup ≠ .always) (hpc : ¬ PcBad w.fs) (hnr : ¬ Refused cfg w.fs (r1 ++ r2))
    (hpf1 : PrefixFree w.fs cfg r1) (hterm1 : ∀ t' ∈ reached w.fs cfg r1 [], TreeTerminated t')
    (hrun1 : applyPatches w cfg r1 = .ok (w1, r1.length))
    (hpf : PrefixFree w1.fs cfg r2) (hterm : ∀ t' ∈ reached w1.fs cfg r2 [], TreeTerminated t')
    (h2 : applyPatches w1 cfg r2 = .ok (w2, k2)) :
    ∃ t rejs pA, Abs.applyRange w1.fs cfg r2 0 [] = .ok (t, k2, rejs) ∧
      Spec.applyRangeTree cfg w.fs (r1 ++ r2) (start w.fs) = .ok pA ∧ pA.k = k2 + r1.length ∧
      pA.rejs = rejs.reverse ∧
      ∀ name key a, Comp.cur ∉ components name → safeKey name = some key → ¬ isRejKey rejs key → ¬ isPcKey key →
        Abs.look t w1.fs name = .ok a → fileAt w2.fs key = fileAt (specRun cfg w.fs (r1 ++ r2)).fs key :=
  C09_disk_composes cfg hdry r1 r2 w w1 w2 k2 hf hclean hT0
    (specRun_exit0_of_run w w1 cfg r1 hf hdry hpf1 hterm1 hclean.left hb hpc hrun1) hnr hpf1 hterm1 hrun1 hpf hterm h2

/-- the driver keeps a tight tree tight (every run that applies its whole range) -/
theorem C09_driver_keeps_tight (w w1 : World) (cfg : Cfg) (range : List Series.Entry) (hdry : cfg.dryRun = false)
    (ht : Tight w.fs) (h : applyPatches w cfg range = .ok (w1, range.length)) : Tight w1.fs :=
  applyPatches_tight' w w1 cfg range hdry ht h

/-! ## The hypotheses can be met: a concrete instance

The working directory of `RQ/Props/C09.lean` (`Example.fs0`: `a` = `x\n`, `series` = `p1\np2\n`, `patches/p1` turns
`x` into `y`, `patches/p2` turns `y` into `z`), the driver model run twice (`[e1]`, then `[e2]`).  Every hypothesis of
`C09_disk_composes'` is decided by the kernel (`Tight` through `Tight.tightB_sound`), so the theorem is not vacuous;
its conclusion for the file `a` is `a_agrees`.  Second part: a tree with an empty directory, for which every hypothesis
of `C09_bridge` except `Tight` holds and the conclusion fails (`tight_needed`). -/
namespace Example

theorem tight0 : Tight fs0 := tightB_sound (by decide)
theorem backup0 : cfg1.backup ≠ .always := by decide
theorem pcOk0 : ¬ PcBad fs0 := by
  have h1 : fs0.lookup pcDir = none := by decide
  have h2 : fs0.lookup appliedKey = none := by decide
  unfold PcBad
  rw [h1, h2]
  rintro (h | h)
  · exact h
  · cases h

def okB {ε α : Type} : Except ε α → Bool | .ok _ => true | .error _ => false

theorem notRefused0 : ¬ Refused cfg1 fs0 ([e1] ++ [e2]) := by
  intro h
  have : okB (applyRangeTree cfg1 fs0 ([e1] ++ [e2]) (start fs0)) = true := by decide
  rw [h] at this
  cases this

theorem pf1 : PrefixFree fs0 cfg1 [e1] := by decide
theorem term1 : ∀ t' ∈ reached fs0 cfg1 [e1] [], TreeTerminated t' := by decide

def worldOf (x : WR (World × Nat)) (w : World) : World :=
  match x with
  | .ok (w', _) => w'
  | .error _ => w

def appliedB (x : WR (World × Nat)) (n : Nat) : Bool :=
  match x with
  | .ok (_, k) => k == n
  | .error _ => false

theorem run_eq {x : WR (World × Nat)} {n : Nat} (w : World) (h : appliedB x n = true) : x = .ok (worldOf x w, n) := by
  unfold appliedB at h
  unfold worldOf
  split at h
  · simp only [beq_iff_eq] at h; rw [h]
  · cases h

def w0 : World := { fs := fs0 }
def w1 : World := worldOf (applyPatches w0 cfg1 [e1]) w0
def w2 : World := worldOf (applyPatches w1 cfg1 [e2]) w1

theorem run1 : applyPatches w0 cfg1 [e1] = .ok (w1, [e1].length) := run_eq w0 (by decide)
theorem pf2 : PrefixFree w1.fs cfg1 [e2] := by decide
theorem term2 : ∀ t' ∈ reached w1.fs cfg1 [e2] [], TreeTerminated t' := by decide
theorem run2 : applyPatches w1 cfg1 [e2] = .ok (w2, 1) := run_eq w1 (by decide)

/-- every hypothesis of `C09_disk_composes'` holds for this instance, hence its conclusion -/
theorem disk_composes :
    ∃ t rejs pA, Abs.applyRange w1.fs cfg1 [e2] 0 [] = .ok (t, 1, rejs) ∧
      Spec.applyRangeTree cfg1 fs0 ([e1] ++ [e2]) (start fs0) = .ok pA ∧ pA.k = 1 + [e1].length ∧
      pA.rejs = rejs.reverse ∧
      ∀ name key a, Comp.cur ∉ components name → safeKey name = some key → ¬ isRejKey rejs key → ¬ isPcKey key →
        Abs.look t w1.fs name = .ok a → fileAt w2.fs key = fileAt (specRun cfg1 fs0 ([e1] ++ [e2])).fs key :=
  C09_disk_composes' cfg1 rfl [e1] [e2] w0 w1 w2 1 rfl clean0 tight0 backup0 pcOk0 notRefused0 pf1 term1 run1 pf2
    term2 run2

/-- for the file `a`, through the theorem -/
theorem a_agrees : fileAt w2.fs [[97]] = fileAt (specRun cfg1 fs0 ([e1] ++ [e2])).fs [[97]] := by
  obtain ⟨t, rejs, pA, habs, _, _, _, hall⟩ := disk_composes
  have hB : (match Abs.applyRange w1.fs cfg1 [e2] 0 [] with
      | .ok (t, _, rejs) => rejs.isEmpty && okB (Abs.look t w1.fs [97])
      | .error _ => false) = true := by decide
  rw [habs] at hB
  simp only [Bool.and_eq_true, List.isEmpty_iff] at hB
  obtain ⟨hr, hl⟩ := hB
  subst hr
  cases hla : Abs.look t w1.fs [97] with
  | error e => rw [hla] at hl; cases hl
  | ok a =>
    exact hall [97] [[97]] a (by decide) (by decide) (fun ⟨_, hm, _⟩ => by cases hm) (by decide) hla

/-- and what is there: `z\n`, mode 644 -/
theorem a_value : fileAt w2.fs [[97]] = some ([122, 10], 0o644) ∧
    fileAt (specRun cfg1 fs0 ([e1] ++ [e2])).fs [[97]] = some ([122, 10], 0o644) := by decide

/-! ### `Tight` is needed -/

/-- `--- /dev/null\n+++ b/e/f/x\n@@ -0,0 +1 @@\n+hello\n`: creates `e/f/x` -/
def patchE1 : Bytes :=
  [45, 45, 45, 32, 47, 100, 101, 118, 47, 110, 117, 108, 108, 10, 43, 43, 43, 32, 98, 47, 101, 47, 102, 47, 120, 10, 64, 64, 32, 45, 48, 44, 48, 32, 43, 49, 32, 64, 64, 10, 43, 104, 101, 108, 108, 111, 10]
/-- `--- a/e/f/x\n+++ /dev/null\n@@ -1 +0,0 @@\n-hello\n`: deletes `e/f/x` -/
def patchE2 : Bytes :=
  [45, 45, 45, 32, 97, 47, 101, 47, 102, 47, 120, 10, 43, 43, 43, 32, 47, 100, 101, 118, 47, 110, 117, 108, 108, 10, 64, 64, 32, 45, 49, 32, 43, 48, 44, 48, 32, 64, 64, 10, 45, 104, 101, 108, 108, 111, 10]

/-- an empty directory `e`, `series` = `p1\np2\n`, `patches/p1` = `patchE1`, `patches/p2` = `patchE2` -/
def fsE : FS :=
  { nodes := [([[101]], .dir),
      ([[115, 101, 114, 105, 101, 115]], .file [112, 49, 10, 112, 50, 10] 0o644 1),
      ([[112, 97, 116, 99, 104, 101, 115]], .dir),
      ([[112, 97, 116, 99, 104, 101, 115], [112, 49]], .file patchE1 0o644 2),
      ([[112, 97, 116, 99, 104, 101, 115], [112, 50]], .file patchE2 0o644 3)], nextIno := 4 }

def wE : World := { fs := fsE }
def wE1 : World := worldOf (applyPatches wE cfg2 [e1, e2]) wE

theorem runE : applyPatches wE cfg2 [e1, e2] = .ok (wE1, [e1, e2].length) := run_eq wE (by decide)

theorem e_kept : wE1.fs.isDir [[101]] = true ∧ (specRun cfg2 fsE [e1, e2]).fs.isDir [[101]] = false := by decide

theorem not_tightE : ¬ Tight fsE := fun h => absurd (tightB_complete h) (by decide)

theorem tight_needed :
    wE.faultAt = none ∧ cfg2.dryRun = false ∧ Clean cfg2 wE.fs [e1, e2] ∧ PrefixFree wE.fs cfg2 [e1, e2] ∧
    (∀ t' ∈ reached wE.fs cfg2 [e1, e2] [], TreeTerminated t') ∧ (specRun cfg2 wE.fs [e1, e2]).exit = 0 ∧
    applyPatches wE cfg2 [e1, e2] = .ok (wE1, [e1, e2].length) ∧
    ¬ OutsidePc (specRun cfg2 wE.fs [e1, e2]).fs wE1.fs := by
  refine ⟨rfl, rfl, by decide, by decide, by decide, by decide, runE, ?_⟩
  intro h
  have h1 := h [[101]] (by decide)
  have ha : (specRun cfg2 wE.fs [e1, e2]).fs.lookup [[101]] = none := by decide
  have hb : wE1.fs.lookup [[101]] = some .dir := by decide
  rw [ha, hb] at h1
  cases h1

/-- two invocations from the same tree (both apply their patch) do remove `e` -/
theorem e_removed_in_two :
    (let x1 := applyPatches wE cfg1 [e1]
     let x2 := applyPatches (worldOf x1 wE) cfg1 [e2]
     appliedB x1 1 && appliedB x2 1 && !(worldOf x2 wE).fs.isDir [[101]]) = true := by decide

end Example

#print axioms C09_bridge
#print axioms C09_disk_composes
#print axioms C09_disk_composes'
#print axioms C09_driver_keeps_tight
#print axioms Example.tight0
#print axioms Example.disk_composes
#print axioms Example.a_agrees
#print axioms Example.a_value
#print axioms Example.tight_needed
#print axioms Example.e_removed_in_two

end RQ.Compose
