import RQ.Lemmas.Rollback
/-!
# C04 — undoing an application restores content, existence and permissions exactly

`FilePatch.rollback` returns `none` where the Rust code would panic (hunk-count assert, slice range,
"This is a bug"), so `= some f` states both "never aborts" and "restores exactly".
-/
set_option linter.unusedSectionVars false
set_option linter.unusedSimpArgs false
namespace RQ
variable {α : Type} [DecidableEq α]

/-- all hunks of a file patch are well-formed (what the parser produces) -/
def FilePatch.WFlen (fp : FilePatch α) : Prop := ∀ h ∈ fp.hunks, h.WFlen

/-- **C04 (one application)**: whatever was applied — completely or partially, forward or reversed,
at any fuzz, Modify / Create / Delete, with or without mode change — rollback does not abort and gives
back the file exactly: content, `deleted`, `existed`, permissions. -/
theorem C04_file (fp : FilePatch α) (d : Dir) (F : Nat) (f f' : FileSt α) (rep : Report)
    (hw : fp.WFlen) (h : fp.apply d F f = some (f', rep)) :
    fp.rollback d rep f' = some f := by
  obtain ⟨kind, old, new, rename, oldPerm, newPerm, oldHash, newHash, hunks⟩ := fp
  simp only [FilePatch.WFlen] at hw
  cases kind with
  | modify =>
    simp only [FilePatch.apply, applyInternal, applyKind, applyModify_normal hunks d F f hw] at h
    have hfacts : f'.content = applySpec 0 f.content (coreEdits d hunks (phase1 d F f.content f.deleted hunks 0 (-1)))
        ∧ f'.deleted = f.deleted ∧ f'.existed = f.existed
        ∧ rep.reps = setRb (phase1 d F f.content f.deleted hunks 0 (-1)) 0
        ∧ rep.prevDeleted = f.deleted ∧ rep.prevPerms = f.perms := by
      split at h <;> (cases h; simp)
    obtain ⟨hc, hd, he, hr, hpd, hpp⟩ := hfacts
    obtain ⟨rr, heq, hok⟩ := rollback_modify hunks d F 0 f f' rep hw hc hd hr
    have hlen : hunks.length = rep.reps.length := by rw [hr, setRb_length, phase1_length]
    simp only [FilePatch.rollback, applyInternal, applyKind, heq, hlen, Report.failed, hok]
    cases f; cases f'; simp_all
  | create =>
    cases hunks with
    | nil => cases d <;> simp [FilePatch.apply, applyInternal, applyKind] at h
    | cons hk t =>
      cases t with
      | cons _ _ => cases d <;> simp [FilePatch.apply, applyInternal, applyKind] at h
      | nil =>
        obtain ⟨c, ex, dl, pm⟩ := f
        cases d with
        | fwd =>
          cases c with
          | nil =>
            simp [FilePatch.apply, applyInternal, applyKind, applyCreate, prevFailed] at h
            split at h <;> (cases h; simp [FilePatch.rollback, applyInternal, applyKind, applyDelete, applyCreate, prevFailed, Dir.opp, Report.failed, Rep.isFailed])
          | cons x xs =>
            simp [FilePatch.apply, applyInternal, applyKind, applyCreate, prevFailed] at h
            split at h <;> (cases h; simp [FilePatch.rollback, applyInternal, applyKind, applyDelete, applyCreate, prevFailed, Dir.opp, Report.failed, Rep.isFailed])
        | rev =>
          by_cases he : hk.add = c
          · subst he
            simp [FilePatch.apply, applyInternal, applyKind, applyDelete, prevFailed] at h
            split at h <;> (cases h; simp [FilePatch.rollback, applyInternal, applyKind, applyDelete, applyCreate, prevFailed, Dir.opp, Report.failed, Rep.isFailed])
          · simp [FilePatch.apply, applyInternal, applyKind, applyDelete, prevFailed, he] at h
            split at h <;> (cases h; simp [FilePatch.rollback, applyInternal, applyKind, applyDelete, applyCreate, prevFailed, Dir.opp, Report.failed, Rep.isFailed])
  | delete =>
    cases hunks with
    | nil => cases d <;> simp [FilePatch.apply, applyInternal, applyKind] at h
    | cons hk t =>
      cases t with
      | cons _ _ => cases d <;> simp [FilePatch.apply, applyInternal, applyKind] at h
      | nil =>
        obtain ⟨c, ex, dl, pm⟩ := f
        cases d with
        | rev =>
          cases c with
          | nil =>
            simp [FilePatch.apply, applyInternal, applyKind, applyCreate, prevFailed] at h
            split at h <;> (cases h; simp [FilePatch.rollback, applyInternal, applyKind, applyDelete, applyCreate, prevFailed, Dir.opp, Report.failed, Rep.isFailed])
          | cons x xs =>
            simp [FilePatch.apply, applyInternal, applyKind, applyCreate, prevFailed] at h
            split at h <;> (cases h; simp [FilePatch.rollback, applyInternal, applyKind, applyDelete, applyCreate, prevFailed, Dir.opp, Report.failed, Rep.isFailed])
        | fwd =>
          by_cases he : hk.rem = c
          · subst he
            simp [FilePatch.apply, applyInternal, applyKind, applyDelete, prevFailed] at h
            split at h <;> (cases h; simp [FilePatch.rollback, applyInternal, applyKind, applyDelete, applyCreate, prevFailed, Dir.opp, Report.failed, Rep.isFailed])
          · simp [FilePatch.apply, applyInternal, applyKind, applyDelete, prevFailed, he] at h
            split at h <;> (cases h; simp [FilePatch.rollback, applyInternal, applyKind, applyDelete, applyCreate, prevFailed, Dir.opp, Report.failed, Rep.isFailed])

/-- **C04 (modify)**: `apply_modify` in rollback mode undoes `apply_modify` in normal mode, without
panic and without a failed hunk, whatever subset of the hunks had applied. -/
theorem C04_modify (hs : List (Hunk α)) (d : Dir) (F : Nat) (f f' : FileSt α) (rep : Report)
    (hw : ∀ h ∈ hs, h.WFlen) (h : applyModify hs d F .normal f = some (f', rep)) :
    ∃ r, applyModify hs d.opp 0 (.rollback rep) f' = some (f, r) ∧ r.failed = false := by
  rw [applyModify_normal hs d F f hw] at h
  simp only [Option.some.injEq, Prod.mk.injEq] at h
  obtain ⟨rfl, rfl⟩ := h
  obtain ⟨rr, heq, hok⟩ := rollback_modify hs d F 0 f
    { f with content := applySpec 0 f.content (coreEdits d hs (phase1 d F f.content f.deleted hs 0 (-1))) }
    { reps := setRb (phase1 d F f.content f.deleted hs 0 (-1)) 0, dir := d, fuzz := F } hw rfl rfl rfl
  exact ⟨_, heq, hok⟩

/-! ### non-vacuity: two hunks with overlapping context, the second at an offset, then undone -/
def exPatch : FilePatch Nat :=
  { kind := .modify, newPerm := some 0o755, hunks :=
    [ { rem := [1, 2, 3, 4], add := [1, 9, 9, 3, 4], remLine := 0, addLine := 0, pre := 1, suf := 2 },
      { rem := [3, 4, 5, 6], add := [3, 4, 6], remLine := 1, addLine := 3, pre := 2, suf := 1 },
      { rem := [7, 7], add := [7, 8, 7], remLine := 9, addLine := 9, pre := 1, suf := 1 } ] }

def exFile : FileSt Nat := { content := [1, 2, 3, 4, 5, 6], existed := true, deleted := false, perms := some 0o644 }

example : (exPatch.apply .fwd 0 exFile).map (fun r => (r.1.content, r.1.perms, r.2.reps))
    = some ([1, 9, 9, 3, 4, 6], some 0o755,
        [.applied 0 0 0 1 0, .applied 2 3 1 (-1) 0, .failed .noMatch]) := by decide

example : (exPatch.apply .fwd 0 exFile).bind (fun r => exPatch.rollback .fwd r.2 r.1) = some exFile := by decide

/-- a stack of applications on one file … -/
def applyStack : FileSt α → List (FilePatch α × Dir × Nat) → Option (FileSt α × List (FilePatch α × Dir × Report))
  | f, [] => some (f, [])
  | f, (fp, d, F) :: ps =>
    match fp.apply d F f with
    | none => none
    | some (f', rep) =>
      match applyStack f' ps with
      | none => none
      | some (f'', st) => some (f'', st ++ [(fp, d, rep)])      -- newest first at the head … see below

/-- … undone in reverse (LIFO) order: `st` lists the applications newest first -/
def rollbackStack : FileSt α → List (FilePatch α × Dir × Report) → Option (FileSt α)
  | f, [] => some f
  | f, (fp, d, rep) :: st =>
    match fp.rollback d rep f with
    | none => none
    | some f' => rollbackStack f' st

theorem rollbackStack_append (st1 st2 : List (FilePatch α × Dir × Report)) :
    ∀ (f : FileSt α), rollbackStack f (st1 ++ st2) = (rollbackStack f st1).bind (fun g => rollbackStack g st2) := by
  induction st1 with
  | nil => intro f; simp [rollbackStack]
  | cons p st1 ih =>
    intro f
    obtain ⟨fp, d, rep⟩ := p
    simp only [List.cons_append, rollbackStack]
    cases fp.rollback d rep f with
    | none => simp
    | some g => simp [ih]

/-- **C04 (stack)**: any sequence of applications on the same file, undone in reverse order, never
aborts and restores the starting file. -/
theorem C04_stack (ps : List (FilePatch α × Dir × Nat)) (hw : ∀ p ∈ ps, p.1.WFlen) :
    ∀ (f f' : FileSt α) (st : List (FilePatch α × Dir × Report)),
      applyStack f ps = some (f', st) → rollbackStack f' st = some f := by
  induction ps with
  | nil =>
    intro f f' st h
    simp only [applyStack, Option.some.injEq, Prod.mk.injEq] at h
    obtain ⟨rfl, rfl⟩ := h
    rfl
  | cons p ps ih =>
    intro f f' st h
    obtain ⟨fp, d, F⟩ := p
    simp only [applyStack] at h
    cases ha : fp.apply d F f with
    | none => simp [ha] at h
    | some r =>
      obtain ⟨f1, rep⟩ := r
      simp only [ha] at h
      cases hs : applyStack f1 ps with
      | none => simp [hs] at h
      | some r2 =>
        obtain ⟨f2, st2⟩ := r2
        simp only [hs, Option.some.injEq, Prod.mk.injEq] at h
        obtain ⟨rfl, rfl⟩ := h
        have h1 := ih (fun q hq => hw q (by simp [hq])) f1 f2 st2 hs
        have h2 := C04_file fp d F f f1 rep (hw (fp, d, F) (by simp)) ha
        rw [rollbackStack_append, h1]
        simp [rollbackStack, h2]

#print axioms C04_file
#print axioms C04_modify
#print axioms C04_stack

end RQ
