import RQ.Model.Par
import RQ.Lemmas.ParSched
import RQ.Props.C07
import RQ.Spec.Abs
import RQ.Lemmas.ParLemmas
import RQ.Lemmas.ParSave
/-!
# C06 — parallel push equals single-threaded push under every thread schedule

Three parts.
1. **Apply phase, every schedule** (`C06_apply_phase`): the transition system of
   `RQ/Lemmas/ParSched.lean` instantiated with the driver's `apply_one_file_patch` — whatever the
   interleaving of the workers, when all of them are done the shared index is the first failing patch and
   every worker has applied exactly a prefix of its queue containing all its file patches of patches up to
   and including that one (the later ones it may have run ahead with are rolled back, C04/C05).
   A worker that meets an error publishes the index of that patch like a failure and keeps its state;
   its error counts exactly when it happened in the patch the push stops at (`C06_error_index`).
2. **Workers do not interfere** (`C07`, `C06_disjoint`, `C06_frame`, `C06_commute`): file patches queued
   for different workers have no file name in common; a file patch reads and changes only the entries of
   its own names in the tree; hence two file patches of different workers commute, and the tree obtained
   by any interleaving is the tree of the series order — which is what the single-threaded driver computes
   (`C05_apply_refines`).
3. **Save phase, every schedule** (`C06_save_phase`): each worker writes only files of its own names
   (disjoint by part 2) and quilt backups under `.pc/<patch>/<own name>`; since the repairs recorded in
   known_findings.txt emptied directories and reject files are handled by the main thread after all
   workers are done.  The workers' save code (`workerSaveC` in `RQ/Model/Cmd.lean`, proven equal to the
   model functions `saveAll` / `rollbackAndSaveBackups`) runs in the operation-level scheduling model of
   `RQ/Lemmas/FSInterleave.lean`: if no file key of a worker is a prefix of a key of another one, then
   under every interleaving every worker issues the operations of its solo run, and the resulting tree is
   that of the sequential composition of the per-worker model save functions (up to inode numbers).
   What remains *modelled, not verified*: the kernel semantics of the single operations (`RQ/Model/FS.lean`)
   and their atomicity; that is exercised by the forced-schedule runs.
The tie to the code is the scheduler hook: the real parallel driver is run under forced random schedules
(baton at every point where a worker touches the shared index or the file system) and must produce the
tree, `.pc`, rejects and exit status of the single-threaded specification.
-/
namespace RQ.Par
open RQ RQ.Push RQ.Parse

/-- the table of queues as the scheduler model wants it -/
def toEntries (q : List QEntry) : List Entry := q.zipIdx.map (fun (e, i) => { idx := e.idx, tag := i })

/-- the worker's application function on scheduler entries: the state carries the worker's id, the entry's
tag is its position in that worker's queue -/
def apSched (fs : FS) (cfg : Cfg) (queues : Nat → List QEntry) (s : Nat × WSt) (e : Entry) : (Nat × WSt) × Bool :=
  match (queues s.1)[e.tag]? with
  | some qe => let r := apW fs cfg s.2 qe; ((s.1, r.1), r.2)
  | none => (s, false)

/-- **C06 (apply phase)**: for every file system, configuration, set of queues (sorted by patch index, as
the distribution produces them) and EVERY schedule `sched` (any list of worker ids): once all workers
are done, the shared `earliest` index is the first failing patch `F` (`N`, the number of patches, if
none fails), and every worker `w` has processed a prefix of its queue — its state is the fold of
`apply_one_file_patch` over that prefix — which contains all its entries of patches `≤ F`. -/
theorem C06_apply_phase (fs : FS) (cfg : Cfg) (queues : Nat → List QEntry) (N F : Nat)
    (hsorted : ∀ w, Sorted (toEntries (queues w)))
    (hF : ∀ w n e, (toEntries (queues w))[n]? = some e →
      fails (apSched fs cfg queues) (w, { st := {} }) (toEntries (queues w)) n = true → F ≤ e.idx)
    (hFwit : F = N ∨ ∃ w n e, (toEntries (queues w))[n]? = some e ∧
      fails (apSched fs cfg queues) (w, { st := {} }) (toEntries (queues w)) n = true ∧ e.idx = F)
    (hFN : F ≤ N) (sched : List Nat)
    (hdone : ∀ w, done (fun w => toEntries (queues w))
      ((run (apSched fs cfg queues) (fun w => toEntries (queues w)) sched (initS (fun w => (w, { st := {} })) N)).ws w) w) :
    let s := run (apSched fs cfg queues) (fun w => toEntries (queues w)) sched (initS (fun w => (w, { st := {} })) N)
    s.earliest = F ∧
    ∀ w, (s.ws w).st = pre (apSched fs cfg queues) (w, { st := {} }) (toEntries (queues w)) (s.ws w).pos ∧
         (∀ n e, (toEntries (queues w))[n]? = some e → e.idx ≤ F → n < (s.ws w).pos) :=
  apply_phase_complete (apSched fs cfg queues) (fun w => toEntries (queues w)) (fun w => (w, { st := {} })) N F
    hsorted hF hFwit hFN sched hdone

theorem apSched_id (fs : FS) (cfg : Cfg) (queues : Nat → List QEntry) (s : Nat × WSt) (e : Entry) :
    (apSched fs cfg queues s e).1.1 = s.1 := by
  unfold apSched
  split <;> rfl

/-- a terminated worker stays as it is -/
theorem apSched_absorbing (fs : FS) (cfg : Cfg) (queues : Nat → List QEntry) (s : Nat × WSt) (e : Entry)
    (p : Nat × Fail) (h : s.2.err = some p) : (apSched fs cfg queues s e).1.2 = s.2 := by
  unfold apSched
  split
  · simp only [apW, h]
  · rfl

/-- a worker that terminates with an error at this entry publishes the entry's patch index -/
theorem apSched_new_err (fs : FS) (cfg : Cfg) (queues : Nat → List QEntry) (s : Nat × WSt) (e : Entry)
    (i : Nat) (x : Fail) (h0 : s.2.err = none) (h : (apSched fs cfg queues s e).1.2.err = some (i, x)) :
    (apSched fs cfg queues s e).2 = true ∧ ∃ qe, (queues s.1)[e.tag]? = some qe ∧ qe.idx = i := by
  cases hqe : (queues s.1)[e.tag]? with
  | none =>
    simp only [apSched, hqe, h0] at h
    cases h
  | some qe =>
    simp only [apSched, hqe, apW, h0] at h ⊢
    split at h
    · rename_i hap
      simp only [Option.some.injEq, Prod.mk.injEq] at h
      simp only [hap]
      exact ⟨trivial, qe, rfl, h.1⟩
    · cases h

/-- a worker whose state carries an error has published the index of the erroring patch: the error comes
from an entry of its queue that counts as failing and has that patch index -/
theorem pre_err_published (fs : FS) (cfg : Cfg) (queues : Nat → List QEntry) (w : Nat) :
    ∀ (n i : Nat) (x : Fail),
      (pre (apSched fs cfg queues) (w, { st := {} }) (toEntries (queues w)) n).2.err = some (i, x) →
      ∃ m e, m < n ∧ (toEntries (queues w))[m]? = some e ∧
        fails (apSched fs cfg queues) (w, { st := {} }) (toEntries (queues w)) m = true ∧ e.idx = i := by
  have hid : ∀ n, (pre (apSched fs cfg queues) (w, { st := {} }) (toEntries (queues w)) n).1 = w := by
    intro n
    induction n with
    | zero => rfl
    | succ n ih =>
      unfold pre
      split
      · exact ih
      · rw [apSched_id]; exact ih
  intro n
  induction n with
  | zero => intro i x h; cases h
  | succ n ih =>
    intro i x h
    cases hq : (toEntries (queues w))[n]? with
    | none =>
      simp only [pre, hq] at h
      obtain ⟨m, e, hm, r⟩ := ih i x h
      exact ⟨m, e, by omega, r⟩
    | some ent =>
      rw [pre_succ _ _ _ _ _ hq] at h
      cases herr : (pre (apSched fs cfg queues) (w, { st := {} }) (toEntries (queues w)) n).2.err with
      | some p =>
        rw [apSched_absorbing _ _ _ _ _ p herr] at h
        obtain ⟨m, e, hm, r⟩ := ih i x h
        exact ⟨m, e, by omega, r⟩
      | none =>
        obtain ⟨hfl, qe, hqe, hidx⟩ := apSched_new_err _ _ _ _ _ i x herr h
        rw [hid n] at hqe
        have hent := hq
        unfold toEntries at hent
        rw [getElem?_zipIdx_map_entries] at hent
        cases hqn : (queues w)[n]? with
        | none => rw [hqn] at hent; cases hent
        | some qn =>
          rw [hqn] at hent
          simp only [Option.map_some, Option.some.injEq] at hent
          subst hent
          simp only at hqe
          rw [hqn] at hqe
          cases hqe
          refine ⟨n, _, Nat.lt_succ_self n, hq, ?_, hidx⟩
          simp only [fails, hq]
          exact hfl

/-- **C06 (which errors count)**: in the situation of `C06_apply_phase` — any schedule, all workers done,
the shared index is the first failing patch `F` — a worker that terminated with an error in patch `i` has
published `i`, so `F ≤ i`; hence its error counts (`errorCounts`, the rule of `parallel::apply_patches`)
exactly when it happened in the patch the push stops at.  Which workers ran how far ahead does not
matter. -/
theorem C06_error_index (fs : FS) (cfg : Cfg) (queues : Nat → List QEntry) (N F : Nat)
    (hsorted : ∀ w, Sorted (toEntries (queues w)))
    (hF : ∀ w n e, (toEntries (queues w))[n]? = some e →
      fails (apSched fs cfg queues) (w, { st := {} }) (toEntries (queues w)) n = true → F ≤ e.idx)
    (hFwit : F = N ∨ ∃ w n e, (toEntries (queues w))[n]? = some e ∧
      fails (apSched fs cfg queues) (w, { st := {} }) (toEntries (queues w)) n = true ∧ e.idx = F)
    (hFN : F ≤ N) (sched : List Nat)
    (hdone : ∀ w, done (fun w => toEntries (queues w))
      ((run (apSched fs cfg queues) (fun w => toEntries (queues w)) sched (initS (fun w => (w, { st := {} })) N)).ws w) w) :
    let s := run (apSched fs cfg queues) (fun w => toEntries (queues w)) sched (initS (fun w => (w, { st := {} })) N)
    s.earliest = F ∧
    ∀ w i x, (s.ws w).st.2.err = some (i, x) →
      F ≤ i ∧ (errorCounts s.earliest (s.ws w).st.2 = true ↔ i = F) := by
  intro s
  obtain ⟨hE, hW⟩ := C06_apply_phase fs cfg queues N F hsorted hF hFwit hFN sched hdone
  refine ⟨hE, ?_⟩
  intro w i x herr
  have hst := (hW w).1
  have herr' := herr
  rw [hst] at herr'
  obtain ⟨m, e, _, hq, hfl, hidx⟩ := pre_err_published fs cfg queues w _ i x herr'
  have hle : F ≤ i := by rw [← hidx]; exact hF w m e hq hfl
  refine ⟨hle, ?_⟩
  show errorCounts (run (apSched fs cfg queues) (fun w => toEntries (queues w)) sched
      (initS (fun w => (w, { st := {} })) N)).earliest (s.ws w).st.2 = true ↔ i = F
  rw [hE]
  simp only [errorCounts, herr, decide_eq_true_eq]
  omega

/-- **C06 (a file patch touches only its own names)**: entries of other names are neither read nor changed -/
theorem C06_frame (t : Abs.ATree) (fs : FS) (cfg : Cfg) (e : Series.Entry) (fp : PFilePatch) (r : Abs.FPOut)
    (h : Abs.applyFP t fs cfg e fp = .ok r) (n : Bytes) (hn : components n ∉ fpNames fp) :
    Abs.look r.tree fs n = Abs.look t fs n :=
  applyFP_frame t fs cfg e fp r h n hn

/-- the outcome of a file patch depends only on the entries of its own names -/
theorem C06_local (t t' : Abs.ATree) (fs : FS) (cfg : Cfg) (e : Series.Entry) (fp : PFilePatch)
    (h : ∀ n, components n ∈ fpNames fp → Abs.look t fs n = Abs.look t' fs n) :
    (match Abs.applyFP t fs cfg e fp, Abs.applyFP t' fs cfg e fp with
     | .ok r, .ok r' => r.ok = r'.ok ∧ r.rej = r'.rej ∧ ∀ n, components n ∈ fpNames fp → Abs.look r.tree fs n = Abs.look r'.tree fs n
     | .error x, .error x' => x = x'
     | _, _ => False) :=
  applyFP_local t t' fs cfg e fp h

/-- **C06 (commutation)**: two file patches without a common file name commute -/
theorem C06_commute (t : Abs.ATree) (fs : FS) (cfg : Cfg) (e1 e2 : Series.Entry) (fp1 fp2 : PFilePatch)
    (hd : ∀ a ∈ fpNames fp1, a ∉ fpNames fp2) (r1 r2 : Abs.FPOut)
    (h1 : Abs.applyFP t fs cfg e1 fp1 = .ok r1) (h2 : Abs.applyFP r1.tree fs cfg e2 fp2 = .ok r2) :
    ∃ r2' r1', Abs.applyFP t fs cfg e2 fp2 = .ok r2' ∧ Abs.applyFP r2'.tree fs cfg e1 fp1 = .ok r1' ∧
      Abs.SameTree fs r1'.tree r2.tree ∧ r1'.ok = r1.ok ∧ r1'.rej = r1.rej ∧ r2'.ok = r2.ok ∧ r2'.rej = r2.rej :=
  applyFP_commute t fs cfg e1 e2 fp1 fp2 hd r1 r2 h1 h2

/-- **C06 (workers share no file name)**: entries queued for different workers have disjoint names — from C07 -/
theorem C06_disjoint (threads : Nat) (ht : 0 < threads) (es : List QEntry) (q1 q2 : QEntry)
    (h1 : q1 ∈ es) (h2 : q2 ∈ es)
    (hw : workerOf (assignment threads es) q1 ≠ workerOf (assignment threads es) q2) :
    ∀ a ∈ fpNames q1.fp, a ∉ fpNames q2.fp :=
  workers_disjoint threads ht es q1 q2 h1 h2 hw

/-- the queues produced by the distribution are sorted by patch index (file patches are queued in series order) -/
theorem C06_queues_sorted (threads : Nat) (patches : List (Series.Entry × List PFilePatch)) (w : Nat) :
    Sorted (toEntries (queueOf threads (allEntries patches 0) w)) :=
  sorted_of_pairwise _ ((allEntries_pairwise patches 0).filter _)

/-! ## Save phase, every schedule -/

/-- **C06 (save phase)**: parallel save under any interleaving = sequential composition of the per-worker
model save functions.

`n` worker threads; worker `i` runs the save code of `parallel::save_files_worker` — `ModifiedFiles::save`
(`saveAll`) and then, if backups are wanted, `rollback_and_save_backup_files` (`rollbackAndSaveBackups`) —
on its own cache `mems i` and its own list `applieds i` of applied file patches; the threads interleave
at the granularity of single file-system operations, `sched` says whose turn it is
(`saveProgs … n` are the workers' commands `workerSaveC`, proven equal to the model functions by
`interp_workerSaveC`, in the scheduling model of `RQ/Lemmas/FSInterleave.lean`).  Assume
* (a) every worker's save succeeds when it runs alone from `fs0` (with the model function `workerSave`), and
* (b) no file key worker `i` may touch — the keys of the names in its cache, and, if backups are written,
  `.pc/<patch>/<name>` for its applied file patches down to the backup count — is a prefix of (or equal
  to) such a key of another worker `j` (`KeysDisjoint`, decidable).

Then for EVERY schedule `sched`:
1. every worker has so far issued an initial part of the operations of its solo run;
2. if all workers are finished: running the workers one after another with the model functions
   (`seqSave`: `saveAll`, `rollbackAndSaveBackups` of worker 0 from `fs0`, then those of worker 1 from the
   result, …) succeeds, the file system of the parallel run equals the file system of that sequential run
   up to inode numbers (`FSEquiv`), and every worker has issued exactly the operations of its solo run
   (the trace of `workerSave` from `fs0`). -/
theorem C06_save_phase (cfg : Cfg) (final rangeLen n : Nat) (mems : Nat → Mem) (applieds : Nat → List Status)
    (fs0 : FS)
    (hsolo : ∀ i, i < n → ∃ r, workerSave cfg final rangeLen ⟨fs0, [], none⟩ (mems i) (applieds i) = .ok r)
    (hdisj : KeysDisjoint (saveKeys cfg final rangeLen mems applieds) n)
    (sched : List Nat) :
    (∀ i, i < n → ∃ wi dirs,
        workerSave cfg final rangeLen ⟨fs0, [], none⟩ (mems i) (applieds i) = .ok (wi, dirs) ∧
        (workerSaveC cfg final rangeLen (mems i) (applieds i)).opsAlong
          ((ParSave.run (saveProgs cfg final rangeLen mems applieds n) sched (ParSave.init fs0)).hist i) <+: wi.trace) ∧
    (ParSave.Done (saveProgs cfg final rangeLen mems applieds n)
        (ParSave.run (saveProgs cfg final rangeLen mems applieds n) sched (ParSave.init fs0)) →
      ∃ w, seqSave cfg final rangeLen mems applieds n ⟨fs0, [], none⟩ = .ok w ∧
        ParSave.FSEquiv (ParSave.run (saveProgs cfg final rangeLen mems applieds n) sched (ParSave.init fs0)).fs w.fs ∧
        ∀ i, i < n → ∃ wi dirs,
          workerSave cfg final rangeLen ⟨fs0, [], none⟩ (mems i) (applieds i) = .ok (wi, dirs) ∧
          (workerSaveC cfg final rangeLen (mems i) (applieds i)).opsAlong
            ((ParSave.run (saveProgs cfg final rangeLen mems applieds n) sched (ParSave.init fs0)).hist i) = wi.trace) := by
  have hok : ∀ i, i < n → ∃ a, (saveCmds cfg final rangeLen mems applieds i).result fs0 = .ok a := by
    intro i hi
    obtain ⟨r, hr⟩ := hsolo i hi
    exact ⟨r.2, (workerSave_ok cfg final rangeLen hr).1⟩
  obtain ⟨h1, h2⟩ := cmd_schedule_independence (saveCmds cfg final rangeLen mems applieds)
    (saveKeys cfg final rangeLen mems applieds) n fs0
    (fun i _ => workerSaveC_fp cfg final rangeLen (mems i) (applieds i)) hok hdisj sched
  refine ⟨fun i hi => ?_, fun hd => ?_⟩
  · obtain ⟨⟨wi, dirs⟩, hr⟩ := hsolo i hi
    refine ⟨wi, dirs, hr, ?_⟩
    rw [(workerSave_ok cfg final rangeLen hr).2.2]
    exact h1 i hi
  · obtain ⟨w, e, heq, _, hall⟩ := h2 hd
    refine ⟨w, by rw [seqSave_eq]; exact e, heq, fun i hi => ?_⟩
    obtain ⟨⟨wi, dirs⟩, hr⟩ := hsolo i hi
    refine ⟨wi, dirs, hr, ?_⟩
    rw [(workerSave_ok cfg final rangeLen hr).2.2]
    exact (hall i hi).2

/-! ### A concrete instance: two workers, one file patch each, backups on

Worker 0 has changed `a/x`, worker 1 has created `b/y` (in a directory that does not exist yet); both write
a backup below `.pc/p1`, so they share the directories `.pc` and `.pc/p1`.  The worker states are made by
the model's `apply_one_file_patch` (`applyOne`) from the initial tree. -/
namespace SaveEx

def ax : Bytes := [97, 47, 120]     -- "a/x"
def by_ : Bytes := [98, 47, 121]    -- "b/y"
def p1 : Bytes := [112, 49]         -- "p1"

/-- directory `a` with the file `a/x` ("old\n") -/
def fs0 : FS := ⟨[([[97]], .dir), ([[97], [120]], .file [111, 108, 100, 10] 0o644 7)], 8⟩

def cfg : Cfg := { backup := .always }

/-- `a/x`: "old\n" becomes "new\n" -/
def fpA : PFilePatch :=
  { kind := .modify, old := some ax, new := some ax,
    hunks := [{ rem := [[111, 108, 100, 10]], add := [[110, 101, 119, 10]], remLine := 0, addLine := 0,
                pre := 0, suf := 0 }] }

/-- `b/y` is created with the line "y\n" -/
def fpB : PFilePatch :=
  { kind := .create, new := some by_,
    hunks := [{ rem := [], add := [[121, 10]], remLine := 0, addLine := 0, pre := 0, suf := 0 }] }

/-- the state of a worker that has applied the one file patch `fp` of the patch `p1` -/
def stOf (fp : PFilePatch) : St :=
  match applyOne {} fs0 cfg 0 ⟨p1, 1, false⟩ fp with
  | .ok (st, _) => st
  | .error _ => {}

def mems : Nat → Mem
  | 0 => (stOf fpA).mem
  | 1 => (stOf fpB).mem
  | _ => []

def applieds : Nat → List Status
  | 0 => (stOf fpA).applied
  | 1 => (stOf fpB).applied
  | _ => []

example : (mems 0).map (·.2.1) = [ax] ∧ (mems 1).map (·.2.1) = [by_] ∧
    (applieds 0).length = 1 ∧ (applieds 1).length = 1 := by decide

/-- the keys of the two workers -/
example : saveKeys cfg 1 1 mems applieds 0 = [[[97], [120]], [[46, 112, 99], [112, 49], [97], [120]]] ∧
    saveKeys cfg 1 1 mems applieds 1 = [[[98], [121]], [[46, 112, 99], [112, 49], [98], [121]]] := by decide

theorem exists_ok_of_isOk {ε α : Type} {x : Except ε α} (h : x.isOk = true) : ∃ r, x = .ok r := by
  cases x with
  | ok a => exact ⟨a, rfl⟩
  | error e => cases h

/-- hypothesis (a): each worker's save succeeds alone -/
theorem hsolo : ∀ i, i < 2 → ∃ r, workerSave cfg 1 1 ⟨fs0, [], none⟩ (mems i) (applieds i) = .ok r := by
  intro i hi
  apply exists_ok_of_isOk
  match i, hi with
  | 0, _ => decide
  | 1, _ => decide

/-- hypothesis (b): the keys are prefix-free -/
theorem hdisj : KeysDisjoint (saveKeys cfg 1 1 mems applieds) 2 := by decide

/-- whatever the schedule: when both workers are finished, the tree is that of the sequential run -/
example (sched : List Nat)
    (hd : ParSave.Done (saveProgs cfg 1 1 mems applieds 2)
      (ParSave.run (saveProgs cfg 1 1 mems applieds 2) sched (ParSave.init fs0))) :
    ∃ w, seqSave cfg 1 1 mems applieds 2 ⟨fs0, [], none⟩ = .ok w ∧
      ParSave.FSEquiv (ParSave.run (saveProgs cfg 1 1 mems applieds 2) sched (ParSave.init fs0)).fs w.fs := by
  obtain ⟨w, e, h, _⟩ := (C06_save_phase cfg 1 1 2 mems applieds fs0 hsolo hdisj sched).2 hd
  exact ⟨w, e, h⟩

/-- an interleaved schedule under which both workers finish (9 and 7 operations) -/
def sched1 : List Nat := [0, 1, 1, 0, 0, 1, 0, 1, 1, 0, 1, 0, 0, 1, 0, 0]

example : ParSave.Done (saveProgs cfg 1 1 mems applieds 2)
    (ParSave.run (saveProgs cfg 1 1 mems applieds 2) sched1 (ParSave.init fs0)) := by
  intro i
  match i with
  | 0 => decide
  | 1 => decide
  | _ + 2 => rfl

/-- the interleaved run: same files as the sequential one below, other inode numbers -/
example : (ParSave.run (saveProgs cfg 1 1 mems applieds 2) sched1 (ParSave.init fs0)).fs.nodes =
    [([[97]], .dir), ([[98]], .dir), ([[98], [121]], .file [121, 10] 0o644 8),
     ([[97], [120]], .file [110, 101, 119, 10] 0o644 9),
     ([[46, 112, 99]], .dir), ([[46, 112, 99], [112, 49]], .dir),
     ([[46, 112, 99], [112, 49], [98]], .dir), ([[46, 112, 99], [112, 49], [97]], .dir),
     ([[46, 112, 99], [112, 49], [98], [121]], .file [] 0o644 10),
     ([[46, 112, 99], [112, 49], [97], [120]], .file [111, 108, 100, 10] 0o644 11)] := by decide

/-- the sequential composition of the model functions -/
example : (match seqSave cfg 1 1 mems applieds 2 ⟨fs0, [], none⟩ with
      | .ok w => some w.fs.nodes | .error _ => none) =
    some [([[97]], .dir), ([[97], [120]], .file [110, 101, 119, 10] 0o644 8),
     ([[46, 112, 99]], .dir), ([[46, 112, 99], [112, 49]], .dir), ([[46, 112, 99], [112, 49], [97]], .dir),
     ([[46, 112, 99], [112, 49], [97], [120]], .file [111, 108, 100, 10] 0o644 9),
     ([[98]], .dir), ([[98], [121]], .file [121, 10] 0o644 10),
     ([[46, 112, 99], [112, 49], [98]], .dir),
     ([[46, 112, 99], [112, 49], [98], [121]], .file [] 0o644 11)] := by decide

/-- (b) is needed: had worker 1 the file `a` in its cache, worker 0's `a/x` would lie below it -/
example : ¬ KeysApart [[[97]]] (saveKeys cfg 1 1 mems applieds 0) := by decide

end SaveEx

#print axioms C06_apply_phase
#print axioms C06_error_index
#print axioms C06_save_phase
#print axioms C06_queues_sorted
#print axioms C06_frame
#print axioms C06_local
#print axioms C06_commute
#print axioms C06_disjoint

end RQ.Par
