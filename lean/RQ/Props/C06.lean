import RQ.Model.Par
import RQ.Lemmas.ParSched
import RQ.Props.C07
import RQ.Spec.Abs
import RQ.Lemmas.ParLemmas
/-!
# C06 — parallel push equals single-threaded push under every thread schedule

Three parts.
1. **Apply phase, every schedule** (`C06_apply_phase`): the transition system of
   `RQ/Lemmas/ParSched.lean` instantiated with the driver's `apply_one_file_patch` — whatever the
   interleaving of the workers, when all of them are done the shared index is the first failing patch and
   every worker has applied exactly a prefix of its queue containing all its file patches of patches up to
   and including that one (the later ones it may have run ahead with are rolled back, C04/C05).
2. **Workers do not interfere** (`C07`, `C06_disjoint`, `C06_frame`, `C06_commute`): file patches queued
   for different workers have no file name in common; a file patch reads and changes only the entries of
   its own names in the tree; hence two file patches of different workers commute, and the tree obtained
   by any interleaving is the tree of the series order — which is what the single-threaded driver computes
   (`C05_apply_refines`).
3. **Save phase** (not a theorem here): each worker writes only files of its own names (disjoint by part
   2) and quilt backups under `.pc/<patch>/<own name>`; since the repairs recorded in known_findings.txt
   emptied directories and reject files are handled by the main thread after all workers are done.  That
   these writes are independent of the interleaving rests on the kernel semantics of operations on
   distinct paths and is exercised by the forced-schedule runs only.
The tie to the code is the scheduler hook: the real parallel driver is run under forced random schedules
(baton at every point where a worker touches the shared index or the file system) and must produce the
tree, `.pc`, rejects and exit status of the single-threaded specification.
-/
namespace RQ.Par
open RQ RQ.Push RQ.Parse

/-- the table of queues as the scheduler model wants it -/
def toEntries (q : List QEntry) : List Entry := q.zipIdx.map (fun (e, i) => { idx := e.idx, tag := i })

/-- the worker's application function on scheduler entries: the state carries the worker's id, the entry's
tag is its position in that worker's queue -/
def apSched (fs : FS) (cfg : Cfg) (queues : Nat → List QEntry) (s : Nat × WSt) (e : Entry) : (Nat × WSt) × Bool :=
  match (queues s.1)[e.tag]? with
  | some qe => let r := apW fs cfg s.2 qe; ((s.1, r.1), r.2)
  | none => (s, false)

/-- **C06 (apply phase)**: for every file system, configuration, set of queues (sorted by patch index, as
the distribution produces them) and EVERY schedule `sched` (any list of worker ids): once all workers
are done, the shared `earliest` index is the first failing patch `F` (`N`, the number of patches, if
none fails), and every worker `w` has processed a prefix of its queue — its state is the fold of
`apply_one_file_patch` over that prefix — which contains all its entries of patches `≤ F`. -/
theorem C06_apply_phase (fs : FS) (cfg : Cfg) (queues : Nat → List QEntry) (N F : Nat)
    (hsorted : ∀ w, Sorted (toEntries (queues w)))
    (hF : ∀ w n e, (toEntries (queues w))[n]? = some e →
      fails (apSched fs cfg queues) (w, .ok {}) (toEntries (queues w)) n = true → F ≤ e.idx)
    (hFwit : F = N ∨ ∃ w n e, (toEntries (queues w))[n]? = some e ∧
      fails (apSched fs cfg queues) (w, .ok {}) (toEntries (queues w)) n = true ∧ e.idx = F)
    (hFN : F ≤ N) (sched : List Nat)
    (hdone : ∀ w, done (fun w => toEntries (queues w))
      ((run (apSched fs cfg queues) (fun w => toEntries (queues w)) sched (initS (fun w => (w, .ok {})) N)).ws w) w) :
    let s := run (apSched fs cfg queues) (fun w => toEntries (queues w)) sched (initS (fun w => (w, .ok {})) N)
    s.earliest = F ∧
    ∀ w, (s.ws w).st = pre (apSched fs cfg queues) (w, .ok {}) (toEntries (queues w)) (s.ws w).pos ∧
         (∀ n e, (toEntries (queues w))[n]? = some e → e.idx ≤ F → n < (s.ws w).pos) :=
  apply_phase_complete (apSched fs cfg queues) (fun w => toEntries (queues w)) (fun w => (w, .ok {})) N F
    hsorted hF hFwit hFN sched hdone

/-- **C06 (a file patch touches only its own names)**: entries of other names are neither read nor changed -/
theorem C06_frame (t : Abs.ATree) (fs : FS) (cfg : Cfg) (e : Series.Entry) (fp : PFilePatch) (r : Abs.FPOut)
    (h : Abs.applyFP t fs cfg e fp = .ok r) (n : Bytes) (hn : components n ∉ fpNames fp) :
    Abs.look r.tree fs n = Abs.look t fs n :=
  applyFP_frame t fs cfg e fp r h n hn

/-- the outcome of a file patch depends only on the entries of its own names -/
theorem C06_local (t t' : Abs.ATree) (fs : FS) (cfg : Cfg) (e : Series.Entry) (fp : PFilePatch)
    (h : ∀ n, components n ∈ fpNames fp → Abs.look t fs n = Abs.look t' fs n) :
    (match Abs.applyFP t fs cfg e fp, Abs.applyFP t' fs cfg e fp with
     | .ok r, .ok r' => r.ok = r'.ok ∧ r.rej = r'.rej ∧ ∀ n, components n ∈ fpNames fp → Abs.look r.tree fs n = Abs.look r'.tree fs n
     | .error x, .error x' => x = x'
     | _, _ => False) :=
  applyFP_local t t' fs cfg e fp h

/-- **C06 (commutation)**: two file patches without a common file name commute -/
theorem C06_commute (t : Abs.ATree) (fs : FS) (cfg : Cfg) (e1 e2 : Series.Entry) (fp1 fp2 : PFilePatch)
    (hd : ∀ a ∈ fpNames fp1, a ∉ fpNames fp2) (r1 r2 : Abs.FPOut)
    (h1 : Abs.applyFP t fs cfg e1 fp1 = .ok r1) (h2 : Abs.applyFP r1.tree fs cfg e2 fp2 = .ok r2) :
    ∃ r2' r1', Abs.applyFP t fs cfg e2 fp2 = .ok r2' ∧ Abs.applyFP r2'.tree fs cfg e1 fp1 = .ok r1' ∧
      Abs.SameTree fs r1'.tree r2.tree ∧ r1'.ok = r1.ok ∧ r1'.rej = r1.rej ∧ r2'.ok = r2.ok ∧ r2'.rej = r2.rej :=
  applyFP_commute t fs cfg e1 e2 fp1 fp2 hd r1 r2 h1 h2

/-- **C06 (workers share no file name)**: entries queued for different workers have disjoint names — from C07 -/
theorem C06_disjoint (threads : Nat) (ht : 0 < threads) (es : List QEntry) (q1 q2 : QEntry)
    (h1 : q1 ∈ es) (h2 : q2 ∈ es)
    (hw : workerOf (assignment threads es) q1 ≠ workerOf (assignment threads es) q2) :
    ∀ a ∈ fpNames q1.fp, a ∉ fpNames q2.fp :=
  workers_disjoint threads ht es q1 q2 h1 h2 hw

/-- the queues produced by the distribution are sorted by patch index (file patches are queued in series order) -/
theorem C06_queues_sorted (threads : Nat) (patches : List (Series.Entry × List PFilePatch)) (w : Nat) :
    Sorted (toEntries (queueOf threads (allEntries patches 0) w)) :=
  sorted_of_pairwise _ ((allEntries_pairwise patches 0).filter _)

#print axioms C06_apply_phase
#print axioms C06_queues_sorted
#print axioms C06_frame
#print axioms C06_local
#print axioms C06_commute
#print axioms C06_disjoint

end RQ.Par
