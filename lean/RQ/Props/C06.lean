import RQ.Model.Par
import RQ.Lemmas.ParSched
import RQ.Props.C07
import RQ.Spec.Abs
import RQ.Lemmas.ParLemmas
import RQ.Lemmas.ParSave
import RQ.Model.ParPush
import RQ.Lemmas.ParPushDisk
/-!
# C06 — parallel push equals single-threaded push under every thread schedule

Three parts.
1. **Apply phase, every schedule** (`C06_apply_phase`): the transition system of
   `RQ/Lemmas/ParSched.lean` instantiated with the driver's `apply_one_file_patch` — whatever the
   interleaving of the workers, when all of them are done the shared index is the first failing patch and
   every worker has applied exactly a prefix of its queue containing all its file patches of patches up to
   and including that one (the later ones it may have run ahead with are rolled back, C04/C05).
   A worker that meets an error publishes the index of that patch like a failure and keeps its state;
   its error counts exactly when it happened in the patch the push stops at (`C06_error_index`).
2. **Workers do not interfere** (`C07`, `C06_disjoint`, `C06_frame`, `C06_commute`): file patches queued
   for different workers have no file name in common; a file patch reads and changes only the entries of
   its own names in the tree; hence two file patches of different workers commute, and the tree obtained
   by any interleaving is the tree of the series order — which is what the single-threaded driver computes
   (`C05_apply_refines`).
3. **Save phase, every schedule** (`C06_save_phase`): each worker writes only files of its own names
   (disjoint by part 2) and quilt backups under `.pc/<patch>/<own name>`; since the repairs recorded in
   known_findings.txt emptied directories and reject files are handled by the main thread after all
   workers are done.  The workers' save code (`workerSaveC` in `RQ/Model/Cmd.lean`, proven equal to the
   model functions `saveAll` / `rollbackAndSaveBackups`) runs in the operation-level scheduling model of
   `RQ/Lemmas/FSInterleave.lean`: if no file key of a worker is a prefix of a key of another one, then
   under every interleaving every worker issues the operations of its solo run, and the resulting tree is
   that of the sequential composition of the per-worker model save functions (up to inode numbers).
   What remains *modelled, not verified*: the kernel semantics of the single operations (`RQ/Model/FS.lean`)
   and their atomicity; that is exercised by the forced-schedule runs.
4. **All together** (`C06_parallel_eq_sequential_tree`): the assembled model `parApplyPatches`
   (`RQ/Model/ParPush.lean`: parse everything, distribute, apply phase under a schedule, rollbacks, save
   phase under a second schedule, cleaning and reject files by the main thread) against the model of the
   sequential driver `applyPatches`, for a range that parses: under every pair of schedules both stop at
   the same patch, an error while applying is an error of both, and the two disks hold the same file under
   every name that is neither a reject file nor below `.pc` (stages: `RQ/Lemmas/ParPush.lean` — apply phase
   = sequential application by projection onto each worker's names —, `RQ/Lemmas/ParPushDisk.lean`).
The tie to the code is the scheduler hook: the real parallel driver is run under forced random schedules
(baton at every point where a worker touches the shared index or the file system) and must produce the
tree, `.pc`, rejects and exit status of the single-threaded specification.
-/
namespace RQ.Par
open RQ RQ.Push RQ.Parse

/- `toEntries` (the table of queues as the scheduler model wants it) and `apSched` (the worker's application
function on scheduler entries) are defined in `RQ/Model/ParPush.lean`, where the assembled model
`parApplyPatches` uses them. -/

/-- **C06 (apply phase)**: for every file system, configuration, set of queues (sorted by patch index, as
the distribution produces them) and EVERY schedule `sched` (any list of worker ids): once all workers
are done, the shared `earliest` index is the first failing patch `F` (`N`, the number of patches, if
none fails), and every worker `w` has processed a prefix of its queue — its state is the fold of
`apply_one_file_patch` over that prefix — which contains all its entries of patches `≤ F`. -/
theorem C06_apply_phase (fs : FS) (cfg : Cfg) (queues : Nat → List QEntry) (N F : Nat)
    (hsorted : ∀ w, Sorted (toEntries (queues w)))
    (hF : ∀ w n e, (toEntries (queues w))[n]? = some e →
      fails (apSched fs cfg queues) (w, { st := {} }) (toEntries (queues w)) n = true → F ≤ e.idx)
    (hFwit : F = N ∨ ∃ w n e, (toEntries (queues w))[n]? = some e ∧
      fails (apSched fs cfg queues) (w, { st := {} }) (toEntries (queues w)) n = true ∧ e.idx = F)
    (hFN : F ≤ N) (sched : List Nat)
    (hdone : ∀ w, done (fun w => toEntries (queues w))
      ((run (apSched fs cfg queues) (fun w => toEntries (queues w)) sched (initS (fun w => (w, { st := {} })) N)).ws w) w) :
    let s := run (apSched fs cfg queues) (fun w => toEntries (queues w)) sched (initS (fun w => (w, { st := {} })) N)
    s.earliest = F ∧
    ∀ w, (s.ws w).st = pre (apSched fs cfg queues) (w, { st := {} }) (toEntries (queues w)) (s.ws w).pos ∧
         (∀ n e, (toEntries (queues w))[n]? = some e → e.idx ≤ F → n < (s.ws w).pos) :=
  apply_phase_complete (apSched fs cfg queues) (fun w => toEntries (queues w)) (fun w => (w, { st := {} })) N F
    hsorted hF hFwit hFN sched hdone

theorem apSched_id (fs : FS) (cfg : Cfg) (queues : Nat → List QEntry) (s : Nat × WSt) (e : Entry) :
    (apSched fs cfg queues s e).1.1 = s.1 := by
  unfold apSched
  split <;> rfl

/-- a terminated worker stays as it is -/
theorem apSched_absorbing (fs : FS) (cfg : Cfg) (queues : Nat → List QEntry) (s : Nat × WSt) (e : Entry)
    (p : Nat × Fail) (h : s.2.err = some p) : (apSched fs cfg queues s e).1.2 = s.2 := by
  unfold apSched
  split
  · simp only [apW, h]
  · rfl

/-- a worker that terminates with an error at this entry publishes the entry's patch index -/
theorem apSched_new_err (fs : FS) (cfg : Cfg) (queues : Nat → List QEntry) (s : Nat × WSt) (e : Entry)
    (i : Nat) (x : Fail) (h0 : s.2.err = none) (h : (apSched fs cfg queues s e).1.2.err = some (i, x)) :
    (apSched fs cfg queues s e).2 = true ∧ ∃ qe, (queues s.1)[e.tag]? = some qe ∧ qe.idx = i := by
  cases hqe : (queues s.1)[e.tag]? with
  | none =>
    simp only [apSched, hqe, h0] at h
    cases h
  | some qe =>
    simp only [apSched, hqe, apW, h0] at h ⊢
    split at h
    · rename_i hap
      simp only [Option.some.injEq, Prod.mk.injEq] at h
      simp only [hap]
      exact ⟨trivial, qe, rfl, h.1⟩
    · cases h

/-- a worker whose state carries an error has published the index of the erroring patch: the error comes
from an entry of its queue that counts as failing and has that patch index -/
theorem pre_err_published (fs : FS) (cfg : Cfg) (queues : Nat → List QEntry) (w : Nat) :
    ∀ (n i : Nat) (x : Fail),
      (pre (apSched fs cfg queues) (w, { st := {} }) (toEntries (queues w)) n).2.err = some (i, x) →
      ∃ m e, m < n ∧ (toEntries (queues w))[m]? = some e ∧
        fails (apSched fs cfg queues) (w, { st := {} }) (toEntries (queues w)) m = true ∧ e.idx = i := by
  have hid : ∀ n, (pre (apSched fs cfg queues) (w, { st := {} }) (toEntries (queues w)) n).1 = w := by
    intro n
    induction n with
    | zero => rfl
    | succ n ih =>
      unfold pre
      split
      · exact ih
      · rw [apSched_id]; exact ih
  intro n
  induction n with
  | zero => intro i x h; cases h
  | succ n ih =>
    intro i x h
    cases hq : (toEntries (queues w))[n]? with
    | none =>
      simp only [pre, hq] at h
      obtain ⟨m, e, hm, r⟩ := ih i x h
      exact ⟨m, e, by omega, r⟩
    | some ent =>
      rw [pre_succ _ _ _ _ _ hq] at h
      cases herr : (pre (apSched fs cfg queues) (w, { st := {} }) (toEntries (queues w)) n).2.err with
      | some p =>
        rw [apSched_absorbing _ _ _ _ _ p herr] at h
        obtain ⟨m, e, hm, r⟩ := ih i x h
        exact ⟨m, e, by omega, r⟩
      | none =>
        obtain ⟨hfl, qe, hqe, hidx⟩ := apSched_new_err _ _ _ _ _ i x herr h
        rw [hid n] at hqe
        have hent := hq
        unfold toEntries at hent
        rw [getElem?_zipIdx_map_entries] at hent
        cases hqn : (queues w)[n]? with
        | none => rw [hqn] at hent; cases hent
        | some qn =>
          rw [hqn] at hent
          simp only [Option.map_some, Option.some.injEq] at hent
          subst hent
          simp only at hqe
          rw [hqn] at hqe
          cases hqe
          refine ⟨n, _, Nat.lt_succ_self n, hq, ?_, hidx⟩
          simp only [fails, hq]
          exact hfl

/-- **C06 (which errors count)**: in the situation of `C06_apply_phase` — any schedule, all workers done,
the shared index is the first failing patch `F` — a worker that terminated with an error in patch `i` has
published `i`, so `F ≤ i`; hence its error counts (`errorCounts`, the rule of `parallel::apply_patches`)
exactly when it happened in the patch the push stops at.  Which workers ran how far ahead does not
matter. -/
theorem C06_error_index (fs : FS) (cfg : Cfg) (queues : Nat → List QEntry) (N F : Nat)
    (hsorted : ∀ w, Sorted (toEntries (queues w)))
    (hF : ∀ w n e, (toEntries (queues w))[n]? = some e →
      fails (apSched fs cfg queues) (w, { st := {} }) (toEntries (queues w)) n = true → F ≤ e.idx)
    (hFwit : F = N ∨ ∃ w n e, (toEntries (queues w))[n]? = some e ∧
      fails (apSched fs cfg queues) (w, { st := {} }) (toEntries (queues w)) n = true ∧ e.idx = F)
    (hFN : F ≤ N) (sched : List Nat)
    (hdone : ∀ w, done (fun w => toEntries (queues w))
      ((run (apSched fs cfg queues) (fun w => toEntries (queues w)) sched (initS (fun w => (w, { st := {} })) N)).ws w) w) :
    let s := run (apSched fs cfg queues) (fun w => toEntries (queues w)) sched (initS (fun w => (w, { st := {} })) N)
    s.earliest = F ∧
    ∀ w i x, (s.ws w).st.2.err = some (i, x) →
      F ≤ i ∧ (errorCounts s.earliest (s.ws w).st.2 = true ↔ i = F) := by
  intro s
  obtain ⟨hE, hW⟩ := C06_apply_phase fs cfg queues N F hsorted hF hFwit hFN sched hdone
  refine ⟨hE, ?_⟩
  intro w i x herr
  have hst := (hW w).1
  have herr' := herr
  rw [hst] at herr'
  obtain ⟨m, e, _, hq, hfl, hidx⟩ := pre_err_published fs cfg queues w _ i x herr'
  have hle : F ≤ i := by rw [← hidx]; exact hF w m e hq hfl
  refine ⟨hle, ?_⟩
  show errorCounts (run (apSched fs cfg queues) (fun w => toEntries (queues w)) sched
      (initS (fun w => (w, { st := {} })) N)).earliest (s.ws w).st.2 = true ↔ i = F
  rw [hE]
  simp only [errorCounts, herr, decide_eq_true_eq]
  omega

/-- **C06 (a file patch touches only its own names)**: entries of other names are neither read nor changed -/
theorem C06_frame (t : Abs.ATree) (fs : FS) (cfg : Cfg) (e : Series.Entry) (fp : PFilePatch) (r : Abs.FPOut)
    (h : Abs.applyFP t fs cfg e fp = .ok r) (n : Bytes) (hn : components n ∉ fpNames fp) :
    Abs.look r.tree fs n = Abs.look t fs n :=
  applyFP_frame t fs cfg e fp r h n hn

/-- the outcome of a file patch depends only on the entries of its own names -/
theorem C06_local (t t' : Abs.ATree) (fs : FS) (cfg : Cfg) (e : Series.Entry) (fp : PFilePatch)
    (h : ∀ n, components n ∈ fpNames fp → Abs.look t fs n = Abs.look t' fs n) :
    (match Abs.applyFP t fs cfg e fp, Abs.applyFP t' fs cfg e fp with
     | .ok r, .ok r' => r.ok = r'.ok ∧ r.rej = r'.rej ∧ ∀ n, components n ∈ fpNames fp → Abs.look r.tree fs n = Abs.look r'.tree fs n
     | .error x, .error x' => x = x'
     | _, _ => False) :=
  applyFP_local t t' fs cfg e fp h

/-- **C06 (commutation)**: two file patches without a common file name commute -/
theorem C06_commute (t : Abs.ATree) (fs : FS) (cfg : Cfg) (e1 e2 : Series.Entry) (fp1 fp2 : PFilePatch)
    (hd : ∀ a ∈ fpNames fp1, a ∉ fpNames fp2) (r1 r2 : Abs.FPOut)
    (h1 : Abs.applyFP t fs cfg e1 fp1 = .ok r1) (h2 : Abs.applyFP r1.tree fs cfg e2 fp2 = .ok r2) :
    ∃ r2' r1', Abs.applyFP t fs cfg e2 fp2 = .ok r2' ∧ Abs.applyFP r2'.tree fs cfg e1 fp1 = .ok r1' ∧
      Abs.SameTree fs r1'.tree r2.tree ∧ r1'.ok = r1.ok ∧ r1'.rej = r1.rej ∧ r2'.ok = r2.ok ∧ r2'.rej = r2.rej :=
  applyFP_commute t fs cfg e1 e2 fp1 fp2 hd r1 r2 h1 h2

/-- **C06 (workers share no file name)**: entries queued for different workers have disjoint names — from C07 -/
theorem C06_disjoint (threads : Nat) (ht : 0 < threads) (es : List QEntry) (q1 q2 : QEntry)
    (h1 : q1 ∈ es) (h2 : q2 ∈ es)
    (hw : workerOf (assignment threads es) q1 ≠ workerOf (assignment threads es) q2) :
    ∀ a ∈ fpNames q1.fp, a ∉ fpNames q2.fp :=
  workers_disjoint threads ht es q1 q2 h1 h2 hw

/-- the queues produced by the distribution are sorted by patch index (file patches are queued in series order) -/
theorem C06_queues_sorted (threads : Nat) (patches : List (Series.Entry × List PFilePatch)) (w : Nat) :
    Sorted (toEntries (queueOf threads (allEntries patches 0) w)) :=
  sorted_of_pairwise _ ((allEntries_pairwise patches 0).filter _)

/-! ## Save phase, every schedule -/

/-- **C06 (save phase)**: parallel save under any interleaving = sequential composition of the per-worker
model save functions.

`n` worker threads; worker `i` runs the save code of `parallel::save_files_worker` — `ModifiedFiles::save`
(`saveAll`) and then, if backups are wanted, `rollback_and_save_backup_files` (`rollbackAndSaveBackups`) —
on its own cache `mems i` and its own list `applieds i` of applied file patches; the threads interleave
at the granularity of single file-system operations, `sched` says whose turn it is
(`saveProgs … n` are the workers' commands `workerSaveC`, proven equal to the model functions by
`interp_workerSaveC`, in the scheduling model of `RQ/Lemmas/FSInterleave.lean`).  Assume
* (a) every worker's save succeeds when it runs alone from `fs0` (with the model function `workerSave`), and
* (b) no file key worker `i` may touch — the keys of the names in its cache, and, if backups are written,
  `.pc/<patch>/<name>` for its applied file patches down to the backup count — is a prefix of (or equal
  to) such a key of another worker `j` (`KeysDisjoint`, decidable).

Then for EVERY schedule `sched`:
1. every worker has so far issued an initial part of the operations of its solo run;
2. if all workers are finished: running the workers one after another with the model functions
   (`seqSave`: `saveAll`, `rollbackAndSaveBackups` of worker 0 from `fs0`, then those of worker 1 from the
   result, …) succeeds, the file system of the parallel run equals the file system of that sequential run
   up to inode numbers (`FSEquiv`), and every worker has issued exactly the operations of its solo run
   (the trace of `workerSave` from `fs0`). -/
theorem C06_save_phase (cfg : Cfg) (final rangeLen n : Nat) (mems : Nat → Mem) (applieds : Nat → List Status)
    (fs0 : FS)
    (hsolo : ∀ i, i < n → ∃ r, workerSave cfg final rangeLen ⟨fs0, [], none⟩ (mems i) (applieds i) = .ok r)
    (hdisj : KeysDisjoint (saveKeys cfg final rangeLen mems applieds) n)
    (sched : List Nat) :
    (∀ i, i < n → ∃ wi dirs,
        workerSave cfg final rangeLen ⟨fs0, [], none⟩ (mems i) (applieds i) = .ok (wi, dirs) ∧
        (workerSaveC cfg final rangeLen (mems i) (applieds i)).opsAlong
          ((ParSave.run (saveProgs cfg final rangeLen mems applieds n) sched (ParSave.init fs0)).hist i) <+: wi.trace) ∧
    (ParSave.Done (saveProgs cfg final rangeLen mems applieds n)
        (ParSave.run (saveProgs cfg final rangeLen mems applieds n) sched (ParSave.init fs0)) →
      ∃ w, seqSave cfg final rangeLen mems applieds n ⟨fs0, [], none⟩ = .ok w ∧
        ParSave.FSEquiv (ParSave.run (saveProgs cfg final rangeLen mems applieds n) sched (ParSave.init fs0)).fs w.fs ∧
        ∀ i, i < n → ∃ wi dirs,
          workerSave cfg final rangeLen ⟨fs0, [], none⟩ (mems i) (applieds i) = .ok (wi, dirs) ∧
          (workerSaveC cfg final rangeLen (mems i) (applieds i)).opsAlong
            ((ParSave.run (saveProgs cfg final rangeLen mems applieds n) sched (ParSave.init fs0)).hist i) = wi.trace) := by
  have hok : ∀ i, i < n → ∃ a, (saveCmds cfg final rangeLen mems applieds i).result fs0 = .ok a := by
    intro i hi
    obtain ⟨r, hr⟩ := hsolo i hi
    exact ⟨r.2, (workerSave_ok cfg final rangeLen hr).1⟩
  obtain ⟨h1, h2⟩ := cmd_schedule_independence (saveCmds cfg final rangeLen mems applieds)
    (saveKeys cfg final rangeLen mems applieds) n fs0
    (fun i _ => workerSaveC_fp cfg final rangeLen (mems i) (applieds i)) hok hdisj sched
  refine ⟨fun i hi => ?_, fun hd => ?_⟩
  · obtain ⟨⟨wi, dirs⟩, hr⟩ := hsolo i hi
    refine ⟨wi, dirs, hr, ?_⟩
    rw [(workerSave_ok cfg final rangeLen hr).2.2]
    exact h1 i hi
  · obtain ⟨w, e, heq, _, hall⟩ := h2 hd
    refine ⟨w, by rw [seqSave_eq]; exact e, heq, fun i hi => ?_⟩
    obtain ⟨⟨wi, dirs⟩, hr⟩ := hsolo i hi
    refine ⟨wi, dirs, hr, ?_⟩
    rw [(workerSave_ok cfg final rangeLen hr).2.2]
    exact (hall i hi).2

/-! ### A concrete instance: two workers, one file patch each, backups on

Worker 0 has changed `a/x`, worker 1 has created `b/y` (in a directory that does not exist yet); both write
a backup below `.pc/p1`, so they share the directories `.pc` and `.pc/p1`.  The worker states are made by
the model's `apply_one_file_patch` (`applyOne`) from the initial tree. -/
namespace SaveEx

def ax : Bytes := [97, 47, 120]     -- "a/x"
def by_ : Bytes := [98, 47, 121]    -- "b/y"
def p1 : Bytes := [112, 49]         -- "p1"

/-- directory `a` with the file `a/x` ("old\n") -/
def fs0 : FS := ⟨[([[97]], .dir), ([[97], [120]], .file [111, 108, 100, 10] 0o644 7)], 8⟩

def cfg : Cfg := { backup := .always }

/-- `a/x`: "old\n" becomes "new\n" -/
def fpA : PFilePatch :=
  { kind := .modify, old := some ax, new := some ax,
    hunks := [{ rem := [[111, 108, 100, 10]], add := [[110, 101, 119, 10]], remLine := 0, addLine := 0,
                pre := 0, suf := 0 }] }

/-- `b/y` is created with the line "y\n" -/
def fpB : PFilePatch :=
  { kind := .create, new := some by_,
    hunks := [{ rem := [], add := [[121, 10]], remLine := 0, addLine := 0, pre := 0, suf := 0 }] }

/-- the state of a worker that has applied the one file patch `fp` of the patch `p1` -/
def stOf (fp : PFilePatch) : St :=
  match applyOne {} fs0 cfg 0 ⟨p1, 1, false⟩ fp with
  | .ok (st, _) => st
  | .error _ => {}

def mems : Nat → Mem
  | 0 => (stOf fpA).mem
  | 1 => (stOf fpB).mem
  | _ => []

def applieds : Nat → List Status
  | 0 => (stOf fpA).applied
  | 1 => (stOf fpB).applied
  | _ => []

example : (mems 0).map (·.2.1) = [ax] ∧ (mems 1).map (·.2.1) = [by_] ∧
    (applieds 0).length = 1 ∧ (applieds 1).length = 1 := by decide

/-- the keys of the two workers -/
example : saveKeys cfg 1 1 mems applieds 0 = [[[97], [120]], [[46, 112, 99], [112, 49], [97], [120]]] ∧
    saveKeys cfg 1 1 mems applieds 1 = [[[98], [121]], [[46, 112, 99], [112, 49], [98], [121]]] := by decide

theorem exists_ok_of_isOk {ε α : Type} {x : Except ε α} (h : x.isOk = true) : ∃ r, x = .ok r := by
  cases x with
  | ok a => exact ⟨a, rfl⟩
  | error e => cases h

/-- hypothesis (a): each worker's save succeeds alone -/
theorem hsolo : ∀ i, i < 2 → ∃ r, workerSave cfg 1 1 ⟨fs0, [], none⟩ (mems i) (applieds i) = .ok r := by
  intro i hi
  apply exists_ok_of_isOk
  match i, hi with
  | 0, _ => decide
  | 1, _ => decide

/-- hypothesis (b): the keys are prefix-free -/
theorem hdisj : KeysDisjoint (saveKeys cfg 1 1 mems applieds) 2 := by decide

/-- whatever the schedule: when both workers are finished, the tree is that of the sequential run -/
example (sched : List Nat)
    (hd : ParSave.Done (saveProgs cfg 1 1 mems applieds 2)
      (ParSave.run (saveProgs cfg 1 1 mems applieds 2) sched (ParSave.init fs0))) :
    ∃ w, seqSave cfg 1 1 mems applieds 2 ⟨fs0, [], none⟩ = .ok w ∧
      ParSave.FSEquiv (ParSave.run (saveProgs cfg 1 1 mems applieds 2) sched (ParSave.init fs0)).fs w.fs := by
  obtain ⟨w, e, h, _⟩ := (C06_save_phase cfg 1 1 2 mems applieds fs0 hsolo hdisj sched).2 hd
  exact ⟨w, e, h⟩

/-- an interleaved schedule under which both workers finish (9 and 7 operations) -/
def sched1 : List Nat := [0, 1, 1, 0, 0, 1, 0, 1, 1, 0, 1, 0, 0, 1, 0, 0]

example : ParSave.Done (saveProgs cfg 1 1 mems applieds 2)
    (ParSave.run (saveProgs cfg 1 1 mems applieds 2) sched1 (ParSave.init fs0)) := by
  intro i
  match i with
  | 0 => decide
  | 1 => decide
  | _ + 2 => rfl

/-- the interleaved run: same files as the sequential one below, other inode numbers -/
example : (ParSave.run (saveProgs cfg 1 1 mems applieds 2) sched1 (ParSave.init fs0)).fs.nodes =
    [([[97]], .dir), ([[98]], .dir), ([[98], [121]], .file [121, 10] 0o644 8),
     ([[97], [120]], .file [110, 101, 119, 10] 0o644 9),
     ([[46, 112, 99]], .dir), ([[46, 112, 99], [112, 49]], .dir),
     ([[46, 112, 99], [112, 49], [98]], .dir), ([[46, 112, 99], [112, 49], [97]], .dir),
     ([[46, 112, 99], [112, 49], [98], [121]], .file [] 0o644 10),
     ([[46, 112, 99], [112, 49], [97], [120]], .file [111, 108, 100, 10] 0o644 11)] := by decide

/-- the sequential composition of the model functions -/
example : (match seqSave cfg 1 1 mems applieds 2 ⟨fs0, [], none⟩ with
      | .ok w => some w.fs.nodes | .error _ => none) =
    some [([[97]], .dir), ([[97], [120]], .file [110, 101, 119, 10] 0o644 8),
     ([[46, 112, 99]], .dir), ([[46, 112, 99], [112, 49]], .dir), ([[46, 112, 99], [112, 49], [97]], .dir),
     ([[46, 112, 99], [112, 49], [97], [120]], .file [111, 108, 100, 10] 0o644 9),
     ([[98]], .dir), ([[98], [121]], .file [121, 10] 0o644 10),
     ([[46, 112, 99], [112, 49], [98]], .dir),
     ([[46, 112, 99], [112, 49], [98], [121]], .file [] 0o644 11)] := by decide

/-- (b) is needed: had worker 1 the file `a` in its cache, worker 0's `a/x` would lie below it -/
example : ¬ KeysApart [[[97]]] (saveKeys cfg 1 1 mems applieds 0) := by decide

end SaveEx

/-! ## All together: the parallel driver against the sequential driver -/

/-- **C06 (apply phase = sequential application, every schedule).**  `parMemory` is the parallel driver up
to the point where files are written: distribution, apply phase under the schedule `schedA`, the rule
which errors count, the workers' rollbacks and rendering of reject files.  For a range that parses and
every `schedA` under which all workers get done (`parMemory … = some r`):
* it returns an error exactly when the sequential `applyLoop` does;
* if `applyLoop` stops at `k` with the reject files `rejs` (then `Abs.applyRange` does, with a tree `t`):
  the parallel push stops at `k`; in a real run every worker's cache, after its rollbacks, shows under
  every name of a file patch of its queue the file `t` has under that name; and the workers' reject files
  together are a permutation of `rejs`, each worker's list being a sub-list of `rejs` in the same order. -/
theorem C06_apply_eq_sequential (fs : FS) (cfg : Cfg) (range : List Series.Entry) (threads : Nat)
    (patches : List (Series.Entry × List PFilePatch)) (hparse : parseRange fs cfg range = some patches)
    (ht : 0 < threads) (schedA : List Nat) (r : Except Fail ParResult)
    (hr : parMemory fs cfg patches threads schedA = some r) :
    (∀ e, applyLoop fs cfg range 0 {} = .error e → ∃ x, r = .error x) ∧
    (∀ x, r = .error x → ∃ e, applyLoop fs cfg range 0 {} = .error e) ∧
    (∀ st k rejs, applyLoop fs cfg range 0 {} = .ok (st, k, rejs) →
      ∃ t pr, r = .ok pr ∧ Abs.applyRange fs cfg range 0 [] = .ok (t, k, rejs) ∧ pr.final = k ∧
        (cfg.dryRun = false →
          (∀ i n, (∃ q ∈ queuesOf patches threads i, components n ∈ fpNames q.fp) →
            Abs.look (Abs.ofMem (pr.sts i).mem) fs n = Abs.look t fs n) ∧
          ((List.range threads).flatMap pr.rejs).Perm rejs ∧
          ∀ i, i < threads → (pr.rejs i).Sublist rejs)) := by
  refine ⟨fun e he => parMemory_applyLoop_err hparse ht he schedA r hr, fun x hx => ?_, fun st k rejs hloop => ?_⟩
  · subst hx
    exact applyLoop_err_of_parMemory hparse ht schedA hr
  · obtain ⟨t, outsK, pr, e1, hspec, pm, hc, hrejs⟩ := parMemory_applyLoop_ok hparse ht hloop schedA r hr
    refine ⟨t, pr, e1, hspec, pm.final, fun hdry => ?_⟩
    have hrj : rejs = outRejs outsK := by rw [hrejs]; simp [hdry]
    refine ⟨fun i n hn => pm.look hdry i n (namesOf_iff_queue.mpr hn), ?_, fun i hi => ?_⟩
    · rw [hrj]
      exact rejs_perm (parsed_of_parseRange hparse) ht hc pm hdry
    · rw [hrj, pm.rejs hdry i hi]
      exact outRejs_sublist _ _

/-- **C06 (parallel push = single-threaded push, every pair of thread schedules).**

`parApplyPatches w cfg range threads schedA schedS` is the model of `parallel::apply_patches`: `schedA`
interleaves the workers' apply phase, `schedS` their save phase (at the granularity of single
file-system operations); it is `none` only when a schedule is too short for all workers to finish.
For a range all of whose patches parse (otherwise the parallel driver refuses up front), at least one
thread, no fault injection, and EVERY `schedA`, `schedS` for which the result `res` exists:

1. if the sequential driver runs into an error while applying (`applyLoop`), so does the parallel one, and
   neither has written anything; conversely an error of the in-memory part of the parallel driver (a
   worker's error that counts — rollbacks cannot fail) means the sequential driver returns an error;
2. if the sequential driver stops at patch `k` without error, the in-memory part of the parallel driver
   succeeds and stops at `k` (which worker ran how far ahead does not matter); a dry run returns `(w, k)`
   like the sequential driver; in a real run — assuming, as in `C06_save_phase`, that each worker's save
   succeeds alone and the workers' keys are prefix-free — the save phase succeeds under `schedS`, `res` is
   the result of the main thread's last steps (`mainFinish`: cleaning directories, writing reject files),
   and if both drivers succeed they report the same `k` and the two disks hold the same file (content and
   permission bits) at the path of every name that has no `.` component, is not a reject file and not
   below `.pc`. -/
theorem C06_parallel_eq_sequential_tree (w : World) (cfg : Cfg) (range : List Series.Entry) (threads : Nat)
    (schedA schedS : List Nat) (ht : 0 < threads) (hf : w.faultAt = none)
    (patches : List (Series.Entry × List PFilePatch)) (hparse : parseRange w.fs cfg range = some patches)
    (res : WR (World × Nat)) (hres : parApplyPatches w cfg range threads schedA schedS = some res) :
    (∀ e, applyLoop w.fs cfg range 0 {} = .error e →
        applyPatches w cfg range = .error (e, w) ∧ ∃ e', res = .error (e', w)) ∧
    (∀ x, parMemory w.fs cfg patches threads schedA = some (.error x) →
        res = .error (x, w) ∧ ∃ e, applyPatches w cfg range = .error (e, w)) ∧
    (∀ st k rejs, applyLoop w.fs cfg range 0 {} = .ok (st, k, rejs) →
      ∃ pr, parMemory w.fs cfg patches threads schedA = some (.ok pr) ∧ pr.final = k ∧
      (cfg.dryRun = true → res = .ok (w, k) ∧ applyPatches w cfg range = .ok (w, k)) ∧
      (cfg.dryRun = false →
        (∀ i, i < threads → ∃ r,
          workerSave cfg k patches.length ⟨w.fs, [], none⟩ (pr.sts i).mem (pr.sts i).applied = .ok r) →
        KeysDisjoint (saveKeys cfg k patches.length (fun i => (pr.sts i).mem) (fun i => (pr.sts i).applied)) threads →
        ∃ w1 dirs,
          savePhase w cfg k patches.length threads (fun i => (pr.sts i).mem) (fun i => (pr.sts i).applied) schedS
            = some (.ok (w1, dirs)) ∧
          res = mainFinish w1 dirs pr.rejs threads k ∧
          ∀ w' k', res = .ok (w', k') → k' = k ∧
            ∀ w'' k'', applyPatches w cfg range = .ok (w'', k'') → k'' = k ∧
              ∀ name key, Comp.cur ∉ components name → safeKey name = some key →
                ¬ Flush.isRejKey rejs key → ¬ Flush.isPcKey key →
                Flush.fileAt w'.fs key = Flush.fileAt w''.fs key)) := by
  have heq := parApplyPatches_eq w cfg range threads schedA schedS ht hparse
  rw [hres] at heq
  cases hm : parMemory w.fs cfg patches threads schedA with
  | none => rw [hm] at heq; cases heq
  | some r =>
    rw [hm] at heq
    refine ⟨fun e he => ?_, fun x hx => ?_, fun st k rejs hloop => ?_⟩
    · refine ⟨by unfold applyPatches; rw [he], ?_⟩
      obtain ⟨x', hx'⟩ := parMemory_applyLoop_err hparse ht he schedA r hm
      subst hx'
      simp only [Option.some.injEq] at heq
      exact ⟨x', heq⟩
    · cases hx
      simp only [Option.some.injEq] at heq
      refine ⟨heq, ?_⟩
      obtain ⟨e, he⟩ := applyLoop_err_of_parMemory hparse ht schedA hm
      exact ⟨e, by unfold applyPatches; rw [he]⟩
    · obtain ⟨t, outsK, pr, hr, hspec, pm, hc, hrejs⟩ := parMemory_applyLoop_ok hparse ht hloop schedA r hm
      subst hr
      refine ⟨pr, rfl, pm.final, fun hdry => ?_, fun hdry hsolo hdisj => ?_⟩
      · simp only [hdry, if_true, Option.some.injEq] at heq
        refine ⟨by rw [heq, pm.final], ?_⟩
        unfold applyPatches
        rw [hloop]
        simp only [hdry, if_true]
      · have hsolo' : ∀ pr', parMemory w.fs cfg patches threads schedA = some (.ok pr') → ∀ i, i < threads →
            ∃ r, workerSave cfg pr'.final patches.length ⟨w.fs, [], none⟩ (pr'.sts i).mem (pr'.sts i).applied = .ok r := by
          intro pr' hpr'
          rw [hm] at hpr'
          cases hpr'
          rw [pm.final]
          exact hsolo
        have hdisj' : ∀ pr', parMemory w.fs cfg patches threads schedA = some (.ok pr') →
            KeysDisjoint (saveKeys cfg pr'.final patches.length (fun i => (pr'.sts i).mem)
              (fun i => (pr'.sts i).applied)) threads := by
          intro pr' hpr'
          rw [hm] at hpr'
          cases hpr'
          rw [pm.final]
          exact hdisj
        obtain ⟨pr', w1, dirs, hpr', _, hsv, hresEq, hall⟩ := parApply_disk w cfg range threads schedA schedS ht hf hdry
          hparse hspec hsolo' hdisj' res hres
        rw [hm] at hpr'
        cases hpr'
        refine ⟨w1, dirs, hsv, hresEq, fun w' k' hok => ?_⟩
        obtain ⟨hk', _, hview, _, hkeep⟩ := hall w' k' hok
        refine ⟨hk', fun w'' k'' hseq => ?_⟩
        obtain ⟨t', rejs', hspec', hseqv⟩ := seq_disk w w'' cfg range k'' hf hdry hseq
        rw [hspec] at hspec'
        cases hspec'
        refine ⟨rfl, fun name key hcur hkey hnr hnp => ?_⟩
        rw [hseqv name key hcur hkey hnr hnp]
        cases hl : Abs.look t w.fs name with
        | ok a => exact hview name key a hcur hkey hnr hnp hl
        | error u => exact hkeep name key u hcur hkey hnr hnp hl

/-! ### A concrete instance: two workers, two patches, the first one failing, a worker running ahead

Working directory: `a` = "x\n", `b` = "y\n"; `patches/p1` wants to change `z` into `Z` in `b` (fails),
`patches/p2` changes `x` into `X` in `a`.  With two threads `b` belongs to worker 0 and `a` to worker 1.
Under the apply schedule `[1, 0, 1, 0]` worker 1 applies `p2` (patch index 1) before worker 0 has published
the failure of `p1` (index 0): it has run ahead and must roll `a` back.  The save schedule interleaves the
two workers' four operations each. -/
namespace ParEx

def p1Bytes : Bytes :=
  [45, 45, 45, 32, 98, 10, 43, 43, 43, 32, 98, 10, 64, 64, 32, 45, 49, 32, 43, 49, 32, 64, 64, 10, 45, 122, 10, 43, 90, 10]
def p2Bytes : Bytes :=
  [45, 45, 45, 32, 97, 10, 43, 43, 43, 32, 97, 10, 64, 64, 32, 45, 49, 32, 43, 49, 32, 64, 64, 10, 45, 120, 10, 43, 88, 10]
def pdir : Bytes := [112, 97, 116, 99, 104, 101, 115]

def fs0 : FS :=
  { nodes := [([[97]], .file [120, 10] 0o644 1), ([[98]], .file [121, 10] 0o644 2), ([pdir], .dir),
      ([pdir, [112, 49]], .file p1Bytes 0o644 3), ([pdir, [112, 50]], .file p2Bytes 0o644 4)], nextIno := 5 }
def w0 : World := { fs := fs0 }
def cfg0 : Cfg := {}
def range0 : List Series.Entry :=
  [{ name := [112, 49], strip := 0, reverse := false }, { name := [112, 50], strip := 0, reverse := false }]

def schedA : List Nat := [1, 0, 1, 0]
def schedS : List Nat := [0, 1, 1, 0, 0, 1, 0, 1]

/-- the reject file `b.rej` -/
def bRej : Key := [[98, 46, 114, 101, 106]]

/-- after the apply phase: the push stops at patch 0, and both workers have applied one file patch
(worker 1 the one of patch 1: it ran ahead) -/
example : (match parseRange fs0 cfg0 range0 with
    | some ps => (match applyPhase fs0 cfg0 ps 2 schedA with
      | some a => a.final == 0 && (a.ws 0).st.applied.length == 1 && (a.ws 1).st.applied.length == 1
      | none => false)
    | none => false) = true := by decide

/-- the parallel push under the interleaved schedules: 0 patches applied, `a` and `b` as before, `b.rej`
written -/
theorem par0 : (match parApplyPatches w0 cfg0 range0 2 schedA schedS with
    | some (.ok (w', k)) => k == 0 && Flush.fileAt w'.fs [[97]] == some ([120, 10], 0o644) &&
        Flush.fileAt w'.fs [[98]] == some ([121, 10], 0o644) && (Flush.fileAt w'.fs bRej).isSome
    | _ => false) = true := by decide

/-- the sequential push: the same -/
theorem seq0 : (match applyPatches w0 cfg0 range0 with
    | .ok (w'', k) => k == 0 && Flush.fileAt w''.fs [[97]] == some ([120, 10], 0o644) &&
        Flush.fileAt w''.fs [[98]] == some ([121, 10], 0o644) && (Flush.fileAt w''.fs bRej).isSome
    | .error _ => false) = true := by decide

/-- a schedule under which worker 1 sees the failure in time and never applies `p2`: same result -/
example : (match parApplyPatches w0 cfg0 range0 2 [0, 0, 1] schedS with
    | some (.ok (w', k)) => k == 0 && Flush.fileAt w'.fs [[97]] == some ([120, 10], 0o644) &&
        Flush.fileAt w'.fs [[98]] == some ([121, 10], 0o644) && (Flush.fileAt w'.fs bRej).isSome
    | _ => false) = true := by decide

/-- the in-memory result of the parallel push under `schedA` -/
def prOf : ParResult :=
  match parseRange fs0 cfg0 range0 with
  | some ps => (match parMemory fs0 cfg0 ps 2 schedA with
    | some (.ok pr) => pr
    | _ => { final := 0, sts := fun _ => {}, rejs := fun _ => [] })
  | none => { final := 0, sts := fun _ => {}, rejs := fun _ => [] }

/-- the hypotheses of `C06_parallel_eq_sequential_tree` hold here (each worker's save succeeds alone, the
workers' keys are prefix-free), so the theorem applies: whatever the save schedule, if it is long enough
and the main thread's last steps succeed, the parallel push reports `0` like the sequential one and `a`,
`b` hold on disk what they hold after the sequential push. -/
example (sS : List Nat) (w' : World) (k' : Nat)
    (h : parApplyPatches w0 cfg0 range0 2 schedA sS = some (.ok (w', k'))) :
    k' = 0 ∧ Flush.fileAt w'.fs [[97]] = some ([120, 10], 0o644) ∧
      Flush.fileAt w'.fs [[98]] = some ([121, 10], 0o644) := by
  have hfact : (match applyLoop w0.fs cfg0 range0 0 {} with
      | .ok (_, k, rj) => k == 0 && rj.all (fun x => safeKey x.1 == some bRej)
      | .error _ => false) = true := by decide
  cases hp : parseRange fs0 cfg0 range0 with
  | none => exact absurd hp (by decide)
  | some ps =>
    have hlen : ps.length = 2 := parseRange_length range0 ps hp
    cases hl : applyLoop w0.fs cfg0 range0 0 {} with
    | error e => rw [hl] at hfact; cases hfact
    | ok x =>
      obtain ⟨st, k, rejs⟩ := x
      rw [hl] at hfact
      simp only [Bool.and_eq_true, beq_iff_eq, List.all_eq_true] at hfact
      obtain ⟨hk0, hrj⟩ := hfact
      subst hk0
      obtain ⟨_, _, h3⟩ := C06_parallel_eq_sequential_tree w0 cfg0 range0 2 schedA sS (by decide) rfl ps hp _ h
      obtain ⟨pr, hm, _, _, hreal⟩ := h3 st 0 rejs hl
      have hpr : pr = prOf := by
        unfold prOf
        simp only [hp]
        have hm' : parMemory fs0 cfg0 ps 2 schedA = some (.ok pr) := hm
        rw [hm']
      have hs := seq0
      cases hseq : applyPatches w0 cfg0 range0 with
      | error e => rw [hseq] at hs; cases hs
      | ok y =>
        obtain ⟨w'', k''⟩ := y
        rw [hseq] at hs
        simp only [Bool.and_eq_true, beq_iff_eq] at hs
        obtain ⟨⟨⟨_, ha⟩, hb⟩, _⟩ := hs
        obtain ⟨w1, dirs, _, _, hfin⟩ := hreal rfl
          (by
            rw [hpr, hlen]
            intro i hi
            apply SaveEx.exists_ok_of_isOk
            match i, hi with
            | 0, _ => decide
            | 1, _ => decide)
          (by rw [hpr, hlen]; decide)
        obtain ⟨hk', hagree⟩ := hfin w' k' rfl
        obtain ⟨_, hfiles⟩ := hagree w'' k'' hseq
        have hnr : ∀ key, key ≠ bRej → ¬ Flush.isRejKey rejs key := by
          intro key hkey ⟨x, hx, hxk⟩
          rw [hrj x hx] at hxk
          injection hxk with hxk
          exact hkey hxk.symm
        refine ⟨hk', ?_, ?_⟩
        · rw [hfiles [97] [[97]] (by decide) (by decide) (hnr _ (by decide)) (by unfold Flush.isPcKey; decide)]
          exact ha
        · rw [hfiles [98] [[98]] (by decide) (by decide) (hnr _ (by decide)) (by unfold Flush.isPcKey; decide)]
          exact hb

/-- a schedule that is too short: no result -/
example : parApplyPatches w0 cfg0 range0 2 [1, 0] schedS = none := by decide

end ParEx

#print axioms C06_apply_eq_sequential
#print axioms C06_parallel_eq_sequential_tree
#print axioms C06_apply_phase
#print axioms C06_error_index
#print axioms C06_save_phase
#print axioms C06_queues_sorted
#print axioms C06_frame
#print axioms C06_local
#print axioms C06_commute
#print axioms C06_disjoint

end RQ.Par
