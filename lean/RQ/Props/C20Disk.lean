import RQ.Lemmas.FuzzDisk
import RQ.Props.C05
import RQ.Props.C09
/-!
# C20 on disk and for the executable specification

"If a series applies completely with fuzz limit `F`, it applies completely with every limit `F' ≥ F` and produces the
identical tree and metadata; in particular a series that applies with fuzz 0 is unaffected by any `--fuzz` value."

`RQ/Props/C20.lean` has the file-patch level (`C20_file`), `RQ/Props/C09.lean` the abstract tree level
(`Abs.C20_series`).  Here:

* **(a)** `C20_driver_on_disk` — the model of the sequential driver, through the abstract tree
  (`Abs.C05_tree_on_disk` for both runs, `Abs.C20_series` for the overlay, `Abs.C05_apply_refines` for the loop): the
  run with `F'` does not fail in the application loop, applies the whole range, renders no reject file, and — *if* its
  save phase succeeds — leaves, under every readable non-`.pc` name, the file the first run left there, namely the file
  of the common abstract overlay.
* **(a⁺)** `C20_driver_same_world` — directly on the model (`RQ/Lemmas/FuzzDisk.lean`: the two runs build the same
  cache, and stacks of applied file patches that `rollback` cannot tell apart): the run with `F'` returns **the same
  world** — same disk at every path (`.pc` and backups included), same trace of file-system operations, same count.  So
  the save phase of the second run succeeds whenever the first does (they perform the same operations), and none of
  the hypotheses "no fault", "not a dry run", "backup mode" is needed.  `C20_driver_on_disk'` is (a) with the
  hypothesis about the save phase discharged and the conclusion strengthened accordingly.
* **(b)** `C20_driver_outsidePc` — `Compose.OutsidePc w1.fs w2.fs` (every path outside `.pc`, directories included).
  With (a⁺) the two disks are *equal*, so no `Tight` hypothesis on the starting tree, no `PrefixFree`, no terminated
  lines are needed: the detour over the specification (`Tight.fileAt_disk_eq_spec`, `Tight.outsidePc_of_fileAt`) is
  not taken.
* **(c)** `C20_pushSpec` — the executable specification: if `pushSpec cfg fs` exits with 0, then
  `pushSpec { cfg with fuzz := F' } fs = pushSpec cfg fs` as records (exit status, output-failure flag, the whole tree
  with `.pc/applied-patches` and — whatever the backup mode — the backups; dry runs included).
* `C20_push` — the whole command `push` (plan, apply, save, record): a push that ends with "all applied" is the same
  push with every larger limit.

Non-vacuity: `Example` (F = 0, F' = 2, hypotheses decided by the kernel); `Example.fuzz_matters`: the converse
direction is false (a series that needs fuzz 1), so the hypothesis "applies with `F`" cannot be dropped.
-/
namespace RQ.Fuzz
open RQ RQ.Push RQ.Spec RQ.Flush RQ.Compose
open RQ.Disk (viewOf)

/-! ## (a) the driver model, through the abstract tree -/

/-- **C20 (driver model on disk, through the abstract tree).**  The driver model applied the whole range with the
limit `cfg.fuzz` (`h`).  Then with every `F' ≥ cfg.fuzz`

* the application loop does not fail, applies `range.length` patches and renders no reject file;
* the abstract specification ends with the same overlay `t` for both limits;
* if the save phase of the second run succeeds (`applyPatches … = .ok (w2, k2)`), then `k2 = range.length` and under
  every readable non-`.pc` name both disks hold the file of the overlay — in particular the same file. -/
theorem C20_driver_on_disk (w w1 : World) (cfg : Cfg) (F' : Nat) (range : List Series.Entry)
    (hf : w.faultAt = none) (hdry : cfg.dryRun = false) (hF : cfg.fuzz ≤ F')
    (h : applyPatches w cfg range = .ok (w1, range.length)) :
    (∃ st, applyLoop w.fs { cfg with fuzz := F' } range 0 {} = .ok (st, range.length, [])) ∧
    ∃ t, Abs.applyRange w.fs cfg range 0 [] = .ok (t, range.length, []) ∧
      Abs.applyRange w.fs { cfg with fuzz := F' } range 0 [] = .ok (t, range.length, []) ∧
      ∀ w2 k2, applyPatches w { cfg with fuzz := F' } range = .ok (w2, k2) →
        k2 = range.length ∧
        ∀ name key a, Comp.cur ∉ components name → safeKey name = some key → ¬ isPcKey key →
          Abs.look t w.fs name = .ok a →
          fileAt w2.fs key = fileAt w1.fs key ∧ fileAt w1.fs key = viewOf a := by
  obtain ⟨t, rejs, hspec, hdisk1⟩ := Abs.C05_tree_on_disk w w1 cfg range range.length hf hdry h
  have hrej : rejs = [] :=
    Abs.applyRange_success_no_rej w.fs cfg range 0 [] t range.length rejs hspec (by omega)
  subst hrej
  have hspec' : Abs.applyRange w.fs { cfg with fuzz := F' } range 0 [] = .ok (t, range.length, []) := by
    have := Abs.C20_series w.fs cfg F' hF range 0 [] t [] (by rw [Nat.zero_add]; exact hspec)
    rw [Nat.zero_add] at this
    exact this
  have hnr : ∀ key, ¬ isRejKey [] key := fun _ ⟨_, hr, _⟩ => by cases hr
  refine ⟨?_, t, hspec, hspec', ?_⟩
  · have href := Abs.C05_apply_refines w.fs { cfg with fuzz := F' } range
    rw [hspec'] at href
    cases hloop : applyLoop w.fs { cfg with fuzz := F' } range 0 {} with
    | error e => rw [hloop] at href; exact href.elim
    | ok r =>
      obtain ⟨st, k, rj⟩ := r
      rw [hloop] at href
      obtain ⟨rfl, rfl, _⟩ := href
      exact ⟨st, rfl⟩
  · intro w2 k2 h2
    obtain ⟨t2, rejs2, hspec2, hdisk2⟩ :=
      Abs.C05_tree_on_disk w w2 { cfg with fuzz := F' } range k2 hf hdry h2
    rw [hspec'] at hspec2
    simp only [Except.ok.injEq, Prod.mk.injEq] at hspec2
    obtain ⟨rfl, rfl, rfl⟩ := hspec2
    refine ⟨rfl, ?_⟩
    intro name key a hc hk hnp hl
    have e1 := hdisk1 name key a hc hk (hnr key) hnp hl
    have e2 := hdisk2 name key a hc hk (hnr key) hnp hl
    exact ⟨e2.trans e1.symm, e1⟩

/-! ## (a⁺) the driver model, directly: the same world -/

/-- **C20 (driver model: the same world).**  If the driver model applied the whole range with the limit `cfg.fuzz`,
then with every `F' ≥ cfg.fuzz` it ends in the same world — the same disk at every path, the same trace of
file-system operations — having applied the whole range.  No hypothesis on faults, dry runs or the backup mode. -/
theorem C20_driver_same_world (w w1 : World) (cfg : Cfg) (F' : Nat) (range : List Series.Entry)
    (hF : cfg.fuzz ≤ F') (h : applyPatches w cfg range = .ok (w1, range.length)) :
    applyPatches w { cfg with fuzz := F' } range = .ok (w1, range.length) :=
  applyPatches_fuzz_mono w w1 cfg F' hF range h

/-- the save phase of the second run succeeds whenever the first one did -/
theorem C20_driver_save_succeeds (w w1 : World) (cfg : Cfg) (F' : Nat) (range : List Series.Entry)
    (hF : cfg.fuzz ≤ F') (h : applyPatches w cfg range = .ok (w1, range.length)) :
    ∃ w2, applyPatches w { cfg with fuzz := F' } range = .ok (w2, range.length) :=
  ⟨w1, C20_driver_same_world w w1 cfg F' range hF h⟩

/-- (a) without the hypothesis about the second save phase: whatever the run with `F'` returns, it is `w1` with
`range.length` patches applied; in particular the two disks hold the same regular file at *every* path -/
theorem C20_driver_on_disk' (w w1 : World) (cfg : Cfg) (F' : Nat) (range : List Series.Entry)
    (hF : cfg.fuzz ≤ F') (h : applyPatches w cfg range = .ok (w1, range.length)) :
    applyPatches w { cfg with fuzz := F' } range = .ok (w1, range.length) ∧
    ∀ w2 k2, applyPatches w { cfg with fuzz := F' } range = .ok (w2, k2) →
      k2 = range.length ∧ w2.fs = w1.fs ∧ w2.trace = w1.trace ∧ ∀ key, fileAt w2.fs key = fileAt w1.fs key := by
  have hrun := C20_driver_same_world w w1 cfg F' range hF h
  refine ⟨hrun, ?_⟩
  intro w2 k2 h2
  rw [hrun] at h2
  simp only [Except.ok.injEq, Prod.mk.injEq] at h2
  obtain ⟨rfl, rfl⟩ := h2
  exact ⟨rfl, rfl, rfl, fun _ => rfl⟩

/-! ## (b) every path outside `.pc`, directories included -/

/-- **C20 (driver model, every path outside `.pc`).**  The two disks hold the same node — regular file with the same
content and permission bits, or directory, or nothing — at every path outside `.pc`.  (They are equal, see
`C20_driver_same_world`; hence no `Tight`/`PrefixFree`/`TreeTerminated` hypothesis.) -/
theorem C20_driver_outsidePc (w w1 w2 : World) (cfg : Cfg) (F' : Nat) (range : List Series.Entry) (k2 : Nat)
    (hF : cfg.fuzz ≤ F') (h : applyPatches w cfg range = .ok (w1, range.length))
    (h2 : applyPatches w { cfg with fuzz := F' } range = .ok (w2, k2)) :
    k2 = range.length ∧ OutsidePc w1.fs w2.fs ∧
      ∀ key, w2.fs.lookup key = w1.fs.lookup key := by
  obtain ⟨_, hall⟩ := C20_driver_on_disk' w w1 cfg F' range hF h
  obtain ⟨hk, hfs, _, _⟩ := hall w2 k2 h2
  rw [hfs]
  exact ⟨hk, OutsidePc.refl _, fun _ => rfl⟩

/-! ## (c) the executable specification -/

theorem plan_fuzz (cfg : Cfg) (F' : Nat) (fs : FS) : plan { cfg with fuzz := F' } fs = plan cfg fs := rfl

theorem finishSpec_fuzz (cfg : Cfg) (F' : Nat) (fs : FS) (range : List Series.Entry) (p : Progress) :
    finishSpec { cfg with fuzz := F' } fs range p = finishSpec cfg fs range p := rfl

/-- exit status 0 means that the whole range applied -/
theorem finishSpec_exit0 (cfg : Cfg) (fs : FS) (range : List Series.Entry) (p : Progress)
    (h : (finishSpec cfg fs range p).exit = 0) : p.k = range.length := by
  have key : ∀ e : Nat, e = (if (p.k == range.length) = true then 0 else 1) → e = 0 → p.k = range.length := by
    intro e he h0
    by_cases hk : p.k = range.length
    · exact hk
    · rw [if_neg (by simpa using hk)] at he
      omega
  unfold finishSpec at h
  simp only [] at h
  split at h
  · exact key _ rfl h
  · split at h
    · cases h
    · split at h
      · cases h
      · split at h
        · cases h
        · split at h
          · cases h
          · exact key _ rfl h

/-- **C20 (`specRun`)**: once the range is chosen -/
theorem C20_specRun (cfg : Cfg) (F' : Nat) (fs : FS) (range : List Series.Entry) (hF : cfg.fuzz ≤ F')
    (h : (specRun cfg fs range).exit = 0) :
    specRun { cfg with fuzz := F' } fs range = specRun cfg fs range := by
  unfold specRun at h ⊢
  cases hp : applyRangeTree cfg fs range (start fs) with
  | error e => rw [hp] at h; cases h
  | ok p =>
    rw [hp] at h
    have hk : p.k = range.length := finishSpec_exit0 cfg fs range p h
    rw [applyRangeTree_fuzz_mono cfg F' hF fs range (start fs) p hp (by rw [hk]; simp [start])]
    rfl

/-- **C20 (`pushSpec`).**  If the specification's push succeeds (exit status 0 — which implies that there was no
output failure) with the limit `cfg.fuzz`, then with every `F' ≥ cfg.fuzz` it returns the identical record: exit
status 0, no output failure, and the identical tree — tracked files, directories, `.pc/applied-patches` and the
backups below `.pc` (whatever the backup mode), dry runs included. -/
theorem C20_pushSpec (cfg : Cfg) (F' : Nat) (fs : FS) (hF : cfg.fuzz ≤ F') (h : (pushSpec cfg fs).exit = 0) :
    pushSpec { cfg with fuzz := F' } fs = pushSpec cfg fs := by
  cases hp : plan cfg fs with
  | refuse => unfold pushSpec at h; rw [hp] at h; cases h
  | nothingToDo => unfold pushSpec; rw [plan_fuzz, hp]
  | apply range =>
    have hp' : plan { cfg with fuzz := F' } fs = .apply range := by rw [plan_fuzz, hp]
    rw [pushSpec_eq_specRun hp] at h ⊢
    rw [pushSpec_eq_specRun hp']
    exact C20_specRun cfg F' fs range hF h

/-- exit status 0 excludes an output failure -/
theorem specRun_exit0_io (cfg : Cfg) (fs : FS) (range : List Series.Entry) (h : (specRun cfg fs range).exit = 0) :
    (specRun cfg fs range).ioError = false := by
  cases hdry : cfg.dryRun with
  | false =>
    obtain ⟨_, _, _, _, _, _, hio⟩ := specRun_exit0 hdry h
    exact hio
  | true =>
    unfold specRun at h ⊢
    cases hr : applyRangeTree cfg fs range (start fs) with
    | error e => exfalso; rw [hr] at h; cases h
    | ok p => simp only [finishSpec, hdry, if_true]

theorem pushSpec_exit0_io (cfg : Cfg) (fs : FS) (h : (pushSpec cfg fs).exit = 0) :
    (pushSpec cfg fs).ioError = false := by
  cases hp : plan cfg fs with
  | refuse => unfold pushSpec at h; rw [hp] at h; cases h
  | nothingToDo => unfold pushSpec; rw [hp]
  | apply range =>
    rw [pushSpec_eq_specRun hp] at h ⊢
    exact specRun_exit0_io cfg fs range h

/-- the same, spelled out: exit status, output-failure flag, every file and every directory -/
theorem C20_pushSpec_tree (cfg : Cfg) (F' : Nat) (fs : FS) (hF : cfg.fuzz ≤ F') (h : (pushSpec cfg fs).exit = 0) :
    (pushSpec { cfg with fuzz := F' } fs).exit = 0 ∧ (pushSpec { cfg with fuzz := F' } fs).ioError = false ∧
    (pushSpec cfg fs).ioError = false ∧
    (∀ key, fileAt (pushSpec { cfg with fuzz := F' } fs).fs key = fileAt (pushSpec cfg fs).fs key) ∧
    (∀ key, (pushSpec { cfg with fuzz := F' } fs).fs.isDir key = (pushSpec cfg fs).fs.isDir key) ∧
    OutsidePc (pushSpec cfg fs).fs (pushSpec { cfg with fuzz := F' } fs).fs := by
  have hio : (pushSpec cfg fs).ioError = false := pushSpec_exit0_io cfg fs h
  rw [C20_pushSpec cfg F' fs hF h]
  exact ⟨h, hio, hio, fun _ => rfl, fun _ => rfl, OutsidePc.refl _⟩

/-! ## the whole command -/

theorem pushRange_fuzz (cfg : Cfg) (F' : Nat) (w : World) (range : List Series.Entry) (hF : cfg.fuzz ≤ F')
    (h : (pushRange cfg w range).1 = .allApplied) :
    pushRange { cfg with fuzz := F' } w range = pushRange cfg w range := by
  unfold pushRange at h ⊢
  cases ha : applyPatches w cfg range with
  | error e =>
    rw [ha] at h
    obtain ⟨f, w'⟩ := e
    cases f <;> cases h
  | ok r =>
    obtain ⟨w', final⟩ := r
    rw [ha] at h
    simp only [] at h
    have hfin : final = range.length := by
      by_cases hk : final = range.length
      · exact hk
      · exfalso
        have hb : (final == range.length) = false := by simpa using hk
        rw [hb] at h
        split at h
        · cases h
        · split at h <;> cases h
    subst hfin
    rw [C20_driver_same_world w w' cfg F' range hF ha]

/-- **C20 (`push`, the model of `cmd_push` with the sequential driver).**  A push that ends with "all applied" (exit
status 0) is, with every larger fuzz limit, the same push: same outcome, same world. -/
theorem C20_push (cfg : Cfg) (F' : Nat) (w : World) (hF : cfg.fuzz ≤ F') (h : (push cfg w).1 = .allApplied) :
    push { cfg with fuzz := F' } w = push cfg w := by
  unfold push at h ⊢
  rw [plan_fuzz]
  cases hp : plan cfg w.fs with
  | refuse => rfl
  | nothingToDo => rfl
  | apply range =>
    rw [hp] at h
    exact pushRange_fuzz cfg F' w range hF h

/-! ## Non-vacuity: F = 0, F' = 2

The working directory of `RQ/Props/C09.lean` (`Compose.Example.fs0`: `a` = `x\n`, `series` = `p1\np2\n`, `patches/p1`
turns `x` into `y`, `patches/p2` turns `y` into `z`), `push 2` with `--fuzz 0` (`cfg2`) and with `--fuzz 2`. -/
namespace Example
open RQ.Compose.Example

def cfgF2 : Cfg := { cfg2 with fuzz := 2 }

example : cfg2.fuzz = 0 := rfl

/-- the hypothesis of `C20_pushSpec` holds … -/
theorem spec_exit0 : (pushSpec cfg2 fs0).exit = 0 := by decide

/-- … hence its conclusion -/
theorem spec_same : pushSpec cfgF2 fs0 = pushSpec cfg2 fs0 := C20_pushSpec cfg2 2 fs0 (by decide) spec_exit0

/-- and what both leave (computed for each on its own): `a` = `z\n`, `.pc/applied-patches` = `p1\np2\n`, exit 0 -/
theorem spec_values :
    ((pushSpec cfg2 fs0).exit == 0 && (pushSpec cfgF2 fs0).exit == 0 &&
     fileAt (pushSpec cfg2 fs0).fs [[97]] == some ([122, 10], 0o644) &&
     fileAt (pushSpec cfgF2 fs0).fs [[97]] == some ([122, 10], 0o644) &&
     fileAt (pushSpec cfg2 fs0).fs appliedKey == some ([112, 49, 10, 112, 50, 10], 0o644) &&
     fileAt (pushSpec cfgF2 fs0).fs appliedKey == some ([112, 49, 10, 112, 50, 10], 0o644)) = true := by decide

def worldOf (x : WR (World × Nat)) (w : World) : World :=
  match x with
  | .ok (w', _) => w'
  | .error _ => w

def appliedB (x : WR (World × Nat)) (n : Nat) : Bool :=
  match x with
  | .ok (_, k) => k == n
  | .error _ => false

theorem run_eq {x : WR (World × Nat)} {n : Nat} (w : World) (h : appliedB x n = true) : x = .ok (worldOf x w, n) := by
  unfold appliedB at h
  unfold worldOf
  split at h
  · simp only [beq_iff_eq] at h; rw [h]
  · cases h

def w0 : World := { fs := fs0 }
def w1 : World := worldOf (applyPatches w0 cfg2 [e1, e2]) w0

/-- the hypotheses of `C20_driver_on_disk` / `C20_driver_same_world` hold … -/
theorem run0 : applyPatches w0 cfg2 [e1, e2] = .ok (w1, [e1, e2].length) := run_eq w0 (by decide)

/-- … hence the conclusions: the run with `--fuzz 2` ends in the same world -/
theorem run2 : applyPatches w0 cfgF2 [e1, e2] = .ok (w1, [e1, e2].length) :=
  C20_driver_same_world w0 w1 cfg2 2 [e1, e2] (by decide) run0

theorem on_disk :
    (∃ st, applyLoop w0.fs cfgF2 [e1, e2] 0 {} = .ok (st, 2, [])) ∧
    ∃ t, Abs.applyRange w0.fs cfg2 [e1, e2] 0 [] = .ok (t, 2, []) ∧
      Abs.applyRange w0.fs cfgF2 [e1, e2] 0 [] = .ok (t, 2, []) ∧
      ∀ w2 k2, applyPatches w0 cfgF2 [e1, e2] = .ok (w2, k2) →
        k2 = 2 ∧
        ∀ name key a, Comp.cur ∉ components name → safeKey name = some key → ¬ isPcKey key →
          Abs.look t w0.fs name = .ok a →
          fileAt w2.fs key = fileAt w1.fs key ∧ fileAt w1.fs key = viewOf a :=
  C20_driver_on_disk w0 w1 cfg2 2 [e1, e2] rfl rfl (by decide) run0

/-- computed for each run on its own: both apply two patches and leave `a` = `z\n` -/
theorem run_values :
    (appliedB (applyPatches w0 cfg2 [e1, e2]) 2 && appliedB (applyPatches w0 cfgF2 [e1, e2]) 2 &&
     fileAt (worldOf (applyPatches w0 cfg2 [e1, e2]) w0).fs [[97]] == some ([122, 10], 0o644) &&
     fileAt (worldOf (applyPatches w0 cfgF2 [e1, e2]) w0).fs [[97]] == some ([122, 10], 0o644)) = true := by decide

/-- the whole command -/
theorem push_all : (push cfg2 w0).1 = .allApplied := by decide
theorem push_same : push cfgF2 w0 = push cfg2 w0 := C20_push cfg2 2 w0 (by decide) push_all

/-! ### the limit matters, and the converse is false

`a` = `1\n2\n3\n`; the patch expects the context line `7` where the file has `1` (fuzz 1 drops it):
`--- a/a\n+++ b/a\n@@ -1,3 +1,3 @@\n 7\n-2\n+9\n 3\n`. -/
def patchF : Bytes :=
  [45, 45, 45, 32, 97, 47, 97, 10, 43, 43, 43, 32, 98, 47, 97, 10, 64, 64, 32, 45, 49, 44, 51, 32, 43, 49, 44, 51, 32, 64, 64, 10, 32, 55, 10, 45, 50, 10, 43, 57, 10, 32, 51, 10]

def fsF : FS :=
  { nodes := [([[97]], .file [49, 10, 50, 10, 51, 10] 0o644 1),
      ([[115, 101, 114, 105, 101, 115]], .file [112, 49, 10] 0o644 2),
      ([[112, 97, 116, 99, 104, 101, 115]], .dir),
      ([[112, 97, 116, 99, 104, 101, 115], [112, 49]], .file patchF 0o644 3)], nextIno := 4 }

def cfgA0 : Cfg := { goal := .all }
def cfgA1 : Cfg := { cfgA0 with fuzz := 1 }
def cfgA2 : Cfg := { cfgA0 with fuzz := 2 }

/-- with `--fuzz 0` the push fails (exit status 1, `a` untouched), with `--fuzz 1` and `--fuzz 2` it succeeds: a
larger limit can make a failing series apply, so "applies with `F'`" does not imply "applies with `F`" -/
theorem fuzz_matters :
    ((pushSpec cfgA0 fsF).exit == 1 && (pushSpec cfgA1 fsF).exit == 0 && (pushSpec cfgA2 fsF).exit == 0 &&
     fileAt (pushSpec cfgA0 fsF).fs [[97]] == some ([49, 10, 50, 10, 51, 10], 0o644) &&
     fileAt (pushSpec cfgA1 fsF).fs [[97]] == some ([49, 10, 57, 10, 51, 10], 0o644) &&
     fileAt (pushSpec cfgA2 fsF).fs [[97]] == some ([49, 10, 57, 10, 51, 10], 0o644)) = true := by decide

/-- from 1 to 2 through the theorem -/
theorem fuzz_1_2 : pushSpec cfgA2 fsF = pushSpec cfgA1 fsF := C20_pushSpec cfgA1 2 fsF (by decide) (by decide)

end Example

#print axioms C20_driver_on_disk
#print axioms C20_driver_same_world
#print axioms C20_driver_save_succeeds
#print axioms C20_driver_on_disk'
#print axioms C20_driver_outsidePc
#print axioms C20_specRun
#print axioms C20_pushSpec
#print axioms C20_pushSpec_tree
#print axioms C20_push
#print axioms Example.spec_same
#print axioms Example.spec_values
#print axioms Example.run2
#print axioms Example.on_disk
#print axioms Example.run_values
#print axioms Example.push_same
#print axioms Example.fuzz_matters
#print axioms Example.fuzz_1_2

end RQ.Fuzz
