import RQ.Lemmas.Place
/-!
# C02 — hunk placement obeys the documented patch rules for offset, anchoring and fuzz

The specification (`RQ/Spec/Apply.lean`) is brute force: `specPlace` looks at *every* position of the
file, keeps the admissible ones (inside the file; at the anchor if the view is anchored to the start or
the end of the file) where the trimmed old side occurs, and returns the one with the least `key`
(distance to the first guess, forward winning ties).  `hunkOK` relates a report to the levels
`0 … min F maxFuzz`.  The theorems say that the code's search (`findPlace`: first guess, then the
forward/backward interleaved scan) and fuzz loop (`levelLoop`) compute exactly that.
-/
set_option linter.unusedSectionVars false
namespace RQ
variable {α : Type} [DecidableEq α]

/-- `key` orders positions by distance to `t`, the forward one first among two equally distant -/
theorem key_le_iff (t x y : Int) :
    key t x ≤ key t y ↔ (x - t).natAbs < (y - t).natAbs ∨ ((x - t).natAbs = (y - t).natAbs ∧ (x = y ∨ t < x)) :=
  key_le_iff' t x y

/-- what `specPlace` returns is a nearest admissible match … -/
theorem specPlace_some {v : View α} {content : List α} {lo t : Int} (h : specPlace v content lo = some t) :
    matchesAt v.rem content t = true ∧ admissible v content.length t = true ∧
    ∀ p, matchesAt v.rem content p = true → admissible v content.length p = true →
      key (firstGuess v content.length lo) t ≤ key (firstGuess v content.length lo) p :=
  specPlace_some' h

/-- … and it returns `none` only if no admissible position matches -/
theorem specPlace_none {v : View α} {content : List α} {lo : Int} (h : specPlace v content lo = none) :
    ∀ p, matchesAt v.rem content p = true → admissible v content.length p = false :=
  specPlace_none' h

/-- **C02 (placement)**: the search of `try_apply_hunk` finds exactly the brute-force best place. -/
theorem C02_place (v : View α) (content : List α) (lo : Int) :
    findPlace v content lo = specPlace v content lo :=
  findPlace_eq_specPlace v content lo

/-- a match at fuzz level `f` survives at level `f+1` (also across the anchored → middle switch) -/
theorem C02_monotone (h : Hunk α) (d : Dir) (content : List α) (lo : Int) (f : Nat) (hw : h.WFlen)
    (hs : (specPlace (view h d f) content lo).isSome) : (specPlace (view h d (f+1)) content lo).isSome :=
  specPlace_mono h d content lo f hw hs

/-- **C02 (one hunk)**: the report of the fuzz loop satisfies the relation `hunkOK`:
applied ⇒ lowest acceptable level, best place at that level, not in frozen lines;
failed for lack of a match ⇒ no admissible position matches at any permitted level. -/
theorem C02_hunk (h : Hunk α) (d : Dir) (F : Nat) (content : List α) (deleted : Bool) (lo lf : Int) (hw : h.WFlen) :
    hunkOK h d F content deleted lo lf
      (levelLoop h d content deleted lo lf (min F h.maxFuzz + 1) 0 .skipped).1 = true :=
  hunkOK_levelLoop h d F content deleted lo lf hw

/-- **C02 (file patch)**: all reports of `apply_modify`, with the previous hunk's offset and frozen line
threaded as the property states. -/
theorem C02_applyModify (hs : List (Hunk α)) (d : Dir) (F : Nat) (f f' : FileSt α) (rep : Report)
    (hw : ∀ h ∈ hs, h.WFlen) (h : applyModify hs d F .normal f = some (f', rep)) :
    reportsOK d F f.content f.deleted hs rep.reps 0 (-1) = true :=
  reportsOK_applyModify hs d F f f' rep hw h

/-- with fuzz limit 0 only the untrimmed old side is ever matched -/
theorem C02_fuzz0 (h : Hunk α) (d : Dir) : (view h d 0).rem = (match d with | .fwd => h.rem | .rev => h.add) :=
  view_rem_zero h d

#print axioms key_le_iff
#print axioms specPlace_some
#print axioms specPlace_none
#print axioms C02_place
#print axioms C02_monotone
#print axioms C02_hunk
#print axioms C02_applyModify
#print axioms C02_fuzz0

end RQ
