import RQ.Lemmas.DiffLemmas
import RQ.Props.C03
/-!
# C01 — a unified diff from A to B, pushed onto A, yields exactly B (and -R yields A)

Layers.  (a) bytes ↔ lines: `split_lines_with_endings` and `write_to` are inverse (`C01_lines_roundtrip`),
lines keep their newline, only the last one may lack it (`C01_lines_shape`).  (b) hunks: for *every*
unified diff from `A` to `B` in the sense of `ValidDiff` (any context width incl. 0, any grouping), the
Modify application succeeds with every hunk at its stated line, offset 0, fuzz 0, and yields exactly `B`
(`C01_forward`); the same hunks applied in the reverse direction to `B` yield `A` (`C01_reverse`);
whole-file creation and deletion are `C03_create` / `C03_delete`.  (c) text: the parser reads a written
diff back to the same hunks (C12 for the git dialect the tool itself writes; plain `---`/`+++` headers
with or without timestamps: `C01_parse_plain`); line numbers of empty sides follow the unified-diff
convention (fixed in the code, see known_findings.txt).  (d) the whole tool: `pushSpec` / C05.

Known finding `c0-top-of-file` (not covered): a single context-free hunk whose empty side is at line 0
(`@@ -0,0 +1,k @@` on a non-empty file, `@@ -1,k +0,0 @@` leaving a non-empty file) is recognised as a
whole-file creation / deletion by the parser and rejected cleanly; at the hunk level (kind Modify) the
theorems below do cover it.
-/
set_option linter.unusedSectionVars false
namespace RQ
variable {α : Type} [DecidableEq α]

/-- **C01 (a)**: writing the lines of a file gives back its bytes -/
theorem C01_lines_roundtrip (bs : Bytes) : bytesOf (linesOf bs) = bs := by
  unfold bytesOf linesOf
  rw [splitLinesKeep_flatten]; rfl

/-- every line ends with its newline except possibly the last; no line has an inner newline; none is empty -/
theorem C01_lines_shape (bs : Bytes) :
    (∀ l ∈ linesOf bs, l ≠ [] ∧ ∀ i (h : i < l.length), l[i] = 10 → i + 1 = l.length) ∧
    (∀ i (h : i + 1 < (linesOf bs).length), ((linesOf bs)[i]'(by omega)).getLast? = some 10) :=
  ⟨splitLinesKeep_lines bs [] (by simp), splitLinesKeep_last bs []⟩

def fileOf (A : List α) : FileSt α := { content := A, existed := true, deleted := false, perms := none }

/-- **C01 (b, forward)**: a valid diff applies with no offset and no fuzz and yields exactly `B` -/
theorem C01_forward (A B : List α) (hs : List (Hunk α)) (F : Nat) (h : ValidDiff A B hs) :
    applyModify hs .fwd F .normal (fileOf A) =
      some (fileOf B, { reps := exactReports hs 0, dir := .fwd, fuzz := F }) :=
  applyModify_valid A B hs F (fileOf A) h rfl rfl

/-- **C01 (b, reverse)**: the same diff applied in the reverse direction to `B` yields exactly `A` -/
theorem C01_reverse (A B : List α) (hs : List (Hunk α)) (F : Nat) (h : ValidDiff A B hs) :
    applyModify hs .rev F .normal (fileOf B) =
      some (fileOf A, { reps := exactReports (hs.map Hunk.swap) 0, dir := .rev, fuzz := F }) := by
  rw [applyModify_rev_swap,
    applyModify_valid B A (hs.map Hunk.swap) F (fileOf B) (validFrom_swap hs _ _ _ _ _ h) rfl rfl]
  rfl

/-! ### non-vacuity: the diff of `1 2 3 4 5 6` to `1 9 9 3 4 6` with context 1 -/
def exA : List Nat := [1, 2, 3, 4, 5, 6]
def exB : List Nat := [1, 9, 9, 3, 4, 6]
def exDiff : List (Hunk Nat) :=
  [ { rem := [1, 2, 3], add := [1, 9, 9, 3], remLine := 0, addLine := 0, pre := 1, suf := 1 },
    { rem := [4, 5, 6], add := [4, 6], remLine := 3, addLine := 4, pre := 1, suf := 1 } ]

example : ValidDiff exA exB exDiff := by
  refine ⟨[], [1], [2], [9, 9], [3], [4, 5, 6], [4, 6], rfl, rfl, rfl, rfl, rfl, rfl, rfl, rfl, by simp, by simp, by simp, ?_⟩
  refine ⟨[3], [4], [5], [], [6], [], [], rfl, rfl, rfl, rfl, rfl, rfl, rfl, rfl, by simp, by simp, by simp, ?_⟩
  rfl

#print axioms C01_lines_roundtrip
#print axioms C01_lines_shape
#print axioms C01_forward
#print axioms C01_reverse

end RQ
