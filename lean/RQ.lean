-- Root of the `RQ` library: model, specifications, lemmas and property theorems.
import RQ.Model.Apply
import RQ.Spec.Apply
import RQ.Driver.Proto
import RQ.Driver.ApplyEngine
import RQ.Extracted
import RQ.Props.C03
import RQ.Props.C20
import RQ.Props.C02
import RQ.Props.C04
import RQ.Props.C07
import RQ.Model.Dist
import RQ.Spec.Dist
import RQ.Driver.DistEngine
