-- Root of the `RQ` library: model, specifications, lemmas and property theorems.
import RQ.Model.Apply
import RQ.Spec.Apply
import RQ.Driver.Proto
import RQ.Driver.ApplyEngine
import RQ.Extracted
import RQ.Props.C03
